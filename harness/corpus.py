"""Declaration and input generators for the behavioural correspondence.  The core corpus is
deterministic (a covering rotation over family x inner type x sanitizers x ordered validator
lists x bound spelling x bound position x flags); a separate seeded random stream adds
mostly-valid declarations.  Inputs are boundary neighbourhoods of every bound a declaration
mentions, type extremes and the values on which library sanitizers / predicates change."""
from syntax import *
from common import Rng

FORMS = ["p", "c00", "c10", "c01", "c11"]
PRED_FORMS = ["p", "c00", "c10"]


def commas(items):
    out = []
    for i, it in enumerate(items):
        if i:
            out.append(COMMA)
        out.extend(it)
    return out


def block(name, items, trailing=False):
    inner = commas(items)
    if trailing and items:
        inner.append(COMMA)
    return [tid(name), grp(inner)]


def attr(blocks, trailing=False):
    out = commas(blocks)
    if trailing and blocks:
        out.append(COMMA)
    return out


def derive_block(traits):
    return block("derive", [[tid(t)] for t in traits])


# ---------------------------------------------------------------- bound spellings

def spell_int(ty, value, style, env, tag):
    """an expression of integer type [ty] denoting [value], in one of the spellings C02 lists;
    falls back to a plain literal when the style cannot express the value"""
    signed, bits = INT_TYPES[ty]
    lo, hi = ity_min(ty), ity_max(ty)

    def const(name, v):
        env.append((name, ty, v, "const %s: %s = %s;" % (name, ty, rust_int(ty, v))))
        return k(name)

    if style == "lit" or style is None:
        return lit_int(value)
    if style == "lit_us":
        s = str(abs(value))
        if len(s) > 3:
            s = s[:-3] + "_" + s[-3:]
        e = lit(s)
        return neg(e) if value < 0 else e
    if style == "const":
        return const("K%s" % tag, value)
    if style == "negconst":
        if signed and lo <= -value <= hi:
            return neg(const("N%s" % tag, -value))
        return lit_int(value)
    if style == "paren":
        return par(lit_int(value))
    if style == "parenconst":
        return par(const("P%s" % tag, value))
    if style == "arith":
        if lo <= value - 1 <= hi:
            return binop("add", const("A%s" % tag, value - 1), lit("1"))
        return binop("sub", const("A%s" % tag, value + 1), lit("1"))
    if style == "shift":
        if value > 0 and value & (value - 1) == 0 and value.bit_length() - 1 < bits - (1 if signed else 0):
            return binop("shl", const("ONE%s" % tag, 1), lit(str(value.bit_length() - 1)))
        if lo <= value * 2 <= hi and lo <= value * 2 + 1 <= hi:
            return binop("shr", const("S%s" % tag, value * 2 + (1 if value >= 0 else 0)), lit("1"))
        return lit_int(value)
    if style == "minmax":
        if value == lo:
            env.append(("%s::MIN" % ty, ty, lo, None))
            return k("%s::MIN" % ty)
        if value == hi:
            env.append(("%s::MAX" % ty, ty, hi, None))
            return k("%s::MAX" % ty)
        return lit_int(value)
    if style == "call":
        name = "lim%s" % tag
        env.append((name + "!", ty, value, "const fn %s() -> %s { %s }" % (name, ty, rust_int(ty, value))))
        return k(name + "!", name + "()")
    if style == "mulsub":
        # K * 2 - c : exercises precedence against the spliced +1 / -1
        base = value // 2
        c = base * 2 - value
        if lo <= base * 2 <= hi:
            e = binop("mul", const("M%s" % tag, base), lit("2"))
            if c == 0:
                return e
            return binop("sub", e, lit(str(c))) if c > 0 else binop("add", e, lit(str(-c)))
        return lit_int(value)
    if style == "bitor":
        if value >= 0:
            low = value & 1
            return binop("or", const("B%s" % tag, value - low), lit(str(low)))
        return lit_int(value)
    raise ValueError(style)


def rust_int(ty, v):
    if v == ity_min(ty) and v < 0:
        return "%s::MIN" % ty
    return str(v)


def lit_int(value):
    e = lit(str(abs(value)))
    return neg(e) if value < 0 else e


INT_STYLES = ["lit", "const", "negconst", "paren", "arith", "shift", "minmax", "call", "lit_us",
              "parenconst", "mulsub", "bitor"]


# ---------------------------------------------------------------- integer guards

LOWER = ["greater", "greater_or_equal"]
UPPER = ["less", "less_or_equal"]

INT_SHAPES = [
    [], ["L"], ["U"], ["P"], ["L", "U"], ["U", "L"], ["L", "P"], ["P", "U"], ["L", "U", "P"],
    ["P", "U", "L"], ["U", "P", "L"], ["C"],
]


def int_bound_pairs(ty):
    lo, hi = ity_min(ty), ity_max(ty)
    signed = lo < 0
    pairs = []
    pairs.append((-5, 10) if signed else (3, 10))
    pairs.append((lo, hi))
    pairs.append((lo + 1, hi - 1))
    pairs.append((6, 8))
    pairs.append((0, 0) if signed else (5, 5))
    pairs.append((-100, -90) if signed else (90, 101))
    pairs.append((hi - 3, hi))
    pairs.append((lo, lo + 3))
    pairs.append((16, 64))
    return pairs


INT_DERIVES = ["Debug", "Clone", "Copy", "PartialEq", "Eq", "PartialOrd", "Ord", "Hash", "FromStr",
               "AsRef", "Into", "TryFrom", "Borrow", "Display", "Deref"]


def gen_int_guards(rng, per_type=26, types=None):
    decls = []
    n = 0
    for ty in (types or list(INT_TYPES)):
        pairs = int_bound_pairs(ty)
        for j in range(per_type):
            shape = INT_SHAPES[(j + n) % len(INT_SHAPES)]
            lo_v, hi_v = pairs[(j * 7 + n) % len(pairs)]
            env = []
            vitems = []
            lk = LOWER[(j // 2) % 2]
            uk = UPPER[(j // 3) % 2]
            sty_lo = INT_STYLES[(j + 1) % len(INT_STYLES)]
            sty_hi = INT_STYLES[(j * 5 + 3) % len(INT_STYLES)]
            # exclusive bounds must leave room: literal contradictions are rejected by the macro
            if shape.count("L") and shape.count("U"):
                if lk == "greater" and uk == "less" and not lo_v < hi_v:
                    lk = "greater_or_equal"
                if (lk == "greater") != (uk == "less") and not lo_v < hi_v:
                    lk, uk = "greater_or_equal", "less_or_equal"
            for s in shape:
                if s == "L":
                    vitems.append([tid(lk), EQ, tx(spell_int(ty, lo_v, sty_lo, env, "lo"))])
                elif s == "U":
                    vitems.append([tid(uk), EQ, tx(spell_int(ty, hi_v, sty_hi, env, "hi"))])
                elif s == "P":
                    vitems.append([tid("predicate"), EQ, tfn(j % 2, PRED_FORMS[j % 3], "p")])
                elif s == "C":
                    vitems.append([tid("with"), EQ, tfn(0, "p", "c")])
                    vitems.append([tid("error"), EQ, tpath("CErr")])
            blocks = []
            san = j % 4
            if san < 3 and (j % 3 != 1 or not shape):
                blocks.append(block("sanitize", [[tid("with"), EQ, tfn(san, FORMS[(j + n) % 5], "s")]]))
            if vitems:
                blocks.append(block("validate", vitems, trailing=(j % 5 == 0)))
            traits = list(INT_DERIVES)
            if not vitems:
                traits[traits.index("TryFrom")] = "From"
            dflt = None
            if j % 3 == 0:
                dv = [lo_v, hi_v, 7, 101, lo_v - 1 if lo_v > ity_min(ty) else lo_v][(j // 3) % 5]
                dv = max(ity_min(ty), min(ity_max(ty), dv))
                blocks.append([tid("default"), EQ, tx(lit_int(dv))])
                traits.append("Default")
            if j % 6 == 5:
                blocks.append([tid("const_fn")])
                # const fn cannot call closures: use paths only
                blocks = [[(t[0], t[1], "p", t[3]) if t[0] == "fn" else
                           (("g", [(u[0], u[1], "p", u[3]) if u[0] == "fn" else u for u in t[1]]) if t[0] == "g" else t)
                           for t in b] for b in blocks]
                if "C" in shape:
                    blocks = [b for b in blocks if not (b and b[0] == ("id", "const_fn"))]
            blocks.append(derive_block(traits))
            if j % 2:
                blocks = blocks[-1:] + blocks[:-1]          # attribute order
            d = Decl("d%d" % len(decls), ty, attr(blocks, trailing=(j % 4 == 3)), env=env,
                     tags={"guard", "int"})
            d.bounds = [lo_v, hi_v]
            decls.append(d)
        n += 1
    return decls


def int_inputs(d, rng, exhaustive_bits=8, extra=12):
    ty = d.inner
    lo, hi = ity_min(ty), ity_max(ty)
    signed, bits = INT_TYPES[ty]
    if bits <= exhaustive_bits:
        return list(range(lo, hi + 1))
    vals = set()
    for b in list(getattr(d, "bounds", [])) + [0, 7, 100, lo, hi]:
        for dlt in (-2, -1, 0, 1, 2):
            vals.add(b + dlt)
    for v in (1, -1, 2, 3, 6, 14, 15, 101, 200, 201, lo + 1, hi - 1, hi // 2):
        vals.add(v)
    for _ in range(extra):
        vals.add(rng.range(lo, hi))
        vals.add(rng.range(-130, 130))
    return sorted(v for v in vals if lo <= v <= hi)
