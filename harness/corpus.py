"""Declaration and input generators for the behavioural correspondence.  The core corpus is
deterministic (a covering rotation over family x inner type x sanitizers x ordered validator
lists x bound spelling x bound position x flags); a separate seeded random stream adds
mostly-valid declarations.  Inputs are boundary neighbourhoods of every bound a declaration
mentions, type extremes and the values on which library sanitizers / predicates change."""
from syntax import *
from common import Rng

FORMS = ["p", "c00", "c10", "c01", "c11"]
PRED_FORMS = ["p", "c00", "c10"]


def commas(items):
    out = []
    for i, it in enumerate(items):
        if i:
            out.append(COMMA)
        out.extend(it)
    return out


def block(name, items, trailing=False):
    inner = commas(items)
    if trailing and items:
        inner.append(COMMA)
    return [tid(name), grp(inner)]


def attr(blocks, trailing=False):
    out = commas(blocks)
    if trailing and blocks:
        out.append(COMMA)
    return out


def derive_block(traits):
    return block("derive", [[tid(t)] for t in traits])


# ---------------------------------------------------------------- bound spellings

def spell_int(ty, value, style, env, tag):
    """an expression of integer type [ty] denoting [value], in one of the spellings C02 lists;
    falls back to a plain literal when the style cannot express the value"""
    signed, bits = INT_TYPES[ty]
    lo, hi = ity_min(ty), ity_max(ty)

    def const(name, v):
        env.append((name, ty, v, "const %s: %s = %s;" % (name, ty, rust_int(ty, v))))
        return k(name)

    if style == "lit" or style is None:
        return lit_int(value)
    if style == "lit_us":
        s = str(abs(value))
        if len(s) > 3:
            s = s[:-3] + "_" + s[-3:]
        e = lit(s)
        return neg(e) if value < 0 else e
    if style == "const":
        return const("K%s" % tag, value)
    if style == "negconst":
        if signed and lo <= -value <= hi:
            return neg(const("N%s" % tag, -value))
        return lit_int(value)
    if style in ("notlit", "notconst"):
        # !N: the complement, -N - 1 on signed types and MAX - N on unsigned ones
        n = (-value - 1) if signed else (hi - value)
        if n < 0 or n > hi:
            return lit_int(value)
        return bnot(lit(str(n))) if style == "notlit" else bnot(const("C%s" % tag, n))
    if style in ("hex", "oct", "bin"):
        body = {"hex": "0x%X", "oct": "0o%o", "bin": "0b%s"}[style] % (abs(value) if style != "bin" else bin(abs(value))[2:])
        if style == "bin" and len(body) > 8:
            body = body[:-4] + "_" + body[-4:]
        e = lit(body)
        return neg(e) if value < 0 else e
    if style == "userassoc":
        # a user type's associated constant that merely shares its name with the inner type's limit
        nm = "Lim%s" % tag.capitalize()
        which = "MAX" if value >= 0 else "MIN"
        env.append(("%s::%s" % (nm, which), ty, value, "pub struct %s; impl %s { pub const %s: %s = %s; }" % (nm, nm, which, ty, rust_int(ty, value))))
        return k("%s::%s" % (nm, which))
    if style == "usermod":
        nm = "lim_%s" % tag
        which = "MIN" if value <= 0 else "MAX"
        env.append(("%s::%s" % (nm, which), ty, value, "pub mod %s { pub const %s: %s = %s; }" % (nm, which, ty, rust_int(ty, value))))
        return k("%s::%s" % (nm, which))
    if style == "paren":
        return par(lit_int(value))
    if style == "parenconst":
        return par(const("P%s" % tag, value))
    if style == "arith":
        if lo <= value - 1 <= hi:
            return binop("add", const("A%s" % tag, value - 1), lit("1"))
        return binop("sub", const("A%s" % tag, value + 1), lit("1"))
    if style == "shift":
        if value > 0 and value & (value - 1) == 0 and value.bit_length() - 1 < bits - (1 if signed else 0):
            return binop("shl", const("ONE%s" % tag, 1), lit(str(value.bit_length() - 1)))
        if lo <= value * 2 <= hi and lo <= value * 2 + 1 <= hi:
            return binop("shr", const("S%s" % tag, value * 2 + (1 if value >= 0 else 0)), lit("1"))
        return lit_int(value)
    if style == "minmax":
        if value == lo:
            env.append(("%s::MIN" % ty, ty, lo, None))
            return k("%s::MIN" % ty)
        if value == hi:
            env.append(("%s::MAX" % ty, ty, hi, None))
            return k("%s::MAX" % ty)
        return lit_int(value)
    if style == "call":
        name = "lim%s" % tag
        env.append((name + "!", ty, value, "const fn %s() -> %s { %s }" % (name, ty, rust_int(ty, value))))
        return k(name + "!", name + "()")
    if style == "mulsub":
        # K * 2 - c : exercises precedence against the spliced +1 / -1
        base = value // 2
        c = base * 2 - value
        if lo <= base * 2 <= hi:
            e = binop("mul", const("M%s" % tag, base), lit("2"))
            if c == 0:
                return e
            return binop("sub", e, lit(str(c))) if c > 0 else binop("add", e, lit(str(-c)))
        return lit_int(value)
    if style == "bitor":
        if value >= 0:
            low = value & 1
            return binop("or", const("B%s" % tag, value - low), lit(str(low)))
        return lit_int(value)
    raise ValueError(style)


def rust_int(ty, v):
    if v == ity_min(ty) and v < 0:
        return "%s::MIN" % ty
    return str(v)


def lit_int(value):
    e = lit(str(abs(value)))
    return neg(e) if value < 0 else e


INT_STYLES = ["lit", "const", "negconst", "paren", "arith", "shift", "minmax", "call", "lit_us",
              "parenconst", "mulsub", "bitor", "notlit", "notconst", "userassoc", "usermod", "hex", "oct", "bin"]


# ---------------------------------------------------------------- integer guards

LOWER = ["greater", "greater_or_equal"]
UPPER = ["less", "less_or_equal"]

INT_SHAPES = [
    [], ["L"], ["U"], ["P"], ["L", "U"], ["U", "L"], ["L", "P"], ["P", "U"], ["L", "U", "P"],
    ["P", "U", "L"], ["U", "P", "L"], ["C"],
]


def int_bound_pairs(ty):
    lo, hi = ity_min(ty), ity_max(ty)
    signed = lo < 0
    pairs = []
    pairs.append((-5, 10) if signed else (3, 10))
    pairs.append((lo, hi))
    pairs.append((lo + 1, hi - 1))
    pairs.append((6, 8))
    pairs.append((0, 0) if signed else (5, 5))
    pairs.append((-100, -90) if signed else (90, 101))
    pairs.append((hi - 3, hi))
    pairs.append((lo, lo + 3))
    pairs.append((16, 64))
    return pairs


INT_DERIVES = ["Debug", "Clone", "Copy", "PartialEq", "Eq", "PartialOrd", "Ord", "Hash", "FromStr",
               "AsRef", "Into", "TryFrom", "Borrow", "Display", "Deref"]


def gen_int_guards(rng, per_type=26, types=None):
    decls = []
    n = 0
    for ty in (types or list(INT_TYPES)):
        pairs = int_bound_pairs(ty)
        for j in range(per_type):
            shape = INT_SHAPES[(j + n) % len(INT_SHAPES)]
            lo_v, hi_v = pairs[(j * 7 + n) % len(pairs)]
            env = []
            vitems = []
            lk = LOWER[(j // 2) % 2]
            uk = UPPER[(j // 3) % 2]
            sty_lo = INT_STYLES[(j + 1) % len(INT_STYLES)]
            sty_hi = INT_STYLES[(j * 5 + 3) % len(INT_STYLES)]
            if (j // len(INT_SHAPES)) % 2 == 0:
                sty_lo = sty_hi = "lit"         # every shape also with all-literal bounds
            # exclusive bounds must leave room: literal contradictions are rejected by the macro
            if shape.count("L") and shape.count("U"):
                if lk == "greater" and uk == "less" and not lo_v < hi_v:
                    lk = "greater_or_equal"
                if (lk == "greater") != (uk == "less") and not lo_v < hi_v:
                    lk, uk = "greater_or_equal", "less_or_equal"
            for s in shape:
                if s == "L":
                    vitems.append([tid(lk), EQ, tx(spell_int(ty, lo_v, sty_lo, env, "lo"))])
                elif s == "U":
                    vitems.append([tid(uk), EQ, tx(spell_int(ty, hi_v, sty_hi, env, "hi"))])
                elif s == "P":
                    vitems.append([tid("predicate"), EQ, tfn(j % 2, PRED_FORMS[j % 3], "p")])
                elif s == "C":
                    vitems.append([tid("with"), EQ, tfn(0, "p", "c")])
                    vitems.append([tid("error"), EQ, tpath("CErr")])
            blocks = []
            san = j % 4
            if san < 3 and (j % 3 != 1 or not shape):
                blocks.append(block("sanitize", [[tid("with"), EQ, tfn(san, FORMS[(j + n) % 5], "s")]]))
            if vitems:
                blocks.append(block("validate", vitems, trailing=(j % 5 == 0)))
            traits = list(INT_DERIVES)
            if not vitems and j % 2 == 0:
                traits[traits.index("TryFrom")] = "From"
            default_arg = None
            if j % 3 == 0:
                dv = [lo_v, hi_v, 7, 101, lo_v - 1 if lo_v > ity_min(ty) else lo_v][(j // 3) % 5]
                dv = max(ity_min(ty), min(ity_max(ty), dv))
                blocks.append([tid("default"), EQ, tx(lit_int(dv))])
                traits.append("Default")
                default_arg = ("i", dv)
            if j % 6 == 5 or j % 12 == 9:       # (j % 12 == 9: const_fn next to a default the sanitizer changes)
                blocks.append([tid("const_fn")])
                # const fn cannot call closures: use paths only
                blocks = [[(t[0], t[1], "p", t[3]) if t[0] == "fn" else
                           (("g", [(u[0], u[1], "p", u[3]) if u[0] == "fn" else u for u in t[1]]) if t[0] == "g" else t)
                           for t in b] for b in blocks]
                if "C" in shape:
                    blocks = [b for b in blocks if not (b and b[0] == ("id", "const_fn"))]
            blocks.append(derive_block(traits))
            if j % 2:
                blocks = blocks[-1:] + blocks[:-1]          # attribute order
            d = Decl("d%d" % len(decls), ty, attr(blocks, trailing=(j % 4 == 3)), env=env,
                     tags={"guard", "int"})
            d.bounds = [lo_v, hi_v]
            d.default_arg = default_arg
            decls.append(d)
        n += 1
    # a predicate that is only defined on what the bound written before it lets through (never called on 0 by a
    # constructor that checks the rules one after the other)
    for ty in ("i32", "u8", "i64", "i8"):
        for items, b in (([[tid("greater"), EQ, tx(lit_int(0))], [tid("predicate"), EQ, tfn(2, "p", "p")]], [0, 0]),
                         ([[tid("greater_or_equal"), EQ, tx(lit_int(1))], [tid("predicate"), EQ, tfn(2, "c00", "p")], [tid("less"), EQ, tx(lit_int(100))]], [1, 100])):
            d = Decl("d%d" % len(decls), ty, attr([block("validate", items), derive_block(["Debug", "Clone", "PartialEq", "TryFrom", "FromStr"])]), env=[],
                     tags={"guard", "int"})
            d.bounds = b
            d.default_arg = None
            decls.append(d)
    return decls


def int_inputs(d, rng, exhaustive_bits=8, extra=12):
    ty = d.inner
    lo, hi = ity_min(ty), ity_max(ty)
    signed, bits = INT_TYPES[ty]
    if bits <= exhaustive_bits:
        return list(range(lo, hi + 1))
    vals = set()
    for b in list(getattr(d, "bounds", [])) + [0, 7, 100, lo, hi]:
        for dlt in (-2, -1, 0, 1, 2):
            vals.add(b + dlt)
    for v in (1, -1, 2, 3, 6, 14, 15, 101, 200, 201, lo + 1, hi - 1, hi // 2):
        vals.add(v)
    # the edges of every narrower width, on both sides of zero
    for k_ in (7, 8, 15, 16, 24, 31, 32, 53, 63, 64, 127):
        for v in ((1 << k_) - 1, 1 << k_, (1 << k_) + 1):
            vals.add(v)
            vals.add(-v)
    for _ in range(extra):
        vals.add(rng.range(lo, hi))
        vals.add(rng.range(-130, 130))
    return sorted(v for v in vals if lo <= v <= hi)


# ---------------------------------------------------------------- float guards

def fbits(text, is64):
    """bits of a (possibly negative) decimal text at the given width"""
    negative = text.startswith("-")
    l = lit(text.lstrip("-"))[1]
    b = l["f64"] if is64 else l["f32"]
    if negative:
        b ^= 1 << (63 if is64 else 31)
    return b


def spell_float(ty, text, style, env, tag):
    is64 = FLOAT_TYPES[ty]
    negative = text.startswith("-")
    body = text.lstrip("-")

    def const(name, txt):
        env.append((name, ty, fbits(txt, is64), "const %s: %s = %s;" % (name, ty, txt if "." in txt or "e" in txt else txt + ".0")))
        return k(name)
    if style == "lit":
        e = lit(body)
        return neg(e) if negative else e
    if style == "const":
        return const("K%s" % tag, text)
    if style == "negconst":
        flipped = body if negative else "-" + body
        return neg(const("N%s" % tag, flipped))
    if style == "parenconst":
        return par(const("P%s" % tag, text))
    if style == "parenlit":
        e = lit(body if ("." in body or "e" in body) else body + ".0")
        return par(neg(e) if negative else e)
    if style in ("userassoc", "usermod"):
        # a user constant that merely shares its name with a limit of the inner type
        txt = text if "." in text or "e" in text else text + ".0"
        which = "MIN" if negative else "MAX"
        if style == "userassoc":
            nm = "Lim%s" % tag.capitalize()
            env.append(("%s::%s" % (nm, which), ty, fbits(text, is64), "pub struct %s; impl %s { pub const %s: %s = %s; }" % (nm, nm, which, ty, txt)))
        else:
            nm = "lim_%s" % tag
            env.append(("%s::%s" % (nm, which), ty, fbits(text, is64), "pub mod %s { pub const %s: %s = %s; }" % (nm, which, ty, txt)))
        return k("%s::%s" % (nm, which))
    raise ValueError(style)


def assoc_float(ty, which, env):
    is64 = FLOAT_TYPES[ty]
    table = {
        "MAX": 0x7FEFFFFFFFFFFFFF if is64 else 0x7F7FFFFF,
        "MIN": 0xFFEFFFFFFFFFFFFF if is64 else 0xFF7FFFFF,
        "INFINITY": 0x7FF0000000000000 if is64 else 0x7F800000,
        "NEG_INFINITY": 0xFFF0000000000000 if is64 else 0xFF800000,
        "MIN_POSITIVE": 0x0010000000000000 if is64 else 0x00800000,
        "NAN": 0x7FF8000000000000 if is64 else 0x7FC00000,
        "EPSILON": 0x3CB0000000000000 if is64 else 0x34000000,
    }
    name = "%s::%s" % (ty, which)
    env.append((name, ty, table[which], None))
    return k(name)


FLOAT_SHAPES = [
    [], ["L"], ["U"], ["F"], ["P"], ["L", "U"], ["U", "L"], ["F", "L", "U"], ["L", "U", "F"],
    ["U", "F", "L"], ["L", "P"], ["P", "F"], ["F", "P", "U"], ["C"], ["L", "F"], ["F", "U"],
]
FLOAT_PAIRS = [("0.0", "10.0"), ("-5.5", "1e3"), ("-0.0", "0.0"), ("0.1", "0.3"), ("-100", "100"),
               ("1.0", "1.0"), ("-3.0e38", "3.0e38"), ("64.0", "65.0"), ("1e-40", "1e-39"),
               ("-1e3", "-2.5E-3"), ("5", "7.25"), ("1_000.5", "2_000.5"),
               # a hair above an f32 midpoint: reading the literal through f64 and narrowing rounds twice
               ("1.0000000596046448", "16777217.000000001")]
FLOAT_STYLES = ["lit", "const", "negconst", "parenconst", "lit", "parenlit", "userassoc", "usermod"]
FLOAT_DERIVES = ["Debug", "Clone", "Copy", "PartialEq", "PartialOrd", "FromStr", "AsRef", "Into",
                 "TryFrom", "Borrow", "Display", "Deref"]


def gen_float_guards(rng, per_type=48, start=0):
    decls = []
    for ti, ty in enumerate(("f32", "f64")):
        is64 = FLOAT_TYPES[ty]
        for j in range(per_type):
            shape = FLOAT_SHAPES[(j + ti) % len(FLOAT_SHAPES)]
            lo_t, hi_t = FLOAT_PAIRS[(j * 5 + ti) % len(FLOAT_PAIRS)]
            env = []
            lk = LOWER[(j // 2) % 2]
            uk = UPPER[(j // 3) % 2]
            if "L" in shape and "U" in shape and fbits(lo_t, is64) in (fbits(hi_t, is64), fbits(hi_t, is64) ^ (1 << (63 if is64 else 31))):
                lk, uk = "greater_or_equal", "less_or_equal"
            sty_lo = FLOAT_STYLES[(j + 1) % len(FLOAT_STYLES)]
            sty_hi = FLOAT_STYLES[(j * 5 + 2) % len(FLOAT_STYLES)]
            if (j // len(FLOAT_SHAPES)) % 2 == 0:
                sty_lo = sty_hi = "lit"         # every shape also with all-literal bounds
            special = j % 16 if (j // len(FLOAT_SHAPES)) % 2 else 0
            vitems = []
            bounds = []
            for s in shape:
                if s == "L":
                    if special == 11:
                        e = assoc_float(ty, ["MIN", "NEG_INFINITY", "NAN"][(j // 16) % 3], env)
                        bounds.append(env[-1][2])
                    else:
                        e = spell_float(ty, lo_t, sty_lo, env, "lo")
                        bounds.append(fbits(lo_t, is64))
                    vitems.append([tid(lk), EQ, tx(e)])
                elif s == "U":
                    if special == 13:
                        e = assoc_float(ty, ["MAX", "INFINITY", "MIN_POSITIVE"][(j // 16) % 3], env)
                        bounds.append(env[-1][2])
                    else:
                        e = spell_float(ty, hi_t, sty_hi, env, "hi")
                        bounds.append(fbits(hi_t, is64))
                    vitems.append([tid(uk), EQ, tx(e)])
                elif s == "F":
                    vitems.append([tid("finite")])
                elif s == "P":
                    vitems.append([tid("predicate"), EQ, tfn(j % 2, PRED_FORMS[j % 3], "p")])
                elif s == "C":
                    vitems.append([tid("with"), EQ, tfn(0, "p", "c")])
                    vitems.append([tid("error"), EQ, tpath("CErr")])
            blocks = []
            san = j % 4
            if san < 3 and (j % 3 != 1 or not shape):
                blocks.append(block("sanitize", [[tid("with"), EQ, tfn(san, FORMS[(j + ti) % 5], "s")]]))
            if vitems:
                blocks.append(block("validate", vitems, trailing=(j % 5 == 0)))
            traits = list(FLOAT_DERIVES)
            default_arg = None
            if "F" in shape:
                traits += ["Eq", "Ord"]
            if not vitems and j % 2 == 0:
                traits[traits.index("TryFrom")] = "From"
            if j % 3 == 0:
                dt = [lo_t, hi_t, "7.0", "101.5", "-1.0"][(j // 3) % 5]
                e = lit(dt.lstrip("-") if ("." in dt or "e" in dt.lower()) else dt.lstrip("-") + ".0")
                blocks.append([tid("default"), EQ, tx(neg(e) if dt.startswith("-") else e)])
                traits.append("Default")
                default_arg = ("f", fbits(dt, is64))
            if (j % 6 == 5 or j % 12 == 9) and "C" not in shape:
                blocks.append([tid("const_fn")])
                blocks = [[(t[0], t[1], "p", t[3]) if t[0] == "fn" else
                           (("g", [(u[0], u[1], "p", u[3]) if u[0] == "fn" else u for u in t[1]]) if t[0] == "g" else t)
                           for t in b] for b in blocks]
            blocks.append(derive_block(traits))
            if j % 2:
                blocks = blocks[-1:] + blocks[:-1]
            d = Decl("f%d" % (start + len(decls)), ty, attr(blocks, trailing=(j % 4 == 3)), env=env,
                     tags={"guard", "float"})
            d.bounds = bounds
            d.default_arg = default_arg
            decls.append(d)
    return decls


def float_specials(is64):
    if is64:
        sp = [0x0, 0x8000000000000000, 0x1, 0x8000000000000001, 0x000FFFFFFFFFFFFF, 0x0010000000000000,
              0x8010000000000000, 0x3FF0000000000000, 0xBFF0000000000000, 0x7FEFFFFFFFFFFFFF,
              0xFFEFFFFFFFFFFFFF, 0x7FF0000000000000, 0xFFF0000000000000, 0x7FF8000000000000,
              0xFFF8000000000000, 0x7FF0000000000001, 0x7FFFFFFFFFFFFFFF, 0xFFF0000000000001,
              0x401C000000000000, 0x4059000000000000, 0x4059000000000001, 0xBFE0000000000000,
              0x3FE0000000000000, 0x4050000000000000]
    else:
        sp = [0x0, 0x80000000, 0x1, 0x80000001, 0x007FFFFF, 0x00800000, 0x80800000, 0x3F800000,
              0xBF800000, 0x7F7FFFFF, 0xFF7FFFFF, 0x7F800000, 0xFF800000, 0x7FC00000, 0xFFC00000,
              0x7F800001, 0x7FFFFFFF, 0xFF800001, 0x40E00000, 0x42C80000, 0x42C80001, 0xBF000000,
              0x3F000000, 0x42800000, 0x15AE43FD, 0x95AE43FD, 0x3DCCCCCD, 0x3EAAAAAB]
    return sp


def float_inputs(d, rng, extra=16):
    is64 = FLOAT_TYPES[d.inner]
    width = 64 if is64 else 32
    vals = set(float_specials(is64))
    expmask = ((1 << (11 if is64 else 8)) - 1) << (52 if is64 else 23)
    for b in getattr(d, "bounds", []):
        vals.add(b)
        if (b & expmask) != expmask:
            u, dn = f_next_up(b, is64), f_next_down(b, is64)
            vals.update([u, dn, f_next_up(u, is64), f_next_down(dn, is64), b ^ (1 << (width - 1))])
    for _ in range(extra):
        vals.add(rng.next() & ((1 << width) - 1))
    return sorted(vals)


# ---------------------------------------------------------------- string guards

STR_SAN_SETS = [
    [], ["trim"], ["lowercase"], ["uppercase"], ["trim", "lowercase"], ["lowercase", "trim"],
    ["trim", "uppercase"], ["uppercase", "trim"], ["W0"], ["trim", "W1"], ["W2", "trim"],
    ["trim", "lowercase", "W0"], ["W0", "trim", "uppercase"], ["lowercase", "W2"],
]
STR_VAL_SETS = [
    [], ["not_empty"], ["min"], ["max"], ["min", "max"], ["max", "min"], ["not_empty", "max"],
    ["min", "not_empty"], ["P0"], ["P1", "max"], ["R0"], ["not_empty", "min", "R2"], ["R1p", "max"],
    ["max", "not_empty", "P0"], ["C"], ["R0p", "min"], ["not_empty", "min", "max", "P1", "R1"], ["R3"], ["R3p", "max"], ["min", "R3"],
    ["R2", "P0", "max", "min", "not_empty"], ["R4"], ["R4p", "max"],
    # a predicate that is only defined on what the rules written before it let through
    ["not_empty", "P2"], ["not_empty", "max", "P2"], ["R5p"], ["min", "R5p"],
]
REGEX_LITS = ["^[a-z]+$", "@", "^.{2,4}$", "b{2}", "(?i)^k[0-9]+$"]
STR_DERIVES = ["Debug", "Clone", "PartialEq", "Eq", "PartialOrd", "Ord", "Hash", "FromStr", "AsRef",
               "Into", "TryFrom", "Borrow", "Display", "Deref"]
USIZE_STYLES = ["lit", "const", "paren", "arith", "call", "parenconst", "shift", "userassoc", "usermod", "hex", "bin", "oct"]


def gen_str_guards(rng, n=160, start=0):
    decls = []
    for j in range(n):
        sans = STR_SAN_SETS[j % len(STR_SAN_SETS)]
        vals = STR_VAL_SETS[(j * 5 + j // len(STR_SAN_SETS)) % len(STR_VAL_SETS)]
        env = []
        mn, mx = [(1, 3), (2, 2), (0, 4), (3, 5), (2, 6)][j % 5]
        sitems = []
        for s in sans:
            if s.startswith("W"):
                sitems.append([tid("with"), EQ, tfn(int(s[1]), FORMS[j % 5], "s")])
            else:
                sitems.append([tid(s)])
        vitems = []
        for v in vals:
            if v == "min":
                vitems.append([tid("len_char_min"), EQ, tx(spell_int("usize", mn, USIZE_STYLES[j % len(USIZE_STYLES)], env, "mn"))])
            elif v == "max":
                vitems.append([tid("len_char_max"), EQ, tx(spell_int("usize", mx, USIZE_STYLES[(j * 3 + 1) % len(USIZE_STYLES)], env, "mx"))])
            elif v == "not_empty":
                vitems.append([tid("not_empty")])
            elif v[0] == "P":
                vitems.append([tid("predicate"), EQ, tfn(int(v[1]), PRED_FORMS[j % 3], "p")])
            elif v[0] == "R":
                if v.endswith("p"):
                    vitems.append([tid("regex"), EQ, tpath("RE%s" % v[1])])
                else:
                    vitems.append([tid("regex"), EQ, tstr(REGEX_LITS[int(v[1])])])
            elif v == "C":
                vitems.append([tid("with"), EQ, tfn(0, "p", "c")])
                vitems.append([tid("error"), EQ, tpath("CErr")])
        blocks = []
        if sitems:
            blocks.append(block("sanitize", sitems, trailing=(j % 7 == 0)))
        if vitems:
            blocks.append(block("validate", vitems))
        traits = list(STR_DERIVES)
        default_arg = None
        if j % 5 == 2:
            traits.remove("Ord")            # PartialOrd on its own
        if not vitems and j % 2 == 0:
            traits[traits.index("TryFrom")] = "From"
        if j % 3 == 0:
            dv = ["ab", "", " Ab@ ", "abcdefgh", "x"][(j // 3) % 5]
            blocks.append([tid("default"), EQ, tx(estr(dv))])
            traits.append("Default")
            default_arg = ("s", dv)
        blocks.append(derive_block(traits))
        if j % 2:
            blocks = blocks[-1:] + blocks[:-1]
        d = Decl("s%d" % (start + len(decls)), "String", attr(blocks, trailing=(j % 4 == 3)), env=env,
                 tags={"guard", "str"})
        d.default_arg = default_arg
        decls.append(d)
    # length limits at the values a generator could special-case, as plain literals, whatever the rotation above picks
    for k_, items in enumerate(([[tid("len_char_min"), EQ, tx(lit_int(0))]], [[tid("len_char_min"), EQ, tx(lit_int(1))]],
                                [[tid("len_char_min"), EQ, tx(lit_int(0))], [tid("len_char_max"), EQ, tx(lit_int(2))]],
                                [[tid("len_char_max"), EQ, tx(lit_int(0))]], [[tid("not_empty")], [tid("len_char_min"), EQ, tx(lit_int(1))]],
                                [[tid("len_char_min"), EQ, tx(lit_int(1))], [tid("len_char_max"), EQ, tx(lit_int(1))]])):
        blocks = ([block("sanitize", [[tid("trim")]])] if k_ % 2 else []) + [block("validate", items), derive_block(["Debug", "Clone", "PartialEq", "TryFrom", "FromStr"])]
        d = Decl("s%d" % (start + len(decls)), "String", attr(blocks), env=[], tags={"guard", "str"})
        d.default_arg = None
        decls.append(d)
    return decls


ASCII_ALPHABET = ["a", "B", " ", "@", "x", "!", "\n", "z", "7"]
UNICODE_ALPHABET = ["a", "B", " ", "@", "x", "\n", "\u00a0", "\u2003", "\u0085", "\u00df", "\u0130",
                    "\u03a3", "\u03c3", "\u03c2", "\u01c5", "\ufb01", "\u0307", "\u0345", "\u1f88",
                    "\u0131", "\u212a", "\u1e9e", "\u0149", "\u200b"]


def all_strings(alphabet, maxlen):
    out = [""]
    frontier = [""]
    for _ in range(maxlen):
        frontier = [s + c for s in frontier for c in alphabet]
        out += frontier
    return out


def str_inputs(d, rng, alphabet, maxlen=3, sample=None, extra=()):
    base = all_strings(alphabet, maxlen)
    if sample is not None and len(base) > sample:
        keep = set(all_strings(alphabet, 1))
        picked = [base[rng.below(len(base))] for _ in range(sample)]
        base = sorted(keep.union(picked))
    out = list(base) + list(extra)
    for _ in range(6):
        ln = rng.range(4, 9)
        out.append("".join(rng.choice(alphabet) for _ in range(ln)))
    # beyond the alphabet: astral characters (with and without case mappings), combining marks,
    # NUL / quote / backslash, and strings around the lengths 64 and 255
    out += ["\U00010400", "\U00010428a", "\U0001F600", "a\U0001F600\U0001F600", "a\u0301", "\u0301", "e\u0301\u0323", "\0", "a\0b", "\"", "\\", "a\"b\\c",
            "bb", "b{2}", "abbc", "b", "bab", "Bb", "x{3}",
            # a case-insensitive, Unicode-aware regex: KELVIN SIGN folds to k; Arabic-Indic digits are not [0-9]
            "k1", "K22", "\u212a7", "\u212a", "k", "k\u0663", "kx", "1k", "K 1", "k1\n",
            # longer than three characters with blanks inside and outside (sanitizer order shows here)
            " ab cd", "a  bcd ", "  abcd  ", "ab c d",
            "a" * 63, "a" * 64, "a" * 65, "\u0436" * 64, "B" * 255, "x" * 256, " " + "b" * 300 + " ", "\u00df" * 65, "\U0001F600" * 70]
    return out


# ---------------------------------------------------------------- "other type" guards

ANY_DERIVES = ["Debug", "Clone", "PartialEq", "Eq", "PartialOrd", "Ord", "Hash", "AsRef", "Into",
               "TryFrom", "Borrow", "Deref", "IntoIterator"]
ANY_SHAPES = [([], []), (["W0"], []), ([], ["P0"]), (["W1"], ["P1"]), (["W2"], ["P0"]), ([], ["C"]),
              (["W0"], ["C"]), (["W1"], [])]


def gen_any_guards(rng, n=32, start=0):
    decls = []
    for j in range(n):
        sans, vals = ANY_SHAPES[j % len(ANY_SHAPES)]
        generic = (j % 4 == 3)
        blocks = []
        if sans:
            blocks.append(block("sanitize", [[tid("with"), EQ, tfn(int(sans[0][1]), FORMS[j % 5] if not generic else ["p", "c00", "c01"][j % 3], "s")]]))
        vitems = []
        for v in vals:
            if v[0] == "P":
                fid = int(v[1]) if not generic else 0
                vitems.append([tid("predicate"), EQ, tfn(fid, PRED_FORMS[j % 3] if not generic else ["p", "c00"][j % 2], "p")])
            else:
                vitems.append([tid("with"), EQ, tfn(0, "p", "c")])
                vitems.append([tid("error"), EQ, tpath("CErr")])
        if generic and vals and vals[0] == "C":
            vitems = [[tid("predicate"), EQ, tfn(0, "p", "p")]]
        if vitems:
            blocks.append(block("validate", vitems))
        traits = list(ANY_DERIVES)
        default_arg = None
        if not vitems and j % 2 == 0:
            traits[traits.index("TryFrom")] = "From"
        if j % 3 == 0:
            dv = [[1, 2], [], [3, -1, 2, 5, 4], [0]][(j // 3) % 4]
            blocks.append([tid("default"), EQ, tx(elist(dv))])
            traits.append("Default")
            default_arg = ("l", dv)
        blocks.append(derive_block(traits))
        if generic:
            d = Decl("a%d" % (start + len(decls)), "Vec<T>", attr(blocks), tags={"guard", "any", "generic"},
                     name="W", generics=[("T", ["Ord", "Clone"] if j % 8 == 3 else [])])
            d.inst = "<i32>"
            d.inner_concrete = "Vec<i32>"
        else:
            d = Decl("a%d" % (start + len(decls)), "Vec<i32>", attr(blocks), tags={"guard", "any"})
        d.default_arg = default_arg
        decls.append(d)
    for gi, (form, bounds_) in enumerate((("p", []), ("c00", ["Ord", "Clone"]), ("c01", []))):
        d = Decl("a%d" % (start + len(decls)), "Vec<T>", attr([block("sanitize", [[tid("with"), EQ, tfn(0, form, "s")]]), derive_block([t_ for t_ in ANY_DERIVES if t_ != "TryFrom"] + ["From"])]),
                 tags={"guard", "any", "generic"}, name="W", generics=[("T", bounds_)])
        d.inst = "<i32>"
        d.inner_concrete = "Vec<i32>"
        d.default_arg = None
        decls.append(d)
    return decls


def any_inputs(d, rng):
    vals = [[], [0], [1], [-1], [1, 2], [2, 1], [3, -1, 2], [1, 2, 3], [1, 2, 3, 4], [5, 4, 3, 2, 1],
            [0, 0, 0, 0], [-5, -6], [2147483647, -2147483647], [7, 7, 7]]
    for _ in range(4):
        vals.append([rng.range(-9, 9) for _ in range(rng.range(0, 6))])
    return vals


# ---------------------------------------------------------------- permutations (C07)

def permutations(l):
    if len(l) <= 1:
        return [list(l)]
    out = []
    for i in range(len(l)):
        for p in permutations(l[:i] + l[i + 1:]):
            out.append([l[i]] + p)
    return out


def gen_perm_decls(rng, tier):
    decls = []
    int_types = ["i8", "u16"] if tier == "quick" else ["i8", "u8", "i32", "u64", "i128"]
    n = 0
    for ty in int_types:
        for contradictory in (False, True):
            for pi, perm in enumerate(permutations(["L", "U", "P"])):
                env = []
                lo, hi = (3, 10) if not contradictory else (10, 3)
                items = []
                for s in perm:
                    if s == "L":
                        items.append([tid(LOWER[pi % 2]), EQ, tx(spell_int(ty, lo, "const", env, "lo"))])
                    elif s == "U":
                        items.append([tid(UPPER[(pi // 2) % 2]), EQ, tx(spell_int(ty, hi, "const", env, "hi"))])
                    else:
                        items.append([tid("predicate"), EQ, tfn(0, "p", "p")])
                d = Decl("pi%d" % n, ty, attr([block("validate", items), derive_block(["Debug", "Clone", "PartialEq"])]),
                         env=env, tags={"perm", "int"})
                d.bounds = [lo, hi]
                d.default_arg = None
                decls.append(d)
                n += 1
    n = 0
    for ty in (["f32"] if tier == "quick" else ["f32", "f64"]):
        is64 = FLOAT_TYPES[ty]
        for pi, perm in enumerate(permutations(["L", "U", "F", "P"])):
            env = []
            items = []
            for s in perm:
                if s == "L":
                    items.append([tid(LOWER[pi % 2]), EQ, tx(spell_float(ty, "-1.5", "lit", env, "lo"))])
                elif s == "U":
                    items.append([tid(UPPER[(pi // 2) % 2]), EQ, tx(spell_float(ty, "8.0", "const", env, "hi"))])
                elif s == "F":
                    items.append([tid("finite")])
                else:
                    items.append([tid("predicate"), EQ, tfn(0, "p", "p")])
            d = Decl("pf%d" % n, ty, attr([block("validate", items), derive_block(["Debug", "Clone", "PartialEq"])]),
                     env=env, tags={"perm", "float"})
            d.bounds = [fbits("-1.5", is64), fbits("8.0", is64)]
            d.default_arg = None
            decls.append(d)
            n += 1
    n = 0
    perms = permutations(["min", "max", "not_empty", "P", "R"])
    if tier == "quick":
        perms = perms[::2]
    for pi, perm in enumerate(perms):
        env = []
        items = []
        for s in perm:
            if s == "min":
                items.append([tid("len_char_min"), EQ, tx(lit("2"))])
            elif s == "max":
                items.append([tid("len_char_max"), EQ, tx(lit("4"))])
            elif s == "not_empty":
                items.append([tid("not_empty")])
            elif s == "P":
                items.append([tid("predicate"), EQ, tfn(0, "p", "p")])
            else:
                items.append([tid("regex"), EQ, tstr(REGEX_LITS[0]) if pi % 2 else tpath("RE0")])
        d = Decl("ps%d" % n, "String", attr([block("validate", items), derive_block(["Debug", "Clone", "PartialEq"])]),
                 env=env, tags={"perm", "str"})
        d.default_arg = None
        decls.append(d)
        n += 1
    for eq in (3, 1, 4):
        for order in (("min", "max"), ("max", "min"), ("not_empty", "min", "max"), ("max", "not_empty", "min"), ("min", "P", "max")):
            items = []
            for s in order:
                if s == "min":
                    items.append([tid("len_char_min"), EQ, tx(lit(str(eq)))])
                elif s == "max":
                    items.append([tid("len_char_max"), EQ, tx(lit(str(eq)))])
                elif s == "P":
                    items.append([tid("predicate"), EQ, tfn(0, "p", "p")])
                else:
                    items.append([tid("not_empty")])
            d = Decl("ps%d" % n, "String", attr([block("validate", items), derive_block(["Debug", "Clone", "PartialEq"])]), tags={"perm", "str"})
            d.bounds = [eq, eq]
            d.default_arg = None
            decls.append(d)
            n += 1
    for mn, mx in ((5, 2), (4, 1), (9, 3), (3, 3), (2, 6)):
        for order in (("min", "max"), ("max", "min"), ("not_empty", "min", "max"), ("max", "not_empty", "min")):
            env = [("MN", "usize", mn, "const MN: usize = %d;" % mn), ("MX", "usize", mx, "const MX: usize = %d;" % mx)]
            items = []
            for s in order:
                if s == "min":
                    items.append([tid("len_char_min"), EQ, tx(k("MN"))])
                elif s == "max":
                    items.append([tid("len_char_max"), EQ, tx(k("MX"))])
                else:
                    items.append([tid("not_empty")])
            d = Decl("ps%d" % n, "String", attr([block("validate", items), derive_block(["Debug", "Clone", "PartialEq"])]),
                     env=env, tags={"perm", "str"})
            d.bounds = [mn, mx]
            d.default_arg = None
            decls.append(d)
            n += 1
    return decls


def gen_zero_bound_decls():
    """every integer and float type x every bound kind with the literal 0 / 0.0 / -0.0 as the
    bound (a bound the type's own limits seem to make redundant), alone and before a predicate"""
    decls = []
    n = 0
    for ty in list(INT_TYPES):
        for kind in LOWER + UPPER:
            for with_pred in (False, True):
                items = [[tid(kind), EQ, tx(lit("0"))]]
                if with_pred:
                    items.append([tid("predicate"), EQ, tfn(0, "p", "p")])
                d = Decl("zb%d" % n, ty, attr([block("validate", items), derive_block(["Debug", "Clone", "PartialEq", "TryFrom", "FromStr", "Display"])]),
                         tags={"guard", "int", "zero_bound"})
                d.bounds = [0]
                d.default_arg = None
                decls.append(d)
                n += 1
    for ty in FLOAT_TYPES:
        for kind in LOWER + UPPER:
            for zt in ("0.0", "-0.0"):
                d = Decl("zb%d" % n, ty, attr([block("validate", [[tid(kind), EQ, tx(spell_float(ty, zt, "lit", [], "b"))]]),
                                               derive_block(["Debug", "Clone", "PartialEq", "TryFrom", "FromStr", "Display"])]),
                         tags={"guard", "float", "zero_bound"})
                d.bounds = [fbits(zt, FLOAT_TYPES[ty])]
                d.default_arg = None
                decls.append(d)
                n += 1
    return decls


def gen_default_edge_decls():
    """Default with a literal default sitting exactly on / next to a literal bound, no sanitizers:
    default() must panic exactly when the constructor refuses the same value"""
    decls = []
    n = 0
    for ty, b in (("i32", 100), ("u8", 10), ("i64", -5), ("u16", 0)):
        for kind in LOWER + UPPER:
            for dv in (b - 1, b, b + 1):
                if not (ity_min(ty) <= dv <= ity_max(ty)):
                    continue
                d = Decl("de%d" % n, ty, attr([block("validate", [[tid(kind), EQ, tx(lit_int(b))]]), [tid("default"), EQ, tx(lit_int(dv))],
                                               derive_block(["Debug", "Clone", "PartialEq", "Default", "TryFrom"])]),
                         tags={"guard", "int", "default_edge"})
                d.bounds = [b]
                d.default_arg = ("i", dv)
                decls.append(d)
                n += 1
    for ty in ("f32", "f64"):
        is64 = FLOAT_TYPES[ty]
        for kind in LOWER + UPPER:
            for dt in ("2.5", "2.75", "2.25"):
                d = Decl("de%d" % n, ty, attr([block("validate", [[tid(kind), EQ, tx(spell_float(ty, "2.5", "lit", [], "b"))]]),
                                               [tid("default"), EQ, tx(spell_float(ty, dt, "lit", [], "d"))],
                                               derive_block(["Debug", "Clone", "PartialEq", "Default", "TryFrom"])]),
                         tags={"guard", "float", "default_edge"})
                d.bounds = [fbits("2.5", is64)]
                d.default_arg = ("f", fbits(dt, is64))
                decls.append(d)
                n += 1
    for ty in ("f32", "f64"):
        for dt in ("-0.0", "0.0", "-1.5"):
            for extra in ([], [block("sanitize", [[tid("with"), EQ, tfn(2, "p", "s")]])]):
                d = Decl("de%d" % n, ty, attr(extra + [[tid("default"), EQ, tx(spell_float(ty, dt, "lit", [], "d"))],
                                                       derive_block(["Debug", "Clone", "PartialEq", "Default", "From"])]), tags={"guard", "float", "default_edge"})
                d.default_arg = ("f", fbits(dt, FLOAT_TYPES[ty]))
                decls.append(d)
                n += 1
    for ty, dv in (("i32", 0), ("u8", 0), ("i64", -1)):
        d = Decl("de%d" % n, ty, attr([[tid("default"), EQ, tx(lit_int(dv))], derive_block(["Debug", "Clone", "PartialEq", "Default", "From"])]), tags={"guard", "int", "default_edge"})
        d.default_arg = ("i", dv)
        decls.append(d)
        n += 1
    for mn, dv in ((2, "a"), (2, "ab"), (2, "abc")):
        d = Decl("de%d" % n, "String", attr([block("validate", [[tid("len_char_min"), EQ, tx(lit(str(mn)))]]), [tid("default"), EQ, tx(estr(dv))],
                                             derive_block(["Debug", "Clone", "PartialEq", "Default", "TryFrom"])]), tags={"guard", "str", "default_edge"})
        d.default_arg = ("s", dv)
        decls.append(d)
        n += 1
        d = Decl("de%d" % n, "String", attr([block("validate", [[tid("len_char_max"), EQ, tx(lit(str(mn)))]]), [tid("default"), EQ, tx(estr(dv))],
                                             derive_block(["Debug", "Clone", "PartialEq", "Default", "TryFrom"])]), tags={"guard", "str", "default_edge"})
        d.default_arg = ("s", dv)
        decls.append(d)
        n += 1
    return decls


# ---------------------------------------------------------------- Arbitrary corpus (C09, C14)

ARB_INT_SHAPES = [[], ["L"], ["U"], ["L", "U"], ["U", "L"]]


def arb_int_pairs(ty):
    lo, hi = ity_min(ty), ity_max(ty)
    signed, bits = INT_TYPES[ty]
    ps = [((-5, 10) if signed else (3, 10)), (lo, lo + 3), (hi - 3, hi), (6, 8), (0, 15), (1, 16)]
    if bits >= 16:
        ps += [(100, 1000), (0, 255), (0, 256), ((-300, 300) if signed else (7, 607))]
    ps += [(lo, hi), (lo + 1, hi - 1), (0, hi)]
    if signed:
        ps += [(-1, 1), (lo, -1)]
    return ps


def gen_arb_ints(rng, tier, start=0):
    decls = []
    types = list(INT_TYPES)
    n = 0
    for ty in types:
        pairs = arb_int_pairs(ty)
        per = 14 if tier == "quick" else 40
        for j in range(per):
            shape = ARB_INT_SHAPES[(j + n) % len(ARB_INT_SHAPES)]
            lo_v, hi_v = pairs[(j * 3 + n) % len(pairs)]
            lk = LOWER[(j // 2) % 2]
            uk = UPPER[(j // 3) % 2]
            # keep the valid set non-empty
            if "L" in shape and "U" in shape:
                need = (1 if lk == "greater" else 0) + (1 if uk == "less" else 0)
                if hi_v - lo_v < need:
                    lk, uk = "greater_or_equal", "less_or_equal"
            elif "L" in shape and lk == "greater" and lo_v == ity_max(ty):
                lk = "greater_or_equal"
            elif "U" in shape and uk == "less" and hi_v == ity_min(ty):
                uk = "less_or_equal"
            if "L" in shape and lk == "greater" and lo_v == ity_max(ty):
                lk = "greater_or_equal"
            if "U" in shape and uk == "less" and hi_v == ity_min(ty):
                uk = "less_or_equal"
            env = []
            sty_lo = INT_STYLES[(j + 2) % len(INT_STYLES)]
            sty_hi = INT_STYLES[(j * 5 + 5) % len(INT_STYLES)]
            items = []
            for s in shape:
                if s == "L":
                    items.append([tid(lk), EQ, tx(spell_int(ty, lo_v, sty_lo, env, "lo"))])
                else:
                    items.append([tid(uk), EQ, tx(spell_int(ty, hi_v, sty_hi, env, "hi"))])
            blocks = []
            sanitized = (j % 7 == 6)
            if sanitized:
                blocks.append(block("sanitize", [[tid("with"), EQ, tfn(j % 3, "p", "s")]]))
            if items:
                blocks.append(block("validate", items))
            blocks.append(derive_block(["Debug", "Arbitrary"]))
            d = Decl("ai%d" % (start + len(decls)), ty, attr(blocks), env=env, tags={"arb", "int"})
            d.bounds = [lo_v, hi_v]
            d.sanitized = sanitized and bool(items)
            d.has_san = sanitized
            d.default_arg = None
            decls.append(d)
        n += 1
    # hand-picked shapes: user constants named like locals an expansion might introduce, bound
    # expressions of untyped literals whose value depends on the inner type, custom validation
    def extra(ty, items, env, bounds, custom=False):
        blocks = [block("validate", items), derive_block(["Debug", "Arbitrary"])]
        d = Decl("ai%d" % (start + len(decls)), ty, attr(blocks), env=env, tags={"arb", "int"} | ({"arb_custom"} if custom else set()))
        d.bounds = bounds
        d.sanitized = False
        d.has_san = False
        d.default_arg = None
        decls.append(d)
    for ty, cname, cval, lk, lo_e, uk, hi_e, b in (
            ("u16", "MIN", 512, "greater_or_equal", lit("100"), "less", binop("mul", k("MIN"), lit("2")), [100, 1024]),
            ("u16", "MAX", 40, "greater", binop("add", k("MAX"), lit("2")), "less_or_equal", lit("300"), [42, 300]),
            ("i32", "MIN", -7, "greater_or_equal", k("MIN"), "less", binop("sub", lit_int(20), k("MIN")), [-7, 27]),
            ("u8", "RANGE", 9, "greater", k("RANGE"), "less", binop("mul", k("RANGE"), lit("3")), [9, 27]),
            ("i64", "DELTA", 3, "greater_or_equal", neg(k("DELTA")), "less_or_equal", k("DELTA"), [-3, 3]),
            ("u32", "LOWER", 5, "greater", k("LOWER"), "less", binop("add", k("LOWER"), lit("4")), [5, 9])):
        env = [(cname, ty, cval, "const %s: %s = %d;" % (cname, ty, cval))]
        extra(ty, [[tid(lk), EQ, tx(lo_e)], [tid(uk), EQ, tx(hi_e)]], env, b)
    for ty, kind, kk in (("u16", "greater", 4), ("u8", "less", 1), ("u32", "greater_or_equal", 20), ("u64", "less_or_equal", 60), ("usize", "greater", 50), ("u128", "less", 120)):
        signed, bits = INT_TYPES[ty]
        v = ((1 << bits) - 1) >> kk
        e = binop("shr", bnot(lit("0")), lit(str(kk)))
        extra(ty, [[tid(kind), EQ, tx(e if kk % 2 == 0 else par(e))]], [], [v, v])
    for ty in ("i32", "u8"):
        extra(ty, [[tid("with"), EQ, tfn(0, "p", "c")], [tid("error"), EQ, tpath("CErr")]], [], [0, 0], custom=True)
    # an idempotent sanitizer (clamp to 0..=100) beside bounds that are wider than its image: the raw
    # draw and the stored value differ, the stored value must be the sanitized one
    for ty, lo_v, hi_v in (("i32", -50, 120), ("u8", 0, 200), ("i64", 0, 100), ("u16", 20, 1000)):
        blocks = [block("sanitize", [[tid("with"), EQ, tfn(0, "p", "s")]]),
                  block("validate", [[tid("greater_or_equal"), EQ, tx(lit_int(lo_v))], [tid("less_or_equal"), EQ, tx(lit_int(hi_v))]]),
                  derive_block(["Debug", "Arbitrary"])]
        d = Decl("ai%d" % (start + len(decls)), ty, attr(blocks), env=[], tags={"arb", "int"})
        d.bounds = [lo_v, hi_v]
        d.sanitized = True
        d.has_san = True
        d.default_arg = None
        decls.append(d)
    # a declared default next to Arbitrary: the default must not influence what can be generated
    for ty, lo_v, hi_v, dv in (("u8", 1, 6, 4), ("i16", -2, 2, 0), ("u32", 0, 9, 9), ("i8", -128, 127, 5), ("u64", 10, 300, 10)):
        blocks = [block("validate", [[tid("greater_or_equal"), EQ, tx(lit_int(lo_v))], [tid("less_or_equal"), EQ, tx(lit_int(hi_v))]]),
                  [tid("default"), EQ, tx(lit_int(dv))], derive_block(["Debug", "Arbitrary", "Default"])]
        d = Decl("ai%d" % (start + len(decls)), ty, attr(blocks), env=[], tags={"arb", "int"})
        d.bounds = [lo_v, hi_v]
        d.sanitized = False
        d.has_san = False
        d.default_arg = ("i", dv)
        decls.append(d)
    return decls


ARB_FLOAT_SHAPES = [["F"], ["L"], ["U"], ["L", "U"], ["U", "L"], ["F", "L"], ["F", "U"], ["F", "L", "U"],
                    ["L", "F", "U"], ["L", "U", "F"], []]
ARB_FLOAT_PAIRS = [("0.0", "1.0"), ("-5.5", "1e3"), ("0.0", "10.0"), ("64.0", "65.0"), ("-100", "100"),
                   ("1e-40", "1e-39"), ("-3.0e38", "3.0e38"), ("16777216.0", "16777218.0"), ("-1.0", "0.0"),
                   ("0.1", "0.3"), ("-0.0", "0.0"), ("5", "7.25"), ("-65.0", "-64.0"), ("1e30", "2e30"),
                   # lower + fl(upper - lower) exceeds the upper bound for these (rounding of the range)
                   ("-1.1", "0.1"), ("-3.3", "0.1"), ("-956.078", "0.9478"),
                   # large magnitude, same sign (the distance does not overflow, base value + bound may)
                   ("3.0e38", "3.2e38"), ("-3.2e38", "-3.0e38")]
ARB_FLOAT_PAIRS_F64 = [("1.7e308", "1.75e308"), ("-1.75e308", "-1.7e308"), ("-1e308", "1e308")]


def gen_arb_anys(rng, tier, start=0):
    """other-type newtypes deriving Arbitrary (only allowed without validation): the sanitizer is the whole guard"""
    decls = []
    for k_, (san, generic) in enumerate(((0, False), (1, False), (2, False), (None, False), (0, True), (1, True))):
        blocks = []
        if san is not None:
            blocks.append(block("sanitize", [[tid("with"), EQ, tfn(san, "p" if not generic else "c00", "s")]]))
        blocks.append(derive_block(["Debug", "Clone", "PartialEq", "Arbitrary"]))
        if generic:
            d = Decl("aa%d" % (start + len(decls)), "Vec<T>", attr(blocks), tags={"arb", "any", "generic"}, name="W", generics=[("T", [])])
            d.inst = "<i32>"
            d.inner_concrete = "Vec<i32>"
        else:
            d = Decl("aa%d" % (start + len(decls)), "Vec<i32>", attr(blocks), tags={"arb", "any"})
        d.bounds = []
        d.default_arg = None
        d.sanitized = False
        d.has_san = san is not None
        decls.append(d)
    return decls


def gen_arb_floats(rng, tier, start=0):
    decls = []
    for ti, ty in enumerate(("f32", "f64")):
        is64 = FLOAT_TYPES[ty]
        per = 44 if tier == "quick" else 154
        pairs = ARB_FLOAT_PAIRS + (ARB_FLOAT_PAIRS_F64 if is64 else [])
        plan = []
        for j in range(per):
            plan.append((ARB_FLOAT_SHAPES[(j + ti) % len(ARB_FLOAT_SHAPES)], pairs[(j * 3 + ti) % len(pairs)],
                         LOWER[(j // 2) % 2], UPPER[(j // 3) % 2]))
        # large magnitudes and overshooting pairs in every one- and two-sided shape, inclusive and exclusive
        big = [p for p in pairs if p[0] in ("3.0e38", "-3.2e38", "1.7e308", "-1.75e308", "-1e308", "-1.1", "-956.078")]
        for pi, pr in enumerate(big):
            for si, shape in enumerate((["F", "L"], ["F", "U"], ["L"], ["U"], ["F", "L", "U"], ["L", "U"])):
                plan.append((shape, pr, LOWER[(pi + si) % 2], UPPER[(pi + si // 2) % 2]))
                if tier != "quick":
                    plan.append((shape, pr, LOWER[(pi + si + 1) % 2], UPPER[(pi + si // 2 + 1) % 2]))
        narrow = [("1.0", "1.000001"), ("1.0", "1.0000000000000002"), ("-2.000001", "-2.0"), ("0.0", "1e-7")]
        for pr in narrow:
            for shape in (["L", "U"], ["F", "L", "U"], ["U", "L"]):
                plan.append((shape, pr, "greater", "less_or_equal"))
                plan.append((shape, pr, "greater_or_equal", "less"))
                plan.append((shape, pr, "greater_or_equal", "less_or_equal"))
        for j, (shape, (lo_t, hi_t), lk, uk) in enumerate(plan):
            if "L" in shape and "U" in shape and fbits(lo_t, is64) & ~(1 << (63 if is64 else 31)) == 0 and fbits(hi_t, is64) & ~(1 << (63 if is64 else 31)) == 0:
                lk, uk = "greater_or_equal", "less_or_equal"
            env = []
            items = []
            bounds = []
            sty = FLOAT_STYLES[j % len(FLOAT_STYLES)]
            for s in shape:
                if s == "L":
                    items.append([tid(lk), EQ, tx(spell_float(ty, lo_t, sty, env, "lo"))])
                    bounds.append(fbits(lo_t, is64))
                elif s == "U":
                    items.append([tid(uk), EQ, tx(spell_float(ty, hi_t, FLOAT_STYLES[(j + 3) % len(FLOAT_STYLES)], env, "hi"))])
                    bounds.append(fbits(hi_t, is64))
                else:
                    items.append([tid("finite")])
            blocks = []
            if not items and j % 2:
                blocks.append(block("sanitize", [[tid("with"), EQ, tfn(j % 3, "p", "s")]]))
            if items:
                blocks.append(block("validate", items))
            blocks.append(derive_block(["Debug", "Arbitrary"]))
            d = Decl("af%d" % (start + len(decls)), ty, attr(blocks), env=env, tags={"arb", "float"})
            d.bounds = bounds
            d.shape = list(shape)
            d.kinds = (lk, uk)
            d.default_arg = None
            decls.append(d)
    # a `with` sanitizer beside validators: Arbitrary must be refused (the generator cannot know what the
    # sanitizer does to a value it placed inside the bounds)
    for ty in ("f32", "f64"):
        for vitems in ([[tid("greater"), EQ, tx(spell_float(ty, "0.0", "lit", [], "lo"))]],
                       [[tid("finite")], [tid("greater_or_equal"), EQ, tx(spell_float(ty, "0.5", "lit", [], "lo"))], [tid("less_or_equal"), EQ, tx(spell_float(ty, "9.5", "lit", [], "hi"))]]):
            blocks = [block("sanitize", [[tid("with"), EQ, tfn(1, "p", "s")]]), block("validate", vitems), derive_block(["Debug", "Arbitrary"])]
            d = Decl("af%d" % (start + len(decls)), ty, attr(blocks), env=[], tags={"arb", "float"})
            d.bounds = []
            d.shape = []
            d.kinds = ("greater", "less")
            d.default_arg = None
            decls.append(d)
    return decls


ARB_STR_SANS = [[], ["trim"], ["lowercase"], ["uppercase"], ["trim", "lowercase"], ["uppercase", "trim"]]
ARB_STR_VALS = [["min"], ["max"], ["min", "max"], ["not_empty"], ["not_empty", "min"], ["min", "not_empty"],
                ["not_empty", "max"], ["max", "min"], ["min0", "not_empty"], []]
ARB_STR_BOUNDS = [(0, 2), (1, 1), (2, 5), (3, 3), (1, 4), (65, 70), (100, 100)]


def gen_arb_strs(rng, tier, start=0):
    decls = []
    n = 60 if tier == "quick" else 300
    for j in range(n):
        sans = ARB_STR_SANS[j % len(ARB_STR_SANS)]
        vals = ARB_STR_VALS[(j // len(ARB_STR_SANS) + j) % len(ARB_STR_VALS)]
        mn, mx = ARB_STR_BOUNDS[(j * 3) % len(ARB_STR_BOUNDS)]
        env = []
        vitems = []
        for v in vals:
            if v == "min":
                vitems.append([tid("len_char_min"), EQ, tx(spell_int("usize", mn, USIZE_STYLES[j % len(USIZE_STYLES)], env, "mn"))])
            elif v == "min0":
                vitems.append([tid("len_char_min"), EQ, tx(lit("0"))])
            elif v == "max":
                vitems.append([tid("len_char_max"), EQ, tx(spell_int("usize", max(mx, 1), USIZE_STYLES[(j * 3 + 1) % len(USIZE_STYLES)], env, "mx"))])
            else:
                vitems.append([tid("not_empty")])
        blocks = []
        if sans:
            blocks.append(block("sanitize", [[tid(s)] for s in sans]))
        if vitems:
            blocks.append(block("validate", vitems))
        blocks.append(derive_block(["Debug", "Arbitrary"]))
        d = Decl("as%d" % (start + len(decls)), "String", attr(blocks), env=env, tags={"arb", "str"})
        d.sans = list(sans)
        d.vals = list(vals)
        d.default_arg = None
        decls.append(d)
    return decls


def le32(cp):
    return [cp & 0xff, (cp >> 8) & 0xff, (cp >> 16) & 0xff, (cp >> 24) & 0xff]


ARB_CHARS = [0x61, 0x20, 0xDF, 0x130, 0x2003, 0x85, 0x0, 0x3A3, 0xFB01, 0x149, 0x10FFFF, 0xD800, 0x110000 + 0x41, 0xA0]


def arb_byte_inputs(d, rng, tier):
    out = [[]]
    out += [[b] for b in range(256)]
    for ln in range(2, 65):
        out.append([0] * ln)
        out.append([255] * ln)
    for ln in (2, 3, 4, 5, 7, 8, 9, 12, 16, 17):
        out.append([0x80] + [0] * (ln - 1))
        out.append([0] * (ln - 1) + [0x80])
        out.append([0x7f] + [0xff] * (ln - 1))
        out.append([(i * 37 + 11) % 256 for i in range(ln)])
    nrand2 = 300 if tier == "quick" else 4000
    for _ in range(nrand2):
        out.append([rng.below(256), rng.below(256)])
    fam = d.family()
    if fam == "float":
        w = 8 if FLOAT_TYPES[d.inner] else 4
        specials = float_specials(FLOAT_TYPES[d.inner])
        for b in specials:
            out.append([(b >> (8 * i)) & 0xff for i in range(w)])
            out.append([(b >> (8 * i)) & 0xff for i in range(w)] * 2)
        for b in (0, 1, (1 << (8 * w)) - 1, (1 << (8 * w)) - 2, 1 << (8 * w - 1), (1 << (8 * w - 1)) - 1, 1 << (8 * w - 9)):
            out.append([(b >> (8 * i)) & 0xff for i in range(w)])
        for _ in range(120 if tier == "quick" else 3000):
            out.append([rng.below(256) for _ in range(w)])
        for _ in range(40 if tier == "quick" else 400):
            out.append([rng.below(256) for _ in range(rng.range(1, 3 * w))])
    elif fam == "str":
        for t in range(0, 6):
            for _ in range(14 if tier == "quick" else 120):
                seq = []
                for _ in range(rng.range(0, 7)):
                    seq += le32(rng.choice(ARB_CHARS))
                out.append([t] + seq)
        for c in ARB_CHARS:
            for t in (0, 1, 2, 3):
                out.append([t] + le32(c) * 4)
                out.append([t] + le32(0x20) + le32(c) + le32(0x20) + le32(c))
        for _ in range(40 if tier == "quick" else 600):
            out.append([rng.below(256) for _ in range(rng.range(1, 40))])
    else:
        for _ in range(60 if tier == "quick" else 1500):
            out.append([rng.below(256) for _ in range(rng.range(3, 18))])
    return out


# ---------------------------------------------------------------- message corpus (C16)

def gen_msg_decls(rng, tier):
    """single-validator declarations: the constructor's verdict is the validator's verdict"""
    decls = []
    int_types = ["i8", "u8", "i64", "u128"] if tier == "quick" else list(INT_TYPES)
    n = 0
    for ty in int_types:
        lo, hi = ity_min(ty), ity_max(ty)
        bvals = [b for b in (-5, 0, 7, 100, lo + 1, hi - 1) if lo <= b <= hi]
        for kind in LOWER + UPPER:
            for bi, b in enumerate(bvals):
                sty = ["lit", "const", "paren", "usermod", "userassoc"][(bi + n) % 5]
                # the bound 0 and the extremes' neighbours always also as plain literals (what a macro can special-case)
                for style in ([sty] if sty == "lit" or b not in (0, lo + 1, hi - 1) else ["lit", sty]):
                    env = []
                    e = spell_int(ty, b, style, env, "b")
                    d = Decl("mi%d" % n, ty, attr([block("validate", [[tid(kind), EQ, tx(e)]]),
                                                   derive_block(["Debug", "FromStr", "Deserialize"])]), env=env,
                             name=["T", "Amount", "Px", "ExitCodeError", "Error"][n % 5], tags={"msg", "int"})
                    d.bounds = [b]
                    d.vkind = kind
                    d.default_arg = None
                    decls.append(d)
                    n += 1
    n = 0
    for ty in ("f32", "f64"):
        is64 = FLOAT_TYPES[ty]
        for kind in LOWER + UPPER:
            for bi, bt in enumerate(["-5.5", "0.0", "64.0", "1e30", "-0.0", "0.1", "1.4142135623730951", "0.30000000000000004", "3.1415927", "16777216.0", "-2.7182817"]):
                env = []
                e = spell_float(ty, bt, ["lit", "const", "usermod", "lit", "const", "userassoc"][(bi + n) % 6], env, "b")
                d = Decl("mf%d" % n, ty, attr([block("validate", [[tid(kind), EQ, tx(e)]]),
                                               derive_block(["Debug", "FromStr", "Deserialize"])]), env=env,
                         name=["T", "Dist", "RoundingError"][n % 3], tags={"msg", "float"})
                d.bounds = [fbits(bt, is64)]
                d.vkind = kind
                d.default_arg = None
                decls.append(d)
                n += 1
    n = 0
    for kind in ("len_char_min", "len_char_max"):
        for b in (0, 1, 3, 5):
            for sty in ("lit", "const"):
                env = []
                e = spell_int("usize", b, sty, env, "b")
                d = Decl("ms%d" % n, "String", attr([block("validate", [[tid(kind), EQ, tx(e)]]),
                                                     derive_block(["Debug", "FromStr", "Deserialize"])]), env=env,
                         name=["T", "Name", "UserFacingError"][n % 3], tags={"msg", "str"})
                d.bounds = [b]
                d.vkind = kind
                d.default_arg = None
                decls.append(d)
                n += 1
    # numeric: the sentence of one bound next to a lax bound of the other side, every kind pairing
    n = 1000
    for ty, bsub, far_lo, far_hi in (("i32", 7, -100000, 100000), ("u8", 9, 0, 250), ("f64", "7.5", "-1e30", "1e30"), ("f32", "-0.0", "-1e30", "1e30")):
        flt = ty in FLOAT_TYPES
        mk = (lambda t: tx(spell_float(ty, t, "lit", [], "b"))) if flt else (lambda v: tx(lit_int(v)))
        for kind in LOWER + UPPER:
            comps = UPPER if kind in LOWER else LOWER
            for ck in comps:
                far = far_hi if kind in LOWER else far_lo
                if not flt and ck in ("greater", "less") and far in (0, 250) and ty == "u8":
                    far = 1 if kind in UPPER else 250
                subj = [tid(kind), EQ, mk(bsub)]
                comp = [tid(ck), EQ, mk(far)]
                for first in (True, False):
                    d = Decl("mc%d" % n, ty, attr([block("validate", [subj, comp] if first else [comp, subj]), derive_block(["Debug", "FromStr", "Deserialize"])]),
                             name=["T", "Level"][n % 2], tags={"msg", "float" if flt else "int"})
                    d.bounds = [fbits(bsub, FLOAT_TYPES[ty])] if flt else [bsub]
                    d.vkind = kind
                    d.companion = True
                    d.default_arg = None
                    decls.append(d)
                    n += 1
    n = len([d_ for d_ in decls if d_.id.startswith("ms")])
    # the sentence of one length rule next to a lax companion rule (never binding at the probes)
    for kind, comp in (("len_char_min", [tid("len_char_max"), EQ, tx(lit("40"))]), ("len_char_max", [tid("len_char_min"), EQ, tx(lit("0"))]),
                       ("len_char_min", [tid("not_empty")]), ("len_char_max", [tid("not_empty")])):
        for b in (2, 3, 5):
            for first in (True, False):
                env = []
                e = spell_int("usize", b, "lit" if first else "const", env, "b")
                subj = [tid(kind), EQ, tx(e)]
                d = Decl("ms%d" % n, "String", attr([block("validate", [subj, comp] if first else [comp, subj]),
                                                     derive_block(["Debug", "FromStr", "Deserialize"])]), env=env,
                         name=["T", "Name"][n % 2], tags={"msg", "str"})
                d.bounds = [b]
                d.vkind = kind
                d.companion = True
                d.default_arg = None
                decls.append(d)
                n += 1
    # other variants: the sentence has no bound
    for j, (inner, item) in enumerate([("String", [tid("not_empty")]), ("String", [tid("predicate"), EQ, tfn(0, "p", "p")]),
                                       ("String", [tid("regex"), EQ, tstr(REGEX_LITS[0])]), ("f64", [tid("finite")]),
                                       ("i32", [tid("predicate"), EQ, tfn(0, "p", "p")]),
                                       ("f32", [tid("predicate"), EQ, tfn(0, "p", "p")]),
                                       ("Vec<i32>", [tid("predicate"), EQ, tfn(0, "p", "p")])]):
        d = Decl("mo%d" % j, inner, attr([block("validate", [item]), derive_block(["Debug"])]), tags={"msg", "other"})
        d.vkind = item[0][1]
        d.default_arg = None
        decls.append(d)
    return decls


# ---------------------------------------------------------------- serde corpus (C04, C10)

def replace_derive(toks, traits, keep_default=False):
    out = []
    i = 0
    while i < len(toks):
        t = toks[i]
        if t[0] == "id" and t[1] == "derive" and i + 1 < len(toks) and toks[i + 1][0] == "g":
            out += derive_block(traits)
            i += 2
        elif t[0] == "id" and t[1] == "default" and not keep_default:
            # drop `default = ..` (and its separating comma) : Default is not derived here
            i += 3
            if i < len(toks) and toks[i][0] == "c":
                i += 1
            elif out and out[-1][0] == "c":
                out.pop()
        else:
            out.append(t)
            i += 1
    return out


def gen_serde_decls(rng, tier):
    k = 1 if tier == "quick" else 3
    base = (gen_int_guards(rng.fork("i"), per_type=7 * k) + gen_float_guards(rng.fork("f"), per_type=16 * k) +
            gen_str_guards(rng.fork("s"), n=56 * k) + gen_any_guards(rng.fork("a"), n=16 * k))
    out = []
    for d in base:
        if any(t[0] == "id" and t[1] == "const_fn" for t in d.toks):
            continue
        has_val = any(t[0] == "id" and t[1] == "validate" for t in d.toks)
        conv = ["TryFrom"] if len(out) % 2 == 0 else ([] if has_val else ["From"])
        # every other defaulted declaration keeps `default = ..` and derives Default: a default must not
        # leak into (de)serialization
        has_default = any(t[0] == "id" and t[1] == "default" for t in d.toks)
        keep = has_default and len(out) % 2 == 1
        parse = ["FromStr"] if d.family() in ("int", "float") else []
        d.toks = replace_derive(d.toks, ["Debug", "Clone", "PartialEq", "Serialize", "Deserialize"] + conv + parse + (["Default"] if keep else []),
                                keep_default=keep)
        d.id = "z" + d.id
        if d.name == "T":
            d.name = ["T", "Amount", "Px"][len(out) % 3]
        d.tags = set(d.tags) | {"serde"}
        d.default_arg = None
        out.append(d)
    # sanitize-only declarations whose declared default is NOT in sanitized form: the value Default hands out
    # must be the sanitized one (it is what comes back from its own serialization)
    extra = [("String", block("sanitize", [[tid("trim")], [tid("lowercase")]]), tx(estr(" Ab@ "))),
             ("String", block("sanitize", [[tid("with"), EQ, tfn(1, "p", "s")]]), tx(estr("abc"))),
             ("i32", block("sanitize", [[tid("with"), EQ, tfn(0, "p", "s")]]), tx(lit_int(101))),
             ("u8", block("sanitize", [[tid("with"), EQ, tfn(0, "p", "s")]]), tx(lit_int(200))),
             ("f64", block("sanitize", [[tid("with"), EQ, tfn(0, "p", "s")]]), tx(lit("101.5")))]
    for k_, (ty, san, dflt) in enumerate(extra):
        blocks = [san, [tid("default"), EQ, dflt], derive_block(["Debug", "Clone", "PartialEq", "Serialize", "Deserialize", "Default", "From"])]
        d = Decl("zx%d" % k_, ty, attr(blocks), env=[], tags={"guard", "serde", {"String": "str", "f64": "float"}.get(ty, "int")})
        d.bounds = []
        d.default_arg = None
        out.append(d)
    return out
