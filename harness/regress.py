#!/usr/bin/env python3
"""Regression sweep over the stored seeded changes: apply each patch to the repository named by
NUTYPE_REPO (a scratch copy, never /repo itself unless asked), run the quick check of the
property the change breaks, undo the patch, and print one line per change.

usage: NUTYPE_REPO=/path/to/copy python3 harness/regress.py [name-prefix ...]
exit 0 iff every change was caught by the check of its own property (or is listed in its
meta.json as caught by a neighbouring property only)."""
import sys, os, json, glob, subprocess, time

VERIF = os.path.dirname(os.path.dirname(os.path.abspath(__file__)))
REPO = os.environ.get("NUTYPE_REPO", "/repo")


def sh(cmd, **kw):
    return subprocess.run(cmd, shell=True, text=True, stdout=subprocess.PIPE, stderr=subprocess.STDOUT, **kw)


def refactorings(names):
    """behaviour-preserving refactorings (refactorings/<name>/patch.diff): all 16 quick checks must stay silent"""
    props = ["C%02d" % i for i in range(1, 17)]
    alarms = []
    for n in names:
        patch = os.path.join(VERIF, "refactorings", n, "patch.diff")
        r = sh("git apply --whitespace=nowarn %s" % patch, cwd=REPO)
        if r.returncode != 0:
            print("%s APPLY-FAILED %s" % (n, r.stdout.strip()[:200]), flush=True)
            alarms.append(n)
            continue
        t0 = time.time()
        bad = []
        try:
            for c in props:
                p = sh("./check %s --tier quick" % c, cwd=VERIF)
                if p.returncode != 0:
                    bad.append((c, p.returncode, [l for l in p.stdout.splitlines() if l.startswith("VIOLATION")][:2]))
        finally:
            sh("git apply -R --whitespace=nowarn %s" % patch, cwd=REPO)
            sh("rm -rf %s/replays" % VERIF)
        print("%s %s %.0fs" % (n, ("ALARMS %s" % bad) if bad else "silent", time.time() - t0), flush=True)
        if bad:
            alarms.append(n)
    print("done: %d refactorings, alarms on %s" % (len(names), alarms), flush=True)
    return 1 if alarms else 0


def main():
    if len(sys.argv) > 1 and sys.argv[1] == "--refactorings":
        names = sys.argv[2:] or sorted(os.listdir(os.path.join(VERIF, "refactorings")))
        return refactorings(names)
    want = sys.argv[1:]
    names = sorted(os.path.basename(os.path.dirname(m)) for m in glob.glob(os.path.join(VERIF, "seeded", "*", "meta.json")))
    if want:
        names = [n for n in names if any(n.startswith(w) for w in want)]
    missed = []
    t_all = time.time()
    for n in names:
        d = os.path.join(VERIF, "seeded", n)
        meta = json.load(open(os.path.join(d, "meta.json")))
        prop = meta.get("property") or n[:3]
        own = meta.get("detected_by_own_property_check", True)
        checks = [prop] if own else [c for c in meta.get("detected_by", []) if c.startswith("C")][:1] or [prop]
        r = sh("git apply --whitespace=nowarn %s" % os.path.join(d, "patch.diff"), cwd=REPO)
        if r.returncode != 0:
            print("%s APPLY-FAILED %s" % (n, r.stdout.strip()[:200]), flush=True)
            missed.append(n)
            continue
        t0 = time.time()
        try:
            res = []
            for c in checks:
                p = sh("./check %s --tier quick" % c, cwd=VERIF)
                nv = sum(1 for l in p.stdout.splitlines() if l.startswith("VIOLATION"))
                res.append((c, p.returncode, nv))
        finally:
            sh("git apply -R --whitespace=nowarn %s" % os.path.join(d, "patch.diff"), cwd=REPO)
            sh("rm -rf %s/replays" % VERIF)
        caught = any(rc == 1 and nv > 0 for _, rc, nv in res)
        broken = any(rc not in (0, 1) for _, rc, _ in res)
        print("%s %s %s %.0fs" % (n, "caught" if caught else ("CHECK-ERROR" if broken else "MISSED"), res, time.time() - t0), flush=True)
        if not caught:
            missed.append(n)
    print("done: %d changes, %d not caught: %s (%.0f min)" % (len(names), len(missed), missed, (time.time() - t_all) / 60), flush=True)
    return 1 if missed else 0


if __name__ == "__main__":
    sys.exit(main())
