"""Shared paths and helpers for the nutype verification harness."""
import os, sys, json, subprocess, hashlib, time, fcntl, contextlib

VERIF = os.path.dirname(os.path.dirname(os.path.abspath(__file__)))
REPO = os.environ.get("NUTYPE_REPO", "/repo")
BUILD = os.path.join(VERIF, "build")
COQ = os.path.join(VERIF, "coq")
EVIDENCE = os.path.join(VERIF, "evidence")
REPLAYS = os.path.join(VERIF, "replays")
NPROC = os.cpu_count() or 4

ENV = dict(os.environ)
ENV.update({"CARGO_NET_OFFLINE": "true", "RUSTC_BOOTSTRAP": "1"})
ENV.pop("RUSTFLAGS", None)


def log(*a):
    print(*a, file=sys.stderr, flush=True)


def ensure_dev_null():
    """In this sandbox /dev/null can be a REGULAR file that collects whatever was redirected into it; cargo hands
    it to its `rustc -` probe as the source text and the probe then fails on the garbage (seen as a build
    failure no declaration can be blamed for).  A regular /dev/null is truncated before cargo runs."""
    try:
        import stat
        st = os.stat("/dev/null")
        if stat.S_ISREG(st.st_mode) and st.st_size:
            open("/dev/null", "w").close()
    except OSError:
        pass


def run(cmd, cwd=None, timeout=None, env=None, check=False, input=None):
    if cmd and cmd[0] == "cargo":
        ensure_dev_null()
    p = subprocess.run(cmd, cwd=cwd, env=env or ENV, timeout=timeout, input=input,
                       stdout=subprocess.PIPE, stderr=subprocess.PIPE, text=True)
    if check and p.returncode != 0:
        raise RuntimeError("command failed: %s\n%s\n%s" % (cmd, p.stdout[-4000:], p.stderr[-4000:]))
    return p


def sha(s):
    return hashlib.sha256(s.encode() if isinstance(s, str) else s).hexdigest()


def write_if_changed(path, content):
    os.makedirs(os.path.dirname(path), exist_ok=True)
    try:
        with open(path) as f:
            if f.read() == content:
                return False
    except FileNotFoundError:
        pass
    with open(path, "w") as f:
        f.write(content)
    return True


@contextlib.contextmanager
def flock(name):
    os.makedirs(BUILD, exist_ok=True)
    path = os.path.join(BUILD, name + ".lock")
    with open(path, "w") as f:
        fcntl.flock(f, fcntl.LOCK_EX)
        try:
            yield
        finally:
            fcntl.flock(f, fcntl.LOCK_UN)


class Rng:
    """xorshift64* - every random choice of a run derives from VERIF_SEED through this."""
    def __init__(self, seed):
        self.s = (seed * 0x9E3779B97F4A7C15 + 0x1234567) & 0xFFFFFFFFFFFFFFFF or 1

    def next(self):
        s = self.s
        s ^= (s >> 12)
        s ^= (s << 25) & 0xFFFFFFFFFFFFFFFF
        s ^= (s >> 27)
        self.s = s
        return (s * 0x2545F4914F6CDD1D) & 0xFFFFFFFFFFFFFFFF

    def below(self, n):
        return self.next() % n

    def choice(self, l):
        return l[self.below(len(l))]

    def range(self, lo, hi):
        return lo + self.below(hi - lo + 1)

    def shuffle(self, l):
        l = list(l)
        for i in range(len(l) - 1, 0, -1):
            j = self.below(i + 1)
            l[i], l[j] = l[j], l[i]
        return l

    def fork(self, tag):
        return Rng(int(sha("%d/%s" % (self.s, tag))[:15], 16))


def seed():
    try:
        return int(os.environ.get("VERIF_SEED", "1"))
    except ValueError:
        return 1
