#!/usr/bin/env python3
"""Differential self-test: Gallina u_trim/u_lower/u_upper (run by coqc with
vm_compute) against Rust trim/to_lowercase/to_uppercase.

Single-char strings: BOTH sides enumerate all 1,112,064 scalar values and
report exactly those whose result differs from the input, with the result;
the two reports must be identical (so agreement holds for every scalar).
Multi-char strings: Rust's expected outputs are embedded in a Coq file and
compared inside Coq; the list of disagreeing cases is printed."""
import os
import re
import subprocess
import sys

HERE = os.path.dirname(os.path.abspath(__file__))
COQ = os.path.join(HERE, "..", "coq")


def rust():
    subprocess.run(["cargo", "build", "--release", "--offline", "--quiet"],
                   cwd=HERE, check=True)
    exe = os.path.join(HERE, "target", "release", "unitest")
    return subprocess.run([exe], check=True, capture_output=True,
                          text=True).stdout


def lst(nums):
    return "[" + "; ".join(str(x) for x in nums) + "]"


def main():
    s1 = {"S1TRIM": {}, "S1LOWER": {}, "S1UPPER": {}}
    cases = []
    nsingle = None
    for line in rust().splitlines():
        tag, _, rest = line.partition(" ")
        if tag in s1:
            nums = [int(x) for x in rest.split()]
            s1[tag][nums[0]] = nums[1:]
        elif tag == "NSINGLE":
            nsingle = int(rest)
        elif tag == "CASE":
            cases.append([[int(x) for x in part.split()]
                          for part in rest.split("|")])
    assert nsingle == 0x110000 - 0x800

    v = [
        "From Coq Require Import NArith List Bool.",
        "From NV.Unicode Require Import UnicodeData UStr.",
        "Import ListNotations.",
        "Local Open Scope N_scope.",
        "Fixpoint leqb (a b : list N) : bool :=",
        "  match a, b with",
        "  | [], [] => true",
        "  | x :: a', y :: b' => (x =? y) && leqb a' b'",
        "  | _, _ => false",
        "  end.",
        "Definition is_scalar (c : N) : bool := (c <? 55296) || (57343 <? c).",
        "(* all scalar values c with f [c] <> [c], as c :: f [c] *)",
        "Definition scan (f : list N -> list N) : list (list N) :=",
        "  snd (N.iter 1114112",
        "    (fun st => let c := fst st in",
        "       (N.succ c,",
        "        if is_scalar c",
        "        then let r := f [c] in if leqb r [c] then snd st else (c :: r) :: snd st",
        "        else snd st))",
        "    (0, [])).",
        "Definition count_scalars : N :=",
        "  snd (N.iter 1114112",
        "    (fun st => (N.succ (fst st), if is_scalar (fst st) then N.succ (snd st) else snd st))",
        "    (0, 0)).",
        "Definition cases : list (list N * (list N * (list N * list N))) := [",
    ]
    v.append(";\n".join("  (%s, (%s, (%s, %s)))" % tuple(lst(p) for p in c)
                        for c in cases))
    v += [
        "].",
        "Definition bad := filter (fun c =>",
        "  negb (leqb (u_trim (fst c)) (fst (snd c)) &&",
        "        leqb (u_lower (fst c)) (fst (snd (snd c))) &&",
        "        leqb (u_upper (fst c)) (snd (snd (snd c))))) cases.",
        "Eval vm_compute in [[count_scalars; N.of_nat (length cases)]].",
        "Eval vm_compute in scan u_trim.",
        "Eval vm_compute in scan u_lower.",
        "Eval vm_compute in scan u_upper.",
        "Eval vm_compute in map (fun c => fst c) bad.",
    ]
    path = os.path.join(HERE, "Diff.v")
    with open(path, "w") as fh:
        fh.write("\n".join(v) + "\n")
    out = subprocess.run(["coqc", "-Q", COQ, "NV", path], check=True,
                         capture_output=True, text=True, timeout=1500).stdout
    blocks = re.split(r"^\s+= ", out, flags=re.M)[1:]
    assert len(blocks) == 5, len(blocks)

    def parse(block):
        body = block.split("\n     : ")[0]
        return [[int(x) for x in re.findall(r"\d+", g)]
                for g in re.findall(r"\[([^\[\]]*)\]", body)
                if g.strip() or True]

    def parse_groups(block):
        body = block.split("\n     : ")[0].strip()
        if re.fullmatch(r"\[\s*\]", body):
            return []
        return parse(block)

    (ncoq, ncases), = parse_groups(blocks[0])
    assert ncoq == nsingle and ncases == len(cases), (ncoq, ncases)
    mism = 0
    for tag, blk in (("S1TRIM", blocks[1]), ("S1LOWER", blocks[2]),
                     ("S1UPPER", blocks[3])):
        got = {g[0]: g[1:] for g in parse_groups(blk)}
        exp = s1[tag]
        diff = sorted(k for k in set(got) | set(exp) if got.get(k) != exp.get(k))
        print("%-7s single-char strings: %d examined on both sides, %d non-identity "
              "(Rust) / %d (Gallina), %d mismatches"
              % (tag[2:].lower(), nsingle, len(exp), len(got), len(diff)))
        for k in diff[:20]:
            print("   U+%04X rust=%s gallina=%s" % (k, exp.get(k), got.get(k)))
        mism += len(diff)
    badl = parse_groups(blocks[4])
    by_len = {}
    for c in cases:
        by_len[len(c[0])] = by_len.get(len(c[0]), 0) + 1
    print("multi-char cases (x3 functions): %d  by length %s, %d mismatching inputs"
          % (len(cases), dict(sorted(by_len.items())), len(badl)))
    for b in badl[:20]:
        print("   mismatch on input", b)
    mism += len(badl)
    total = 3 * nsingle + 3 * len(cases)
    print("TOTAL comparisons: %d, mismatches: %d" % (total, mism))
    sys.exit(1 if mism else 0)


if __name__ == "__main__":
    main()
