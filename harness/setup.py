"""./check --setup : build everything from files on disk, offline."""
import sys, time
from common import *
import engine


def main():
    t0 = time.time()
    ok, log_ = engine.build_coq()
    if not ok:
        print(log_[-4000:])
        print("setup: coq build failed")
        return 1
    log("setup: coq development built in %.0fs" % (time.time() - t0))
    engine.build_model()
    log("setup: extracted model built")
    # warm the cargo caches of the shared corpora (quick tier)
    import props, flows, guardcorpus
    rng = Rng(seed()).fork("C01")
    g = props.make_guard_run("quick", rng)
    g.build()
    log("setup: guard workspace built (%.0fs total)" % (time.time() - t0))
    return 0
