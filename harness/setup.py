"""./check --setup : build everything from files on disk, offline."""
import sys, time, os
from common import *
import engine


def main():
    t0 = time.time()
    # Unicode tables of this toolchain's std -> coq/Unicode/UnicodeData.v (proofs re-run on them)
    p = run([sys.executable, os.path.join(VERIF, "harness", "gen_unicode.py")])
    if p.returncode != 0:
        print(p.stdout[-2000:], p.stderr[-2000:])
        print("setup: unicode table generation failed")
        return 1
    ok, log_ = engine.build_coq()
    if not ok:
        print(log_[-4000:])
        print("setup: coq build failed")
        return 1
    log("setup: coq development built in %.0fs" % (time.time() - t0))
    engine.build_model()
    log("setup: extracted model built")
    # warm the cargo caches of the shared corpora (quick tier)
    import props, flows, guardcorpus
    rng = Rng(seed()).fork("C01")
    g = props.make_guard_run("quick", rng)
    g.build()
    flows.build_inv()
    log("setup: guard workspace built (%.0fs total)" % (time.time() - t0))
    return 0
