"""Implementation side of the correspondence: renders declarations into generated shard
crates that depend on /repo/nutype by path, builds them offline and runs operations."""
import os, shutil, json, re
from concurrent.futures import ThreadPoolExecutor
from common import *
from syntax import INT_TYPES, FLOAT_TYPES, expr_rust
import rtgen

NSHARDS = 16
FEATURES_ALL = ["std", "serde", "regex", "arbitrary", "new_unchecked"]

VARIANTS = {
    "greater": "GreaterViolated", "greater_or_equal": "GreaterOrEqualViolated",
    "less": "LessViolated", "less_or_equal": "LessOrEqualViolated",
    "predicate": "PredicateViolated", "finite": "FiniteViolated",
    "len_char_min": "LenCharMinViolated", "len_char_max": "LenCharMaxViolated",
    "not_empty": "NotEmptyViolated", "regex": "RegexViolated",
}


def fn_render(inner):
    suf = rtgen.fn_suffix(inner)
    pty = "&str" if inner == "String" else "&" + inner

    def r(tok):
        _, fid, form, role = tok
        name = "%s%d_%s" % (role, fid, suf)
        if form == "p":
            return name
        if form == "r00":
            return "|v| { if v.starts_with(' ') { return %s(v); } %s(v) }" % (name, name)
        typed = form[1] == "1"
        mut = form[2] == "1"
        if role == "s":
            ann = (": " + inner) if typed else ""
            if mut:
                return "|mut v%s| { v = %s(v); v }" % (ann, name)
            return "|v%s| %s(v)" % (ann, name)
        ann = (": " + pty) if typed else ""
        return "|v%s| %s(v)" % (ann, name)
    return r


def toks_rust(ts, fr):
    from syntax import rust_str
    out = []
    for t in ts:
        tag = t[0]
        if tag == "id":
            out.append(t[1])
        elif tag == "c":
            out.append(",")
        elif tag == "e":
            out.append("=")
        elif tag == "g":
            out.append("(" + toks_rust(t[1], fr) + ")")
        elif tag == "str":
            out.append(rust_str(t[1]))
        elif tag == "x":
            out.append(expr_rust(t[1]))
        elif tag == "fn":
            out.append(fr(t))
        elif tag == "path":
            out.append(t[1])
    return " ".join(out)


def find_block(toks, name):
    for i, t in enumerate(toks):
        if t[0] == "id" and t[1] == name and i + 1 < len(toks) and toks[i + 1][0] == "g":
            return toks[i + 1][1]
    return None


def block_idents(ts):
    """leading identifier of each comma-separated item"""
    out, first = [], True
    for t in ts:
        if t[0] == "c":
            first = True
        elif first:
            if t[0] == "id":
                out.append(t[1])
            first = False
    return out


class DeclInfo:
    """facts about a (well-formed) declaration the run() generator needs"""

    def __init__(self, d):
        self.d = d
        v = find_block(d.toks, "validate")
        self.vkinds = block_idents(v) if v is not None else []
        self.has_validation = v is not None
        self.custom = "with" in self.vkinds
        dv = find_block(d.toks, "derive")
        self.traits = block_idents(dv) if dv is not None else []
        self.has_default = any(t[0] == "id" and t[1] == "default" for t in d.toks)
        self.new_unchecked = any(t[0] == "id" and t[1] == "new_unchecked" for t in d.toks)


def decl_module(d, ops_wanted):
    """Rust module for one accepted declaration, with fn run(op, arg) -> String"""
    info = DeclInfo(d)
    inner = d.inner
    T = d.name
    fr = fn_render(inner)
    consts = "".join("    %s\n" % c[3] for c in d.env if c[3])
    gens = ""
    if d.generics:
        gens = "<" + ", ".join(g + (": " + " + ".join(bs) if bs else "") for g, bs in d.generics) + ">"
    attrs = "".join("    " + a[1] + "\n" for a in d.attrs)
    from syntax import VIS_RUST
    vis = VIS_RUST[d.vis]
    struct = d.rust_struct(toks_rust(d.toks, fr))
    inst = d.inst if hasattr(d, "inst") else ""      # e.g. "<i32>" for generic wrappers
    TT = T + inst
    inner_c = d.inner_concrete if hasattr(d, "inner_concrete") else inner
    lines = []
    lines.append("pub mod %s {" % d.id)
    lines.append("    #![allow(dead_code, unused_imports, unused_variables, non_camel_case_types, clippy::all)]")
    lines.append("    use super::rt::*;")
    lines.append("    use nutype::nutype;")
    lines.append("    use core::str::FromStr;")
    lines.append("    use core::convert::TryFrom;")
    lines.append(consts)
    lines.append(d.extra_items)
    lines.append(struct)
    if getattr(d, "no_run", False):
        lines.append('    pub fn run(op: &str, arg: &str) -> ::std::string::String { ::std::string::String::from("na") }')
        lines.append("}")
        return "\n".join(lines)
    lines.append("    type Inner = %s;" % inner_c)
    lines.append("    type TT = %s;" % TT)
    if "Deserialize" in info.traits:
        lines.append("    #[derive(serde::Deserialize)] struct HolderT { a: TT }")
        lines.append("    #[derive(serde::Deserialize)] struct HolderI { a: Inner }")
        # the keys of a map, whatever traits the key type has
        lines.append("    struct Keys<K>(Vec<K>);")
        lines.append("    impl<'de, K: serde::Deserialize<'de>> serde::Deserialize<'de> for Keys<K> { fn deserialize<DD: serde::Deserializer<'de>>(d: DD) -> Result<Self, DD::Error> { "
                     "struct KV<K>(core::marker::PhantomData<K>); "
                     "impl<'de, K: serde::Deserialize<'de>> serde::de::Visitor<'de> for KV<K> { type Value = Keys<K>; "
                     "fn expecting(&self, f: &mut core::fmt::Formatter) -> core::fmt::Result { f.write_str(\"a map\") } "
                     "fn visit_map<A: serde::de::MapAccess<'de>>(self, mut m: A) -> Result<Keys<K>, A::Error> { let mut out = Vec::new(); "
                     "while let Some(k) = m.next_key::<K>()? { let _ = m.next_value::<serde::de::IgnoredAny>()?; out.push(k); } Ok(Keys(out)) } } "
                     "d.deserialize_map(KV(core::marker::PhantomData)) } }")
    if info.has_validation:
        if info.custom:
            lines.append("    fn ename(e: &CErr) -> String { format!(\"errc {}\", e.0) }")
        else:
            arms = "".join(" %sError::%s => \"err %s\"," % (T, VARIANTS[k], VARIANTS[k]) for k in info.vkinds)
            lines.append("    fn ename(e: &%sError) -> String { (match e {%s }).to_string() }" % (T, arms))
        ctor = "match TT::try_new(raw) { Ok(v) => ok(v.into_inner()), Err(e) => ename(&e) }"
    else:
        ctor = "ok(TT::new(raw).into_inner())"
    arms = []
    argp = "let raw = <Inner as Arg>::parse(arg);"
    if info.has_validation:
        arms.append('"try_new" => guard(|| { %s %s }),' % (argp, ctor))
    else:
        arms.append('"new" => guard(|| { %s %s }),' % (argp, ctor))
    if "TryFrom" in info.traits:
        if info.has_validation:
            arms.append('"try_from" => guard(|| { %s match TT::try_from(raw) { Ok(v) => ok(v.into_inner()), Err(e) => ename(&e) } }),' % argp)
        else:
            arms.append('"try_from" => guard(|| { %s match TT::try_from(raw) { Ok(v) => ok(v.into_inner()), Err(_) => "unreachable".to_string() } }),' % argp)
        if inner == "String":
            if info.has_validation:
                arms.append('"try_from_ref" => guard(|| { %s match TT::try_from(raw.as_str()) { Ok(v) => ok(v.into_inner()), Err(e) => ename(&e) } }),' % argp)
            else:
                arms.append('"try_from_ref" => guard(|| { %s match TT::try_from(raw.as_str()) { Ok(v) => ok(v.into_inner()), Err(_) => "unreachable".to_string() } }),' % argp)
    if "From" in info.traits:
        arms.append('"from" => guard(|| { %s ok(TT::from(raw).into_inner()) }),' % argp)
        if inner == "String":
            arms.append('"from_ref" => guard(|| { %s ok(TT::from(raw.as_str()).into_inner()) }),' % argp)
    if "FromStr" in info.traits:
        if inner == "String":
            if info.has_validation:
                arms.append('"from_str_s" => guard(|| { %s match TT::from_str(raw.as_str()) { Ok(v) => ok(v.into_inner()), Err(e) => ename(&e) } }),' % argp)
            else:
                arms.append('"from_str_s" => guard(|| { %s match TT::from_str(raw.as_str()) { Ok(v) => ok(v.into_inner()), Err(_) => "unreachable".to_string() } }),' % argp)
        else:
            # arg is a string value; report the inner parse (oracle) alongside
            pe = T + "ParseError"
            if info.has_validation:
                m = "match TT::from_str(s.as_str()) { Ok(v) => ok(v.into_inner()), Err(%s::Parse(_)) => \"parse_err\".to_string(), Err(%s::Validate(e)) => ename(&e) }" % (pe, pe)
            else:
                m = "match TT::from_str(s.as_str()) { Ok(v) => ok(v.into_inner()), Err(%s::Parse(_)) => \"parse_err\".to_string() }" % pe
            arms.append('"from_str" => guard(|| { let s = <String as Arg>::parse(arg); let p = <Inner as FromStr>::from_str(s.as_str()); let o = match &p { Ok(x) => x.show(), Err(_) => "none".to_string() }; let c = match p { Ok(raw) => { %s }, Err(_) => "-".to_string() }; format!("{} ## {} ## {}", %s, o, c) }),' % (ctor, m))
    if "Display" in info.traits and d.family() == "int":
        if info.has_validation:
            arms.append('"show_i" => guard(|| { %s match TT::try_new(raw) { Ok(v) => v.to_string().show(), Err(_) => "rejected".to_string() } }),' % argp)
        else:
            arms.append('"show_i" => guard(|| { %s TT::new(raw).to_string().show() }),' % argp)
    if "Default" in info.traits and info.has_default:
        arms.append('"default" => guard(|| ok(TT::default().into_inner())),')
    if info.has_validation and not info.custom:
        parts = ", ".join('format!("%s={}", %sError::%s)' % (VARIANTS[k], T, VARIANTS[k]) for k in info.vkinds)
        arms.append('"msgs" => guard(|| { let v: Vec<String> = vec![%s]; v.join(" | ") }),' % parts)
    if "FromStr" in info.traits and info.has_validation:
        arms.append('"from_str_msg" => guard(|| { let s = <String as Arg>::parse(arg); match TT::from_str(s.as_str()) { Ok(_) => "ok".to_string(), Err(e) => e.to_string() } }),')
    if "Deserialize" in info.traits and info.has_validation and not info.custom:
        # the serde error of a rejected value embeds the validation sentence, whatever the format
        arms.append('"de_msg" => guard(|| { let x = <Inner as Arg>::parse(arg); let want = match TT::try_new(x.clone()) { Ok(_) => return "accepted".to_string(), Err(e) => e.to_string() }; '
                    # (a format may not carry the inner type at all - MessagePack and 128-bit integers - and a text
                    # format may read a neighbouring float back as another value: only errors of the newtype are inspected)
                    'let e1 = match rmp_serde::to_vec(&x) { Ok(mp) => rmp_serde::from_slice::<TT>(&mp).err().map(|e| e.to_string().contains(&want)).unwrap_or(true), Err(_) => true }; '
                    'let e2 = match serde_json::to_string(&x) { Ok(js) => serde_json::from_str::<TT>(&js).err().map(|e| e.to_string().contains(&want)).unwrap_or(true), Err(_) => true }; '
                    'let e3 = match ron::to_string(&x) { Ok(rn) => ron::from_str::<TT>(&format!("({})", rn)).err().map(|e| e.to_string().contains(&want)).unwrap_or(true), Err(_) => true }; '
                    'format!("mp={} json={} ron={}", b(e1), b(e2), b(e3)) }),')
    if "Deserialize" in info.traits:
        cs = ("match TT::try_new(%s) { Ok(v) => ok(v.into_inner()), Err(e) => ename(&e) }" if info.has_validation
              else "ok(TT::new(%s).into_inner())")
        mko = "TT::try_new(%s).ok()" if info.has_validation else "Some(TT::new(%s))"
        sername = T
        for fmt, parse_t, parse_i, argp in (
                ("json", "serde_json::from_str::<TT>(&doc)", "serde_json::from_str::<Inner>(&doc)", "let doc = <String as Arg>::parse(arg);"),
                ("ron", "ron::from_str::<TT>(&format!(\"%s({})\", doc))" % sername, "ron::from_str::<Inner>(&doc)", "let doc = <String as Arg>::parse(arg);"),
                ("mp", "rmp_serde::from_slice::<TT>(&doc)", "rmp_serde::from_slice::<Inner>(&doc)", "let doc = bytes_arg(arg);"),
                # serde's own value deserializers: the value itself, and a one-element sequence (formats
                # built on forward_to_deserialize_any! hand a newtype struct to visit_seq / visit_<prim>)
                ("self", "<TT as serde::Deserialize>::deserialize(serde::de::IntoDeserializer::<serde::de::value::Error>::into_deserializer(doc.clone()))",
                 "<Inner as serde::Deserialize>::deserialize(serde::de::IntoDeserializer::<serde::de::value::Error>::into_deserializer(doc.clone()))",
                 "let doc = <Inner as Arg>::parse(arg);"),
                ("seq1", "<TT as serde::Deserialize>::deserialize(serde::de::value::SeqDeserializer::<_, serde::de::value::Error>::new(std::iter::once(doc.clone())))",
                 "<Inner as serde::Deserialize>::deserialize(serde::de::value::SeqDeserializer::<_, serde::de::value::Error>::new(std::iter::once(doc.clone())))",
                 "let doc = <Inner as Arg>::parse(arg);")):
            if fmt in ("self", "seq1") and inner not in INT_TYPES and inner not in FLOAT_TYPES and inner != "String":
                continue
            arms.append('"de_%s" => guard(|| { %s let r = %s; let i = %s; '
                        'let exp = match &i { Ok(x) => { let x = x.clone(); %s }, Err(_) => "de_err".to_string() }; '
                        'let oracle = match &i { Ok(x) => x.show(), Err(_) => "none".to_string() }; '
                        'let got = match r { Ok(v) => ok(v.into_inner()), Err(e) => format!("de_err {}", e) }; '
                        'format!("{} ## {} ## {}", got, oracle, exp) }),' % (fmt, argp, parse_t, parse_i, cs % "x"))
        # nested positions (JSON): Vec, Option, struct field, map value
        arms.append('"de_json_vec" => guard(|| { let doc = <String as Arg>::parse(arg); '
                    'let r = serde_json::from_str::<Vec<TT>>(&doc).ok().map(|v| v.into_iter().map(|t| t.into_inner().show()).collect::<Vec<_>>().join(";")); '
                    'let e = serde_json::from_str::<Vec<Inner>>(&doc).ok().and_then(|xs| xs.into_iter().map(|x| %s.map(|t| t.into_inner().show())).collect::<Option<Vec<_>>>()).map(|v| v.join(";")); '
                    'format!("{:?} ## - ## {:?}", r, e) }),' % (mko % "x"))
        arms.append('"de_json_opt" => guard(|| { let doc = <String as Arg>::parse(arg); '
                    'let r = serde_json::from_str::<Option<TT>>(&doc).ok().map(|v| v.map(|t| t.into_inner().show())); '
                    'let e = serde_json::from_str::<Option<Inner>>(&doc).ok().and_then(|o| match o { None => Some(None), Some(x) => %s.map(|t| Some(t.into_inner().show())) }); '
                    'format!("{:?} ## - ## {:?}", r, e) }),' % (mko % "x"))
        arms.append('"de_json_struct" => guard(|| { let doc = <String as Arg>::parse(arg); '
                    'let r = serde_json::from_str::<HolderT>(&doc).ok().map(|h| h.a.into_inner().show()); '
                    'let e = serde_json::from_str::<HolderI>(&doc).ok().and_then(|h| %s.map(|t| t.into_inner().show())); '
                    'format!("{:?} ## - ## {:?}", r, e) }),' % (mko % "h.a"))
        arms.append('"de_json_map" => guard(|| { let doc = <String as Arg>::parse(arg); '
                    'let r = serde_json::from_str::<std::collections::BTreeMap<String, TT>>(&doc).ok().map(|m| m.into_iter().map(|(k, t)| format!("{}={}", k, t.into_inner().show())).collect::<Vec<_>>().join(";")); '
                    'let e = serde_json::from_str::<std::collections::BTreeMap<String, Inner>>(&doc).ok().and_then(|m| m.into_iter().map(|(k, x)| %s.map(|t| format!("{}={}", k, t.into_inner().show()))).collect::<Option<Vec<_>>>()).map(|v| v.join(";")); '
                    'format!("{:?} ## - ## {:?}", r, e) }),' % (mko % "x"))
        if "Clone" in info.traits:
            # deserialize_in_place on a live value: on success the place holds what a fresh deserialization
            # gives, on failure it still holds the value it held before
            arms.append('"de_inplace" => guard(|| { let (a1, a2) = pair_args(arg); let d1 = <String as Arg>::parse(&a1); let d2 = <String as Arg>::parse(&a2); '
                        'let mut place = match serde_json::from_str::<TT>(&d1) { Ok(v) => v, Err(_) => return "na".to_string() }; '
                        'let before = place.clone().into_inner(); let mut de = serde_json::Deserializer::from_str(&d2); '
                        'let r = <TT as serde::Deserialize>::deserialize_in_place(&mut de, &mut place); let fresh = <TT as serde::Deserialize>::deserialize(&mut serde_json::Deserializer::from_str(&d2)); '
                        'match (r, fresh) { (Ok(()), Ok(f)) => format!("same={}", b(place.into_inner().same(&f.into_inner()))), '
                        '(Err(_), Err(_)) => format!("kept={}", b(place.into_inner().same(&before))), '
                        '(Ok(()), Err(_)) => "inplace_ok_fresh_err".to_string(), (Err(_), Ok(_)) => "inplace_err_fresh_ok".to_string() } }),')
        arms.append('"de_json_key" => guard(|| { let doc = <String as Arg>::parse(arg); '
                    'let r = serde_json::from_str::<Keys<TT>>(&doc).ok().map(|k| k.0.into_iter().map(|t| t.into_inner().show()).collect::<Vec<_>>().join(";")); '
                    'let e = serde_json::from_str::<Keys<Inner>>(&doc).ok().and_then(|k| k.0.into_iter().map(|x| %s.map(|t| t.into_inner().show())).collect::<Option<Vec<_>>>()).map(|v| v.join(";")); '
                    'format!("{:?} ## - ## {:?}", r, e) }),' % (mko % "x"))
        if "Serialize" in info.traits:
            # "ser": the value comes from the constructor; "ser_conv": from the derived conversion
            conv = None
            if "TryFrom" in info.traits:
                conv = "<TT as core::convert::TryFrom<Inner>>::try_from(%s).ok()"
            elif "From" in info.traits:
                conv = "Some(<TT as core::convert::From<Inner>>::from(%s))"
            if d.family() == "str" or (d.family() == "int" and inner not in ("u128", "i128")):
                # the MessagePack bytes themselves, against the model's writer (Sem/MsgPack)
                arms.append('"ser_mp_bytes" => guard(|| { let x = <Inner as Arg>::parse(arg); match %s { Some(t) => rmp_serde::to_vec(&t).map(|v| { let mut s = String::from("(b"); for b_ in v { s.push_str(" "); s.push_str(&b_.to_string()); } s.push_str(")"); s }).unwrap_or("ser_err".to_string()), None => "rejected".to_string() } }),' % (mko % "x"))
            if d.family() in ("int", "str"):
                # the JSON text itself, against the model's writer (Sem/Json)
                arms.append('"ser_text" => guard(|| { let x = <Inner as Arg>::parse(arg); match %s { Some(t) => serde_json::to_string(&t).map(|s| s.show()).unwrap_or("ser_err".to_string()), None => "rejected".to_string() } }),' % (mko % "x"))
            dflt = "{ let _ = &%s; std::panic::catch_unwind(|| TT::default()).ok() }" if ("Default" in info.traits and info.has_default) else None
            parsed = "<TT as core::str::FromStr>::from_str(&(%s).to_string()).ok()" if ("FromStr" in info.traits and d.family() in ("int", "float")) else None
            for opn, mkx in (("ser", mko), ("ser_conv", conv), ("ser_default", dflt), ("ser_parse", parsed)):
                if mkx is None:
                    continue
                arms.append('"%s" => guard(|| { let x = <Inner as Arg>::parse(arg); let t = match %s { Some(t) => t, None => return "rejected".to_string() }; '
                            'let i: Inner = %s.unwrap().into_inner(); let mut out = String::new(); '
                            'let jt = serde_json::to_string(&t); let ji = serde_json::to_string(&i); '
                            'out.push_str(&format!("json={} ", match (&jt, &ji) { (Ok(a), Ok(b_)) => b(a == b_), (Err(_), Err(_)) => "1", _ => "0" })); '
                            'let mt = rmp_serde::to_vec(&t); let mi = rmp_serde::to_vec(&i); '
                            'out.push_str(&format!("mp={} ", match (&mt, &mi) { (Ok(a), Ok(b_)) => b(a == b_), (Err(_), Err(_)) => "1", _ => "0" })); '
                            'let rt = ron::to_string(&t); let ri = ron::to_string(&i); '
                            'out.push_str(&format!("ron={} ", match (&rt, &ri) { (Ok(a), Ok(b_)) => b(*a == format!("%s({})", b_) || *a == format!("({})", b_)), (Err(_), Err(_)) => "1", _ => "0" })); '
                            'if let (Ok(a), Ok(bi)) = (&jt, &ji) { if let Ok(back) = serde_json::from_str::<Inner>(bi) { if back.same(&i) { '
                            'out.push_str(&format!("rt_json={} ", match serde_json::from_str::<TT>(a) { Ok(v) => b(v.into_inner().same(&i)), Err(_) => "0" })); } } } '
                            'if let (Ok(a), Ok(bi)) = (&mt, &mi) { if let Ok(back) = rmp_serde::from_slice::<Inner>(bi) { if back.same(&i) { '
                            'out.push_str(&format!("rt_mp={} ", match rmp_serde::from_slice::<TT>(a) { Ok(v) => b(v.into_inner().same(&i)), Err(_) => "0" })); } } } '
                            'if let (Ok(a), Ok(bi)) = (&rt, &ri) { if let Ok(back) = ron::from_str::<Inner>(bi) { if back.same(&i) { '
                            'out.push_str(&format!("rt_ron={} ", match ron::from_str::<TT>(a) { Ok(v) => b(v.into_inner().same(&i)), Err(_) => "0" })); } } } '
                            'if let Ok(ri2) = &ri { if let Ok(back) = ron::from_str::<Inner>(ri2) { if back.same(&i) { '
                            'let named = ron::ser::to_string_pretty(&t, ron::ser::PrettyConfig::new().struct_names(true)); '
                            'out.push_str(&format!("rt_ron_named={} ", match &named { Ok(a) => match ron::from_str::<TT>(a) { Ok(v) => b(v.into_inner().same(&i) && a.starts_with("%s(")), Err(_) => "0" }, Err(_) => "0" })); } } } '
                            'out.trim_end().to_string() }),' % (opn, mkx % "x.clone()", mkx % "x.clone()", sername, sername))
    mk = "TT::try_new(%s).ok()" if info.has_validation else "Some(TT::new(%s))"
    # ---- comparison traits on pairs (C12, C13)
    cmpf = []
    if "PartialEq" in info.traits:
        cmpf.append('out.push_str(&format!("eq={} ieq={} ", b(tx == ty), b(ix == iy)));')
    if "PartialEq" in info.traits:
        # != and the comparison of a value with itself (the same object, and a clone when there is Clone)
        cmpf.append('out.push_str(&format!("ne={} ine={} self={}{} iself={}{} ", b(tx != ty), b(ix != iy), b(tx == tx), b(ty == ty), b(ix == ix), b(iy == iy)));')
    if "PartialEq" in info.traits and inner == "String":
        # the same text in a buffer with spare capacity
        cmpf.append('{ let mut s2 = String::with_capacity(x.len() + 37); s2.push_str(&x); if let Some(t2) = %s { out.push_str(&format!("eqc={} ieqc=1 ", b(tx == t2 && t2 == tx))); } }' % (mk % "s2"))
    if "Clone" in info.traits:
        # clone_from into an existing value of another content
        cmpf.append('{ let mut u = ty.clone(); u.clone_from(&tx); let mut iu = iy.clone(); iu.clone_from(&ix); out.push_str(&format!("cf={} icf=1 ", b(u.into_inner().same(&iu)))); }')
    if "PartialOrd" in info.traits:
        cmpf.append('out.push_str(&format!("pcmp={} ipcmp={} ", ord_s(tx.partial_cmp(&ty)), ord_s(ix.partial_cmp(&iy))));')
        cmpf.append('out.push_str(&format!("ops={}{}{}{} iops={}{}{}{} ", b(tx < ty), b(tx <= ty), b(tx > ty), b(tx >= ty), b(ix < iy), b(ix <= iy), b(ix > iy), b(ix >= iy)));')
    if "Ord" in info.traits:
        if inner in FLOAT_TYPES:
            cmpf.append('out.push_str(&format!("cmp={} icmp={} ", ord_s(Some(tx.cmp(&ty))), ord_s(ix.partial_cmp(&iy))));')
        else:
            cmpf.append('out.push_str(&format!("cmp={} icmp={} ", ord_s(Some(tx.cmp(&ty))), ord_s(Some(ix.cmp(&iy)))));')
            if "Clone" in info.traits and inner not in FLOAT_TYPES:
                cmpf.append('out.push_str(&format!("mm={}{} imm={}{} ", b(tx.clone().max(ty.clone()).into_inner().same(&ix.clone().max(iy.clone()))), b(tx.clone().min(ty.clone()).into_inner().same(&ix.clone().min(iy.clone()))), 1, 1));')
    if "Hash" in info.traits:
        cmpf.append('out.push_str(&format!("h={} ", b(hash_of(&tx) == hash_of(&ix))));')
        if inner == "String":
            cmpf.append('out.push_str(&format!("hstr={} ", b(hash_of(&tx) == hash_of(ix.as_str()))));')
    if cmpf:
        arms.append('"cmp2" => guard(|| { let (a1, a2) = pair_args(arg); let x = <Inner as Arg>::parse(&a1); let y = <Inner as Arg>::parse(&a2); '
                    'let (tx, ty) = match (%s, %s) { (Some(p), Some(q)) => (p, q), _ => return "rejected".to_string() }; '
                    'let ix = %s.unwrap().into_inner(); let iy = %s.unwrap().into_inner(); let mut out = String::new(); %s out.trim_end().to_string() }),'
                    % (mk % "x.clone()", mk % "y.clone()", mk % "x.clone()", mk % "y.clone()", " ".join(cmpf)))
    # ---- views (C13)
    vf = []
    if "AsRef" in info.traits:
        if inner == "String":
            vf.append('out.push_str(&format!("as_ref={} ", b(<TT as AsRef<str>>::as_ref(&t) == i.as_str())));')
        else:
            vf.append('out.push_str(&format!("as_ref={} ", b(<TT as AsRef<Inner>>::as_ref(&t).same(&i))));')
    if "Deref" in info.traits:
        vf.append('out.push_str(&format!("deref={} ", b((*t).same(&i))));')
    if "Borrow" in info.traits:
        vf.append('out.push_str(&format!("borrow={} ", b(<TT as core::borrow::Borrow<Inner>>::borrow(&t).same(&i))));')
        if inner == "String":
            vf.append('out.push_str(&format!("borrow_str={} ", b(<TT as core::borrow::Borrow<str>>::borrow(&t) == i.as_str())));')
    if "Display" in info.traits:
        vf.append('out.push_str(&format!("display={} ", b(t.to_string() == i.to_string())));')
        vf.append('out.push_str(&format!("display_fmt={} ", b(format!("{:>8}|{:*^9}|{:.2}|{:<6.1}|{:+}|{:08}", t, t, t, t, t, t) == format!("{:>8}|{:*^9}|{:.2}|{:<6.1}|{:+}|{:08}", i, i, i, i, i, i))));')
    if "Clone" in info.traits:
        vf.append('out.push_str(&format!("clone={} ", b(t.clone().into_inner().same(&i))));')
    if "Copy" in info.traits:
        vf.append('{ let c = t; out.push_str(&format!("copy={} ", b(c.into_inner().same(&i) && t.into_inner().same(&i)))); }')
    if "IntoIterator" in info.traits:
        vf.append('out.push_str(&format!("iter_ref={} ", b((&t).into_iter().cloned().collect::<Vec<_>>() == i.clone().into_iter().collect::<Vec<_>>())));')
    if "Into" in info.traits:
        vf.append('{ let conv: Inner = t.clone().into(); out.push_str(&format!("into={} ", b(conv.same(&i)))); }' if "Clone" in info.traits else "")
    if "IntoIterator" in info.traits and "Clone" in info.traits:
        vf.append('out.push_str(&format!("iter_val={} ", b(t.clone().into_iter().collect::<Vec<_>>() == i.clone().into_iter().collect::<Vec<_>>())));')
    if vf:
        ieq = "i.to_bits() == i.to_bits()" if inner in FLOAT_TYPES else "true"
        arms.append('"views" => guard(|| { let x = <Inner as Arg>::parse(arg); let t = match %s { Some(t) => t, None => return "rejected".to_string() }; '
                    'let i: Inner = %s.unwrap().into_inner(); let mut out = String::new(); %s out.trim_end().to_string() }),'
                    % (mk % "x.clone()", mk % "x.clone()", " ".join(vf)))
    if inner == "f32" and info.has_validation and not info.custom:
        # thorough tier: ALL 2^32 bit patterns through the constructor, summarised
        arms.append(SWEEP_F32)
    if "Arbitrary" in info.traits and d.family() == "any" and not info.has_validation:
        # every way Arbitrary hands out a value: arbitrary_take_rest must be the constructor applied to the inner
        # type's arbitrary_take_rest
        arms.append('"arb_rest" => { let a = arg.to_string(); watchdog(move || guard(|| { let bytes = bytes_arg(&a); '
                    'let got = <TT as arbitrary::Arbitrary>::arbitrary_take_rest(arbitrary::Unstructured::new(&bytes)).ok().map(|v| v.into_inner()); '
                    'let want = <Inner as arbitrary::Arbitrary>::arbitrary_take_rest(arbitrary::Unstructured::new(&bytes)).ok().map(|x| TT::new(x).into_inner()); '
                    'format!("same={} got={}", b(match (&got, &want) { (Some(p), Some(q)) => p.same(q), (None, None) => true, _ => false }), got.map(|g| g.show()).unwrap_or("err".to_string())) })) },')
    if "Arbitrary" in info.traits:
        arms.append('"arb" => { let a = arg.to_string(); watchdog(move || guard(|| { let bytes = bytes_arg(&a); let mut u = arbitrary::Unstructured::new(&bytes); match <TT as arbitrary::Arbitrary>::arbitrary(&mut u) { Ok(v) => ok(v.into_inner()), Err(_) => "arb_err".to_string() } })) },')
        if inner in INT_TYPES:
            ins = "if let Ok(t) = TT::try_new(v) { valid.insert(t.into_inner()); }" if info.has_validation else "valid.insert(TT::new(v).into_inner());"
            arms.append(ARB_COVER.replace("CTOR_INSERT", ins))
    for extra in getattr(d, "extra_arms", []):
        arms.append(extra)
    lines.append("    pub fn run(op: &str, arg: &str) -> String {")
    lines.append("        match op {")
    for a in arms:
        lines.append("            " + a)
    lines.append('            _ => "na".to_string(),')
    lines.append("        }")
    lines.append("    }")
    lines.append("}")
    return "\n".join(lines)


ARB_COVER = r'''"arb_cover" => guard(|| {
                // arg: "(w <len> <window lo> <window hi>)": every byte string of that length through the
                // generator, every value of the window through the constructor
                let parts: Vec<&str> = arg.trim_matches(|c| c == '(' || c == ')').split_whitespace().collect();
                let len: usize = parts[1].parse().unwrap();
                let wlo: Inner = parts[2].parse().unwrap();
                let whi: Inner = parts[3].parse().unwrap();
                let mut produced = std::collections::BTreeSet::new();
                let mut panics = 0u32; let mut errs = 0u32;
                let total: u32 = 1u32 << (8 * len);
                for n in 0..total {
                    let bytes: Vec<u8> = (0..len).map(|k| ((n >> (8 * (len - 1 - k))) & 0xff) as u8).collect();
                    let r = std::panic::catch_unwind(|| { let mut u = arbitrary::Unstructured::new(&bytes); <TT as arbitrary::Arbitrary>::arbitrary(&mut u).map(|v| v.into_inner()) });
                    match r { Ok(Ok(v)) => { produced.insert(v); }, Ok(Err(_)) => errs += 1, Err(_) => panics += 1 }
                }
                let mut valid = std::collections::BTreeSet::new();
                let mut v: Inner = wlo;
                loop { CTOR_INSERT if v == whi { break; } v += 1; }
                let missing = valid.iter().find(|x| !produced.contains(x)).map(|x| x.to_string()).unwrap_or("-".to_string());
                let extra = produced.iter().find(|x| !valid.contains(x)).map(|x| x.to_string()).unwrap_or("-".to_string());
                format!("cover n={} min={} max={} panics={} errs={} valid_n={} missing={} extra={}", produced.len(),
                    produced.iter().next().map(|x| x.to_string()).unwrap_or("-".to_string()),
                    produced.iter().next_back().map(|x| x.to_string()).unwrap_or("-".to_string()), panics, errs, valid.len(), missing, extra)
            }),'''


SWEEP_F32 = r'''"sweep_f32" => guard(|| {
                // every f32 bit pattern: number accepted, number of accepted NaNs, smallest / largest accepted
                // (in the IEEE order, by the key: positive -> bits, negative -> -(bits & 0x7fffffff)), number unchanged
                let threads = 16u64;
                let handles: Vec<_> = (0..threads).map(|t| std::thread::spawn(move || {
                    let lo = (t << 32) / threads; let hi = ((t + 1) << 32) / threads;
                    let (mut ok, mut nan_ok, mut changed) = (0u64, 0u64, 0u64);
                    let (mut kmin, mut kmax) = (i64::MAX, i64::MIN);
                    let mut errs = std::collections::BTreeMap::<String, u64>::new();
                    for b in lo..hi {
                        let x = f32::from_bits(b as u32);
                        match TT::try_new(x) {
                            Ok(v) => {
                                let y = v.into_inner();
                                ok += 1;
                                if y.to_bits() != x.to_bits() { changed += 1; }
                                if y.is_nan() { nan_ok += 1; } else {
                                    let bits = y.to_bits() as i64;
                                    let k = if bits & 0x8000_0000 != 0 { -(bits & 0x7fff_ffff) } else { bits };
                                    if k < kmin { kmin = k; } if k > kmax { kmax = k; }
                                }
                            }
                            Err(e) => { *errs.entry(ename(&e)).or_insert(0) += 1; }
                        }
                    }
                    (ok, nan_ok, changed, kmin, kmax, errs)
                })).collect();
                let (mut ok, mut nan_ok, mut changed) = (0u64, 0u64, 0u64);
                let (mut kmin, mut kmax) = (i64::MAX, i64::MIN);
                let mut errs = std::collections::BTreeMap::<String, u64>::new();
                for h in handles { let (a, b_, c, d, e, f) = h.join().unwrap(); ok += a; nan_ok += b_; changed += c; if d < kmin { kmin = d; } if e > kmax { kmax = e; }
                    for (k, v) in f { *errs.entry(k).or_insert(0) += v; } }
                let es: Vec<String> = errs.iter().map(|(k, v)| format!("{}:{}", k.replace("err ", ""), v)).collect();
                format!("sweep ok={} nan_ok={} changed={} kmin={} kmax={} errs={}", ok, nan_ok, changed, kmin, kmax, es.join(","))
            }),'''


MAIN_RS = r'''
#![allow(dead_code, unused_imports, unused_variables, non_snake_case, clippy::all)]
mod rt;
mod decls;
use std::io::{self, BufRead, Write};
fn main() {
    rt::silence_panics();
    let stdin = io::stdin();
    let mut out = io::BufWriter::new(io::stdout());
    for line in stdin.lock().lines() {
        let line = line.unwrap();
        let mut it = line.splitn(4, '\t');
        let (id, decl, op, arg) = (it.next().unwrap(), it.next().unwrap_or(""), it.next().unwrap_or(""), it.next().unwrap_or(""));
        let r = decls::dispatch(decl, op, arg);
        writeln!(out, "{} {}", id, r).unwrap();
    }
}
'''


def cargo_toml(name, features, extra_deps=""):
    feats = ", ".join('"%s"' % f for f in features if f != "std")
    default = "" if "std" in features else ", default-features = false"
    return """[package]
name = "%s"
version = "0.1.0"
edition = "2021"

[dependencies]
nutype = { path = "%s/nutype"%s, features = [%s] }
serde = { version = "1", features = ["derive"] }
serde_json = "1"
ron = "0.8.1"
rmp-serde = "1.1.2"
arbitrary = "1.3.2"
regex = "1"
%s
""" % (name, REPO, default, feats, extra_deps)


NOSTD_CARGO = """[package]
name = "%s"
version = "0.1.0"
edition = "2021"

[lib]
path = "src/lib.rs"

[dependencies]
nutype = { path = "%s/nutype", default-features = false, features = [%s] }
serde = { version = "1", default-features = false, features = ["derive", "alloc"] }
arbitrary = "1.3.2"
"""


def nostd_module(d):
    """a declaration inside a #![no_std] library crate: only the item, no harness code"""
    fr = fn_render(d.inner)
    consts = "".join("    %s\n" % c[3] for c in d.env if c[3])
    return ("pub mod %s {\n    #![allow(dead_code, unused_imports, non_camel_case_types)]\n    use super::rt::*;\n    use nutype::nutype;\n"
            "    use alloc::vec::Vec;\n    use alloc::vec;\n%s%s\n%s}" % (d.id, consts, d.extra_items, d.rust_struct(toks_rust(d.toks, fr))))


class Workspace:
    """a generated cargo workspace of shard binaries under build/<name>"""

    def __init__(self, name, features=FEATURES_ALL, nshards=NSHARDS, nostd=False):
        self.nostd = nostd
        self.name = name
        self.dir = os.path.join(BUILD, name)
        self.features = features
        self.nshards = nshards

    def write(self, decls, ops_wanted=None):
        """decls: list of Decl (all expected to compile). Returns shard index per decl id."""
        os.makedirs(self.dir, exist_ok=True)
        shutil.copyfile(os.path.join(REPO, "Cargo.lock"), os.path.join(self.dir, "Cargo.lock.repo"))
        shard_of = {}
        shards = [[] for _ in range(self.nshards)]
        for i, d in enumerate(decls):
            shards[i % self.nshards].append(d)
            shard_of[d.id] = i % self.nshards
        members = []
        rt = rtgen.rt_source()
        for k in range(self.nshards):
            cname = "%s_s%d" % (self.name, k)
            cdir = os.path.join(self.dir, cname)
            members.append(cname)
            if self.nostd:
                write_if_changed(os.path.join(cdir, "Cargo.toml"), NOSTD_CARGO % (cname, REPO, ", ".join('"%s"' % f for f in self.features if f != "std")))
                write_if_changed(os.path.join(cdir, "src", "rt.rs"), rtgen.rt_nostd_source())
                write_if_changed(os.path.join(cdir, "src", "lib.rs"), "#![no_std]\n#![allow(dead_code, unused_imports, non_snake_case)]\nextern crate alloc;\nmod rt;\nmod decls;\n")
                mods = [nostd_module(d) for d in shards[k]]
                write_if_changed(os.path.join(cdir, "src", "decls.rs"), "use super::rt;\n" + "\n\n".join(mods) + "\n")
                continue
            write_if_changed(os.path.join(cdir, "Cargo.toml"), cargo_toml(cname, self.features))
            write_if_changed(os.path.join(cdir, "src", "rt.rs"), rt)
            write_if_changed(os.path.join(cdir, "src", "main.rs"), MAIN_RS)
            mods = [decl_module(d, ops_wanted) for d in shards[k]]
            disp = ["pub fn dispatch(decl: &str, op: &str, arg: &str) -> String {", "    match decl {"]
            for d in shards[k]:
                disp.append('        "%s" => %s::run(op, arg),' % (d.id, d.id))
            disp += ['        _ => "no_such_decl".to_string(),', "    }", "}"]
            src = "use super::rt;\n" + "\n\n".join(mods) + "\n\n" + "\n".join(disp) + "\n"
            write_if_changed(os.path.join(cdir, "src", "decls.rs"), src)
        ws = "[workspace]\nresolver = \"2\"\nmembers = [%s]\n\n[profile.dev]\ndebug = false\nincremental = false\n\n[profile.release]\nopt-level = 0\ndebug = false\nincremental = false\ndebug-assertions = false\noverflow-checks = false\n" % ", ".join('"%s"' % m for m in members)
        write_if_changed(os.path.join(self.dir, "Cargo.toml"), ws)
        lock = os.path.join(self.dir, "Cargo.lock")
        if not os.path.exists(lock):
            shutil.copyfile(os.path.join(REPO, "Cargo.lock"), lock)
        self.shard_of = shard_of
        self.shards = shards
        return shard_of

    def build(self, release=False, timeout=1500):
        cmd = ["cargo", "build", "--offline", "--message-format=json", "-j", str(NPROC)]
        if release:
            cmd.append("--release")
        with flock("cargo_" + self.name):
            p = run(cmd, cwd=self.dir, timeout=timeout)
        errors = []
        for line in p.stdout.splitlines():
            if not line.startswith("{"):
                continue
            try:
                m = json.loads(line)
            except ValueError:
                continue
            if m.get("reason") == "compiler-message" and m["message"]["level"] == "error":
                errors.append(m)
        return p.returncode, errors, p.stderr

    def check_tests(self, timeout=1500):
        """type-check the workspace under cfg(test) (the #[test]s the macro generates)"""
        cmd = ["cargo", "check", "--tests", "--offline", "--message-format=json", "-j", str(NPROC)]
        with flock("cargo_" + self.name):
            p = run(cmd, cwd=self.dir, timeout=timeout)
        errors = []
        for line in p.stdout.splitlines():
            if not line.startswith("{"):
                continue
            try:
                m = json.loads(line)
            except ValueError:
                continue
            if m.get("reason") == "compiler-message" and m["message"]["level"] == "error":
                errors.append(m)
        return p.returncode, errors, p.stderr

    def run_cases(self, cases, release=False):
        """cases: list of (case_id, decl_id, op, arg) -> dict case_id -> outcome string"""
        per = [[] for _ in range(self.nshards)]
        for cid, did, op, arg in cases:
            per[self.shard_of[did]].append("%s\t%s\t%s\t%s" % (cid, did, op, arg))
        prof = "release" if release else "debug"

        def one(k):
            if not per[k]:
                return ""
            exe = os.path.join(self.dir, "target", prof, "%s_s%d" % (self.name, k))
            p = run([exe], input="\n".join(per[k]) + "\n", timeout=1200)
            if p.returncode != 0:
                raise RuntimeError("shard %d failed: %s" % (k, p.stderr[-2000:]))
            return p.stdout
        out = {}
        with ThreadPoolExecutor(max_workers=NPROC) as ex:
            for text in ex.map(one, range(self.nshards)):
                for line in text.splitlines():
                    cid, _, rest = line.partition(" ")
                    out[cid] = rest
        return out


def attribute_errors(ws, errors):
    """map compiler errors to declaration ids by the `pub mod dN` enclosing the primary span"""
    bad = {}
    for m in errors:
        msg = m["message"]
        spans = [s for s in msg.get("spans", []) if s.get("is_primary")] or msg.get("spans", [])
        for s in spans:
            f = s["file_name"]
            path = f if os.path.isabs(f) else os.path.join(ws.dir, f)
            # cargo reports paths relative to the workspace member
            cand = [path] + [os.path.join(ws.dir, "%s_s%d" % (ws.name, k), f) for k in range(ws.nshards)]
            src = None
            for c in cand:
                if os.path.exists(c) and c.endswith("decls.rs"):
                    src = c
                    break
            if not src:
                continue
            lines = open(src).read().splitlines()
            ln = s["line_start"] - 1
            did = None
            for i in range(min(ln, len(lines) - 1), -1, -1):
                mm = re.match(r"pub mod (\w+) \{", lines[i])
                if mm:
                    did = mm.group(1)
                    break
            if did:
                bad.setdefault(did, []).append(Msg(msg["message"], (msg.get("code") or {}).get("code")))
            break
    return bad


class Msg(str):
    """a compiler message with rustc's error code (None for errors raised by a proc macro)"""
    def __new__(cls, text, code=None):
        o = str.__new__(cls, text)
        o.code = code
        return o


class ModuleWorkspace(Workspace):
    """shards of free-standing modules (id, rust text): used for compile-verdict catalogues"""

    def write_modules(self, mods):
        os.makedirs(self.dir, exist_ok=True)
        shards = [[] for _ in range(self.nshards)]
        for i, m in enumerate(mods):
            shards[i % self.nshards].append(m)
        members = []
        rt = rtgen.rt_source()
        for k in range(self.nshards):
            cname = "%s_s%d" % (self.name, k)
            cdir = os.path.join(self.dir, cname)
            members.append(cname)
            if self.nostd:
                write_if_changed(os.path.join(cdir, "Cargo.toml"), NOSTD_CARGO % (cname, REPO, ", ".join('"%s"' % f for f in self.features if f != "std")))
                write_if_changed(os.path.join(cdir, "src", "rt.rs"), rtgen.rt_nostd_source())
                write_if_changed(os.path.join(cdir, "src", "lib.rs"), "#![no_std]\n#![allow(dead_code, unused_imports, non_snake_case)]\nextern crate alloc;\nmod rt;\nmod decls;\n")
                write_if_changed(os.path.join(cdir, "src", "decls.rs"), "use super::rt;\n" + "\n".join(m[1] for m in shards[k]) + "\n")
                continue
            write_if_changed(os.path.join(cdir, "Cargo.toml"), cargo_toml(cname, self.features).replace("[dependencies]", "[lib]\npath = \"src/lib.rs\"\n\n[dependencies]"))
            write_if_changed(os.path.join(cdir, "src", "rt.rs"), rt)
            write_if_changed(os.path.join(cdir, "src", "lib.rs"), "#![allow(dead_code, unused_imports, non_snake_case)]\nmod rt;\nmod decls;\n")
            write_if_changed(os.path.join(cdir, "src", "decls.rs"), "use super::rt;\n" + "\n".join(m[1] for m in shards[k]) + "\n")
        ws = "[workspace]\nresolver = \"2\"\nmembers = [%s]\n\n[profile.dev]\ndebug = false\nincremental = false\n" % ", ".join('"%s"' % m for m in members)
        write_if_changed(os.path.join(self.dir, "Cargo.toml"), ws)
        lock = os.path.join(self.dir, "Cargo.lock")
        if not os.path.exists(lock):
            shutil.copyfile(os.path.join(REPO, "Cargo.lock"), lock)

    def verdicts(self, mods, max_rounds=10):
        """iteratively drop the modules rustc reports errors in; returns id -> messages"""
        live = list(mods)
        dropped = {}
        for _ in range(max_rounds):
            self.write_modules(live)
            rc, errors, stderr = self.build()
            if rc == 0:
                return dropped
            bad = attribute_errors(self, errors)
            if not bad:
                raise RuntimeError("cargo build failed and no error could be attributed:\n" + stderr[-3000:])
            for k, v in bad.items():
                dropped[k] = v
            live = [m for m in live if m[0] not in dropped]
        raise RuntimeError("cargo build keeps failing")
