#!/usr/bin/env python3
"""Self-test of the replay path: apply a seeded change, run a check, re-run its first replay
file (must report the violation again), undo the change, re-run the same replay (must pass).
usage: replaytest.py <patch.diff> Cnn"""
import sys, subprocess, os, json, shutil
REPO = "/repo"
VERIF = os.path.dirname(os.path.dirname(os.path.abspath(__file__)))


def sh(cmd):
    return subprocess.run(cmd, shell=True, text=True, stdout=subprocess.PIPE, stderr=subprocess.STDOUT)


def main():
    patch, c = os.path.abspath(sys.argv[1]), sys.argv[2]
    if sh("git -C %s status --porcelain" % REPO).stdout.strip():
        print("repo not clean")
        return 2
    if sh("git -C %s apply %s" % (REPO, patch)).returncode != 0:
        print("patch does not apply")
        return 2
    out = {}
    keep = "/tmp/replaytest_%s.json" % c
    try:
        r = sh("cd %s && ./check %s" % (VERIF, c))
        viol = [l for l in r.stdout.splitlines() if l.startswith("VIOLATION")]
        out["first_run_exit"] = r.returncode
        if not viol:
            print(json.dumps(out))
            return 1
        path = viol[0].split("replay=")[1].split()[0]
        shutil.copyfile(path, keep)
        out["kind"] = json.load(open(keep)).get("kind")
        r = sh("cd %s && ./check %s --replay %s" % (VERIF, c, keep))
        out["replay_with_change_exit"] = r.returncode
        out["replay_with_change_violations"] = sum(l.startswith("VIOLATION") for l in r.stdout.splitlines())
    finally:
        sh("git -C %s checkout -- . && git -C %s clean -fdq -- nutype nutype_macros test_suite examples" % (REPO, REPO))
    r = sh("cd %s && ./check %s --replay %s" % (VERIF, c, keep))
    out["replay_clean_exit"] = r.returncode
    if r.returncode not in (0, 1):
        out["tail"] = r.stdout[-800:]
    sh("rm -rf %s/replays" % VERIF)
    print(json.dumps(out))
    return 0 if (out.get("replay_with_change_exit") == 1 and out["replay_clean_exit"] == 0) else 1


if __name__ == "__main__":
    sys.exit(main())
