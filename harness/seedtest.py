#!/usr/bin/env python3
"""Apply a seeded change to /repo, run the given checks, undo the change.
usage: seedtest.py <patch.diff> C01 [C07 ...]"""
import sys, subprocess, os, json, time
REPO = "/repo"
VERIF = os.path.dirname(os.path.dirname(os.path.abspath(__file__)))


def sh(cmd, **kw):
    return subprocess.run(cmd, shell=True, text=True, stdout=subprocess.PIPE, stderr=subprocess.STDOUT, **kw)


def main():
    patch = os.path.abspath(sys.argv[1])
    checks = sys.argv[2:]
    st = sh("git -C %s status --porcelain" % REPO).stdout.strip()
    if st:
        print("repo not clean:", st)
        return 2
    r = sh("git -C %s apply %s" % (REPO, patch))
    if r.returncode != 0:
        print("patch does not apply:", r.stdout)
        return 2
    results = {}
    # the evidence files describe the UNCHANGED tree: keep them, and put them back afterwards
    saved = {}
    for c in checks:
        ev = os.path.join(VERIF, "evidence", c + ".json")
        if os.path.exists(ev):
            saved[ev] = open(ev).read()
    try:
        for c in checks:
            t0 = time.time()
            r = sh("cd %s && ./check %s --tier quick" % (VERIF, c))
            lines = [l for l in r.stdout.splitlines() if l.startswith(("VIOLATION", "KNOWN-FINDING", "("))]
            viol = [l for l in lines if l.startswith("VIOLATION")]
            what = []
            for l in viol[:3]:
                path = l.split("replay=")[1].split()[0]
                try:
                    what.append(json.load(open(path))["what"][:300])
                except Exception as e:
                    what.append(str(e))
            results[c] = {"exit": r.returncode, "violations": len(viol), "no_input": sum("no-failing-input-found" in l for l in viol),
                          "what": what, "wall_s": round(time.time() - t0, 1)}
            if r.returncode not in (0, 1):
                results[c]["tail"] = r.stdout[-1500:]
    finally:
        sh("git -C %s checkout -- . && git -C %s clean -fdq -- nutype nutype_macros test_suite examples" % (REPO, REPO))
        sh("rm -rf %s/replays" % VERIF)
        for ev, txt in saved.items():
            with open(ev, "w") as f:
                f.write(txt)
    print(json.dumps(results, indent=1))
    return 0


if __name__ == "__main__":
    sys.exit(main())
