"""Declarations for the accept/reject correspondence (C08, C02): every refusal class of the
macro, near-misses that must be accepted, and the spellings C02 lists.  Each declaration carries
`expect` = the refusal the generator INTENDED to provoke (bookkeeping only; the verdicts that
count are rustc's, the model's and the reference's)."""
from syntax import *
from corpus import *

BASE = {
    "int": ("i32", ["Debug", "Clone", "PartialEq"]),
    "float": ("f64", ["Debug", "Clone", "PartialEq"]),
    "str": ("String", ["Debug", "Clone", "PartialEq"]),
    "any": ("Vec<i32>", ["Debug", "Clone", "PartialEq"]),
}
ALL_TRAITS = ["Debug", "Clone", "Copy", "PartialEq", "Eq", "PartialOrd", "Ord", "FromStr", "AsRef", "From",
              "TryFrom", "Into", "Hash", "Borrow", "Display", "Default", "Deref", "IntoIterator",
              "Serialize", "Deserialize", "JsonSchema", "Arbitrary"]
DEPS = {"Eq": ["PartialEq"], "PartialOrd": ["PartialEq"], "Ord": ["PartialOrd", "Eq", "PartialEq"], "Copy": ["Clone"]}


class Builder:
    def __init__(self, prefix):
        self.decls = []
        self.prefix = prefix

    def add(self, inner, blocks, expect, env=(), **kw):
        d = Decl("%s%d" % (self.prefix, len(self.decls)), inner, attr(blocks), env=list(env), tags={"verdict"}, **kw)
        d.expect = expect
        d.default_arg = None
        self.decls.append(d)
        return d


def li(v):
    return tx(lit_int(v))


def lf(t):
    e = lit(t.lstrip("-"))
    return tx(neg(e) if t.startswith("-") else e)


def gen_verdict_decls(rng, tier):
    b = Builder("v")
    D = derive_block

    # ---- struct shape, attributes, field visibility
    ok_attr = [block("validate", [[tid("greater"), EQ, li(1)]]), D(["Debug"])]
    b.add("i32", ok_attr, "ok")
    b.add("i32", ok_attr, "meta:field_visibility", fields=[("pub", "i32")])
    b.add("i32", ok_attr, "meta:field_visibility", fields=[("pub_crate", "i32")])
    b.add("i32", ok_attr, "meta:unsupported_attribute", attrs=[("repr", "#[repr(transparent)]")])
    b.add("i32", ok_attr, "meta:unsupported_attribute", attrs=[("allow", "#[allow(dead_code)]")])
    b.add("i32", ok_attr, "meta:derive_attribute", attrs=[("derive", "#[derive(Clone)]")])
    b.add("i32", ok_attr, "ok", attrs=[("doc", "/// documented")])
    b.add("i32", ok_attr, "ok", attrs=[("doc", "/// documented"), ("doc", "#[doc = \"twice\"]")])
    b.add("i32", ok_attr, "meta:derive_attribute", attrs=[("doc", "/// documented"), ("derive", "#[derive(Clone)]")])
    b.add("i32", ok_attr, "meta:unsupported_attribute", attrs=[("doc", "/// documented"), ("repr", "#[repr(transparent)]")])
    b.add("i32", ok_attr, "meta:unsupported_attribute", attrs=[("doc", "/// documented"), ("non_exhaustive", "#[non_exhaustive]")])
    b.add("i32", ok_attr, "meta:derive_attribute", attrs=[("derive", "#[derive(Clone)]"), ("doc", "/// documented")])
    b.add("String", [block("validate", [[tid("not_empty")]]), D(["Debug"])], "meta:derive_attribute", attrs=[("doc", "/// a"), ("doc", "/// b"), ("derive", "#[derive(Default)]")])
    b.add("i32", ok_attr, "meta:not_tuple_struct", kind="named")
    b.add("i32", ok_attr, "meta:not_tuple_struct", kind="unit")
    b.add("i32", ok_attr, "meta:not_tuple_struct", kind="enum")
    b.add("i32", ok_attr, "meta:empty_tuple_struct", fields=[])
    for vis in ("", "pub", "pub_crate"):
        b.add("String", [D(["Debug"])], "ok", vis=vis)

    # ---- attribute grammar
    b.add("i32", [[tid("foo")], D(["Debug"])], "parse:unknown_attribute")
    b.add("i32", [[tid("sanitize")], D(["Debug"])], "parse:missing_parenthesis")
    b.add("i32", [[tid("validate")]], "parse:missing_parenthesis")
    b.add("i32", [[tid("derive")]], "parse:missing_parenthesis")
    b.add("i32", [block("validate", [])], "parse:no_validators")
    b.add("i32", [block("sanitize", []), block("derive", [])], "ok")
    b.add("i32", [], "ok")
    b.add("i32", [block("validate", [[tid("greater"), EQ, li(1)]]), block("validate", [[tid("less"), EQ, li(9)]])], "parse:duplicate_block")
    b.add("String", [block("sanitize", [[tid("trim")]]), block("sanitize", [[tid("lowercase")]])], "parse:duplicate_block")
    b.add("i32", [D(["Debug"]), D(["Clone"])], "parse:duplicate_block")
    b.add("i32", [[tid("default"), EQ, li(1)], [tid("default"), EQ, li(2)], D(["Default"])], "parse:duplicate_block")
    b.add("i32", [[tid("const_fn")], [tid("const_fn")], D(["Debug"])], "ok")
    b.add("i32", [[tid("default"), EQ, li(1)]], "ok")              # default without Default: harmless
    b.add("i32", [D(["Default"])], "gen:default_missing")
    b.add("i32", [[tid("default"), EQ, li(1)], D(["Default"])], "ok")
    b.add("i32", [[tid("new_unchecked")], D(["Debug"])], "ok")

    # ---- sanitizers / validators per family (wrong-family names, case, duplicates)
    names_s = ["trim", "lowercase", "uppercase", "Trim", "TRIM", "strip", "_phantom"]
    for fam, (inner, dr) in BASE.items():
        for nm in names_s:
            b.add(inner, [block("sanitize", [[tid(nm)]]), D(dr)], "ok" if (fam == "str" and nm in ("trim", "lowercase", "uppercase")) else "parse:unknown_sanitizer")
        b.add(inner, [block("sanitize", [[tid("with"), EQ, tfn(0, "p", "s")], [tid("with"), EQ, tfn(1, "c00", "s")]]), D(dr)], "validate:duplicate_sanitizer")
        for nm in ["finite", "not_empty", "Finite", "notEmpty", "positive"]:
            okv = (fam == "float" and nm == "finite") or (fam == "str" and nm == "not_empty")
            b.add(inner, [block("validate", [[tid(nm)]]), D(dr)], "ok" if okv else "parse:unknown_validator")
        for nm in ["greater", "greater_or_equal", "less", "less_or_equal", "len_char_min", "len_char_max", "Greater", "max"]:
            okv = (fam in ("int", "float") and nm in ("greater", "greater_or_equal", "less", "less_or_equal")) or (fam == "str" and nm.startswith("len_char"))
            val = lf("3.0") if fam == "float" else li(3)
            b.add(inner, [block("validate", [[tid(nm), EQ, val]]), D(dr)], "ok" if okv else "parse:unknown_validator")
        b.add(inner, [block("validate", [[tid("predicate"), EQ, tfn(0, "p", "p")], [tid("predicate"), EQ, tfn(1, "p", "p")]]), D(dr)], "validate:duplicate_validator")
        # with / error pairing
        W, E = [tid("with"), EQ, tfn(0, "p", "c")], [tid("error"), EQ, tpath("CErr")]
        b.add(inner, [block("validate", [W, E]), D(dr)], "ok")
        b.add(inner, [block("validate", [E, W]), D(dr)], "ok")
        b.add(inner, [block("validate", [W]), D(dr)], "parse:with_without_error")
        b.add(inner, [block("validate", [E]), D(dr)], "parse:error_without_with")
        P = [tid("predicate"), EQ, tfn(0, "p", "p")]
        for order in ([W, E, P], [W, P, E], [P, W, E], [E, W, P], [E, P, W], [P, E, W], [P, W], [W, P], [P, E], [E, P]):
            b.add(inner, [block("validate", order), D(dr)], "parse:with/error mixed with a built-in validator")
        if fam == "str":
            NE = [tid("not_empty")]
            for order in ([NE, [tid("len_char_max"), EQ, li(5)], W, E], [NE, W, E], [W, NE, E]):
                b.add(inner, [block("validate", order), D(dr)], "parse:with/error mixed with a built-in validator")
        if fam in ("int", "float"):
            GE = [tid("greater_or_equal"), EQ, (lf("0.0") if fam == "float" else li(0))]
            for order in ([GE, W, E], [W, GE, E], [W, E, GE]):
                b.add(inner, [block("validate", order), D(dr)], "parse:with/error mixed with a built-in validator")
        b.add(inner, [block("validate", [W, W, E]), D(dr)], "parse:duplicate_with")
        b.add(inner, [block("validate", [W, E, E]), D(dr)], "parse:duplicate_error")
        b.add(inner, [block("validate", [[tid("with"), EQ, tfn(0, "c00", "c")], E]), D(dr)], "rustc:known:custom_with_closure")
    b.add("String", [block("sanitize", [[tid("lowercase")], [tid("uppercase")]])], "validate:lowercase_and_uppercase")
    b.add("String", [block("sanitize", [[tid("uppercase")], [tid("trim")], [tid("lowercase")]])], "validate:lowercase_and_uppercase")
    b.add("String", [block("sanitize", [[tid("trim")], [tid("trim")]])], "validate:duplicate_sanitizer")
    b.add("String", [block("validate", [[tid("not_empty")], [tid("not_empty")]])], "validate:duplicate_validator")
    b.add("f64", [block("validate", [[tid("finite")], [tid("finite")]])], "validate:duplicate_validator")
    # ---- hygiene: items of the user's module that carry names the expansion also uses
    HYG_OK = [("result_alias", "    pub type Result<T> = ::core::result::Result<T, ()>;"),
              ("error_struct", "    pub struct Error;"),
              ("string_vec_box", "    pub struct String; pub struct Vec; pub struct Box;"),
              ("std_trait_names", "    pub trait From {} pub trait Display {} pub trait AsRef {} pub trait Deref {} pub trait Borrow {}"),
              ("regex_names", "    pub struct Regex; pub struct LazyLock;"),
              ("inner_value_types", "    pub struct Value; pub struct Inner; pub struct Raw; pub struct Validator; pub struct Sanitizer;"),
              ("parse_error_name", "    pub struct ParseError; pub struct TryFromError;")]
    HYG_KNOWN = [("option_enum", "    pub enum Option { Some, None }"),
                 ("ok_err_structs", "    pub struct Ok; pub struct Err;"),
                 ("core_std_modules", "    pub mod core {} pub mod std {}"),
                 ("debug_clone_into_traits", "    pub trait Debug {} pub trait Clone {} pub trait Into {} pub trait Default {}")]
    hyg_shapes = [("i32", [block("validate", [[tid("greater"), EQ, li(0)]]), [tid("default"), EQ, li(5)],
                           D(["Debug", "Clone", "PartialEq", "TryFrom", "Into", "FromStr", "Display", "Default", "AsRef", "Deref", "Borrow", "Serialize", "Deserialize"])]),
                  ("f64", [block("validate", [[tid("finite")], [tid("greater"), EQ, lf("0.0")]]),
                           D(["Debug", "Clone", "PartialEq", "Eq", "PartialOrd", "Ord", "TryFrom", "FromStr", "Display", "Serialize", "Deserialize"])]),
                  ("String", [block("sanitize", [[tid("trim")], [tid("lowercase")]]), block("validate", [[tid("not_empty")], [tid("len_char_max"), EQ, li(5)], [tid("regex"), EQ, tstr(REGEX_LITS[0])]]),
                              D(["Debug", "Clone", "PartialEq", "TryFrom", "FromStr", "Display", "Serialize", "Deserialize"])])]
    for label, items in HYG_OK + HYG_KNOWN:
        for inner, blocks in hyg_shapes:
            if inner == "String" and label == "string_vec_box":
                continue            # the inner type itself would be the user's struct
            d = b.add(inner, list(blocks), "ok", extra_items=items)
            d.tags.add("hygiene")
            d.hygiene = label
            d.hygiene_known = (label, items.strip()) in [(l_, i_.strip()) for l_, i_ in HYG_KNOWN]
    # duplicates that are not neighbours
    S = lambda *names: block("sanitize", [[tid(n_)] if isinstance(n_, str) else n_ for n_ in names])
    V = lambda *items: block("validate", [[tid(n_)] if isinstance(n_, str) else n_ for n_ in items])
    WS0, WS1 = [tid("with"), EQ, tfn(0, "p", "s")], [tid("with"), EQ, tfn(1, "p", "s")]
    b.add("String", [S("trim", "lowercase", "trim"), D(["Debug"])], "validate:duplicate_sanitizer")
    b.add("String", [S("lowercase", "trim", "lowercase"), D(["Debug"])], "validate:duplicate_sanitizer")
    b.add("String", [S("uppercase", "trim", WS0, "uppercase"), D(["Debug"])], "validate:duplicate_sanitizer")
    b.add("String", [S(WS0, "trim", WS1), D(["Debug"])], "validate:duplicate_sanitizer")
    b.add("String", [V("not_empty", [tid("len_char_max"), EQ, li(5)], "not_empty"), D(["Debug"])], "validate:duplicate_validator")
    b.add("String", [V([tid("len_char_max"), EQ, li(5)], "not_empty", [tid("len_char_max"), EQ, li(6)]), D(["Debug"])], "validate:duplicate_validator")
    b.add("i32", [V([tid("greater"), EQ, li(1)], [tid("less"), EQ, li(9)], [tid("greater"), EQ, li(2)]), D(["Debug"])], "validate:duplicate_validator")
    b.add("i32", [V([tid("predicate"), EQ, tfn(0, "p", "p")], [tid("less"), EQ, li(9)], [tid("predicate"), EQ, tfn(1, "p", "p")]), D(["Debug"])], "validate:duplicate_validator")
    b.add("f64", [V("finite", [tid("greater"), EQ, lf("1.0")], "finite"), D(["Debug"])], "validate:duplicate_validator")
    b.add("f64", [V([tid("less"), EQ, lf("9.0")], "finite", [tid("greater"), EQ, lf("1.0")], [tid("less"), EQ, lf("8.0")]), D(["Debug"])], "validate:duplicate_validator")
    b.add("Vec<i32>", [V([tid("predicate"), EQ, tfn(0, "p", "p")], [tid("predicate"), EQ, tfn(1, "p", "p")]), D(["Debug"])], "validate:duplicate_validator")
    b.add("i32", [D(["Debug", "Clone", "Debug"])], "traits:duplicate")
    b.add("f64", [block("validate", [[tid("finite"), EQ, lf("1.0")]])], "parse:bad_validator")

    # ---- literal bounds in every relative position
    for ty, mk in (("i32", li), ("u8", li), ("f64", lambda v: lf("%s.0" % v)), ("f32", lambda v: lf("%s.5" % v))):
        for lk in LOWER:
            for uk in UPPER:
                for lo, hi in ((3, 9), (5, 5), (5, 6), (9, 3), (5, 7)):
                    b.add(ty, [block("validate", [[tid(lk), EQ, mk(lo)], [tid(uk), EQ, mk(hi)]]), D(["Debug"])], "bounds %s %s %d %d" % (lk, uk, lo, hi))
                    b.add(ty, [block("validate", [[tid(uk), EQ, mk(hi)], [tid(lk), EQ, mk(lo)]]), D(["Debug"])], "bounds %s %s %d %d" % (lk, uk, lo, hi))
        # the same contradictions spelled with digit separators / exponents (still literals)
        for lk in LOWER:
            for uk in UPPER:
                if ty in ("i32",):
                    pairs = [("50_000", "10_000"), ("50000", "10_000"), ("1_000", "1_000"), ("1_000", "2_000")]
                elif ty == "u8":
                    pairs = [("2_00", "1_00"), ("1_0", "1_0"), ("1_0", "2_0")]
                else:
                    pairs = [("1_000.0", "1.0"), ("1e3", "1_0.0"), ("1_0.5", "1_0.5"), ("1_0.5", "2_0.5")]
                for lo_t, hi_t in pairs:
                    b.add(ty, [block("validate", [[tid(lk), EQ, tx(lit(lo_t))], [tid(uk), EQ, tx(lit(hi_t))]]), D(["Debug"])], "bounds spelled %s %s" % (lo_t, hi_t))
        b.add(ty, [block("validate", [[tid("greater"), EQ, mk(1)], [tid("greater_or_equal"), EQ, mk(2)]])], "validate:greater_and_greater_or_equal")
        b.add(ty, [block("validate", [[tid("less"), EQ, mk(8)], [tid("less_or_equal"), EQ, mk(9)]])], "validate:less_and_less_or_equal")
    # the same contradictions written as expressions are invisible to the macro
    for ty, val in (("i32", "9"), ("f64", "9.0")):
        env = [("HI", ty, 3 if ty == "i32" else fbits("3.0", True), "const HI: %s = 3%s;" % (ty, "" if ty == "i32" else ".0")),
               ("LO", ty, 9 if ty == "i32" else fbits("9.0", True), "const LO: %s = %s;" % (ty, val))]
        b.add(ty, [block("validate", [[tid("greater"), EQ, tx(k("LO"))], [tid("less"), EQ, tx(k("HI"))]]), D(["Debug"])], "ok", env=env)
        b.add(ty, [block("validate", [[tid("greater"), EQ, tx(k("LO"))], [tid("greater_or_equal"), EQ, tx(k("HI"))]]), D(["Debug"])], "ok", env=env)
    for mn_t, mx_t in (("1_000", "10"), ("1_0", "1_000"), ("1_0", "1_0")):
        b.add("String", [block("validate", [[tid("len_char_min"), EQ, tx(lit(mn_t))], [tid("len_char_max"), EQ, tx(lit(mx_t))]])], "len spelled")
    for mn, mx in ((1, 3), (3, 3), (4, 3), (0, 0)):
        b.add("String", [block("validate", [[tid("len_char_min"), EQ, li(mn)], [tid("len_char_max"), EQ, li(mx)]])], "len %d %d" % (mn, mx))
        b.add("String", [block("validate", [[tid("len_char_max"), EQ, li(mx)], [tid("len_char_min"), EQ, li(mn)]])], "len %d %d" % (mn, mx))

    # ---- bound spellings (C02): what parses as a literal, what falls back to an expression
    sp = [("i32", "5u8", "rustc:bound_type"), ("u8", "5u8", "ok"), ("i32", "0x10", "ok"), ("i32", "1_000", "ok"), ("u8", "300", "rustc:bound_type"),
          ("i32", "1.5", "rustc:bound_type"), ("i64", "5i64", "ok"), ("u16", "65_535", "ok"), ("u16", "65_536", "rustc:bound_type"),
          ("f64", "5", "ok"), ("f64", "1e3", "ok"), ("f64", "2.5E-3", "ok"), ("f64", "1e400", "gen:non_finite_literal"), ("f32", "1e39", "gen:non_finite_literal"),
          ("f32", "5f32", "ok"), ("f64", "5f32", "rustc:bound_type"), ("f64", "5.", "ok"), ("f64", "1_000.5", "ok"), ("f32", "1e-50", "ok")]
    for ty, text, exp in sp:
        b.add(ty, [block("validate", [[tid("less_or_equal"), EQ, tx(lit(text))]]), D(["Debug"])], exp)
    b.add("u8", [block("validate", [[tid("greater"), EQ, tx(neg(lit("5")))]])], "rustc:bound_type")
    b.add("i8", [block("validate", [[tid("greater"), EQ, tx(neg(lit("128")))]]), D(["Debug"])], "ok")
    b.add("i8", [block("validate", [[tid("greater"), EQ, tx(neg(lit("129")))]])], "rustc:bound_type")
    b.add("i32", [block("validate", [[tid("less"), EQ, tx(binop("shl", lit("1"), lit("4")))]])], "parse:tokens_after_literal")
    b.add("i32", [block("validate", [[tid("less"), EQ, tx(binop("add", lit("10"), lit("1")))]])], "parse:tokens_after_literal")
    b.add("i32", [block("validate", [[tid("less"), EQ, tx(par(binop("add", lit("10"), lit("1"))))]]), D(["Debug"])], "ok")
    b.add("i32", [block("validate", [[tid("less"), EQ, tx(binop("sub", lit("10i32"), lit("1")))]]), D(["Debug"])], "ok")
    b.add("u32", [block("validate", [[tid("less"), EQ, tx(par(lit("4294967294")))]]), D(["Debug"])], "rustc:known:untyped_literal_in_display")
    b.add("f64", [block("validate", [[tid("greater"), EQ, tx(neg(lit("0.0")))]]), D(["Debug"])], "ok")

    # ---- derive traits: the whole matrix family x trait x validation
    for fam, (inner, dr) in BASE.items():
        for tr in ALL_TRAITS:
            for shape in ("none", "val", "finite", "custom"):
                if shape == "finite" and fam != "float":
                    continue
                traits = [tr] + [x for x in DEPS.get(tr, []) if x != tr]
                blocks = []
                if shape == "val":
                    blocks.append(block("validate", [[tid("predicate"), EQ, tfn(0, "p", "p")]]))
                elif shape == "finite":
                    blocks.append(block("validate", [[tid("finite")]]))
                elif shape == "custom":
                    blocks.append(block("validate", [[tid("with"), EQ, tfn(0, "p", "c")], [tid("error"), EQ, tpath("CErr")]]))
                if tr == "Default":
                    dv = {"int": li(4), "float": lf("4.0"), "str": tx(estr("a@")), "any": tx(elist([1]))}[fam]
                    blocks.append([tid("default"), EQ, dv])
                blocks.append(D(traits))
                if fam == "any" and tr in ("Copy", "Display", "FromStr", "JsonSchema"):
                    continue        # Vec<i32> itself lacks these impls
                b.add(inner, blocks, "trait %s %s %s" % (fam, tr, shape))
        # dependencies
        b.add(inner, [D(["Eq"])] if fam != "float" else [block("validate", [[tid("finite")]]), D(["Eq"])], "deps")
        b.add(inner, [D(["PartialOrd"])], "deps")
        b.add(inner, [D(["Ord", "PartialOrd", "PartialEq"])] if fam != "float" else [block("validate", [[tid("finite")]]), D(["Ord", "PartialOrd", "PartialEq"])], "deps")
        b.add(inner, [D(["Ord", "Eq", "PartialEq"])] if fam != "float" else [block("validate", [[tid("finite")]]), D(["Ord", "Eq", "PartialEq"])], "deps")
        if fam != "str":
            b.add(inner, [D(["Copy"])], "deps")
        b.add(inner, [D(["From", "TryFrom"])], "traits:from_and_try_from")
        b.add(inner, [D(["Debug", "Debug"])], "ok")
        b.add(inner, [D(["Foo"])], "parse:unknown_trait")
        b.add(inner, [D(["debug"])], "parse:unknown_trait")

    # ---- Arbitrary restrictions
    for inner, vitems, exp in (
            ("i32", [[tid("predicate"), EQ, tfn(0, "p", "p")]], "gen:arbitrary_predicate"),
            ("i32", [[tid("greater"), EQ, li(1)]], "ok"),
            ("f64", [[tid("predicate"), EQ, tfn(0, "p", "p")]], "gen:arbitrary_predicate"),
            ("f64", [[tid("finite")]], "ok"),
            ("String", [[tid("predicate"), EQ, tfn(0, "p", "p")]], "gen:arbitrary_predicate"),
            ("String", [[tid("regex"), EQ, tstr(REGEX_LITS[0])]], "gen:arbitrary_regex"),
            ("String", [[tid("not_empty")]], "ok"),
            ("Vec<i32>", [[tid("predicate"), EQ, tfn(0, "p", "p")]], "gen:arbitrary_any_validation")):
        b.add(inner, [block("validate", vitems), D(["Debug", "Arbitrary"])], exp)
    for inner in ("i32", "f64", "String", "Vec<i32>"):
        b.add(inner, [block("validate", [[tid("with"), EQ, tfn(0, "p", "c")], [tid("error"), EQ, tpath("CErr")]]), D(["Debug", "Arbitrary"])], "gen:arbitrary_custom")
        b.add(inner, [block("sanitize", [[tid("with"), EQ, tfn(0, "p", "s")]]), D(["Debug", "Arbitrary"])], "ok")
    b.add("f64", [block("sanitize", [[tid("with"), EQ, tfn(0, "p", "s")]]), block("validate", [[tid("finite")]]), D(["Debug", "Arbitrary"])], "gen:arbitrary_with_sanitizer")
    b.add("String", [block("sanitize", [[tid("with"), EQ, tfn(0, "p", "s")]]), block("validate", [[tid("not_empty")]]), D(["Debug", "Arbitrary"])], "gen:arbitrary_with_sanitizer")
    b.add("i32", [block("sanitize", [[tid("with"), EQ, tfn(0, "p", "s")]]), block("validate", [[tid("greater"), EQ, li(1)]]), D(["Debug", "Arbitrary"])], "ok")

    # ---- regex
    b.add("String", [block("validate", [[tid("regex"), EQ, tstr("(")]])], "validate:invalid_regex")
    b.add("String", [block("validate", [[tid("regex"), EQ, tstr("[a-")]])], "validate:invalid_regex")
    # literals whose validity depends on reading the escapes of the Rust literal (value, not spelling)
    for val, ok in (("[\\]", False), ("\\", False), ("a\\", False), ("\"", True), ("\\d+", True), ("\\\\", True), ("[\\]]", True)):
        for raw in (False, True):
            b.add("String", [block("validate", [[tid("regex"), EQ, tstr(val, raw)]]), derive_block(["Debug"])], "ok" if ok else "validate:invalid_regex")
    b.add("String", [block("validate", [[tid("regex"), EQ, tstr(REGEX_LITS[2])]]), D(["Debug"])], "ok")
    # every Unicode class the regex crate knows by default is part of the grammar of a regex literal: scripts,
    # boolean properties, general categories, Perl classes (the macro compiles the literal at expansion time)
    for val in ("^\\p{Greek}+$", "\\p{Alphabetic}", "^\\p{Lu}\\p{Ll}+$", "\\p{Cyrillic}|\\p{Han}", "(?i)^\\w+\\b$"):
        b.add("String", [block("validate", [[tid("regex"), EQ, tstr(val.replace("\\\\", "\\"))]]), derive_block(["Debug"])], "ok")
    b.add("String", [block("validate", [[tid("regex"), EQ, tpath("RE1")]]), D(["Debug"])], "ok")
    b.add("i32", [block("validate", [[tid("regex"), EQ, tstr("@")]])], "parse:unknown_validator")

    # ---- const_fn
    b.add("i32", [[tid("const_fn")], block("sanitize", [[tid("with"), EQ, tfn(0, "p", "s")]]), block("validate", [[tid("less"), EQ, li(9)], [tid("predicate"), EQ, tfn(0, "p", "p")]]), D(["Debug"])], "ok")
    b.add("i32", [[tid("const_fn")], block("sanitize", [[tid("with"), EQ, tfn(0, "c00", "s")]]), D(["Debug"])], "rustc:const_fn_body")
    b.add("f64", [[tid("const_fn")], block("validate", [[tid("finite")], [tid("greater"), EQ, lf("0.0")]]), D(["Debug"])], "ok")
    b.add("String", [[tid("const_fn")], block("sanitize", [[tid("trim")]]), D(["Debug"])], "rustc:const_fn_body")
    b.add("i32", [[tid("const_fn")], block("validate", [[tid("with"), EQ, tfn(0, "p", "c")], [tid("error"), EQ, tpath("CErr")]]), D(["Debug"])], "rustc:const_fn_body")

    # ---- generics, type-parameter names (incl. the short names generated code also uses)
    for pn in ("T", "U", "D", "DE", "S", "E", "V"):
        for traits in (["Debug", "Clone"], ["Debug", "Serialize"], ["Debug", "Deserialize"], ["Debug", "Serialize", "Deserialize"]):
            d = b.add("Vec<%s>" % pn, [D(traits)], "generic %s %s" % (pn, "+".join(traits)), name="W", generics=[(pn, [])])
            d.inst = "<i32>"
            d.inner_concrete = "Vec<i32>"
    for bounds in ([], ["Ord"]):
        for traits in (["Debug", "Into"], ["Debug", "AsRef", "Deref", "Borrow", "From"], ["Debug", "Clone", "PartialEq", "Eq", "PartialOrd", "Ord", "Hash"]):
            d = b.add("Vec<T>", [D(traits)], "generic bounds", name="W", generics=[("T", bounds)])
            d.inst = "<i32>"
            d.inner_concrete = "Vec<i32>"
        d = b.add("Vec<T>", [[tid("new_unchecked")], D(["Debug"])], "rustc:known:new_unchecked_generics", name="W", generics=[("T", bounds)])
        d.inst = "<i32>"
        d.inner_concrete = "Vec<i32>"
    # type names that collide with nothing
    for nm in ("T", "E", "Error", "Visitor", "Inner", "Value"):
        b.add("i32", [block("validate", [[tid("greater"), EQ, li(1)]]), D(["Debug", "FromStr", "Serialize", "Deserialize"])], "ok", name=nm)
    return b.decls


def gen_feature_decls(rng, tier):
    """declarations whose verdict depends on the crate features; run in a workspace that
    enables only `std`"""
    b = Builder("w")
    D = derive_block
    b.add("i32", [D(["Debug"])], "ok")
    b.add("i32", [D(["Serialize"])], "parse:serde_feature")
    b.add("i32", [D(["Deserialize"])], "parse:serde_feature")
    b.add("i32", [D(["Arbitrary"])], "parse:arbitrary_feature")
    b.add("i32", [D(["JsonSchema"])], "parse:schemars_feature")
    b.add("i32", [[tid("new_unchecked")], D(["Debug"])], "parse:new_unchecked_feature")
    b.add("String", [block("validate", [[tid("regex"), EQ, tstr("@")]]), D(["Debug"])], "parse:regex_feature")
    b.add("String", [block("validate", [[tid("regex"), EQ, tpath("RE1")]]), D(["Debug"])], "parse:regex_feature")
    b.add("String", [block("validate", [[tid("not_empty")]]), D(["Debug"])], "ok")
    b.add("f64", [block("validate", [[tid("finite")]]), D(["Debug", "PartialEq", "Eq", "PartialOrd", "Ord"])], "ok")
    return b.decls


# ---------------------------------------------------------------- C02: spellings and layouts

REL = {"greater": lambda x, b: x > b, "greater_or_equal": lambda x, b: x >= b,
       "less": lambda x, b: x < b, "less_or_equal": lambda x, b: x <= b,
       "len_char_min": lambda x, b: x >= b, "len_char_max": lambda x, b: x <= b}


def consts_f(ty, lo, hi):
    is64 = FLOAT_TYPES[ty]
    return [("LO", ty, fbits(lo, is64), "const LO: %s = %s;" % (ty, lo)), ("HI", ty, fbits(hi, is64), "const HI: %s = %s;" % (ty, hi))]


def gen_c02_decls(rng, tier):
    """(1) one rule, every spelling: the intended value and kind are recorded on the
    declaration so that the expected verdict at the bound's neighbours is computed without the
    model; (2) layout families: one rule set in many attribute layouts, all members must behave
    identically"""
    b = Builder("c")
    D = derive_block
    types = ["i8", "u8", "i32", "u64", "i128"] if tier == "quick" else list(INT_TYPES)
    n = 0
    for ty in types:
        lo, hi = ity_min(ty), ity_max(ty)
        vals = [v for v in (-7, 0, 16, 100, lo + 2, hi - 2, hi, lo, hi - 1, lo + 1) if lo <= v <= hi]
        for si, style in enumerate(INT_STYLES):
            for ki, kind in enumerate(LOWER + UPPER):
                v = vals[(si + ki + n) % len(vals)]
                env = []
                e = spell_int(ty, v, style, env, "b")
                d = b.add(ty, [block("validate", [[tid(kind), EQ, tx(e)]]), D(["Debug"])], "spelling", env=env)
                d.rule = (kind, v)
                d.tags.add("spelling")
        n += 1
    for ty in ("f32", "f64"):
        is64 = FLOAT_TYPES[ty]
        texts = ["-5.5", "0.0", "64.0", "1e3", "2.5E-3", "1_000.5", "7", "-0.0", "100", "1.4142135623730951", "0.30000000000000004", "3.1415927", "16777216.0",
                 # a hair beside an f32 midpoint: the literal must be rounded once, at the width of the inner type
                 "1.0000000596046448", "16777217.000000001", "-1.00000017881393432", "0.10000000149011612"]
        for si, style in enumerate(["lit", "const", "negconst", "parenconst", "parenlit"]):
            for ki, kind in enumerate(LOWER + UPPER):
                t = texts[(si * 2 + ki) % len(texts)]
                env = []
                e = spell_float(ty, t, style, env, "b")
                d = b.add(ty, [block("validate", [[tid(kind), EQ, tx(e)]]), D(["Debug"])], "spelling", env=env)
                d.rule = (kind, fbits(t, is64))
                d.tags.add("spelling")
        for mi, t in enumerate(texts[-4:]):
            for si, style in enumerate(["lit", "parenlit"]):
                kind = (LOWER + UPPER)[(mi + si * 2) % 4]
                env = []
                e = spell_float(ty, t, style, env, "b")
                d = b.add(ty, [block("validate", [[tid(kind), EQ, tx(e)]]), D(["Debug"])], "spelling", env=env)
                d.rule = (kind, fbits(t, is64))
                d.tags.add("spelling")
        for which, kind in (("MAX", "less_or_equal"), ("MIN", "greater_or_equal"), ("MIN_POSITIVE", "greater"), ("EPSILON", "less")):
            env = []
            e = assoc_float(ty, which, env)
            d = b.add(ty, [block("validate", [[tid(kind), EQ, tx(e)]]), D(["Debug"])], "spelling", env=env)
            d.rule = (kind, env[-1][2])
            d.tags.add("spelling")
    for kind in ("len_char_min", "len_char_max"):
        for si, style in enumerate(USIZE_STYLES):
            v = [0, 1, 2, 4][si % 4]
            env = []
            e = spell_int("usize", v, style, env, "b")
            d = b.add("String", [block("validate", [[tid(kind), EQ, tx(e)]]), D(["Debug"])], "spelling", env=env)
            d.rule = (kind, v)
            d.tags.add("spelling")
    # ---- rule sets the macro cannot honour as a whole: they must be refused, not thinned
    W, E = [tid("with"), EQ, tfn(0, "p", "c")], [tid("error"), EQ, tpath("CErr")]
    for inner, builtin in (("i32", [tid("greater_or_equal"), EQ, li(0)]), ("f64", [tid("finite")]),
                           ("String", [tid("not_empty")]), ("Vec<i32>", [tid("predicate"), EQ, tfn(0, "p", "p")])):
        for order in ([builtin, W, E], [W, builtin, E], [W, E, builtin], [E, builtin, W]):
            d = b.add(inner, [block("validate", order), D(["Debug"])], "must be refused")
            d.tags.add("mustreject")
    for blocks in ([block("validate", [[tid("greater"), EQ, li(10)]]), block("validate", [[tid("less"), EQ, li(5)]])],
                   [block("sanitize", [[tid("with"), EQ, tfn(0, "p", "s")]]), block("sanitize", [[tid("with"), EQ, tfn(1, "p", "s")]])]):
        d = b.add("i32", blocks + [D(["Debug"])], "must be refused")
        d.tags.add("mustreject")
    # ---- presence: several rules at once, each with a witness input that it alone (or it first) must refuse
    def presence(inner, items, witnesses, env=None):
        d = b.add(inner, [block("validate", items), D(["Debug"])], "presence", env=env or [])
        d.tags.add("presence")
        d.witnesses = witnesses
        return d
    for ty in ("i32", "u8"):
        for lk in LOWER:
            for uk in UPPER:
                for spell in range(4):   # lit/lit, lit/const, const/lit, const/const
                    env = [("LO", ty, 3, "const LO: %s = 3;" % ty), ("HI", ty, 10, "const HI: %s = 10;" % ty)]
                    lo = [tid(lk), EQ, li(3) if spell & 1 == 0 else tx(k("LO"))]
                    hi = [tid(uk), EQ, li(10) if spell & 2 == 0 else tx(k("HI"))]
                    for items in ([lo, hi], [hi, lo]):
                        presence(ty, items, [(lk, ("i", 2)), (uk, ("i", 11))], env)
    for ty in ("f32", "f64"):
        is64 = FLOAT_TYPES[ty]
        nan = 0x7FF8000000000000 if is64 else 0x7FC00000
        pinf = 0x7FF0000000000000 if is64 else 0x7F800000
        ninf = pinf | (1 << (63 if is64 else 31))
        FIN = [tid("finite")]
        for lk in LOWER:
            for uk in UPPER:
                for spell in range(4):
                    env = consts_f(ty, "-2.5", "7.5")
                    lo = [tid(lk), EQ, lf("-2.5") if spell & 1 == 0 else tx(k("LO"))]
                    hi = [tid(uk), EQ, lf("7.5") if spell & 2 == 0 else tx(k("HI"))]
                    wl, wu = (lk, ("f", fbits("-3.0", is64))), (uk, ("f", fbits("8.0", is64)))
                    wf = [("finite", ("f", nan)), ("finite", ("f", pinf)), ("finite", ("f", ninf))]
                    for items in permutations([FIN, lo, hi])[:: 1 if spell in (0, 3) else 2]:
                        presence(ty, items, [wl, wu] + wf, env)
                    if spell in (0, 3):
                        presence(ty, [FIN, lo], [wl] + wf, env)
                        presence(ty, [hi, FIN], [wu] + wf, env)
    MN, MX, NE = [tid("len_char_min"), EQ, li(2)], [tid("len_char_max"), EQ, li(4)], [tid("not_empty")]
    RXL = [tid("regex"), EQ, tstr(REGEX_LITS[0])]
    for items, wit in (([NE, MN, MX], [("not_empty", ("s", "")), ("len_char_min", ("s", "a")), ("len_char_max", ("s", "abcde"))]),
                       ([MX, MN, NE], [("not_empty", ("s", "")), ("len_char_min", ("s", "a")), ("len_char_max", ("s", "abcde"))]),
                       ([MX, NE], [("not_empty", ("s", "")), ("len_char_max", ("s", "abcde"))]),
                       ([NE, RXL, MX], [("not_empty", ("s", "")), ("regex", ("s", "aB")), ("len_char_max", ("s", "abcde"))]),
                       ([RXL, MN], [("regex", ("s", "a1")), ("len_char_min", ("s", "a"))]),
                       ([MN, RXL, NE], [("regex", ("s", "ab ")), ("len_char_min", ("s", "a")), ("not_empty", ("s", ""))])):
        presence("String", items, wit)
    # written order = checked order: an input that violates two written rules is reported with the one
    # written first (expected variant fixed here by hand, not by the model)
    def ordered(inner, items, cases, env=None):
        d = presence(inner, items, [], env)
        d.order_witnesses = cases
        return d
    ordered("String", [RXL, MN], [(("s", "A"), "regex"), (("s", "a"), "len_char_min"), (("s", ""), "regex")])
    ordered("String", [MN, RXL], [(("s", "A"), "len_char_min"), (("s", "AB"), "regex"), (("s", ""), "len_char_min")])
    ordered("String", [RXL, MX], [(("s", "ABCDEF"), "regex"), (("s", "abcdef"), "len_char_max")])
    ordered("String", [MX, RXL], [(("s", "ABCDEF"), "len_char_max"), (("s", "AB"), "regex")])
    ordered("String", [RXL, NE], [(("s", ""), "regex")])
    ordered("String", [NE, MX, RXL], [(("s", ""), "not_empty"), (("s", "ABCDEF"), "len_char_max")])
    ordered("String", [[tid("regex"), EQ, tpath("RE0")], MN], [(("s", "A"), "regex"), (("s", ""), "regex")])
    for ty in ("f32", "f64"):
        is64 = FLOAT_TYPES[ty]
        pinf = 0x7FF0000000000000 if is64 else 0x7F800000
        ninf = pinf | (1 << (63 if is64 else 31))
        FIN = [tid("finite")]
        ordered(ty, [[tid("less_or_equal"), EQ, lf("7.5")], FIN], [(("f", pinf), "less_or_equal"), (("f", ninf), "finite")])
        ordered(ty, [FIN, [tid("less_or_equal"), EQ, lf("7.5")]], [(("f", pinf), "finite"), (("f", fbits("8.0", is64)), "less_or_equal")])
        ordered(ty, [[tid("greater"), EQ, lf("-2.5")], FIN, [tid("less"), EQ, lf("7.5")]],
                [(("f", ninf), "greater"), (("f", pinf), "finite"), (("f", fbits("7.5", is64)), "less")])
    # multi-byte witnesses: the limits count characters, not bytes
    ZH, EM = "\u0436", "\U0001F600"
    for items, wit in (([MN, MX], [("len_char_min", ("s", ZH)), ("len_char_min", ("s", EM)), ("len_char_max", ("s", ZH * 5)), ("len_char_max", ("s", "a" + EM * 4))]),
                       ([MX, MN], [("len_char_min", ("s", ZH)), ("len_char_max", ("s", EM * 5))]),
                       ([NE, MX, MN], [("len_char_min", ("s", EM)), ("len_char_max", ("s", ZH * 5))])):
        presence("String", items, wit)
    # ---- sanitizers run in the written order: expected value computed here (ASCII inputs only), not by the model
    RUST_WS = "".join(chr(c_) for c_ in list(range(9, 14)) + [0x20, 0x85, 0xA0, 0x1680] + list(range(0x2000, 0x200B)) + [0x2028, 0x2029, 0x202F, 0x205F, 0x3000])
    PY_SAN = {"trim": lambda s_: s_.strip(RUST_WS), "lowercase": lambda s_: s_.lower(), "uppercase": lambda s_: s_.upper(),
              "W0": lambda s_: s_ + "!", "W1": lambda s_: s_.upper(), "W2": lambda s_: s_[:3]}
    chains = [["W0", "trim"], ["trim", "W0"], ["W2", "trim"], ["trim", "W2"], ["W2", "trim", "lowercase"], ["lowercase", "W2", "trim"],
              ["W0", "trim", "uppercase"], ["uppercase", "W0", "trim"], ["trim", "W2", "lowercase"], ["W2", "lowercase"], ["lowercase", "W0"],
              ["W0", "W2"], ["W2", "W0"], ["W0", "lowercase", "trim"], ["trim", "lowercase", "W0"]]
    if tier == "quick":
        chains = chains[::1]
    # the same chains once more with the custom step written as a closure that leaves through an explicit
    # `return` on inputs starting with a blank (same function, another spelling): the steps written after it
    # must still run
    chains = [(c_, False) for c_ in chains] + [(c_, True) for c_ in (["W1", "trim"], ["W2", "trim", "lowercase"], ["W1", "lowercase", "trim"], ["uppercase", "W2", "trim"])]
    for ci, (chain, early) in enumerate(chains):
        sitems = [[tid("with"), EQ, tfn(int(c_[1]), "r00" if early else FORMS[ci % 5], "s")] if c_.startswith("W") else [tid(c_)] for c_ in chain]
        if sum(1 for c_ in chain if c_.startswith("W")) > 1:
            continue            # two `with` sanitizers are refused (duplicate kind)
        d = b.add("String", [block("sanitize", sitems, trailing=bool(ci % 2)), D(["Debug"])], "sanorder")
        d.tags.add("sanorder")
        ins = [" Ab ", "AB CD", "  x", "a_b ", " ", "", "abc  ", "  ABCD  ", "A b", " a b c d ",
               "\u00a0Ab\u3000", "\u2003x", "ab\u0085", "\u000bAB\u000c", "\u00a0", "\u3000a b\u2028"]
        d.expected = []
        for s_ in ins:
            v = s_
            for c_ in chain:
                v = PY_SAN[c_](v)
            d.expected.append((s_, v))
    # ---- layout families
    fam_id = 0

    def family(inner, mk_blocks, variants):
        nonlocal fam_id
        for v in variants:
            blocks, trailing = mk_blocks(v)
            d = Decl("c%d" % len(b.decls), inner, attr(blocks, trailing=trailing), tags={"verdict", "layout"})
            d.expect = "layout"
            d.family_id = fam_id
            d.default_arg = None
            b.decls.append(d)
        fam_id += 1

    perms = permutations([0, 1, 2, 3])
    if tier == "quick":
        perms = perms[::2]

    def int_blocks(v):
        perm, form_s, form_p, trail = v
        bl = [block("sanitize", [[tid("with"), EQ, tfn(0, form_s, "s")]], trailing=trail),
              block("validate", [[tid("greater"), EQ, li(3)], [tid("less_or_equal"), EQ, li(10)], [tid("predicate"), EQ, tfn(1, form_p, "p")]], trailing=not trail),
              [tid("default"), EQ, li(5)],
              D(["Debug", "Default"])]
        return [bl[i] for i in perm], trail
    family("i32", int_blocks, [(p, FORMS[i % 5], PRED_FORMS[i % 3], bool(i % 2)) for i, p in enumerate(perms)])

    def str_blocks(v):
        perm, rx, trail = v
        bl = [block("sanitize", [[tid("trim")], [tid("lowercase")]], trailing=trail),
              block("validate", [[tid("len_char_min"), EQ, li(2)], [tid("regex"), EQ, tstr(REGEX_LITS[0]) if rx else tpath("RE0")]]),
              [tid("default"), EQ, tx(estr("abc"))],
              D(["Debug", "Default"])]
        return [bl[i] for i in perm], trail
    family("String", str_blocks, [(p, bool(i % 2), bool((i // 2) % 2)) for i, p in enumerate(perms[::2])])

    def rx_blocks(v):
        lit_, trail = v
        return [block("validate", [[tid("regex"), EQ, tstr(REGEX_LITS[3]) if lit_ else tpath("RE3")], [tid("len_char_max"), EQ, li(6)]], trailing=trail), D(["Debug"])], False
    family("String", rx_blocks, [(True, False), (False, False), (True, True), (False, True)])

    # one regex, three spellings: the literal with an inline flag, a static built from the same text, a static built
    # with RegexBuilder::case_insensitive(true) (the options of a named regex are part of the rule)
    def rx_ci_blocks(v):
        return [block("validate", [[tid("regex"), EQ, (tstr(REGEX_LITS[4]) if v == "lit" else tpath(v))]]), D(["Debug"])], False
    family("String", rx_ci_blocks, ["lit", "RE4", "RE5"])

    # flags never change what the rules mean: const_fn / new_unchecked in any position
    def flag_family(inner, base_blocks):
        variants = [([], []), ([[tid("const_fn")]], []), ([], [[tid("const_fn")]]), ([[tid("new_unchecked")]], []), ([[tid("const_fn")], [tid("new_unchecked")]], []),
                    ([[tid("new_unchecked")]], [[tid("const_fn")]])]
        family(inner, lambda v: (v[0] + base_blocks() + v[1], False), variants)
    flag_family("i32", lambda: [block("sanitize", [[tid("with"), EQ, tfn(0, "p", "s")]]),
                                block("validate", [[tid("greater_or_equal"), EQ, li(50)], [tid("less_or_equal"), EQ, li(100)]]), D(["Debug"])])
    flag_family("i32", lambda: [block("sanitize", [[tid("with"), EQ, tfn(0, "p", "s")]]),
                                block("validate", [[tid("less"), EQ, li(100)], [tid("greater"), EQ, li(0)]]), D(["Debug"])])
    flag_family("f64", lambda: [block("sanitize", [[tid("with"), EQ, tfn(0, "p", "s")]]),
                                block("validate", [[tid("finite")], [tid("less_or_equal"), EQ, lf("100.0")], [tid("greater_or_equal"), EQ, lf("50.0")]]), D(["Debug"])])

    def f_blocks(v):
        perm, form_p, trail = v
        bl = [block("validate", [[tid("finite")], [tid("greater_or_equal"), EQ, lf("0.0")], [tid("predicate"), EQ, tfn(0, form_p, "p")]], trailing=trail),
              block("sanitize", [[tid("with"), EQ, tfn(2, "p", "s")]]),
              D(["Debug"])]
        return [bl[i] for i in perm], trail
    family("f64", f_blocks, [(p, PRED_FORMS[i % 3], bool(i % 2)) for i, p in enumerate(permutations([0, 1, 2]))])
    return b.decls


# ---------------------------------------------------------------- generated #[test]s (C08)

def gen_gentest_decls(rng, tier):
    """declarations whose consistency the macro cannot decide itself (expression-valued
    bounds, defaults): the #[test]s it emits must fail exactly for the inconsistent ones"""
    b = Builder("g")
    D = derive_block

    def consts(ty, lo, hi, flt=False):
        if flt:
            is64 = FLOAT_TYPES[ty]
            return [("LO", ty, fbits(lo, is64), "const LO: %s = %s;" % (ty, lo)), ("HI", ty, fbits(hi, is64), "const HI: %s = %s;" % (ty, hi))]
        return [("LO", ty, lo, "const LO: %s = %d;" % (ty, lo)), ("HI", ty, hi, "const HI: %s = %d;" % (ty, hi))]
    for ty in ("i32", "u8", "i64"):
        for lk in LOWER:
            for uk in UPPER:
                for lo, hi in ((3, 9), (5, 5), (9, 3), (5, 6)):
                    b.add(ty, [block("validate", [[tid(lk), EQ, tx(k("LO"))], [tid(uk), EQ, tx(k("HI"))]]), D(["Debug"])],
                          "gentest", env=consts(ty, lo, hi))
    for ty in ("f32", "f64"):
        for lk in LOWER:
            for uk in UPPER:
                for lo, hi in (("0.5", "9.5"), ("5.0", "5.0"), ("9.5", "0.5"), ("-0.0", "0.0")):
                    b.add(ty, [block("validate", [[tid(lk), EQ, tx(k("LO"))], [tid(uk), EQ, tx(k("HI"))]]), D(["Debug"])],
                          "gentest", env=consts(ty, lo, hi, True))
    for mn, mx in ((1, 3), (3, 3), (4, 3)):
        env = [("MN", "usize", mn, "const MN: usize = %d;" % mn), ("MX", "usize", mx, "const MX: usize = %d;" % mx)]
        b.add("String", [block("validate", [[tid("len_char_min"), EQ, tx(k("MN"))], [tid("len_char_max"), EQ, tx(k("MX"))]]), D(["Debug"])], "gentest", env=env)
        b.add("String", [block("validate", [[tid("len_char_max"), EQ, tx(k("MX"))], [tid("len_char_min"), EQ, tx(k("MN"))]]), D(["Debug"])], "gentest", env=env)
        # one literal and one expression (the macro cannot compare them either), and two literals
        b.add("String", [block("validate", [[tid("len_char_min"), EQ, li(mn)], [tid("len_char_max"), EQ, tx(k("MX"))]]), D(["Debug"])], "gentest", env=env)
        b.add("String", [block("validate", [[tid("len_char_min"), EQ, tx(k("MN"))], [tid("len_char_max"), EQ, li(mx)]]), D(["Debug"])], "gentest", env=env)
        if mn <= mx:
            b.add("String", [block("validate", [[tid("len_char_max"), EQ, li(mx)], [tid("len_char_min"), EQ, li(mn)]]), D(["Debug"])], "gentest")
    for ty in ("i16", "u64"):
        for lo, hi in ((3, 9), (5, 5), (9, 3)):
            b.add(ty, [block("validate", [[tid("greater_or_equal"), EQ, li(lo)], [tid("less_or_equal"), EQ, tx(k("HI"))]]), D(["Debug"])],
                  "gentest", env=consts(ty, lo, hi))
            b.add(ty, [block("validate", [[tid("less"), EQ, li(hi)], [tid("greater"), EQ, tx(k("LO"))]]), D(["Debug"])],
                  "gentest", env=consts(ty, lo, hi))
    for lo, hi in (("0.5", "9.5"), ("5.0", "5.0"), ("9.5", "0.5")):
        b.add("f64", [block("validate", [[tid("greater"), EQ, lf(lo)], [tid("less_or_equal"), EQ, tx(k("HI"))]]), D(["Debug"])],
              "gentest", env=consts("f64", lo, hi, True))
    # defaults: valid, invalid, needing sanitisation; literal and constant
    for ty, dv, envs in (("i32", 5, []), ("i32", 50, []), ("i32", 150, []), ("i32", -3, [])):
        b.add(ty, [block("sanitize", [[tid("with"), EQ, tfn(0, "p", "s")]]), block("validate", [[tid("less"), EQ, li(100)], [tid("greater"), EQ, li(0)]]),
                   [tid("default"), EQ, li(dv)], D(["Debug", "Default"])], "gentest")
        env = [("DV", ty, dv, "const DV: %s = %d;" % (ty, dv))]
        b.add(ty, [block("validate", [[tid("less"), EQ, li(100)], [tid("greater"), EQ, li(0)]]),
                   [tid("default"), EQ, tx(k("DV"))], D(["Debug", "Default"])], "gentest", env=env)
    for dv in ("1.5", "-1.5", "100.0"):
        b.add("f64", [block("validate", [[tid("finite")], [tid("greater_or_equal"), EQ, lf("0.0")]]), [tid("default"), EQ, lf(dv)], D(["Debug", "Default"])], "gentest")
    for dv in ("ab", "", "  ", " x "):
        b.add("String", [block("sanitize", [[tid("trim")]]), block("validate", [[tid("not_empty")]]), [tid("default"), EQ, tx(estr(dv))], D(["Debug", "Default"])], "gentest")
    for dv in ([1], [], [1, 2, 3, 4, 5]):
        b.add("Vec<i32>", [block("validate", [[tid("predicate"), EQ, tfn(0, "p", "p")]]), [tid("default"), EQ, tx(elist(dv))], D(["Debug", "Default"])], "gentest")
    # default expressions spelled with braces (a block, an if): same value, the generated test must still build
    for ty, dv in (("i32", 5), ("i32", 500)):
        env = [("DV", ty, dv, "const DV: %s = %d;" % (ty, dv))]
        for spelled in ("{ DV }", "if true { DV } else { 0 }"):
            b.add(ty, [block("validate", [[tid("less"), EQ, li(100)], [tid("greater"), EQ, li(0)]]),
                       [tid("default"), EQ, tx(k("DV", spelled))], D(["Debug", "Default"])], "gentest", env=env)
    # custom validation: the default test is emitted too
    WC, EC = [tid("with"), EQ, tfn(0, "p", "c")], [tid("error"), EQ, tpath("CErr")]
    for ty, dvs in (("i32", [li(5), li(-5), li(500)]), ("f64", [lf("1.5"), lf("-1.5"), lf("500.0")]), ("String", [tx(estr("ab")), tx(estr("xab")), tx(estr(""))])):
        for dv in dvs:
            b.add(ty, [block("validate", [WC, EC]), [tid("default"), EQ, dv], D(["Debug", "Default"])], "gentest")
    # no validation / generic: no default test is emitted
    b.add("i32", [[tid("default"), EQ, li(5)], D(["Debug", "Default"])], "gentest")
    for d in b.decls:
        d.no_run = True
    return b.decls


def gen_c12_decls(rng, tier):
    """float declarations asking for Eq / Ord: refused unless `finite` is among the validators,
    whatever else is declared (bounds, predicate, custom validation, sanitizers)"""
    b = Builder("e")
    D = derive_block
    vsets = [("none", None), ("lower", [[tid("greater_or_equal"), EQ, lf("0.0")]]), ("upper", [[tid("less"), EQ, lf("5.0")]]),
             ("both", [[tid("greater"), EQ, lf("-1.0")], [tid("less_or_equal"), EQ, lf("5.0")]]),
             ("predicate", [[tid("predicate"), EQ, tfn(0, "p", "p")]]),
             ("custom", [[tid("with"), EQ, tfn(0, "p", "c")], [tid("error"), EQ, tpath("CErr")]]),
             ("finite", [[tid("finite")]]), ("finite_lower", [[tid("finite")], [tid("greater_or_equal"), EQ, lf("0.0")]]),
             ("upper_finite", [[tid("less"), EQ, lf("5.0")], [tid("finite")]]),
             ("finite_predicate", [[tid("predicate"), EQ, tfn(0, "p", "p")], [tid("finite")]])]
    dsets = [["Debug", "PartialEq", "Eq"], ["Debug", "PartialEq", "Eq", "PartialOrd", "Ord"], ["Debug", "PartialEq", "PartialOrd", "Eq", "Ord", "Clone", "Copy"]]
    for ty in ("f32", "f64"):
        for vname, vs in vsets:
            for ds in dsets:
                for san in (False, True):
                    for cf in (False, True):
                        if cf and (vname in ("predicate", "custom", "finite_predicate") or san):
                            continue
                        blocks = ([[tid("const_fn")]] if cf else []) + ([block("sanitize", [[tid("with"), EQ, tfn(0, "p", "s")]])] if san else [])
                        if vs:
                            blocks.append(block("validate", vs))
                        blocks.append(D(ds))
                        d = b.add(ty, blocks, "ok" if "finite" in vname else "traits:float_needs_finite")
                        d.has_finite = "finite" in vname
                        d.must_refuse = False
            # derive sets lacking a prerequisite: refused whatever the validators are (an implied Eq
            # would escape the `finite` requirement)
            for ds in (["Debug", "PartialEq", "PartialOrd", "Ord"], ["Debug", "Eq"], ["Debug", "PartialEq", "Eq", "Ord"], ["Debug", "Ord"]):
                blocks = [block("validate", vs)] if vs else []
                blocks.append(D(ds))
                d = b.add(ty, blocks, "traits:float_derive_dependency")
                d.has_finite = "finite" in vname
                d.must_refuse = True
    return b.decls
