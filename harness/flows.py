"""The behavioural correspondence flow shared by the guard-level properties: render a corpus
of declarations, build it against /repo's working tree, run operations on the real
generated code and on the model (extracted from Coq), and diff the outcomes."""
import shutil, os, time, json
from common import *
import engine, runner
from syntax import val_sexp


class Case:
    __slots__ = ("decl", "k", "op", "arg", "impl", "model", "oracle", "spec", "spec_arg", "extra")

    def __init__(self, decl, k, op, arg, spec_arg=None):
        self.decl, self.k, self.op, self.arg = decl, k, op, arg
        self.impl = self.model = self.oracle = self.spec = None
        self.extra = []
        self.spec_arg = spec_arg      # raw value on which the L3 specification is evaluated

    @property
    def cid(self):
        return "%s.%d" % (self.decl.id, self.k)


class GuardRun:
    """one corpus through implementation and model"""

    def __init__(self, wsname, decls, features=runner.FEATURES_ALL, nostd=False):
        self.ws = runner.Workspace(wsname, features, nostd=nostd)
        self.decls = decls
        self.features = features
        self.cases = []
        self.by_decl = {}
        self.unexpected_rejects = {}
        self.model_verdict = {}
        self.stats = {}

    def add_ops(self, d, ops, spec=False):
        """ops: list of (op, arg_text); spec: also evaluate the L3 specification on arg"""
        lst = self.by_decl.setdefault(d.id, [])
        for op, arg in ops:
            c = Case(d, len(lst), op, arg, arg if spec else None)
            lst.append(c)
            self.cases.append(c)

    def build(self, release=False):
        t0 = time.time()
        live = list(self.decls)
        dropped = {}
        for attempt in range(6):
            self.ws.write(live)
            rc, errors, stderr = self.ws.build(release=release)
            if rc == 0:
                break
            bad = runner.attribute_errors(self.ws, errors)
            if not bad:
                raise RuntimeError("cargo build failed and no error could be attributed to a declaration: "
                                   + " ;; ".join(str(getattr(e_, "message", e_))[:400] for e_ in errors[:4]) + "\n" + stderr[-2000:])
            for did, msgs in bad.items():
                dropped[did] = msgs
            live = [d for d in live if d.id not in dropped]
        else:
            raise RuntimeError("cargo build keeps failing")
        self.unexpected_rejects = dropped
        self.live = {d.id for d in live}
        self.stats["build_s"] = round(time.time() - t0, 1)
        return dropped

    def run_impl(self, release=False):
        t0 = time.time()
        cases = [(c.cid, c.decl.id, c.op, c.arg) for c in self.cases if c.decl.id in self.live]
        out = self.ws.run_cases(cases, release=release)
        for c in self.cases:
            r = out.get(c.cid)
            if r is not None and " ## " in r:
                parts = r.split(" ## ")
                r, c.oracle, c.extra = parts[0], parts[1], parts[2:]
            c.impl = r
        self.stats["impl_s"] = round(time.time() - t0, 1)

    CHUNK = 300

    def op_sexp(self, c):
        if c.op == "from_str":
            if c.decl.family() == "int":
                # integer texts are parsed by the model itself (Sem/Text.parse_int)
                return "(from_str_t %s)" % c.arg
            return "(from_str %s)" % (c.oracle if c.oracle else "none")
        if c.op == "de_json" and c.decl.family() in ("int", "str"):
            # String and integer documents are read by the model itself (Sem/Json)
            return "(de_json_t %s)" % c.arg
        if c.op == "ser_text":
            return "(ser_json_t %s)" % c.arg
        if c.op == "ser_mp_bytes":
            return "(ser_mp_t %s)" % c.arg
        if c.op == "de_mp" and (c.decl.family() == "str" or (c.decl.family() == "int" and c.decl.inner not in ("u128", "i128"))):
            # String and <= 64-bit integer documents are read by the model itself (Sem/MsgPack)
            return "(de_mp_t%s)" % c.arg[2:-1]
        if c.op in ("de", "de_json", "de_ron", "de_mp", "de_self", "de_seq1"):
            return "(de %s)" % (c.oracle if c.oracle and c.oracle != "-" else "none")
        if c.op in ("default", "arb_range", "msgs", "arb_decide"):
            return "(%s)" % c.op
        if c.op == "arb":
            return "(arb%s)" % c.arg[2:-1]
        if c.op == "cmp2":
            return "(cmp2 %s)" % c.arg[3:-1]
        if c.op in ("try_from_ref",):
            return "(try_from %s)" % c.arg
        if c.op in ("from_ref",):
            return "(from %s)" % c.arg
        return "(%s %s)" % (c.op, c.arg)

    def model_lines(self):
        """one line per declaration and chunk of at most CHUNK cases (id `decl@k`): the ops of
        the chunk, then the spec ops of the same cases; self._slots maps every output id back"""
        ft = engine.ft_sexp(self.features)
        lines = []
        self._slots = {}
        for d in self.decls:
            cs = self.by_decl.get(d.id, [])
            head = d.sexp()
            nchunks = max(1, (len(cs) + self.CHUNK - 1) // self.CHUNK)
            for k in range(nchunks):
                part = cs[k * self.CHUNK:(k + 1) * self.CHUNK]
                lid = "%s@%d" % (d.id, k)
                ops = [self.op_sexp(c) for c in part]
                for j, c in enumerate(part):
                    self._slots["%s.%d" % (lid, j)] = (c, "model")
                j = len(part)
                for c in part:
                    if c.spec_arg is not None:
                        ops.append("(spec %s)" % c.spec_arg)
                        self._slots["%s.%d" % (lid, j)] = (c, "spec")
                        j += 1
                self._slots[lid] = (d, "verdict")
                lines.append("(case %s %s %s%s)" % (lid, ft, head, "".join(" " + o for o in ops)))
        return lines

    def run_model(self):
        t0 = time.time()
        lines = self.model_lines()
        out = engine.run_model(lines)
        for c in self.cases:
            c.model = None
        for key, val in out.items():
            slot = self._slots.get(key)
            if slot is None:
                continue
            obj, what = slot
            if what == "verdict":
                if key.endswith("@0"):
                    self.model_verdict[obj.id] = val
            elif what == "model":
                obj.model = val
            else:
                obj.spec = val
        for d in self.decls:
            self.model_verdict.setdefault(d.id, "missing")
        self.stats["model_s"] = round(time.time() - t0, 1)
        self._lines = lines

    def vm_crosscheck(self, rng, n=24):
        """evaluate a sample of the cases inside coqc (vm_compute) and compare with the
        extracted model: keeps extraction out of the deciding path's trusted base"""
        if not self.decls:
            return 0, []
        idx = sorted({rng.below(len(self.decls)) for _ in range(n)})
        sample = []
        for i in idx:
            # cap the number of ops per line to keep coqc fast
            d = self.decls[i]
            sample.append((d, self.by_decl.get(d.id, [])[:40], None))
        trimmed = []
        ft = engine.ft_sexp(self.features)
        for d, ops, _ in sample:
            trimmed.append("(case %s %s %s%s)" % (d.id, ft, d.sexp(), "".join(" " + self.op_sexp(c) for c in ops)))
        out = engine.coq_eval_lines(trimmed)
        diffs = []
        n_cmp = 0
        for d, ops, _ in sample:
            for c in ops:
                n_cmp += 1
                if out.get(c.cid) != c.model:
                    diffs.append((c.cid, out.get(c.cid), c.model))
        return n_cmp, diffs


def build_inv():
    """the syn-based inventory extractor (harness/inv), built once into build/inv_target"""
    tdir = os.path.join(BUILD, "inv_target")
    exe = os.path.join(tdir, "release", "inv")
    src = os.path.join(VERIF, "harness", "inv")
    stamp = os.path.join(tdir, "stamp")
    key = sha(open(os.path.join(src, "src", "main.rs")).read() + open(os.path.join(src, "Cargo.toml")).read())
    with flock("inv"):
        if os.path.exists(exe) and os.path.exists(stamp) and open(stamp).read() == key:
            return exe
        p = run(["cargo", "build", "--release", "--offline", "--target-dir", tdir], cwd=src, timeout=900)
        if p.returncode != 0:
            raise RuntimeError("inv build failed: " + p.stderr[-2000:])
        open(stamp, "w").write(key)
    return exe


def expand_inventory(ws):
    """macro expansions of every shard (-Zunpretty=expanded) through the extractor:
    returns module id -> list of records (split on '|', without the module field)"""
    from concurrent.futures import ThreadPoolExecutor
    exe = build_inv()
    outdir = os.path.join(ws.dir, "expanded")
    os.makedirs(outdir, exist_ok=True)

    def one(k):
        cname = "%s_s%d" % (ws.name, k)
        with flock("cargo_" + ws.name):
            p = run(["cargo", "rustc", "--offline", "-p", cname, "--", "-Zunpretty=expanded"], cwd=ws.dir, timeout=900)
        if p.returncode != 0:
            raise RuntimeError("expansion of %s failed: %s" % (cname, p.stderr[-1500:]))
        path = os.path.join(outdir, cname + ".rs")
        open(path, "w").write(p.stdout)
        q = run([exe, path], timeout=300)
        if q.returncode != 0:
            raise RuntimeError("inv failed on %s: %s" % (path, q.stderr[-1500:]))
        return q.stdout
    recs = {}
    with ThreadPoolExecutor(max_workers=4) as ex:
        for text in ex.map(one, range(ws.nshards)):
            for line in text.splitlines():
                parts = line.split("|")
                recs.setdefault(parts[0], []).append(parts[1:])
    return recs


_ZOO = {}


def run_zoo():
    """harness/zoo: declarations over inner types outside the modelled families, checked
    in-process against the inner value / a hand-written reference.  Returns
    (ok, {property: [(type, check, passed, detail)]} or error text)"""
    if "r" in _ZOO:
        return _ZOO["r"]
    src = os.path.join(VERIF, "harness", "zoo")
    work = os.path.join(BUILD, "zoo")
    os.makedirs(os.path.join(work, "src"), exist_ok=True)
    from runner import write_if_changed
    write_if_changed(os.path.join(work, "Cargo.toml"), open(os.path.join(src, "Cargo.toml")).read().replace('"/repo/nutype"', '"%s/nutype"' % REPO))
    write_if_changed(os.path.join(work, "src", "main.rs"), open(os.path.join(src, "src", "main.rs")).read())
    shutil.copyfile(os.path.join(REPO, "Cargo.lock"), os.path.join(work, "Cargo.lock"))
    with flock("cargo_zoo"):
        p = run(["cargo", "run", "--offline", "-q"], cwd=work, timeout=1500)
    if p.returncode != 0 or "zoo done" not in p.stdout:
        _ZOO["r"] = (False, (p.stderr or p.stdout)[-1500:])
        return _ZOO["r"]
    out = {}
    for line in p.stdout.splitlines():
        parts = line.split(" ", 5)
        if len(parts) >= 5 and parts[0] == "zoo" and parts[4] in ("ok", "FAIL"):
            out.setdefault(parts[1], []).append((parts[2], parts[3], parts[4] == "ok", parts[5] if len(parts) > 5 else ""))
    _ZOO["r"] = (True, out)
    return _ZOO["r"]
