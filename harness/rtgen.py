"""Generates rt.rs: the runtime shared by every generated shard crate - argument parsing,
outcome printing, panic capture, and the fixed library of user functions that also exists in
Gallina (coq/Run/Lib.v)."""
from syntax import INT_TYPES

HEAD = r'''
#![allow(dead_code, unused_imports, unused_variables, unused_mut, clippy::all)]
use std::panic::{self, AssertUnwindSafe, UnwindSafe};

#[derive(Debug, Clone, PartialEq, Eq)]
pub struct CErr(pub i64);
impl core::fmt::Display for CErr {
    fn fmt(&self, f: &mut core::fmt::Formatter<'_>) -> core::fmt::Result { write!(f, "cerr {}", self.0) }
}
impl std::error::Error for CErr {}

pub fn guard<F: FnOnce() -> String>(f: F) -> String {
    match panic::catch_unwind(AssertUnwindSafe(f)) {
        Ok(s) => s,
        Err(_) => "panic".to_string(),
    }
}

pub fn watchdog<F: FnOnce() -> String + Send + 'static>(f: F) -> String {
    let (tx, rx) = std::sync::mpsc::channel();
    std::thread::spawn(move || { let _ = tx.send(f()); });
    match rx.recv_timeout(std::time::Duration::from_secs(4)) {
        Ok(s) => s,
        Err(_) => "hang".to_string(),
    }
}

pub fn silence_panics() {
    panic::set_hook(Box::new(|_| {}));
}

fn inner(arg: &str) -> &str {
    // "(i 5)" -> "5", "(s 1 2)" -> "1 2", "(s)" -> ""
    let a = arg.trim();
    let a = &a[1..a.len() - 1];
    match a.find(' ') { Some(i) => a[i + 1..].trim(), None => "" }
}

pub trait Arg: Sized {
    fn parse(arg: &str) -> Self;
    fn show(&self) -> String;
}
macro_rules! int_arg { ($($t:ty),*) => { $(
    impl Arg for $t {
        fn parse(arg: &str) -> Self { inner(arg).parse::<$t>().expect("bad int arg") }
        fn show(&self) -> String { format!("(i {})", self) }
    }
)* } }
int_arg!(u8, u16, u32, u64, u128, usize, i8, i16, i32, i64, i128, isize);
impl Arg for f32 {
    fn parse(arg: &str) -> Self { f32::from_bits(inner(arg).parse::<u32>().expect("bad f32 arg")) }
    fn show(&self) -> String { format!("(f {})", self.to_bits()) }
}
impl Arg for f64 {
    fn parse(arg: &str) -> Self { f64::from_bits(inner(arg).parse::<u64>().expect("bad f64 arg")) }
    fn show(&self) -> String { format!("(f {})", self.to_bits()) }
}
impl Arg for String {
    fn parse(arg: &str) -> Self {
        inner(arg).split_whitespace().map(|c| char::from_u32(c.parse::<u32>().unwrap()).unwrap()).collect()
    }
    fn show(&self) -> String {
        let mut s = String::from("(s");
        for c in self.chars() { s.push(' '); s.push_str(&(c as u32).to_string()); }
        s.push(')');
        s
    }
}
impl Arg for Vec<i32> {
    fn parse(arg: &str) -> Self { inner(arg).split_whitespace().map(|c| c.parse::<i32>().unwrap()).collect() }
    fn show(&self) -> String {
        let mut s = String::from("(l");
        for c in self.iter() { s.push(' '); s.push_str(&c.to_string()); }
        s.push(')');
        s
    }
}
impl<'a> Arg for std::borrow::Cow<'a, str> {
    fn parse(arg: &str) -> Self { std::borrow::Cow::Owned(<String as Arg>::parse(arg)) }
    fn show(&self) -> String { self.to_string().show() }
}

pub trait Same { fn same(&self, o: &Self) -> bool; }
macro_rules! same_eq { ($($t:ty),*) => { $( impl Same for $t { fn same(&self, o: &Self) -> bool { self == o } } )* } }
same_eq!(u8, u16, u32, u64, u128, usize, i8, i16, i32, i64, i128, isize, String, Vec<i32>);
impl Same for f32 { fn same(&self, o: &Self) -> bool { self.to_bits() == o.to_bits() } }
impl Same for f64 { fn same(&self, o: &Self) -> bool { self.to_bits() == o.to_bits() } }

pub fn hash_of<T: std::hash::Hash + ?Sized>(t: &T) -> u64 {
    use std::hash::Hasher;
    let mut h = std::collections::hash_map::DefaultHasher::new();
    t.hash(&mut h);
    h.finish()
}
pub fn ord_s(o: Option<std::cmp::Ordering>) -> &'static str {
    match o { Some(std::cmp::Ordering::Less) => "L", Some(std::cmp::Ordering::Equal) => "E", Some(std::cmp::Ordering::Greater) => "G", None => "N" }
}
/// "(p (i 3) (i 5))" -> ("(i 3)", "(i 5)")
pub fn pair_args(arg: &str) -> (String, String) {
    let a = arg.trim();
    let a = &a[2..a.len() - 1].trim();
    let mut depth = 0i32;
    for (i, ch) in a.char_indices() {
        if ch == '(' { depth += 1; }
        if ch == ')' { depth -= 1; if depth == 0 { return (a[..=i].to_string(), a[i + 1..].trim().to_string()); } }
    }
    panic!("bad pair arg");
}
pub fn b(x: bool) -> &'static str { if x { "1" } else { "0" } }

pub fn ok<T: Arg>(v: T) -> String { format!("ok {}", v.show()) }
pub fn bytes_arg(arg: &str) -> Vec<u8> { inner(arg).split_whitespace().map(|c| c.parse::<u8>().unwrap()).collect() }

// ---- strings
pub fn s0_str(mut v: String) -> String { v.push('!'); v }
pub fn s1_str(v: String) -> String { v.to_ascii_uppercase() }
pub fn s2_str(v: String) -> String { v.chars().take(3).collect() }
pub fn p0_str(v: &str) -> bool { v.contains('@') }
pub fn p1_str(v: &str) -> bool { v.chars().count() % 2 == 0 }
pub fn p2_str(v: &str) -> bool { v.as_bytes()[0] != b'x' }      // partial: panics on "" (written only behind not_empty)
pub fn c0_str(v: &str) -> Result<(), CErr> {
    if v.starts_with('x') { Err(CErr(v.chars().count() as i64)) } else { Ok(()) }
}
// ---- Vec<i32>
pub fn s0_vec(mut v: Vec<i32>) -> Vec<i32> { v.reverse(); v }
pub fn s1_vec(mut v: Vec<i32>) -> Vec<i32> { v.truncate(3); v }
pub fn s2_vec(mut v: Vec<i32>) -> Vec<i32> { v.push(0); v }
pub fn p0_vec(v: &Vec<i32>) -> bool { !v.is_empty() }
pub fn p1_vec(v: &Vec<i32>) -> bool { v.iter().all(|x| *x >= 0) }
pub fn c0_vec(v: &Vec<i32>) -> Result<(), CErr> {
    if v.len() > 3 { Err(CErr(v.len() as i64)) } else { Ok(()) }
}
// ---- generic Vec<T>
pub fn s0_gvec<T>(mut v: Vec<T>) -> Vec<T> { v.reverse(); v }
pub fn s1_gvec<T>(mut v: Vec<T>) -> Vec<T> { v.truncate(3); v }
pub fn p0_gvec<T>(v: &Vec<T>) -> bool { !v.is_empty() }
// ---- regex statics
pub static RE0: std::sync::LazyLock<regex::Regex> = std::sync::LazyLock::new(|| regex::Regex::new("^[a-z]+$").unwrap());
pub static RE1: std::sync::LazyLock<regex::Regex> = std::sync::LazyLock::new(|| regex::Regex::new("@").unwrap());
pub static RE2: std::sync::LazyLock<regex::Regex> = std::sync::LazyLock::new(|| regex::Regex::new("^.{2,4}$").unwrap());
pub static RE3: std::sync::LazyLock<regex::Regex> = std::sync::LazyLock::new(|| regex::Regex::new("b{2}").unwrap());
pub static RE5: std::sync::LazyLock<regex::Regex> = std::sync::LazyLock::new(|| regex::RegexBuilder::new("^k[0-9]+$").case_insensitive(true).build().unwrap());
pub static RE4: std::sync::LazyLock<regex::Regex> = std::sync::LazyLock::new(|| regex::Regex::new("(?i)^k[0-9]+$").unwrap());
'''

FLOAT = r'''
pub const fn s0_{t}(v: {t}) -> {t} { if v < 0.0 { 0.0 } else if v > 100.0 { 100.0 } else { v } }
pub const fn s1_{t}(v: {t}) -> {t} { -v }
pub const fn s2_{t}(v: {t}) -> {t} { v.abs() }
pub const fn p0_{t}(v: &{t}) -> bool { *v != 7.0 }
pub const fn p1_{t}(v: &{t}) -> bool { v.is_sign_positive() }
pub fn c0_{t}(v: &{t}) -> Result<(), CErr> {
    if v.is_nan() { Err(CErr(1)) } else if *v < 0.0 { Err(CErr(2)) } else { Ok(()) }
}
'''

INT = r'''
pub const fn s0_{t}(v: {t}) -> {t} { if v < 0 { 0 } else if v > 100 { 100 } else { v } }
pub const fn s1_{t}(v: {t}) -> {t} { v / 2 }
pub const fn s2_{t}(v: {t}) -> {t} { v ^ 1 }
pub const fn p0_{t}(v: &{t}) -> bool { *v % 2 == 0 }
pub const fn p1_{t}(v: &{t}) -> bool { *v != 7 }
pub const fn p2_{t}(v: &{t}) -> bool { 12 % *v == 0 }      // partial: panics on 0 (written only behind a bound refusing 0)
pub fn c0_{t}(v: &{t}) -> Result<(), CErr> {
    if *v % 3 == 0 { Err(CErr((*v % 5) as i64)) } else { Ok(()) }
}
'''
UINT_S0 = "pub const fn s0_{t}(v: {t}) -> {t} { if v > 100 { 100 } else { v } }"


def rt_source():
    out = [HEAD]
    for t, (signed, bits) in INT_TYPES.items():
        src = INT.replace("{t}", t)
        if not signed:
            src = src.replace("pub const fn s0_%s(v: %s) -> %s { if v < 0 { 0 } else if v > 100 { 100 } else { v } }" % (t, t, t),
                              UINT_S0.replace("{t}", t))
        out.append(src)
    for t in ("f32", "f64"):
        out.append(FLOAT.replace("{t}", t))
    return "\n".join(out)


def fn_suffix(inner):
    if inner == "String":
        return "str"
    if inner in INT_TYPES or inner in ("f32", "f64"):
        return inner
    if inner == "Vec<T>":
        return "gvec"
    return "vec"


NOSTD_HEAD = r'''
#![allow(dead_code, unused_imports, unused_variables, unused_mut, clippy::all)]
use alloc::vec::Vec;

#[derive(Debug, Clone, PartialEq, Eq)]
pub struct CErr(pub i64);
impl core::fmt::Display for CErr {
    fn fmt(&self, f: &mut core::fmt::Formatter<'_>) -> core::fmt::Result { write!(f, "cerr {}", self.0) }
}
impl core::error::Error for CErr {}
pub fn s0_vec(mut v: Vec<i32>) -> Vec<i32> { v.reverse(); v }
pub fn s1_vec(mut v: Vec<i32>) -> Vec<i32> { v.truncate(3); v }
pub fn s2_vec(mut v: Vec<i32>) -> Vec<i32> { v.push(0); v }
pub fn p0_vec(v: &Vec<i32>) -> bool { !v.is_empty() }
pub fn p1_vec(v: &Vec<i32>) -> bool { v.iter().all(|x| *x >= 0) }
pub fn c0_vec(v: &Vec<i32>) -> Result<(), CErr> {
    if v.len() > 3 { Err(CErr(v.len() as i64)) } else { Ok(()) }
}
pub fn s0_gvec<T>(mut v: Vec<T>) -> Vec<T> { v.reverse(); v }
pub fn s1_gvec<T>(mut v: Vec<T>) -> Vec<T> { v.truncate(3); v }
pub fn p0_gvec<T>(v: &Vec<T>) -> bool { !v.is_empty() }
'''


def rt_nostd_source():
    out = [NOSTD_HEAD]
    for t, (signed, bits) in INT_TYPES.items():
        src = INT.replace("{t}", t)
        if not signed:
            src = src.replace("pub const fn s0_%s(v: %s) -> %s { if v < 0 { 0 } else if v > 100 { 100 } else { v } }" % (t, t, t),
                              UINT_S0.replace("{t}", t))
        out.append(src)
    for t in ("f32", "f64"):
        out.append(FLOAT.replace("{t}", t).replace("v.abs()", "if v < 0.0 { -v } else { v }"))
    return "\n".join(out)
