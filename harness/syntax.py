"""Surface syntax of nutype declarations: one tree, rendered as Rust source and as the
S-expression the Gallina model parses (coq/Run/Decode.v)."""
import re
from fractions import Fraction

INT_TYPES = {
    "u8": (False, 8), "u16": (False, 16), "u32": (False, 32), "u64": (False, 64),
    "u128": (False, 128), "usize": (False, 64),
    "i8": (True, 8), "i16": (True, 16), "i32": (True, 32), "i64": (True, 64),
    "i128": (True, 128), "isize": (True, 64),
}
FLOAT_TYPES = {"f32": False, "f64": True}


def ity_min(t):
    s, b = INT_TYPES[t]
    return -(1 << (b - 1)) if s else 0


def ity_max(t):
    s, b = INT_TYPES[t]
    return (1 << (b - 1)) - 1 if s else (1 << b) - 1


# ---------------------------------------------------------------- floats (exact rounding)

def frac_to_bits(fr, is64):
    """IEEE-754 round-to-nearest-even of an exact rational (what Rust's from_str computes)."""
    p = 53 if is64 else 24
    emax = 1024 if is64 else 128
    emin = 3 - emax - p
    width = 64 if is64 else 32
    if fr == 0:
        return 0
    sign = fr < 0
    a = abs(fr)
    e = a.numerator.bit_length() - a.denominator.bit_length()
    if Fraction(2) ** e > a:
        e -= 1
    q = max(e - (p - 1), emin)
    scaled = a / Fraction(2) ** q
    m = scaled.numerator // scaled.denominator
    rem = scaled - m
    if rem > Fraction(1, 2) or (rem == Fraction(1, 2) and m % 2 == 1):
        m += 1
    if m == (1 << p):
        m >>= 1
        q += 1
    if q + p > emax:
        bits = ((1 << (width - 1 - (p - 1))) - 1) << (p - 1)  # infinity
    elif m < (1 << (p - 1)):
        bits = m
    else:
        E = q + p - 1 + emax - 1
        bits = (E << (p - 1)) | (m - (1 << (p - 1)))
    if sign:
        bits |= 1 << (width - 1)
    return bits


def dec_text_to_frac(t):
    t = t.replace("_", "")
    m = re.fullmatch(r"([0-9]*)\.?([0-9]*)(?:[eE]([+-]?[0-9]+))?", t)
    assert m, t
    ip, fp, ex = m.group(1) or "0", m.group(2) or "", int(m.group(3) or 0)
    fr = Fraction(int(ip + fp), 10 ** len(fp))
    return fr * Fraction(10) ** ex


def bits_to_frac(bits, is64):
    p = 53 if is64 else 24
    emax = 1024 if is64 else 128
    width = 64 if is64 else 32
    sign = bits >> (width - 1)
    E = (bits >> (p - 1)) & ((1 << (width - p)) - 1)
    m = bits & ((1 << (p - 1)) - 1)
    if E == (1 << (width - p)) - 1:
        return None
    if E == 0:
        v = Fraction(m) * Fraction(2) ** (3 - emax - p)
    else:
        v = Fraction(m + (1 << (p - 1))) * Fraction(2) ** (E - (emax - 1) - (p - 1))
    return -v if sign else v


def f_next_up(bits, is64):
    """next representable float above (on bit patterns; not for NaN/inf)."""
    width = 64 if is64 else 32
    top = 1 << (width - 1)
    if bits == top:      # -0.0
        return 1
    if bits & top:
        return bits - 1
    return bits + 1


def f_next_down(bits, is64):
    width = 64 if is64 else 32
    top = 1 << (width - 1)
    if bits == 0:
        return top | 1
    if bits & top:
        return bits + 1
    return bits - 1


# ---------------------------------------------------------------- expressions

SUFFIXES = list(INT_TYPES) + list(FLOAT_TYPES)
PREC = {"mul": 10, "div": 10, "rem": 10, "add": 9, "sub": 9, "shl": 8, "shr": 8,
        "and": 7, "xor": 6, "or": 5}
OPTXT = {"mul": "*", "div": "/", "rem": "%", "add": "+", "sub": "-", "shl": "<<", "shr": ">>",
         "and": "&", "xor": "^", "or": "|"}


LIT_RE = re.compile(
    r"(0[xX][0-9a-fA-F_]+|0[oO][0-7_]+|0[bB][01_]+|[0-9][0-9_]*(?:\.[0-9_]*)?(?:[eE][+-]?[0-9_]+)?)"
    r"(?:_?(u8|u16|u32|u64|u128|usize|i8|i16|i32|i64|i128|isize|f32|f64))?")


def lit(text):
    """a numeric literal token, from its Rust spelling"""
    m = LIT_RE.fullmatch(text)
    assert m, text
    body, suffix = m.group(1), m.group(2)
    clean = body.replace("_", "")
    radix = clean.lower().startswith(("0x", "0o", "0b"))
    has_frac = (not radix) and (("." in clean) or ("e" in clean.lower()))
    is_float = has_frac or suffix in FLOAT_TYPES
    if radix:
        iv = int(clean, 0)
        fr = Fraction(iv)
    elif has_frac:
        fr = dec_text_to_frac(clean)
        iv = 0
    else:
        iv = int(clean)
        fr = Fraction(iv)
    return ("lit", {"text": text, "float": is_float, "suffix": suffix, "radix": radix, "int": iv,
                    "f32": frac_to_bits(fr, False), "f64": frac_to_bits(fr, True)})


def k(name, rust=None):
    """a named constant; [rust] is its Rust spelling when it differs (calls, paths)"""
    return ("k", name, rust or name)


def neg(e):
    return ("neg", e)


def bnot(e):
    return ("not", e)


def par(e):
    return ("par", e)


def binop(op, a, b):
    return ("bin", op, a, b)


def estr(s):
    return ("s", s)


def elist(l):
    return ("l", list(l))


def expr_consistent(e):
    """the tree is the one rustc/syn build from the rendered tokens"""
    tag = e[0]
    if tag in ("lit", "k", "s", "l"):
        return True
    if tag == "par":
        return expr_consistent(e[1])
    if tag in ("neg", "not"):
        return e[1][0] in ("lit", "k", "par") and expr_consistent(e[1])
    if tag == "bin":
        _, op, a, b = e
        if a[0] == "bin" and PREC[a[1]] < PREC[op]:
            return False
        if b[0] == "bin" and PREC[b[1]] <= PREC[op]:
            return False
        if b[0] == "neg":
            pass
        return expr_consistent(a) and expr_consistent(b)
    return False


def expr_rust(e):
    tag = e[0]
    if tag == "lit":
        return e[1]["text"]
    if tag == "k":
        return e[2]
    if tag == "neg":
        return "-" + expr_rust(e[1])
    if tag == "not":
        return "!" + expr_rust(e[1])
    if tag == "par":
        return "(" + expr_rust(e[1]) + ")"
    if tag == "bin":
        return "%s %s %s" % (expr_rust(e[2]), OPTXT[e[1]], expr_rust(e[3]))
    if tag == "s":
        return rust_str(e[1])
    if tag == "l":
        return "vec![%s]" % ", ".join(str(x) for x in e[1])
    raise ValueError(e)


def rust_str(s):
    out = ['"']
    for ch in s:
        o = ord(ch)
        if ch in '"\\':
            out.append("\\" + ch)
        elif 32 <= o < 127:
            out.append(ch)
        else:
            out.append("\\u{%x}" % o)
    out.append('"')
    return "".join(out)


def expr_sexp(e):
    tag = e[0]
    if tag == "lit":
        d = e[1]
        return "(lit %d %s %d %d %d %d)" % (d["float"], d["suffix"] or "_", d["radix"], d["int"],
                                            d["f32"], d["f64"])
    if tag == "k":
        return "(k %s)" % e[1]
    if tag == "neg":
        return "(neg %s)" % expr_sexp(e[1])
    if tag == "not":
        return "(not %s)" % expr_sexp(e[1])
    if tag == "par":
        return "(par %s)" % expr_sexp(e[1])
    if tag == "bin":
        return "(bin %s %s %s)" % (e[1], expr_sexp(e[2]), expr_sexp(e[3]))
    if tag == "s":
        return "(s%s)" % "".join(" %d" % ord(c) for c in e[1])
    if tag == "l":
        return "(l%s)" % "".join(" %d" % x for x in e[1])
    raise ValueError(e)


# ---------------------------------------------------------------- tokens

def tid(s):
    return ("id", s)


COMMA = ("c",)
EQ = ("e",)


def grp(ts):
    return ("g", list(ts))


def tstr(s, raw=False):
    """string literal token; raw: spelled r#".."# (same value, hence the same model token)"""
    return ("str", s, "raw") if raw else ("str", s)


def tx(e):
    return ("x", e)


def tfn(fid, form="p", role="s"):
    """library function reference; role: s(anitizer) p(redicate) c(ustom validator)"""
    return ("fn", fid, form, role)


def tpath(s):
    return ("path", s)


def toks_sexp(ts):
    out = []
    for t in ts:
        tag = t[0]
        if tag == "id":
            out.append("(id %s)" % t[1])
        elif tag == "c":
            out.append("c")
        elif tag == "e":
            out.append("e")
        elif tag == "g":
            out.append("(g %s)" % toks_sexp(t[1]) if t[1] else "(g)")
        elif tag == "str":
            out.append("(str%s)" % "".join(" %d" % ord(c) for c in t[1]))
        elif tag == "x":
            out.append("(x %s)" % expr_sexp(t[1]))
        elif tag == "fn":
            # "r00" is the closure form c00 written with an early `return` (a spelling the model does not see)
            out.append("(fn %d %s)" % (t[1], "c00" if t[2] == "r00" else t[2]))
        elif tag == "path":
            out.append("(path %s)" % t[1])
        else:
            raise ValueError(t)
    return " ".join(out)


def toks_rust(ts, fnrender):
    """fnrender(fid, form) -> Rust text of a library function reference in this context"""
    out = []
    for t in ts:
        tag = t[0]
        if tag == "id":
            out.append(t[1])
        elif tag == "c":
            out.append(",")
        elif tag == "e":
            out.append("=")
        elif tag == "g":
            out.append("(" + toks_rust(t[1], fnrender) + ")")
        elif tag == "str":
            out.append('r#"%s"#' % t[1] if len(t) > 2 and t[2] == "raw" else rust_str(t[1]))
        elif tag == "x":
            out.append(expr_rust(t[1]))
        elif tag == "fn":
            out.append(fnrender(t[1], t[2]))
        elif tag == "path":
            out.append(t[1])
        else:
            raise ValueError(t)
    return " ".join(out)


def atom(s):
    return s if s else "_"


VIS_RUST = {"": "", "pub": "pub", "pub_crate": "pub(crate)", "pub_super": "pub(super)"}


class Decl:
    """one #[nutype] declaration as the user writes it"""

    def __init__(self, did, inner, toks, env=(), name="T", vis="pub", generics=(), attrs=(),
                 kind="tuple", fields=None, tags=(), features=None, extra_items=""):
        self.id = did
        self.inner = inner                  # inner type text
        self.toks = list(toks)
        self.env = list(env)                # (name, type, value, rust_text)
        self.name = name
        self.vis = vis
        self.generics = list(generics)      # (name, [bounds])
        self.attrs = list(attrs)            # (head, rust_text)
        self.kind = kind
        self.fields = fields if fields is not None else [("", inner)]
        self.tags = set(tags)
        self.features = features
        self.extra_items = extra_items

    def to_json(self):
        return {"id": self.id, "inner": self.inner, "toks": self.toks, "env": self.env, "name": self.name,
                "vis": self.vis, "generics": self.generics, "attrs": self.attrs, "kind": self.kind,
                "fields": self.fields, "tags": sorted(self.tags), "extra_items": self.extra_items,
                "inst": getattr(self, "inst", None), "inner_concrete": getattr(self, "inner_concrete", None),
                "bounds": getattr(self, "bounds", None), "extra": self._extras()}

    CORE = ("id", "inner", "toks", "env", "name", "vis", "generics", "attrs", "kind", "fields", "tags", "extra_items",
            "inst", "inner_concrete", "bounds", "features")

    def _extras(self):
        """what the corpus generators attach to a declaration (intended rule, witnesses, shape...):
        needed to rebuild the same probes when a replay file is re-run"""
        import json as _json
        out = {}
        for k_, v in self.__dict__.items():
            if k_ in Decl.CORE:
                continue
            try:
                _json.dumps(v)
            except (TypeError, ValueError):
                continue
            out[k_] = v
        return out

    @staticmethod
    def from_json(j):
        def tup(x):
            if isinstance(x, list):
                return [tup(y) for y in x]
            return x

        def tok(t):
            t = list(t)
            if t[0] == "g":
                return ("g", [tok(u) for u in t[1]])
            if t[0] == "x":
                return ("x", ex(t[1]))
            return tuple(t)

        def ex(e):
            e = list(e)
            if e[0] in ("neg", "par", "not"):
                return (e[0], ex(e[1]))
            if e[0] == "bin":
                return ("bin", e[1], ex(e[2]), ex(e[3]))
            return tuple(e)
        d = Decl(j["id"], j["inner"], [tok(t) for t in j["toks"]], env=[tuple(e) for e in j["env"]],
                 name=j["name"], vis=j["vis"], generics=[(g, list(b)) for g, b in j["generics"]],
                 attrs=[tuple(a) for a in j["attrs"]], kind=j["kind"],
                 fields=[tuple(f) for f in j["fields"]], tags=j["tags"], extra_items=j["extra_items"])
        if j.get("inst"):
            d.inst = j["inst"]
        if j.get("inner_concrete"):
            d.inner_concrete = j["inner_concrete"]
        if j.get("bounds") is not None:
            d.bounds = j["bounds"]
        for k_, v in (j.get("extra") or {}).items():
            setattr(d, k_, tup(v))
        return d

    def family(self):
        if self.inner == "String":
            return "str"
        if self.inner in INT_TYPES:
            return "int"
        if self.inner in FLOAT_TYPES:
            return "float"
        return "any"

    def sexp(self):
        gens = " ".join("(%s)" % " ".join([g] + list(bs)) for g, bs in self.generics)
        item = "(item %s %s %s (gen%s) (attrs%s) (fields%s))" % (
            self.kind, atom(self.vis), self.name, (" " + gens) if gens else "",
            "".join(" " + a[0] for a in self.attrs),
            "".join(" (%s %s)" % (atom(v), t.replace(" ", "")) for v, t in self.fields))
        env = "".join(" (%s %s %d)" % (n, t, v) for n, t, v, _ in self.env)
        ts = toks_sexp(self.toks)
        return "(sd %s (toks%s) (env%s))" % (item, (" " + ts) if ts else "", env)

    def rust_struct(self, attr_text):
        """the item as the user writes it; attr_text = rendered #[nutype(..)] argument"""
        gens = ""
        if self.generics:
            gens = "<" + ", ".join(g + (": " + " + ".join(bs) if bs else "") for g, bs in self.generics) + ">"
        attrs = "".join("    " + a[1] + "\n" for a in self.attrs)
        head = "    #[nutype(%s)]\n" % attr_text
        vis = VIS_RUST[self.vis]
        if self.kind == "tuple":
            body = "struct %s%s(%s);" % (self.name, gens, ", ".join(
                ((VIS_RUST[v] + " ") if v else "") + t for v, t in self.fields))
        elif self.kind == "named":
            body = "struct %s%s { %s }" % (self.name, gens, ", ".join(
                "f%d: %s" % (i, t) for i, (v, t) in enumerate(self.fields)))
        elif self.kind == "unit":
            body = "struct %s;" % self.name
        else:
            body = "enum %s { A }" % self.name
        return head + attrs + "    " + ((vis + " ") if vis else "") + body + "\n"


def val_sexp(v):
    tag, x = v
    if tag == "i":
        return "(i %d)" % x
    if tag == "f":
        return "(f %d)" % x
    if tag == "s":
        return "(s%s)" % "".join(" %d" % ord(c) for c in x)
    if tag == "l":
        return "(l%s)" % "".join(" %d" % y for y in x)
    raise ValueError(v)
