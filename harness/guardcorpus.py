"""The shared guard corpus (all four families) and its inputs."""
from common import *
import corpus
from syntax import val_sexp, FLOAT_TYPES
import runner


def build_corpus(rng, tier):
    k = 1 if tier == "quick" else 2
    decls = []
    decls += corpus.gen_int_guards(rng.fork("int"), per_type=26 * k)
    decls += corpus.gen_float_guards(rng.fork("float"), per_type=48 * k)
    decls += corpus.gen_str_guards(rng.fork("str"), n=160 * k)
    decls += corpus.gen_any_guards(rng.fork("any"), n=32 * k)
    decls += corpus.gen_zero_bound_decls() + corpus.gen_default_edge_decls()
    # the unsafe escape hatch on a part of the corpus (it must not change anything else)
    from syntax import tid
    for i, d in enumerate(decls):
        if i % 11 == 5 and not d.generics:
            d.toks = [tid("new_unchecked"), ("c",)] + d.toks
    return decls


def inputs_for(d, rng, tier, alphabet=None):
    fam = d.family()
    if fam == "int":
        # thorough: every fourth declaration of a 16-bit type sees its whole domain
        import re as _re
        m = _re.search(r"(\d+)$", d.id)
        ex = 16 if (tier != "quick" and m and int(m.group(1)) % 4 == 0) else 8
        return [("i", v) for v in corpus.int_inputs(d, rng, exhaustive_bits=ex)]
    if fam == "float":
        return [("f", v) for v in corpus.float_inputs(d, rng, extra=16 if tier == "quick" else 200)]
    if fam == "str":
        alpha = alphabet or corpus.UNICODE_ALPHABET
        if tier == "quick":
            return [("s", v) for v in corpus.str_inputs(d, rng, alpha, maxlen=3, sample=260)]
        return [("s", v) for v in corpus.str_inputs(d, rng, alpha, maxlen=4, sample=6000)]
    return [("l", v) for v in corpus.any_inputs(d, rng)]


def ctor_op(d):
    return "try_new" if runner.DeclInfo(d).has_validation else "new"
