// Dumps, from the Rust std of this toolchain, the Unicode data needed by the
// Coq model: White_Space, non-identity lower/upper mappings, and the
// final-sigma classes (Case_Ignorable / Cased-and-not-ignorable) determined
// behaviourally through String::to_lowercase.
//
// Output format (one record per line):
//   VERSION <unicode version major.minor.update>
//   WS <lo> <hi>              inclusive range of char::is_whitespace
//   LOWER <c> <o1> [<o2> [<o3>]]
//   UPPER <c> <o1> [<o2> [<o3>]]
//   IGN <lo> <hi>             inclusive range, class Ignorable
//   CASED <lo> <hi>           inclusive range, class Cased (and not ignorable)
// All numbers are decimal code points.

use std::io::Write;

const SIGMA: char = '\u{03A3}';
const FINAL: char = '\u{03C2}';
const SMALL: char = '\u{03C3}';

#[derive(PartialEq, Clone, Copy)]
enum Class {
    Ignorable,
    Cased,
    Neither,
}

fn ends_final(s: &str) -> bool {
    match s.chars().last() {
        Some(FINAL) => true,
        Some(SMALL) => false,
        other => panic!("unexpected last char {:?} in {:?}", other, s),
    }
}

fn classify(c: char) -> Class {
    let p1 = format!("{c}{SIGMA}").to_lowercase();
    let p2 = format!("a{c}{SIGMA}").to_lowercase();
    match (ends_final(&p1), ends_final(&p2)) {
        (false, true) => Class::Ignorable,
        (true, true) => Class::Cased,
        (false, false) => Class::Neither,
        (true, false) => panic!("impossible final-sigma behaviour for U+{:04X}", c as u32),
    }
}

fn ranges(set: &[u32]) -> Vec<(u32, u32)> {
    let mut out: Vec<(u32, u32)> = Vec::new();
    for &c in set {
        match out.last_mut() {
            Some((_, hi)) if *hi + 1 == c => *hi = c,
            _ => out.push((c, c)),
        }
    }
    out
}

fn main() {
    let stdout = std::io::stdout();
    let mut w = std::io::BufWriter::new(stdout.lock());
    let (a, b, c) = char::UNICODE_VERSION;
    writeln!(w, "VERSION {a}.{b}.{c}").unwrap();

    let mut ws = Vec::new();
    let mut lower = Vec::new();
    let mut upper = Vec::new();
    let mut ign = Vec::new();
    let mut cased = Vec::new();

    for cp in 0u32..=0x10FFFF {
        let ch = match char::from_u32(cp) {
            Some(ch) => ch,
            None => continue, // surrogates
        };
        if ch.is_whitespace() {
            ws.push(cp);
        }
        let lo: Vec<u32> = ch.to_lowercase().map(|x| x as u32).collect();
        if lo != [cp] {
            assert!((1..=3).contains(&lo.len()));
            lower.push((cp, lo));
        }
        let up: Vec<u32> = ch.to_uppercase().map(|x| x as u32).collect();
        if up != [cp] {
            assert!((1..=3).contains(&up.len()));
            upper.push((cp, up));
        }
        match classify(ch) {
            Class::Ignorable => ign.push(cp),
            Class::Cased => cased.push(cp),
            Class::Neither => {}
        }
    }
    assert!(classify(SIGMA) == Class::Cased);

    for (lo, hi) in ranges(&ws) {
        writeln!(w, "WS {lo} {hi}").unwrap();
    }
    for (c, o) in &lower {
        let s: Vec<String> = o.iter().map(|x| x.to_string()).collect();
        writeln!(w, "LOWER {c} {}", s.join(" ")).unwrap();
    }
    for (c, o) in &upper {
        let s: Vec<String> = o.iter().map(|x| x.to_string()).collect();
        writeln!(w, "UPPER {c} {}", s.join(" ")).unwrap();
    }
    for (lo, hi) in ranges(&ign) {
        writeln!(w, "IGN {lo} {hi}").unwrap();
    }
    for (lo, hi) in ranges(&cased) {
        writeln!(w, "CASED {lo} {hi}").unwrap();
    }
}
