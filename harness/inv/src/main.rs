//! inv: extract a normalized inventory of nutype-generated modules from
//! macro-expanded Rust source.  See README.md for the record format.

use proc_macro2::{Delimiter, TokenStream, TokenTree};
use quote::ToTokens;
use std::collections::BTreeSet;
use std::io::Write;
use std::str::FromStr;
use syn::punctuated::Punctuated;
use syn::visit::{self, Visit};
use syn::{
    BinOp, Expr, GenericParam, Generics, ImplItem, Item, ItemImpl, ItemUse, Member, Token, Type,
    UseTree, Visibility,
};

const PREFIX: &str = "__nutype_";
const CALL_NAMES: [&str; 6] = [
    "try_new",
    "new",
    "new_unchecked",
    "into_inner",
    "__sanitize__",
    "__validate__",
];

// ---------------------------------------------------------------------------
// output collection

struct Out {
    recs: Vec<(String, String, String)>, // (module, kind, full line)
}

impl Out {
    fn push(&mut self, m: &str, kind: &str, rest: String) {
        let line = if rest.is_empty() {
            format!("{m}|{kind}")
        } else {
            format!("{m}|{kind}|{rest}")
        };
        self.recs.push((m.to_string(), kind.to_string(), line));
    }
    fn err(&mut self, m: &str, msg: &str) {
        let msg: String = msg
            .chars()
            .map(|c| if c == '\n' || c == '\r' || c == '|' { ' ' } else { c })
            .collect();
        self.recs
            .push((m.to_string(), "ERR".to_string(), format!("ERR|{m}|{msg}")));
    }
}

fn fmt_err(e: &syn::Error) -> String {
    let s = e.span().start();
    format!("{} (line {}, col {})", e, s.line, s.column)
}

fn b(x: bool) -> u8 {
    x as u8
}

fn join_set(s: &BTreeSet<String>) -> String {
    if s.is_empty() {
        "-".to_string()
    } else {
        s.iter().cloned().collect::<Vec<_>>().join(",")
    }
}

fn ident_str(i: &syn::Ident) -> String {
    let s = i.to_string();
    match s.strip_prefix("r#") {
        Some(r) => r.to_string(),
        None => s,
    }
}

// ---------------------------------------------------------------------------
// token helpers

#[derive(PartialEq)]
enum Tok {
    Ident(String),
    Punct(char),
    Other,
}

fn flatten(ts: TokenStream, out: &mut Vec<Tok>) {
    for tt in ts {
        match tt {
            TokenTree::Ident(i) => out.push(Tok::Ident(i.to_string())),
            TokenTree::Punct(p) => out.push(Tok::Punct(p.as_char())),
            TokenTree::Group(g) => {
                out.push(Tok::Other);
                flatten(g.stream(), out);
                out.push(Tok::Other);
            }
            TokenTree::Literal(_) => out.push(Tok::Other),
        }
    }
}

fn flat_of<T: ToTokens>(t: &T) -> Vec<Tok> {
    let mut v = Vec::new();
    flatten(t.to_token_stream(), &mut v);
    v
}

/// `&` followed by `mut`, with an optional lifetime in between (`&'a mut`).
fn has_ref_mut(toks: &[Tok]) -> bool {
    for i in 0..toks.len() {
        if toks[i] == Tok::Punct('&') {
            let mut j = i + 1;
            if j + 1 < toks.len() && toks[j] == Tok::Punct('\'') {
                if let Tok::Ident(_) = toks[j + 1] {
                    j += 2;
                }
            }
            if j < toks.len() && toks[j] == Tok::Ident("mut".to_string()) {
                return true;
            }
        }
    }
    false
}

fn has_ident(toks: &[Tok], names: &[&str]) -> bool {
    toks.iter().any(|t| match t {
        Tok::Ident(s) => names.contains(&s.as_str()),
        _ => false,
    })
}

// ---------------------------------------------------------------------------
// small syntax helpers

fn vis3(v: &Visibility) -> &'static str {
    match v {
        Visibility::Public(_) => "pub",
        Visibility::Inherited => "priv",
        _ => "other",
    }
}

fn vis_use(v: &Visibility) -> &'static str {
    match v {
        Visibility::Public(_) => "pub",
        Visibility::Inherited => "priv",
        Visibility::Restricted(r) => {
            if r.in_token.is_none() && r.path.is_ident("crate") {
                "pub(crate)"
            } else if r.in_token.is_none() && r.path.is_ident("super") {
                "pub(super)"
            } else {
                "other"
            }
        }
    }
}

fn path_no_generics(p: &syn::Path) -> String {
    p.segments
        .iter()
        .map(|s| ident_str(&s.ident))
        .collect::<Vec<_>>()
        .join("::")
}

fn peel_type(mut t: &Type) -> &Type {
    loop {
        match t {
            Type::Paren(p) => t = &p.elem,
            Type::Group(g) => t = &g.elem,
            _ => return t,
        }
    }
}

fn peel_expr(mut e: &Expr) -> &Expr {
    loop {
        match e {
            Expr::Paren(p) => e = &p.expr,
            Expr::Group(g) => e = &g.expr,
            _ => return e,
        }
    }
}

fn first_ident_of_type(t: &Type) -> String {
    match peel_type(t) {
        Type::Path(p) => {
            if let Some(q) = &p.qself {
                first_ident_of_type(&q.ty)
            } else {
                p.path
                    .segments
                    .first()
                    .map(|s| ident_str(&s.ident))
                    .unwrap_or_else(|| "?".into())
            }
        }
        Type::Reference(r) => first_ident_of_type(&r.elem),
        Type::Ptr(p) => first_ident_of_type(&p.elem),
        Type::Slice(s) => first_ident_of_type(&s.elem),
        Type::Array(a) => first_ident_of_type(&a.elem),
        Type::Tuple(t) => t
            .elems
            .first()
            .map(first_ident_of_type)
            .unwrap_or_else(|| "tuple".into()),
        Type::TraitObject(_) => "dyn".into(),
        Type::ImplTrait(_) => "impl".into(),
        Type::BareFn(_) => "fn".into(),
        Type::Never(_) => "!".into(),
        other => {
            const KW: [&str; 8] = ["dyn", "mut", "const", "impl", "for", "unsafe", "extern", "fn"];
            let toks = flat_of(other);
            let mut prev_tick = false;
            for t in &toks {
                match t {
                    Tok::Ident(s) if !prev_tick && !KW.contains(&s.as_str()) => return s.clone(),
                    Tok::Punct('\'') => prev_tick = true,
                    _ => prev_tick = false,
                }
            }
            "?".into()
        }
    }
}

fn is_struct_path(t: &Type, name: &str) -> bool {
    match peel_type(t) {
        Type::Path(p) => {
            p.qself.is_none()
                && p.path
                    .segments
                    .last()
                    .map(|s| ident_str(&s.ident) == name)
                    .unwrap_or(false)
        }
        _ => false,
    }
}

fn classify_self_ty(t: &Type, name: &str) -> String {
    if is_struct_path(t, name) {
        return "T".into();
    }
    if let Type::Reference(r) = peel_type(t) {
        if is_struct_path(&r.elem, name) {
            return if r.mutability.is_some() {
                "&mut T".into()
            } else {
                "&T".into()
            };
        }
    }
    format!("other:{}", first_ident_of_type(t))
}

fn is_single_ident_path(p: &syn::Path, names: &[&str]) -> bool {
    p.leading_colon.is_none()
        && p.segments.len() == 1
        && names.contains(&ident_str(&p.segments[0].ident).as_str())
}

/// `self.0`
fn is_self0(e: &Expr) -> bool {
    if let Expr::Field(f) = peel_expr(e) {
        if let Member::Unnamed(ix) = &f.member {
            if ix.index == 0 {
                if let Expr::Path(p) = peel_expr(&f.base) {
                    return p.qself.is_none() && p.path.is_ident("self");
                }
            }
        }
    }
    false
}

/// place expression based on `self.0` (through fields, indexing, deref, parens)
fn rooted_at_self0(e: &Expr) -> bool {
    let mut e = peel_expr(e);
    loop {
        if is_self0(e) {
            return true;
        }
        e = match e {
            Expr::Field(f) => peel_expr(&f.base),
            Expr::Index(i) => peel_expr(&i.expr),
            Expr::Unary(u) if matches!(u.op, syn::UnOp::Deref(_)) => peel_expr(&u.expr),
            _ => return false,
        };
    }
}

fn is_compound_assign(op: &BinOp) -> bool {
    matches!(
        op,
        BinOp::AddAssign(_)
            | BinOp::SubAssign(_)
            | BinOp::MulAssign(_)
            | BinOp::DivAssign(_)
            | BinOp::RemAssign(_)
            | BinOp::BitXorAssign(_)
            | BinOp::BitAndAssign(_)
            | BinOp::BitOrAssign(_)
            | BinOp::ShlAssign(_)
            | BinOp::ShrAssign(_)
    )
}

fn macro_args(m: &syn::Macro) -> Option<Punctuated<Expr, Token![,]>> {
    m.parse_body_with(Punctuated::<Expr, Token![,]>::parse_terminated)
        .ok()
}

// ---------------------------------------------------------------------------
// function body analysis

struct Body<'a> {
    name: &'a str,
    ctor: bool,
    calls: BTreeSet<String>,
    field: u8, // 0 none, 1 val, 2 ref, 3 mut
}

impl<'a> Body<'a> {
    fn note_call_name(&mut self, s: &str) {
        if CALL_NAMES.contains(&s) {
            self.calls.insert(s.to_string());
        }
    }
}

impl<'a, 'ast> Visit<'ast> for Body<'a> {
    fn visit_expr_call(&mut self, n: &'ast syn::ExprCall) {
        if let Expr::Path(p) = peel_expr(&n.func) {
            if p.qself.is_none() && is_single_ident_path(&p.path, &["Self", self.name]) {
                self.ctor = true;
            }
            if let Some(last) = p.path.segments.last() {
                let s = ident_str(&last.ident);
                self.note_call_name(&s);
            }
        }
        visit::visit_expr_call(self, n);
    }
    fn visit_expr_method_call(&mut self, n: &'ast syn::ExprMethodCall) {
        let s = ident_str(&n.method);
        self.note_call_name(&s);
        visit::visit_expr_method_call(self, n);
    }
    fn visit_expr_struct(&mut self, n: &'ast syn::ExprStruct) {
        if n.qself.is_none() && is_single_ident_path(&n.path, &["Self", self.name]) {
            self.ctor = true;
        }
        visit::visit_expr_struct(self, n);
    }
    fn visit_expr_path(&mut self, n: &'ast syn::ExprPath) {
        // function paths passed as values, e.g. `.map(Self::try_new)`
        if n.path.segments.len() >= 2 {
            let s = ident_str(&n.path.segments.last().unwrap().ident);
            self.note_call_name(&s);
        }
        visit::visit_expr_path(self, n);
    }
    fn visit_expr_reference(&mut self, n: &'ast syn::ExprReference) {
        if is_self0(&n.expr) {
            let lvl = if n.mutability.is_some() { 3 } else { 2 };
            self.field = self.field.max(lvl);
        }
        visit::visit_expr_reference(self, n);
    }
    fn visit_expr_assign(&mut self, n: &'ast syn::ExprAssign) {
        if rooted_at_self0(&n.left) {
            self.field = 3;
        }
        visit::visit_expr_assign(self, n);
    }
    fn visit_expr_binary(&mut self, n: &'ast syn::ExprBinary) {
        if is_compound_assign(&n.op) && rooted_at_self0(&n.left) {
            self.field = 3;
        }
        visit::visit_expr_binary(self, n);
    }
    fn visit_expr_field(&mut self, n: &'ast syn::ExprField) {
        if let Member::Unnamed(ix) = &n.member {
            if ix.index == 0 {
                if let Expr::Path(p) = peel_expr(&n.base) {
                    if p.qself.is_none() && p.path.is_ident("self") {
                        self.field = self.field.max(1);
                    }
                }
            }
        }
        visit::visit_expr_field(self, n);
    }
    fn visit_macro(&mut self, n: &'ast syn::Macro) {
        if let Some(args) = macro_args(n) {
            for e in args.iter() {
                self.visit_expr(e);
            }
        }
    }
}

// ---------------------------------------------------------------------------
// impl / fn / type records

struct Impls<'a> {
    name: &'a str,
    m: &'a str,
    out: &'a mut Out,
}

impl<'a, 'ast> Visit<'ast> for Impls<'a> {
    fn visit_item_impl(&mut self, n: &'ast ItemImpl) {
        let tr = match &n.trait_ {
            Some((bang, p, _)) => {
                let s = path_no_generics(p);
                if bang.is_some() {
                    format!("!{s}")
                } else {
                    s
                }
            }
            None => "-".to_string(),
        };
        let st = classify_self_ty(&n.self_ty, self.name);
        let auto = n
            .attrs
            .iter()
            .any(|a| a.path().is_ident("automatically_derived"));
        self.out.push(
            self.m,
            "impl",
            format!(
                "{tr}|{st}|auto={}|unsafe_impl={}",
                b(auto),
                b(n.unsafety.is_some())
            ),
        );
        for it in &n.items {
            match it {
                ImplItem::Fn(f) => {
                    let sig = &f.sig;
                    let recv = match sig.receiver() {
                        None => "none",
                        Some(r) => {
                            if r.colon_token.is_some() {
                                let t = flat_of(&*r.ty);
                                if has_ref_mut(&t) {
                                    "mut"
                                } else if t.contains(&Tok::Punct('&')) {
                                    "ref"
                                } else {
                                    "val"
                                }
                            } else if r.reference.is_some() {
                                if r.mutability.is_some() {
                                    "mut"
                                } else {
                                    "ref"
                                }
                            } else {
                                "val"
                            }
                        }
                    };
                    let rt = flat_of(&sig.output);
                    let ret_self = has_ident(&rt, &["Self", self.name]);
                    let ret_mut = has_ref_mut(&rt);
                    let mut body = Body {
                        name: self.name,
                        ctor: false,
                        calls: BTreeSet::new(),
                        field: 0,
                    };
                    body.visit_block(&f.block);
                    let field = ["none", "val", "ref", "mut"][body.field as usize];
                    self.out.push(
                        self.m,
                        "fn",
                        format!(
                            "{tr}|{st}|{}|pub={}|unsafe={}|const={}|recv={recv}|ret_self={}|ret_mut={}|ctor={}|calls={}|field={field}|auto={}",
                            ident_str(&sig.ident),
                            b(!matches!(f.vis, Visibility::Inherited)),
                            b(sig.unsafety.is_some()),
                            b(sig.constness.is_some()),
                            b(ret_self),
                            b(ret_mut),
                            b(body.ctor),
                            join_set(&body.calls),
                            b(auto)
                        ),
                    );
                }
                ImplItem::Const(c) => {
                    // an associated constant whose type is the newtype is a value of the type:
                    // it exists without any call of the guarded constructors at run time
                    let ty = flat_of(&c.ty);
                    let mut body = Body {
                        name: self.name,
                        ctor: false,
                        calls: BTreeSet::new(),
                        field: 0,
                    };
                    body.visit_expr(&c.expr);
                    self.out.push(
                        self.m,
                        "aconst",
                        format!(
                            "{tr}|{st}|{}|pub={}|ty_self={}|ctor={}|calls={}",
                            ident_str(&c.ident),
                            b(!matches!(c.vis, Visibility::Inherited)),
                            b(has_ident(&ty, &["Self", self.name])),
                            b(body.ctor),
                            join_set(&body.calls)
                        ),
                    );
                }
                ImplItem::Type(t) => {
                    let toks = flat_of(&t.ty);
                    self.out.push(
                        self.m,
                        "type",
                        format!(
                            "{tr}|{st}|{}|mut={}",
                            ident_str(&t.ident),
                            b(has_ref_mut(&toks))
                        ),
                    );
                }
                _ => {}
            }
        }
        // continue: impl blocks nested in method bodies
        visit::visit_item_impl(self, n);
    }
}

// ---------------------------------------------------------------------------
// roots / bare collection

struct Paths<'a> {
    name: &'a str,
    roots: BTreeSet<String>,
    bare: BTreeSet<String>,
    generics: Vec<String>,
    pending_qself: Option<usize>,
}

fn is_lower_ident(s: &str) -> bool {
    s.chars()
        .next()
        .map(|c| c.is_lowercase() || c == '_')
        .unwrap_or(false)
}

fn is_upper_ident(s: &str) -> bool {
    s.chars().next().map(|c| c.is_uppercase()).unwrap_or(false)
}

impl<'a> Paths<'a> {
    fn push_generics(&mut self, g: &Generics) -> usize {
        let mark = self.generics.len();
        for p in &g.params {
            match p {
                GenericParam::Type(t) => self.generics.push(ident_str(&t.ident)),
                GenericParam::Const(c) => self.generics.push(ident_str(&c.ident)),
                GenericParam::Lifetime(_) => {}
            }
        }
        mark
    }
    fn note_root(&mut self, leading: bool, first: &str, nseg: usize) {
        if leading {
            self.roots.insert(first.to_string());
        } else if nseg >= 2
            && is_lower_ident(first)
            && !matches!(first, "self" | "super" | "crate")
        {
            self.roots.insert(first.to_string());
        }
    }
    fn note_bare(&mut self, s: &str) {
        if is_upper_ident(s) && s != self.name && !self.generics.iter().any(|g| g == s) {
            self.bare.insert(s.to_string());
        }
    }
    fn handle_path(&mut self, p: &syn::Path, qpos: Option<usize>) {
        if let Some(first) = p.segments.first() {
            let f = ident_str(&first.ident);
            let n = p.segments.len();
            self.note_root(p.leading_colon.is_some(), &f, n);
            let single = match qpos {
                None => n == 1,
                Some(pos) => pos == 1, // `<X as Trait>::Assoc`: the trait part is single-segment
            };
            if p.leading_colon.is_none() && single {
                self.note_bare(&f);
            }
        }
    }
}

macro_rules! scoped {
    ($($method:ident, $ty:ty, [$($gen:tt)+]);* $(;)?) => {
        $(fn $method(&mut self, n: &'ast $ty) {
            let mark = self.push_generics(&n.$($gen)+);
            visit::$method(self, n);
            self.generics.truncate(mark);
        })*
    };
}

impl<'a, 'ast> Visit<'ast> for Paths<'a> {
    scoped! {
        visit_item_impl, syn::ItemImpl, [generics];
        visit_item_fn, syn::ItemFn, [sig.generics];
        visit_item_struct, syn::ItemStruct, [generics];
        visit_item_enum, syn::ItemEnum, [generics];
        visit_item_union, syn::ItemUnion, [generics];
        visit_item_type, syn::ItemType, [generics];
        visit_item_trait, syn::ItemTrait, [generics];
        visit_impl_item_fn, syn::ImplItemFn, [sig.generics];
        visit_impl_item_type, syn::ImplItemType, [generics];
        visit_trait_item_fn, syn::TraitItemFn, [sig.generics];
        visit_trait_item_type, syn::TraitItemType, [generics];
    }

    fn visit_item_mod(&mut self, n: &'ast syn::ItemMod) {
        if n.ident == "tests" {
            return;
        }
        visit::visit_item_mod(self, n);
    }
    fn visit_attribute(&mut self, _: &'ast syn::Attribute) {}
    fn visit_visibility(&mut self, _: &'ast Visibility) {}

    fn visit_qself(&mut self, n: &'ast syn::QSelf) {
        visit::visit_qself(self, n);
        // the owning node visits its path immediately after its qself
        self.pending_qself = Some(n.position);
    }
    fn visit_path(&mut self, p: &'ast syn::Path) {
        let q = self.pending_qself.take();
        self.handle_path(p, q);
        visit::visit_path(self, p);
    }
    fn visit_pat_ident(&mut self, n: &'ast syn::PatIdent) {
        // `None => ..` parses as an identifier pattern
        if n.by_ref.is_none() && n.mutability.is_none() && n.subpat.is_none() {
            let s = ident_str(&n.ident);
            self.note_bare(&s);
        }
        visit::visit_pat_ident(self, n);
    }
    fn visit_macro(&mut self, n: &'ast syn::Macro) {
        let p = &n.path;
        if let Some(first) = p.segments.first() {
            let f = ident_str(&first.ident);
            if p.leading_colon.is_none() && p.segments.len() == 1 {
                self.bare.insert(format!("{f}!"));
            } else {
                self.note_root(p.leading_colon.is_some(), &f, p.segments.len());
            }
        }
        if let Some(args) = macro_args(n) {
            for e in args.iter() {
                self.visit_expr(e);
            }
        }
    }
    fn visit_item_use(&mut self, n: &'ast ItemUse) {
        fn walk(p: &mut Paths<'_>, leading: bool, t: &UseTree) {
            match t {
                UseTree::Path(u) => {
                    let f = ident_str(&u.ident);
                    p.note_root(leading, &f, 2);
                }
                UseTree::Name(u) => {
                    if leading {
                        p.note_root(true, &ident_str(&u.ident), 1);
                    }
                }
                UseTree::Rename(u) => {
                    if leading {
                        p.note_root(true, &ident_str(&u.ident), 1);
                    }
                }
                UseTree::Glob(_) => {}
                UseTree::Group(g) => {
                    for it in &g.items {
                        walk(p, leading, it);
                    }
                }
            }
        }
        walk(self, n.leading_colon.is_some(), &n.tree);
    }
}

// ---------------------------------------------------------------------------
// per-module processing

fn short_name(modname: &str) -> String {
    let s = modname.strip_prefix(PREFIX).unwrap_or(modname);
    s.strip_suffix("__").unwrap_or(s).to_string()
}

fn rec_module_name(parent: &str, modname: &str, multi: bool) -> String {
    if multi {
        format!("{parent}/{}", short_name(modname))
    } else {
        parent.to_string()
    }
}

fn render_use_tree(t: &UseTree, s: &mut String) {
    match t {
        UseTree::Path(p) => {
            s.push_str(&ident_str(&p.ident));
            s.push_str("::");
            render_use_tree(&p.tree, s);
        }
        UseTree::Name(n) => s.push_str(&ident_str(&n.ident)),
        UseTree::Rename(r) => {
            s.push_str(&format!("{} as {}", ident_str(&r.ident), ident_str(&r.rename)))
        }
        UseTree::Glob(_) => s.push('*'),
        UseTree::Group(g) => {
            s.push('{');
            for (i, it) in g.items.iter().enumerate() {
                if i > 0 {
                    s.push(',');
                }
                render_use_tree(it, s);
            }
            s.push('}');
        }
    }
}

fn is_use_super_glob(u: &ItemUse) -> bool {
    if u.leading_colon.is_some() {
        return false;
    }
    match &u.tree {
        UseTree::Path(p) => p.ident == "super" && matches!(&*p.tree, UseTree::Glob(_)),
        _ => false,
    }
}

/// `item` records: everything in the module that is not part of the expected shape.
fn extra_items(items: &[Item], m: &str, out: &mut Out) {
    let mut seen_struct = false;
    for it in items {
        let (kind, ident): (&str, String) = match it {
            Item::Struct(s) => {
                if !seen_struct {
                    seen_struct = true;
                    continue;
                }
                ("struct", ident_str(&s.ident))
            }
            Item::Enum(e) => {
                // the generated error enums: name, visibility, variants, and whether matching them exhaustively is
                // still possible from another crate
                let non_exh = e.attrs.iter().any(|a| a.path().is_ident("non_exhaustive"));
                let vars: Vec<String> = e
                    .variants
                    .iter()
                    .map(|v| {
                        let hidden = v.attrs.iter().any(|a| a.path().is_ident("doc") && quote::ToTokens::to_token_stream(a).to_string().contains("hidden"));
                        let nonunit = !matches!(v.fields, syn::Fields::Unit);
                        format!("{}{}{}", ident_str(&v.ident), if nonunit { "(..)" } else { "" }, if hidden { "#hidden" } else { "" })
                    })
                    .collect();
                out.push(
                    m,
                    "enum",
                    format!(
                        "{}|pub={}|non_exhaustive={}|variants={}",
                        ident_str(&e.ident),
                        b(!matches!(e.vis, Visibility::Inherited)),
                        b(non_exh),
                        vars.join(",")
                    ),
                );
                continue;
            }
            Item::Impl(_) => continue,
            Item::Use(u) => {
                if is_use_super_glob(u) {
                    continue;
                }
                let mut s = String::new();
                if u.leading_colon.is_some() {
                    s.push_str("::");
                }
                render_use_tree(&u.tree, &mut s);
                ("use", s)
            }
            Item::Fn(f) => {
                if f.sig.ident == "size_hint" {
                    continue;
                }
                ("fn", ident_str(&f.sig.ident))
            }
            Item::Mod(md) => {
                if md.ident == "tests" {
                    continue;
                }
                ("mod", ident_str(&md.ident))
            }
            Item::Static(x) => ("static", ident_str(&x.ident)),
            Item::Const(x) => ("const", ident_str(&x.ident)),
            Item::Type(x) => ("type", ident_str(&x.ident)),
            Item::Trait(x) => ("trait", ident_str(&x.ident)),
            Item::TraitAlias(x) => ("trait", ident_str(&x.ident)),
            Item::Macro(x) => (
                "macro",
                match &x.ident {
                    Some(i) => ident_str(i),
                    None => format!("{}!", path_no_generics(&x.mac.path)),
                },
            ),
            Item::Union(x) => ("other", ident_str(&x.ident)),
            Item::ExternCrate(x) => ("other", ident_str(&x.ident)),
            _ => ("other", "-".to_string()),
        };
        out.push(m, "item", format!("{kind}|{ident}"));
    }
}

fn process_nutype(modname: &str, modvis: &str, items: &[Item], m: &str, out: &mut Out) {
    out.push(m, "mod", format!("{modname}|vis={modvis}"));
    extra_items(items, m, out);
    let st = items.iter().find_map(|i| match i {
        Item::Struct(s) => Some(s),
        _ => None,
    });
    let name = match st {
        Some(s) => ident_str(&s.ident),
        None => {
            out.err(m, &format!("no struct item in module {modname}"));
            short_name(modname)
        }
    };
    if let Some(s) = st {
        let n = s.fields.len();
        let fv = s
            .fields
            .iter()
            .next()
            .map(|f| vis3(&f.vis))
            .unwrap_or("other");
        // order of the spec: priv|pub|other
        out.push(
            m,
            "struct",
            format!("{name}|vis={}|nfields={n}|fieldvis={fv}", vis3(&s.vis)),
        );
    }
    {
        let mut v = Impls {
            name: &name,
            m,
            out,
        };
        for it in items {
            v.visit_item(it);
        }
    }
    let mut p = Paths {
        name: &name,
        roots: BTreeSet::new(),
        bare: BTreeSet::new(),
        generics: Vec::new(),
        pending_qself: None,
    };
    for it in items {
        p.visit_item(it);
    }
    out.push(m, "roots", join_set(&p.roots));
    out.push(m, "bare", join_set(&p.bare));
}

fn use_records(u: &ItemUse, parent: &str, multi: bool, out: &mut Out) {
    fn walk(prefix: &mut Vec<String>, t: &UseTree, leaves: &mut Vec<(Vec<String>, String)>) {
        match t {
            UseTree::Path(p) => {
                prefix.push(ident_str(&p.ident));
                walk(prefix, &p.tree, leaves);
                prefix.pop();
            }
            UseTree::Name(n) => leaves.push((prefix.clone(), ident_str(&n.ident))),
            UseTree::Rename(r) => leaves.push((
                prefix.clone(),
                format!("{} as {}", ident_str(&r.ident), ident_str(&r.rename)),
            )),
            UseTree::Glob(_) => leaves.push((prefix.clone(), "*".to_string())),
            UseTree::Group(g) => {
                for it in &g.items {
                    walk(prefix, it, leaves);
                }
            }
        }
    }
    let mut leaves = Vec::new();
    walk(&mut Vec::new(), &u.tree, &mut leaves);
    for (mut path, leaf) in leaves {
        if path.first().map(|s| s == "self").unwrap_or(false) {
            path.remove(0);
        }
        let Some(first) = path.first() else { continue };
        if !first.starts_with(PREFIX) {
            continue;
        }
        let m = rec_module_name(parent, first, multi);
        let mut name = path[1..].join("::");
        if !name.is_empty() {
            name.push_str("::");
        }
        name.push_str(&leaf);
        out.push(&m, "use", format!("{}|{name}", vis_use(&u.vis)));
    }
}

fn walk_items(items: &[Item], parent: &str, multi_hint: Option<bool>, out: &mut Out) {
    let multi = multi_hint.unwrap_or_else(|| {
        items
            .iter()
            .filter(|i| matches!(i, Item::Mod(m) if m.ident.to_string().starts_with(PREFIX)))
            .count()
            > 1
    });
    for it in items {
        match it {
            Item::Mod(md) => {
                if let Some((_, content)) = &md.content {
                    let id = ident_str(&md.ident);
                    if id.starts_with(PREFIX) {
                        let m = rec_module_name(parent, &id, multi);
                        process_nutype(&id, vis3(&md.vis), content, &m, out);
                    } else {
                        walk_items(content, &id, None, out);
                    }
                }
            }
            Item::Use(u) => use_records(u, parent, multi, out),
            _ => {}
        }
    }
}

// ---------------------------------------------------------------------------
// fallback: split a token stream at `mod <ident> { .. }` boundaries

struct Split {
    mods: Vec<(String, &'static str, TokenStream)>,
    rest: TokenStream,
}

fn split_mods(ts: TokenStream) -> Split {
    let toks: Vec<TokenTree> = ts.into_iter().collect();
    let mut rest: Vec<TokenTree> = Vec::new();
    let mut mods = Vec::new();
    let mut i = 0;
    while i < toks.len() {
        let is_mod = matches!(&toks[i], TokenTree::Ident(id) if id == "mod")
            && matches!(toks.get(i + 1), Some(TokenTree::Ident(_)))
            && matches!(toks.get(i + 2), Some(TokenTree::Group(g)) if g.delimiter() == Delimiter::Brace);
        if !is_mod {
            rest.push(toks[i].clone());
            i += 1;
            continue;
        }
        // drop visibility and outer attributes that belong to the module item
        let mut vis = "priv";
        loop {
            let n = rest.len();
            let last_is = |k: usize, f: &dyn Fn(&TokenTree) -> bool| n >= k && f(&rest[n - k]);
            let is_pub = |t: &TokenTree| matches!(t, TokenTree::Ident(id) if id == "pub");
            let is_paren =
                |t: &TokenTree| matches!(t, TokenTree::Group(g) if g.delimiter() == Delimiter::Parenthesis);
            let is_bracket =
                |t: &TokenTree| matches!(t, TokenTree::Group(g) if g.delimiter() == Delimiter::Bracket);
            let is_hash = |t: &TokenTree| matches!(t, TokenTree::Punct(p) if p.as_char() == '#');
            if last_is(1, &is_pub) {
                rest.truncate(n - 1);
                vis = "pub";
            } else if last_is(1, &is_paren) && last_is(2, &is_pub) {
                rest.truncate(n - 2);
                vis = "other";
            } else if last_is(1, &is_bracket) && last_is(2, &is_hash) {
                rest.truncate(n - 2);
            } else {
                break;
            }
        }
        let name = match &toks[i + 1] {
            TokenTree::Ident(id) => ident_str(id),
            _ => unreachable!(),
        };
        let body = match &toks[i + 2] {
            TokenTree::Group(g) => g.stream(),
            _ => unreachable!(),
        };
        mods.push((name, vis, body));
        i += 3;
    }
    Split {
        mods,
        rest: rest.into_iter().collect(),
    }
}

/// Token-level scan for `[pub[(..)]] use ... ;` items (used when the non-module
/// remainder of a module does not parse).
fn scan_uses(ts: TokenStream, parent: &str, multi: bool, out: &mut Out) {
    let toks: Vec<TokenTree> = ts.into_iter().collect();
    let mut i = 0;
    while i < toks.len() {
        if matches!(&toks[i], TokenTree::Ident(id) if id == "use") {
            let mut start = i;
            if i >= 1 && matches!(&toks[i - 1], TokenTree::Ident(id) if id == "pub") {
                start = i - 1;
            } else if i >= 2
                && matches!(&toks[i - 1], TokenTree::Group(g) if g.delimiter() == Delimiter::Parenthesis)
                && matches!(&toks[i - 2], TokenTree::Ident(id) if id == "pub")
            {
                start = i - 2;
            }
            let mut j = i;
            while j < toks.len() && !matches!(&toks[j], TokenTree::Punct(p) if p.as_char() == ';') {
                j += 1;
            }
            if j < toks.len() {
                let piece: TokenStream = toks[start..=j].iter().cloned().collect();
                if let Ok(u) = syn::parse2::<ItemUse>(piece) {
                    use_records(&u, parent, multi, out);
                }
            }
            i = j;
        }
        i += 1;
    }
}

fn process_tokens(ts: TokenStream, name: &str, out: &mut Out) {
    match syn::parse2::<syn::File>(ts.clone()) {
        Ok(f) => walk_items(&f.items, name, None, out),
        Err(e) => {
            let sp = split_mods(ts);
            if sp.mods.is_empty() {
                out.err(name, &fmt_err(&e));
                return;
            }
            let multi = sp
                .mods
                .iter()
                .filter(|(n, _, _)| n.starts_with(PREFIX))
                .count()
                > 1;
            match syn::parse2::<syn::File>(sp.rest.clone()) {
                Ok(f) => walk_items(&f.items, name, Some(multi), out),
                Err(e2) => {
                    out.err(name, &fmt_err(&e2));
                    scan_uses(sp.rest, name, multi, out);
                }
            }
            for (mn, mvis, body) in sp.mods {
                if mn.starts_with(PREFIX) {
                    let m = rec_module_name(name, &mn, multi);
                    match syn::parse2::<syn::File>(body) {
                        Ok(f) => process_nutype(&mn, mvis, &f.items, &m, out),
                        Err(e3) => out.err(&m, &format!("{mn}: {}", fmt_err(&e3))),
                    }
                } else {
                    process_tokens(body, &mn, out);
                }
            }
        }
    }
}

// ---------------------------------------------------------------------------

fn main() {
    let args: Vec<String> = std::env::args().collect();
    if args.len() != 2 {
        eprintln!("usage: inv <expanded.rs>");
        std::process::exit(2);
    }
    let src = match std::fs::read_to_string(&args[1]) {
        Ok(s) => s,
        Err(e) => {
            eprintln!("inv: cannot read {}: {e}", args[1]);
            std::process::exit(2);
        }
    };
    let mut out = Out { recs: Vec::new() };
    let mut code = 0;
    let force_fallback = std::env::var_os("INV_FORCE_FALLBACK").is_some();
    let parsed = if force_fallback {
        None
    } else {
        syn::parse_file(&src).ok()
    };
    match parsed {
        Some(f) => walk_items(&f.items, "-", None, &mut out),
        None => {
            let text = src.strip_prefix('\u{feff}').unwrap_or(&src);
            match TokenStream::from_str(text) {
                Ok(ts) => {
                    if force_fallback {
                        // exercise the splitter even though the file parses
                        force_split(ts, "-", &mut out);
                    } else {
                        process_tokens(ts, "-", &mut out);
                    }
                }
                Err(e) => {
                    out.err("-", &format!("lex error: {e}"));
                    code = 1;
                }
            }
        }
    }
    out.recs.sort();
    let stdout = std::io::stdout();
    let mut w = std::io::BufWriter::new(stdout.lock());
    for (_, _, line) in &out.recs {
        let _ = writeln!(w, "{line}");
    }
    let _ = w.flush();
    std::process::exit(code);
}

/// Test aid (INV_FORCE_FALLBACK): always split at module boundaries, never
/// parse a whole level at once, so the fallback path can be compared against
/// the normal one on a file that parses.
fn force_split(ts: TokenStream, name: &str, out: &mut Out) {
    let sp = split_mods(ts);
    let multi = sp
        .mods
        .iter()
        .filter(|(n, _, _)| n.starts_with(PREFIX))
        .count()
        > 1;
    match syn::parse2::<syn::File>(sp.rest.clone()) {
        Ok(f) => walk_items(&f.items, name, Some(multi), out),
        Err(e) => {
            out.err(name, &fmt_err(&e));
            scan_uses(sp.rest, name, multi, out);
        }
    }
    for (mn, mvis, body) in sp.mods {
        if mn.starts_with(PREFIX) {
            let m = rec_module_name(name, &mn, multi);
            match syn::parse2::<syn::File>(body) {
                Ok(f) => process_nutype(&mn, mvis, &f.items, &m, out),
                Err(e) => out.err(&m, &format!("{mn}: {}", fmt_err(&e))),
            }
        } else {
            force_split(body, &mn, out);
        }
    }
}
