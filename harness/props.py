"""Per-property checks: proof obligations (Props/Cnn.v) + correspondence + failing-input search."""
import os, sys, time, json, re
from common import *
import engine, flows, runner, guardcorpus, corpus
from syntax import val_sexp, Decl, FLOAT_TYPES

TRUSTED_BASE = [
    "Coq 8.16.1 kernel (coqc; vm_compute used in witnesses and table facts; no native_compute)",
    "Flocq 4.1.0 IEEE754.Binary/Bits as the semantics of f32/f64",
    "stdlib axioms reported by Print Assumptions for Flocq-dependent theorems: ClassicalDedekindReals.sig_not_dec, ClassicalDedekindReals.sig_forall_dec, FunctionalExtensionality.functional_extensionality_dep, Classical_Prop.classic",
    "hand-written Gallina model coq/{Base,Macro,Sem,Run} tied to /repo by the behavioural correspondence of this run",
    "extraction: ExtrOcamlBasic + ExtrOcamlString only (coq/Extract/Extract.v), cross-checked against vm_compute on a sample every run",
    "harness: corpus generator and Rust/S-expression renderers (harness/*.py), generated run() functions, outcome canonicaliser",
    "rustc 1.95 / syn 2.0.66 / proc-macro2 as pinned by /repo/Cargo.lock",
]
ALLOWED_AXIOMS = {
    "ClassicalDedekindReals.sig_not_dec", "ClassicalDedekindReals.sig_forall_dec",
    "FunctionalExtensionality.functional_extensionality_dep", "Classical_Prop.classic",
}


class Report:
    def __init__(self, pid, tier):
        self.pid, self.tier = pid, tier
        self.violations = []      # dict(kind, what, payload)
        self.known = {}           # class -> count
        self.notes = []
        self.coverage = {}
        self.samples = []
        self.t0 = time.time()

    def violation(self, what, payload, no_input=False):
        self.violations.append({"what": what, "payload": payload, "no_input": no_input})

    def known_hit(self, cls, what):
        e = self.known.setdefault(cls, {"count": 0, "what": what})
        e["count"] += 1


def proof_stage(rep, prop_files):
    """hygiene gate + build of the property's theorems + axiom allow-list"""
    problems = engine.hygiene()
    ok, oblig, axioms, log_ = engine.theorem_status(prop_files)
    bad_axioms = [a for a in axioms if a not in ALLOWED_AXIOMS]
    rep.coverage.update({
        "obligations": len(oblig),
        "discharged": len(oblig) if (ok and not problems and not bad_axioms) else 0,
        "checker_cmd": "cd coq && coq_makefile -f _CoqProject -o Makefile && make " + " ".join(f[:-2] + ".vo" for f in prop_files),
        "trusted_base": TRUSTED_BASE,
        "theorems": oblig,
        "axioms_printed": axioms,
    })
    if problems:
        rep.proof_broken = "hygiene: " + "; ".join(problems[:5])
    elif not ok:
        m = re.search(r'File "([^"]+)", line (\d+).*?\n(Error:.*?)(?:\n\n|\Z)', log_, re.S)
        rep.proof_broken = "coq build failed: " + (("%s:%s %s" % (m.group(1), m.group(2), m.group(3)[:300])) if m else log_[-400:])
    elif bad_axioms:
        rep.proof_broken = "axioms outside the allow-list: " + ", ".join(bad_axioms)
    else:
        rep.proof_broken = None
    return rep.proof_broken is None


def finish(rep, assumptions):
    known = engine.load_known()
    listed = {(k["property"], k["class"]) for k in known.get("findings", [])}
    out_viol = []
    for cls, e in sorted(rep.known.items()):
        if (rep.pid, cls) in listed:
            print("KNOWN-FINDING: property=%s %s [%s, %d case(s) this run]" % (rep.pid, e["what"], cls, e["count"]))
        else:
            out_viol.append({"what": "unlisted finding class %s: %s" % (cls, e["what"]), "payload": e, "no_input": False})
    out_viol += rep.violations
    if rep.proof_broken and not out_viol:
        out_viol.append({"what": rep.proof_broken, "payload": {"kind": "proof-obligation", "detail": rep.proof_broken,
                                                               "theorem_files": rep.coverage.get("checker_cmd")},
                         "no_input": True})
    rep.coverage["samples"] = rep.samples[:8]
    rep.coverage["notes"] = rep.notes[:20]
    rep.coverage["known_finding_hits"] = {k: v["count"] for k, v in rep.known.items()}
    wall = time.time() - rep.t0
    engine.write_evidence(rep.pid, rep.tier, "proof", rep.coverage, wall, len(out_viol), assumptions)
    for i, v in enumerate(out_viol[:5]):
        payload = dict(v["payload"])
        payload.update({"property": rep.pid, "what": v["what"], "seed": seed(), "tier": rep.tier})
        path = engine.write_replay(rep.pid, i, payload)
        print("VIOLATION property=%s replay=%s%s" % (rep.pid, path, " no-failing-input-found" if v["no_input"] else ""))
    if len(out_viol) > 5:
        print("(%d further violations not listed)" % (len(out_viol) - 5))
    return 1 if out_viol else 0


def case_payload(c, g, extra=None):
    d = c.decl
    p = {"kind": "behavioural", "decl_id": d.id, "decl_rust": d.rust_struct(runner.fn_render(d.inner)) if False else None,
         "decl": d.to_json(), "op": c.op, "arg": c.arg, "impl": c.impl, "model": c.model, "spec": c.spec,
         "features": g.features,
         "reproduce": "./check %s --replay <this file>" % "Cnn"}
    p["decl_rust"] = runner.decl_module(d, None).split("pub fn run")[0]
    if extra:
        p.update(extra)
    return p


def is_nan_bits(bits, is64):
    e = (bits >> (52 if is64 else 23)) & ((1 << (11 if is64 else 8)) - 1)
    m = bits & ((1 << (52 if is64 else 23)) - 1)
    return e == (1 << (11 if is64 else 8)) - 1 and m != 0


def ok_err(o):
    """projection used by C01: Ok with value / Err (any variant) / other"""
    if o is None:
        return None
    if o.startswith("ok "):
        return o
    if o.startswith("err") or o.startswith("errc"):
        return "err"
    return o


def make_guard_run(tier, rng, alphabet=None, decls=None, ops_for=None, spec=True, wsname="guard"):
    decls = decls if decls is not None else guardcorpus.build_corpus(rng, tier)
    g = flows.GuardRun(wsname if tier == "quick" else wsname + "_t", decls)
    for d in decls:
        r = rng.fork(d.id)
        if ops_for:
            ops_for(g, d, r)
        else:
            op = guardcorpus.ctor_op(d)
            ins = guardcorpus.inputs_for(d, r, tier, alphabet)
            g.add_ops(d, [(op, val_sexp(v)) for v in ins], spec=spec)
    return g


def run_guard(g, rep, rng, release=False):
    dropped = g.build(release=release)
    g.run_impl(release=release)
    g.run_model()
    n, diffs = g.vm_crosscheck(rng.fork("vm"))
    rep.coverage["vm_compute_crosscheck"] = {"compared": n, "differences": len(diffs)}
    for cid, a, b in diffs[:3]:
        rep.violation("extracted model and vm_compute disagree on %s: %r vs %r" % (cid, a, b),
                      {"kind": "extraction-mismatch", "case": cid}, no_input=True)
    rep.coverage["timing"] = g.stats
    return dropped


# ------------------------------------------------------------------------------------- C01

def c01(tier, rng, rep, only=None):
    g = make_guard_run(tier, rng, decls=only)
    dropped = run_guard(g, rep, rng)
    if tier == "thorough":
        pass
    n_cases = n_ok = n_err = n_nontrivial = 0
    classes = {}
    seen_out = set()
    for d in g.decls:
        mv = g.model_verdict.get(d.id, "missing")
        if d.id in dropped:
            if not mv.startswith("reject"):
                rep.notes.append("declaration %s accepted by the model but rejected by rustc: %s" % (d.id, dropped[d.id][:1]))
            continue
        if mv.startswith("reject"):
            rep.notes.append("declaration %s rejected by the model (%s) but compiled" % (d.id, mv))
    for c in g.cases:
        if c.decl.id not in g.live or c.impl is None:
            continue
        n_cases += 1
        fam = c.decl.family()
        impl_p, model_p = ok_err(c.impl), ok_err(c.model)
        spec_o, _, cmpok = (c.spec or "").rpartition(" ")
        spec_p = ok_err(spec_o)
        key = (fam, "ok" if impl_p.startswith("ok") else impl_p)
        classes[key] = classes.get(key, 0) + 1
        if (c.decl.id, c.impl) not in seen_out:
            seen_out.add((c.decl.id, c.impl))
        if c.impl != "ok " + c.arg:
            n_nontrivial += 1
        if impl_p == "panic":
            rep.violation("constructor panicked on %s %s" % (c.op, c.arg), case_payload(c, g))
            continue
        if impl_p != spec_p:
            # the real constructor contradicts the specification
            if cmpok == "0" and fam == "float" and c.impl.startswith("ok (f "):
                rep.known_hit("float_nan_passes_bounds",
                              "float bound validators accept NaN when `finite` is not declared")
            else:
                rep.violation("%s(%s) returned %s but sanitize-then-validate requires %s" % (c.op, c.arg, c.impl, spec_o),
                              case_payload(c, g))
        elif impl_p != model_p:
            rep.violation("model and implementation differ on %s(%s): impl %s, model %s (spec agrees with impl)"
                          % (c.op, c.arg, c.impl, c.model), case_payload(c, g), no_input=True)
    rep.coverage.update({
        "evaluations": n_cases,
        "distinct_nontrivial": n_nontrivial,
        "rule": "deterministic covering corpus of declarations (family x inner type x sanitizer x ordered validator list x bound spelling x bound position x flags) with boundary-neighbourhood / exhaustive 8-bit / special-float / short-string inputs; non-trivial = outcome is not Ok(raw) (a sanitizer changed the value or a validator rejected); every case compared three ways: real try_new/new, extracted model, L3 specification",
        "declarations": len(g.decls), "declarations_compiled": len(g.live),
        "outcome_classes": {"%s/%s" % k: v for k, v in sorted(classes.items())},
        "exhaustive": False,
    })
    for c in g.cases[:: max(1, len(g.cases) // 6)][:6]:
        rep.samples.append({"decl": c.decl.id, "inner": c.decl.inner, "op": c.op, "arg": c.arg, "impl": c.impl, "model": c.model})
    for fam in ("int", "float", "str", "any"):
        for kind in ("ok", "err"):
            if not classes.get((fam, kind)):
                rep.violation("self-check: no %s/%s outcome was exercised" % (fam, kind), {"kind": "coverage"}, no_input=True)


PROPS = {
    "C01": (["Props/C01.v"], c01, ["bound expressions evaluate without overflow (corpus keeps them in range)",
                                   "user closures are total functions (library of harness/rtgen.py)",
                                   "String sanitizers checked on the ASCII alphabet until Unicode tables are wired"]),
}


def run_property(pid, tier, replay=None):
    if pid not in PROPS:
        print("unknown or unclaimed property", pid)
        return 2
    files, fn, assumptions = PROPS[pid]
    rep = Report(pid, tier)
    rng = Rng(seed()).fork(pid)
    proof_stage(rep, files)
    only = None
    if replay:
        j = json.load(open(replay))
        if "decl" in j:
            only = [Decl.from_json(j["decl"])]
    fn(tier, rng, rep, only)
    return finish(rep, assumptions)
