"""Per-property checks: proof obligations (Props/Cnn.v) + correspondence + failing-input search."""
import os, sys, time, json, re
from common import *
import engine, flows, runner, guardcorpus, corpus
from syntax import val_sexp, Decl, FLOAT_TYPES

TRUSTED_BASE = [
    "Coq 8.16.1 kernel (coqc; vm_compute used in witnesses and table facts; no native_compute)",
    "Flocq 4.1.0 IEEE754.Binary/Bits as the semantics of f32/f64",
    "stdlib axioms reported by Print Assumptions for Flocq-dependent theorems: ClassicalDedekindReals.sig_not_dec, ClassicalDedekindReals.sig_forall_dec, FunctionalExtensionality.functional_extensionality_dep, Classical_Prop.classic",
    "hand-written Gallina model coq/{Base,Macro,Sem,Run} tied to /repo by the behavioural correspondence of this run",
    "extraction: ExtrOcamlBasic + ExtrOcamlString only (coq/Extract/Extract.v), cross-checked against vm_compute on a sample every run",
    "harness: corpus generator and Rust/S-expression renderers (harness/*.py), generated run() functions, outcome canonicaliser",
    "rustc 1.95 / syn 2.0.66 / proc-macro2 as pinned by /repo/Cargo.lock",
]
ALLOWED_AXIOMS = {
    "ClassicalDedekindReals.sig_not_dec", "ClassicalDedekindReals.sig_forall_dec",
    "FunctionalExtensionality.functional_extensionality_dep", "Classical_Prop.classic",
}


class Report:
    def __init__(self, pid, tier):
        self.pid, self.tier = pid, tier
        self.violations = []      # dict(kind, what, payload)
        self.known = {}           # class -> count
        self.notes = []
        self.coverage = {}
        self.samples = []
        self.replay_mode = False
        self.t0 = time.time()

    def violation(self, what, payload, no_input=False):
        if self.replay_mode and payload.get("kind") == "coverage":
            return
        self.violations.append({"what": what, "payload": payload, "no_input": no_input})

    def known_hit(self, cls, what):
        e = self.known.setdefault(cls, {"count": 0, "what": what})
        e["count"] += 1


def proof_stage(rep, prop_files):
    """hygiene gate + build of the property's theorems + axiom allow-list"""
    problems = engine.hygiene()
    ok, oblig, axioms, log_ = engine.theorem_status(prop_files)
    bad_axioms = [a for a in axioms if a not in ALLOWED_AXIOMS]
    rep.coverage.update({
        "obligations": len(oblig),
        "discharged": len(oblig) if (ok and not problems and not bad_axioms) else 0,
        "checker_cmd": "cd coq && coq_makefile -f _CoqProject -o Makefile && make " + " ".join(f[:-2] + ".vo" for f in prop_files),
        "trusted_base": TRUSTED_BASE,
        "theorems": oblig,
        "axioms_printed": axioms,
    })
    if problems:
        rep.proof_broken = "hygiene: " + "; ".join(problems[:5])
    elif not ok:
        m = re.search(r'File "([^"]+)", line (\d+).*?\n(Error:.*?)(?:\n\n|\Z)', log_, re.S)
        rep.proof_broken = "coq build failed: " + (("%s:%s %s" % (m.group(1), m.group(2), m.group(3)[:300])) if m else log_[-400:])
    elif bad_axioms:
        rep.proof_broken = "axioms outside the allow-list: " + ", ".join(bad_axioms)
    else:
        rep.proof_broken = None
    return rep.proof_broken is None


def finish(rep, assumptions):
    known = engine.load_known()
    listed = {(k["property"], k["class"]) for k in known.get("findings", [])}
    out_viol = []
    for cls, e in sorted(rep.known.items()):
        if (rep.pid, cls) in listed:
            print("KNOWN-FINDING: property=%s %s [%s, %d case(s) this run]" % (rep.pid, e["what"], cls, e["count"]))
        else:
            out_viol.append({"what": "unlisted finding class %s: %s" % (cls, e["what"]), "payload": e, "no_input": False})
    # minimise: one behavioural violation per declaration, the one with the shortest input first
    best = {}
    rest = []
    for v in rep.violations:
        pl = v["payload"]
        if pl.get("kind") == "behavioural" and "decl_id" in pl:
            key = (pl["decl_id"], pl.get("op"))
            if key not in best or len(str(pl.get("arg"))) < len(str(best[key]["payload"].get("arg"))):
                best[key] = v
        else:
            rest.append(v)
    rep.coverage["violating_cases"] = len(rep.violations)
    out_viol += sorted(best.values(), key=lambda v: (v["no_input"], len(str(v["payload"].get("arg"))))) + rest
    if rep.proof_broken and not out_viol:
        out_viol.append({"what": rep.proof_broken, "payload": {"kind": "proof-obligation", "detail": rep.proof_broken,
                                                               "theorem_files": rep.coverage.get("checker_cmd")},
                         "no_input": True})
    rep.coverage["samples"] = rep.samples[:8]
    rep.coverage["notes"] = rep.notes[:20]
    rep.coverage["known_finding_hits"] = {k: v["count"] for k, v in rep.known.items()}
    wall = time.time() - rep.t0
    engine.write_evidence(rep.pid, rep.tier, "proof", rep.coverage, wall, len(out_viol), assumptions)
    for i, v in enumerate(out_viol[:5]):
        payload = dict(v["payload"])
        payload.update({"property": rep.pid, "what": v["what"], "seed": seed(), "tier": rep.tier})
        path = engine.write_replay(rep.pid, i, payload)
        print("VIOLATION property=%s replay=%s%s" % (rep.pid, path, " no-failing-input-found" if v["no_input"] else ""))
    if len(out_viol) > 5:
        print("(%d further violations not listed)" % (len(out_viol) - 5))
    return 1 if out_viol else 0


def case_payload(c, g, extra=None):
    d = c.decl
    p = {"kind": "behavioural", "decl_id": d.id, "decl_rust": d.rust_struct(runner.fn_render(d.inner)) if False else None,
         "decl": d.to_json(), "op": c.op, "arg": c.arg, "impl": c.impl, "model": c.model, "spec": c.spec,
         "features": g.features,
         "reproduce": "./check %s --replay <this file>" % "Cnn"}
    p["decl_rust"] = runner.decl_module(d, None).split("pub fn run")[0]
    if extra:
        p.update(extra)
    return p


def is_nan_bits(bits, is64):
    e = (bits >> (52 if is64 else 23)) & ((1 << (11 if is64 else 8)) - 1)
    m = bits & ((1 << (52 if is64 else 23)) - 1)
    return e == (1 << (11 if is64 else 8)) - 1 and m != 0


def ok_err(o):
    """projection used by C01: Ok with value / Err (any variant) / other"""
    if o is None:
        return None
    if o.startswith("ok "):
        return o
    if o.startswith("err") or o.startswith("errc"):
        return "err"
    return o


def make_guard_run(tier, rng, alphabet=None, decls=None, ops_for=None, spec=True, wsname="guard"):
    decls = decls if decls is not None else guardcorpus.build_corpus(rng, tier)
    g = flows.GuardRun(wsname if tier == "quick" else wsname + "_t", decls)
    for d in decls:
        r = rng.fork(d.id)
        if ops_for:
            ops_for(g, d, r)
        else:
            op = guardcorpus.ctor_op(d)
            ins = guardcorpus.inputs_for(d, r, tier, alphabet)
            g.add_ops(d, [(op, val_sexp(v)) for v in ins], spec=spec)
    return g


def run_guard(g, rep, rng, release=False):
    dropped = g.build(release=release)
    g.run_impl(release=release)
    g.run_model()
    n, diffs = g.vm_crosscheck(rng.fork("vm"))
    rep.coverage["vm_compute_crosscheck"] = {"compared": n, "differences": len(diffs)}
    for cid, a, b in diffs[:3]:
        rep.violation("extracted model and vm_compute disagree on %s: %r vs %r" % (cid, a, b),
                      {"kind": "extraction-mismatch", "case": cid}, no_input=True)
    rep.coverage["timing"] = g.stats
    if not g.ws.name.startswith("c02"):
        verdict_agreement(g, dropped, rep)
    return dropped


def mixed_rules_must_be_refused(rep, rng, tier, why):
    """rule sets the macro cannot honour as a whole (built-in validators next to `with` / `error` in
    every order, repeated blocks): a declaration that compiles has silently dropped a written rule"""
    import verdicts
    decls = [d for d in verdicts.gen_c02_decls(rng.fork("c02"), tier) if "mustreject" in d.tags]
    for d in decls:
        d.id = "m" + d.id
    g, dropped = verdict_run("mixedrules", decls, runner.FEATURES_ALL, rep, rng)
    for d in decls:
        if d.id not in dropped:
            rep.violation("declaration %s writes rules the macro cannot honour together and compiles: %s" % (d.id, why),
                          {"kind": "verdict", "decl": d.to_json(), "decl_rust": runner.decl_module(d, None).split("pub fn run")[0]})
    rep.coverage["mixed_rule_declarations_refused"] = len([d for d in decls if d.id in dropped])


def verdict_agreement(g, dropped, rep):
    """a corpus declaration the model accepts must build together with the harness module that calls
    its constructors and derived traits (a constructor or trait that vanished shows up here), and one
    the model refuses must not build"""
    bad = 0
    for d in g.decls:
        mv = g.model_verdict.get(d.id, "missing")
        m_rej = mv.startswith("reject")
        if (d.id in dropped) == m_rej or mv == "missing":
            continue
        bad += 1
        if bad > 3:
            continue
        payload = {"kind": "verdict", "decl": d.to_json(), "decl_rust": runner.decl_module(d, None).split("pub fn run")[0],
                   "rustc": (dropped.get(d.id) or ["(compiles)"])[:3], "model": mv}
        if d.id in dropped:
            rep.violation("declaration %s is accepted by the model but does not build with the module that calls its constructors and derived traits: %s"
                          % (d.id, dropped[d.id][0][:200]), payload, no_input=True)
        else:
            rep.violation("declaration %s is refused by the model (%s) but builds" % (d.id, mv), payload, no_input=True)


def profile_crosscheck(g, rep):
    """the same cases on a build without debug assertions and overflow checks (the workspace's
    release profile): the guarantee may not depend on the build profile of the user's crate"""
    t0 = time.time()
    g.ws.write([d for d in g.decls if d.id in g.live])
    rc, errors, stderr = g.ws.build(release=True)
    if rc != 0:
        rep.violation("the corpus that builds with the dev profile does not build without debug assertions",
                      {"kind": "profile-build", "stderr": stderr[-1500:]}, no_input=True)
        return
    cases = [(c.cid, c.decl.id, c.op, c.arg) for c in g.cases if c.decl.id in g.live]
    out = g.ws.run_cases(cases, release=True)
    n = bad = 0
    for c in g.cases:
        r = out.get(c.cid)
        if r is None or c.impl is None:
            continue
        r = r.split(" ## ")[0]
        n += 1
        if r != c.impl:
            bad += 1
            if bad <= 5:
                rep.violation("%s(%s) on %s gives %s in a build with debug assertions and %s in one without"
                              % (c.op, c.arg, c.decl.id, c.impl, r), case_payload(c, g, {"without_debug_assertions": r}))
    rep.coverage["profile_crosscheck"] = {"cases_rerun_without_debug_assertions": n, "differences": bad,
                                          "seconds": round(time.time() - t0, 1)}


# ------------------------------------------------------------------------------------- C01

F32_INF_K = 0x7f800000


def f32_key(bits):
    return -(bits & 0x7fffffff) if bits & 0x80000000 else bits


def f32_sweep(g, rep):
    """thorough tier: every f32 bit pattern through the real constructor of every eligible
    declaration (bounds / finite only, no sanitizer); the summary is compared with the count
    computed analytically from the INTENDED bounds"""
    g2 = flows.GuardRun(g.ws.name, g.decls)
    g2.ws, g2.live = g.ws, g.live
    elig = []
    for d in g.decls:
        if d.id not in g.live or d.inner != "f32" or not hasattr(d, "bounds"):
            continue
        info = runner.DeclInfo(d)
        if info.custom or not info.has_validation or runner.find_block(d.toks, "sanitize") or "predicate" in info.vkinds:
            continue
        elig.append(d)
        g2.add_ops(d, [("sweep_f32", "")])
    g2.run_impl()
    n = 0
    for d in elig:
        c = g2.by_decl[d.id][0]
        info = runner.DeclInfo(d)
        if not c.impl or not c.impl.startswith("sweep "):
            rep.violation("f32 sweep failed on %s: %s" % (d.id, c.impl), case_payload(c, g2), no_input=True)
            continue
        kv = dict(x.split("=", 1) for x in c.impl.split()[1:])
        ka, kb = -F32_INF_K, F32_INF_K
        bi = 0
        for k_ in info.vkinds:
            if k_ == "finite":
                ka, kb = max(ka, -F32_INF_K + 1), min(kb, F32_INF_K - 1)
                continue
            b = d.bounds[bi]
            bi += 1
            if is_nan_bits(b, False):
                continue            # comparisons with a NaN bound never fire
            kk = f32_key(b)
            if k_ == "greater":
                ka = max(ka, kk + 1)
            elif k_ == "greater_or_equal":
                ka = max(ka, kk)
            elif k_ == "less":
                kb = min(kb, kk - 1)
            elif k_ == "less_or_equal":
                kb = min(kb, kk)
        cnt = max(0, kb - ka + 1) + (1 if ka <= 0 <= kb else 0)
        nan_ok = 0 if "finite" in info.vkinds else 2 * ((1 << 23) - 1)
        exp = {"ok": cnt + nan_ok, "nan_ok": nan_ok, "changed": 0}
        got = {"ok": int(kv["ok"]), "nan_ok": int(kv["nan_ok"]), "changed": int(kv["changed"])}
        if cnt:
            exp.update({"kmin": ka, "kmax": kb})
            got.update({"kmin": int(kv["kmin"]), "kmax": int(kv["kmax"])})
        n += 1
        if got != exp:
            rep.violation("over all 2^32 f32 bit patterns %s accepts %s but its written rules admit %s" % (d.id, got, exp),
                          case_payload(c, g2, {"sweep": c.impl, "expected": exp}), no_input=False)
    rep.coverage["f32_full_sweeps"] = n
    rep.coverage["f32_patterns_swept"] = n * (1 << 32)


def c01(tier, rng, rep, only=None):
    g = make_guard_run(tier, rng, decls=only)
    dropped = run_guard(g, rep, rng)
    profile_crosscheck(g, rep)
    if tier == "thorough" and only is None:
        f32_sweep(g, rep)
    n_cases = n_ok = n_err = n_nontrivial = 0
    classes = {}
    seen_out = set()
    for d in g.decls:
        mv = g.model_verdict.get(d.id, "missing")
        if d.id in dropped:
            if not mv.startswith("reject"):
                rep.notes.append("declaration %s accepted by the model but rejected by rustc: %s" % (d.id, dropped[d.id][:1]))
            continue
        if mv.startswith("reject"):
            rep.notes.append("declaration %s rejected by the model (%s) but compiled" % (d.id, mv))
    for c in g.cases:
        if c.decl.id not in g.live or c.impl is None:
            continue
        n_cases += 1
        fam = c.decl.family()
        impl_p, model_p = ok_err(c.impl), ok_err(c.model)
        spec_o, _, cmpok = (c.spec or "").rpartition(" ")
        spec_p = ok_err(spec_o)
        key = (fam, "ok" if impl_p.startswith("ok") else impl_p)
        classes[key] = classes.get(key, 0) + 1
        if (c.decl.id, c.impl) not in seen_out:
            seen_out.add((c.decl.id, c.impl))
        if c.impl != "ok " + c.arg:
            n_nontrivial += 1
        if impl_p == "panic":
            rep.violation("constructor panicked on %s %s" % (c.op, c.arg), case_payload(c, g))
            continue
        if impl_p != spec_p:
            # the real constructor contradicts the specification
            # a recorded finding is suppressed only where the model (which mirrors the current
            # generator) predicts the very same outcome
            if cmpok == "0" and fam == "float" and c.impl.startswith("ok (f ") and c.impl == c.model \
                    and "finite" not in runner.DeclInfo(c.decl).vkinds:
                rep.known_hit("float_nan_passes_bounds",
                              "float bound validators accept NaN when `finite` is not declared")
            else:
                rep.violation("%s(%s) returned %s but sanitize-then-validate requires %s" % (c.op, c.arg, c.impl, spec_o),
                              case_payload(c, g))
        elif impl_p != model_p:
            rep.violation("model and implementation differ on %s(%s): impl %s, model %s (spec agrees with impl)"
                          % (c.op, c.arg, c.impl, c.model), case_payload(c, g), no_input=True)
    rep.coverage.update({
        "evaluations": n_cases,
        "distinct_nontrivial": n_nontrivial,
        "rule": "deterministic covering corpus of declarations (family x inner type x sanitizer x ordered validator list x bound spelling x bound position x flags) with boundary-neighbourhood / exhaustive 8-bit / special-float / short-string inputs; non-trivial = outcome is not Ok(raw) (a sanitizer changed the value or a validator rejected); every case compared three ways: real try_new/new, extracted model, L3 specification",
        "declarations": len(g.decls), "declarations_compiled": len(g.live),
        "outcome_classes": {"%s/%s" % k: v for k, v in sorted(classes.items())},
        "exhaustive": False,
    })
    for c in g.cases[:: max(1, len(g.cases) // 6)][:6]:
        rep.samples.append({"decl": c.decl.id, "inner": c.decl.inner, "op": c.op, "arg": c.arg, "impl": c.impl, "model": c.model})
    for fam in ("int", "float", "str", "any"):
        for kind in ("ok", "err"):
            if not classes.get((fam, kind)):
                rep.violation("self-check: no %s/%s outcome was exercised" % (fam, kind), {"kind": "coverage"}, no_input=True)


# ------------------------------------------------------------------------------------- C07

def c07(tier, rng, rep, only=None):
    decls = only if only is not None else (guardcorpus.build_corpus(rng, tier) + corpus.gen_perm_decls(rng.fork("perm"), tier))

    def ops_for(g, d, r):
        # the reported variant must be the same whichever guarded entry point carries the input
        info = runner.DeclInfo(d)
        ops = []
        for k_, v in enumerate(guardcorpus.inputs_for(d, r, tier)):
            a = val_sexp(v)
            ops.append((guardcorpus.ctor_op(d), a))
            if info.has_validation and k_ % 2 == 0:
                if "TryFrom" in info.traits:
                    ops.append(("try_from", a))
                if "FromStr" in info.traits and d.inner == "String":
                    ops.append(("from_str_s", a))
        g.add_ops(d, ops, spec=True)
    if only is None:
        # the perm declarations live in their own workspace so that the shared guard build is reused
        g1 = make_guard_run(tier, rng, decls=[d for d in decls if "perm" not in d.tags], ops_for=ops_for)
        g2 = make_guard_run(tier, rng, decls=[d for d in decls if "perm" in d.tags], wsname="perm", ops_for=ops_for)
        runs = [g1, g2]
    else:
        runs = [make_guard_run(tier, rng, decls=decls, wsname="replay", ops_for=ops_for)]
    n_cases = n_err = n_multi = 0
    per_variant = {}
    for g in runs:
        dropped = run_guard(g, rep, rng)
        profile_crosscheck(g, rep)
        for did, msgs in dropped.items():
            mv = g.model_verdict.get(did, "")
            if not mv.startswith("reject"):
                # the wildcard-free match over the declared variants did not compile (or the
                # declaration itself was refused): the variant list may have changed
                txt = " | ".join(msgs)[:300]
                if "variant" in txt or "pattern" in txt or "E0004" in txt or "E0599" in txt or "non-exhaustive" in txt:
                    d = [x for x in g.decls if x.id == did][0]
                    rep.violation("generated error enum of %s does not have exactly the declared variants: %s" % (did, txt),
                                  {"kind": "variants", "decl": d.to_json(), "decl_rust": runner.decl_module(d, None).split("pub fn run")[0], "rustc": msgs[:3]})
                else:
                    rep.notes.append("declaration %s unexpectedly rejected: %s" % (did, txt))
        for c in g.cases:
            if c.decl.id not in g.live or c.impl is None:
                continue
            n_cases += 1
            spec_o, _, cmpok = (c.spec or "").rpartition(" ")
            if c.impl == "panic" and spec_o.startswith("err"):
                rep.violation("%s(%s) panicked where the first violated rule in written order gives %s (a later rule was evaluated on a value an earlier rule refuses?)"
                              % (c.op, c.arg, spec_o), case_payload(c, g))
                continue
            if not (c.impl.startswith("err") or c.impl.startswith("errc")):
                continue
            n_err += 1
            per_variant[c.impl] = per_variant.get(c.impl, 0) + 1
            if c.impl != spec_o:
                if cmpok == "0" and c.decl.family() == "float" and c.impl == c.model:
                    rep.known_hit("float_nan_passes_bounds",
                                  "a NaN violates a bound's meaning but no bound check fires, so a later variant (or none) is reported")
                else:
                    rep.violation("%s(%s) reported %s but the first violated rule in written order is %s"
                                  % (c.op, c.arg, c.impl, spec_o), case_payload(c, g))
            elif c.impl != c.model:
                rep.violation("model and implementation differ on %s(%s): impl %s, model %s" % (c.op, c.arg, c.impl, c.model),
                              case_payload(c, g), no_input=True)
    # the generated error enum as it is DEFINED (expansion): exactly the declared variants, plain unit variants,
    # matchable exhaustively from any crate
    n_enum = 0
    if only is None:
        recs = flows.expand_inventory(runs[0].ws)
        for d in runs[0].decls:
            if d.id not in runs[0].live:
                continue
            info = runner.DeclInfo(d)
            if not info.has_validation or info.custom:
                continue
            want = sorted(runner.VARIANTS[k_] for k_ in info.vkinds)
            enums = [r for r in recs.get(d.id, []) if r[0] == "enum" and r[1] == d.name + "Error"]
            payload = {"kind": "inventory", "decl": d.to_json(), "decl_rust": runner.decl_module(d, None).split("pub fn run")[0], "records": enums}
            if len(enums) != 1:
                rep.violation("the expansion of %s defines %d enums named %sError" % (d.id, len(enums), d.name), payload, no_input=True)
                continue
            n_enum += 1
            kv = dict(x.split("=", 1) for x in enums[0][2:])
            if sorted(v_ for v_ in kv.get("variants", "").split(",") if v_) != want:
                rep.violation("error enum of %s has the variants [%s]; the declared validators are %s" % (d.id, kv.get("variants"), want), payload)
            if kv.get("non_exhaustive") != "0":
                rep.violation("error enum of %s is #[non_exhaustive]: a wildcard-free match over exactly the declared variants is refused in every other crate" % d.id, payload)
        rep.coverage["error_enum_definitions_checked"] = n_enum
    if only is None:
        mixed_rules_must_be_refused(rep, rng, tier, "the written built-in validators have no error variant and are never reported")
    rep.coverage.update({
        "evaluations": n_cases, "distinct_nontrivial": n_err,
        "rule": "guard corpus plus every permutation of the full built-in validator set per family (integers also with contradictory constant bounds); non-trivial = the constructor rejected; the reported variant is compared with the first violated validator of the L3 specification; the variant list is pinned by a wildcard-free match compiled per declaration",
        "rejections_by_variant": per_variant, "exhaustive": False,
    })
    for g in runs:
        for c in [c for c in g.cases if c.impl and c.impl.startswith("err")][:3]:
            rep.samples.append({"decl": c.decl.id, "op": c.op, "arg": c.arg, "impl": c.impl, "spec": c.spec})
    if n_err == 0:
        rep.violation("self-check: no rejection was exercised", {"kind": "coverage"}, no_input=True)


# ------------------------------------------------------------------------------------- C03

def c03(tier, rng, rep, only=None):
    def ops_for(g, d, r):
        info = runner.DeclInfo(d)
        ins = guardcorpus.inputs_for(d, r, tier)
        if d.family() == "int" and len(ins) > 64:
            ins = ins[:: max(1, len(ins) // 64)]
        if d.family() == "str" and len(ins) > 80:
            ins = ins[:: max(1, len(ins) // 80)]
        ctor = guardcorpus.ctor_op(d)
        ops = []
        for v in ins:
            a = val_sexp(v)
            ops.append((ctor, a))
            if "TryFrom" in info.traits:
                ops.append(("try_from", a))
                if d.inner == "String":
                    ops.append(("try_from_ref", a))
            if "From" in info.traits:
                ops.append(("from", a))
                if d.inner == "String":
                    ops.append(("from_ref", a))
            if "FromStr" in info.traits and d.inner == "String":
                ops.append(("from_str_s", a))
        if getattr(d, "default_arg", None) is not None and "Default" in info.traits:
            ops.append((ctor, val_sexp(d.default_arg)))
            ops.append(("default", ""))
        g.add_ops(d, ops)
    g = make_guard_run(tier, rng, decls=only, ops_for=ops_for, spec=False)
    run_guard(g, rep, rng)
    profile_crosscheck(g, rep)
    n = nconv = 0
    kinds = {}
    for d in g.decls:
        if d.id not in g.live:
            continue
        last_ctor = None
        for c in g.by_decl.get(d.id, []):
            if c.impl is None:
                continue
            n += 1
            if c.op in ("try_new", "new"):
                last_ctor = c
                if c.impl != c.model:
                    rep.notes.append("constructor differs from model on %s %s (C01's concern)" % (d.id, c.arg))
                continue
            nconv += 1
            kinds[c.op] = kinds.get(c.op, 0) + 1
            if c.op == "default":
                exp = last_ctor.impl if last_ctor.impl.startswith("ok") else "panic"
            else:
                exp = last_ctor.impl
            if c.impl != exp:
                rep.violation("%s(%s) returned %s but the constructor returns %s for the same input"
                              % (c.op, last_ctor.arg, c.impl, last_ctor.impl), case_payload(c, g, {"constructor": last_ctor.impl}))
            elif c.impl != c.model:
                rep.violation("model and implementation differ on %s(%s): impl %s, model %s" % (c.op, c.arg, c.impl, c.model),
                              case_payload(c, g), no_input=True)
    rep.coverage.update({"evaluations": n, "distinct_nontrivial": nconv,
                         "rule": "every derived conversion (TryFrom/From from the inner type and from &str, string FromStr, Default) is run next to the canonical constructor on the same input (inputs of the C01 domains, thinned) and must return the identical outcome, error variant included; Default is compared with the constructor applied to the declared default (panic when rejected)",
                         "conversions_by_kind": kinds, "exhaustive": False})
    for c in [c for c in g.cases if c.op not in ("try_new", "new")][:: max(1, nconv // 6)][:6]:
        rep.samples.append({"decl": c.decl.id, "op": c.op, "arg": c.arg, "impl": c.impl})
    for k in ("try_from", "from", "from_str_s", "default", "try_from_ref", "from_ref"):
        if not kinds.get(k):
            rep.violation("self-check: conversion %s was not exercised" % k, {"kind": "coverage"}, no_input=True)


# ------------------------------------------------------------------------------------- C06

def numeric_strings(d, rng):
    from syntax import INT_TYPES, ity_min, ity_max, bits_to_frac
    out = ["", " ", "abc", "+", "-", "--1", "1 ", " 1", "+5", "-0", "007", "0x10", "1_000", "1e3", "NaN", "nan",
           "inf", "-inf", "infinity", "+inf", "1e400", "-1e400", "1e-400", "0.1", ".5", "5.", "1.0", "-1.5",
           "١٢", "5\u00a0".encode().decode("unicode_escape"), "99999999999999999999999999999999999999999", "-99999999999999999999999999999999999999999",
           "340282366920938463463374607431768211455", "340282366920938463463374607431768211456",
           "-170141183460469231731687303715884105728", "-170141183460469231731687303715884105729", "3.4028235e38", "3.4028236e38",
           "1.7976931348623157e308", "1.7976931348623159e308", "4.9e-324", "2e-324", "7", "7.0", "100", "101", "-0.0",
           # a hair away from an f32 midpoint: parsing through f64 and narrowing rounds twice
           "16777217.0000000001", "16777216.9999999999", "1.0000000596046448", "1.00000005960464478", "7.038531e-26",
           "0.10000000149011612", "33554434.0000000001", "-16777217.0000000001", "1.00000017881393421514957253748434595763683319091796875",
           "9007199254740993", "9007199254740992.9999",
           "+-5", "++5", "-+5", "+", "+-0", "++inf", "+-NaN", "+ 5",
           # characters that are neither digits nor white space for core, at either end
           "\ufeff42", "\ufeff", "42\ufeff", "\u200b7", "7\u200b", "\u00a07", "\u20607", "\u00ad5", "\u2212" + "5", "\uff0b5",
           "1" + "0" * 308, "-1" + "0" * 308 + ".0", "0." + "0" * 300 + "1", "0" * 300 + "1.5", "1" * 257, "9" * 400, "0." + "3" * 300,
           "340282346638528859811704183484516925440", "340282346638528859811704183484516925440.0000000000000000000000000000000000000000000000000000"]
    if d.inner in INT_TYPES:
        lo, hi = ity_min(d.inner), ity_max(d.inner)
        for b in list(getattr(d, "bounds", [])) + [lo, hi, 0]:
            for dl in (-1, 0, 1):
                out.append(str(b + dl))
        out += [str(lo - 1), str(hi + 1)]
        for _ in range(6):
            out.append(str(rng.range(lo, hi)))
    else:
        is64 = FLOAT_TYPES[d.inner]
        for b in getattr(d, "bounds", []):
            fr = bits_to_frac(b, is64)
            if fr is not None:
                out.append(repr(float(fr)))
                out.append(repr(float(fr) + 0.5))
        for b in corpus.float_specials(is64):
            if not is_nan_bits(b, is64):
                out.append(float_shortest_text(b, is64))
        for _ in range(6):
            out.append("%d.%d" % (rng.range(-200, 200), rng.below(1000)))
    for _ in range(4):
        out.append("".join(chr(rng.choice([48, 49, 57, 45, 46, 101, 32, 0x663, 0xff11, 0x7f])) for _ in range(rng.range(1, 6))))
    return out


def c06(tier, rng, rep, only=None):
    def ops_for(g, d, r):
        info = runner.DeclInfo(d)
        if d.family() not in ("int", "float") or "FromStr" not in info.traits:
            return
        g.add_ops(d, [("from_str", val_sexp(("s", s))) for s in numeric_strings(d, r)])
    g = make_guard_run(tier, rng, decls=only, ops_for=ops_for, spec=False)
    run_guard(g, rep, rng)
    profile_crosscheck(g, rep)
    n = 0
    cls = {}
    for c in g.cases:
        if c.decl.id not in g.live or c.impl is None:
            continue
        n += 1
        ctor = c.extra[0] if c.extra else None
        if c.impl == "panic":
            rep.violation("from_str(%s) panicked" % c.arg, case_payload(c, g))
            continue
        exp = "parse_err" if c.oracle == "none" else ctor
        k = "parse_err" if c.impl == "parse_err" else ("ok" if c.impl.startswith("ok") else "validate_err")
        cls[(c.decl.family(), k)] = cls.get((c.decl.family(), k), 0) + 1
        if c.impl != exp:
            rep.violation("from_str(%s) returned %s; inner parse gives %s and the constructor gives %s"
                          % (c.arg, c.impl, c.oracle, ctor), case_payload(c, g, {"inner_parse": c.oracle, "constructor": ctor}))
        elif c.impl != c.model:
            rep.violation("model and implementation differ on from_str(%s): impl %s, model %s" % (c.arg, c.impl, c.model),
                          case_payload(c, g), no_input=True)
    rep.coverage.update({"evaluations": n, "distinct_nontrivial": sum(v for (f, k), v in cls.items() if k != "ok"),
                         "rule": "integer and float declarations deriving FromStr; strings = decimal renderings of every bound and extreme +-1, overflowing digit strings, signs, whitespace, NaN/inf/-0/1e400, empty, non-numeric, non-ASCII digits, random; the real from_str is compared with <Inner as FromStr>::from_str followed by the real constructor (computed in the same process) and with the model: for integer types the model parses the text itself (Sem/Text.parse_int, core's decimal grammar), for floats it is fed the real inner-parse result",
                         "outcome_classes": {"%s/%s" % k: v for k, v in sorted(cls.items())}, "exhaustive": False})
    for c in g.cases[:: max(1, len(g.cases) // 6)][:6]:
        rep.samples.append({"decl": c.decl.id, "inner": c.decl.inner, "arg": c.arg, "impl": c.impl, "inner_parse": c.oracle})
    for fam in ("int", "float"):
        for k in ("parse_err", "ok", "validate_err"):
            if not cls.get((fam, k)):
                rep.violation("self-check: no %s/%s outcome" % (fam, k), {"kind": "coverage"}, no_input=True)


# ------------------------------------------------------------------------------------- C14

def c14(tier, rng, rep, only=None):
    from syntax import INT_TYPES, ity_min, ity_max
    decls = only if only is not None else [d for d in corpus.gen_arb_ints(rng.fork("arbint"), tier) if not getattr(d, "has_san", False)]
    g = flows.GuardRun("arbint" if tier == "quick" else "arbint_t", decls)
    for d in decls:
        g.add_ops(d, [("arb_range", "")])
    dropped = g.build()
    g.run_model()
    n_cover = 0
    sizes = {}
    for d in decls:
        if d.id not in g.live:
            if not g.model_verdict.get(d.id, "").startswith("reject"):
                rep.notes.append("declaration %s unexpectedly rejected: %s" % (d.id, dropped.get(d.id, [""])[0][:200]))
            continue
        m = g.by_decl[d.id][0].model or ""
        if not m.startswith("range ") or m == "range none":
            rep.notes.append("no model range for %s: %s" % (d.id, m))
            continue
        _, lo, hi = m.split()
        lo, hi = int(lo), int(hi)
        d.model_range = (lo, hi)
        if hi < lo:
            continue
        if hi - lo + 1 > 65536:
            # too wide to enumerate: probe the two ends (offset 0 and offset delta, big-endian)
            delta = hi - lo
            nb = min(INT_TYPES[d.inner][1] // 8, (delta.bit_length() + 7) // 8)
            be = [(delta >> (8 * (nb - 1 - i))) & 0xff for i in range(nb)]
            mid = [(delta // 2 >> (8 * (nb - 1 - i))) & 0xff for i in range(nb)]
            for bs in ([0] * 16, be, mid, [255] * 16):
                g.add_ops(d, [("arb", "(b%s)" % "".join(" %d" % b for b in bs))])
            d.probe = (lo, hi)
            continue
        tlo, thi = ity_min(d.inner), ity_max(d.inner)
        if INT_TYPES[d.inner][1] <= 16:
            wlo, whi = tlo, thi
        else:
            wlo, whi = max(tlo, lo - 1000), min(thi, hi + 1000)
        L = 1 if hi - lo < 256 else 2
        g.add_ops(d, [("arb_cover", "(w %d %d %d)" % (L, wlo, whi))])
        n_cover += 1
        sizes[L] = sizes.get(L, 0) + 1
    g.run_impl()
    profile_crosscheck(g, rep)
    g.run_model()
    n_vals = 0
    n_probe = 0
    for d in decls:
        if d.id not in g.live or not hasattr(d, "model_range"):
            continue
        for c in [c for c in g.by_decl[d.id] if c.op == "arb"]:
            n_probe += 1
            if c.impl != c.model:
                lo, hi = d.model_range
                rep.violation("generator range of %s differs from the valid range [%d, %d]: arbitrary(%s) gives %s, the model %s"
                              % (d.id, lo, hi, c.arg, c.impl, c.model), case_payload(c, g, {"model_range": [lo, hi]}), no_input=True)
        cs = [c for c in g.by_decl[d.id] if c.op == "arb_cover"]
        if not cs:
            continue
        c = cs[0]
        lo, hi = d.model_range
        if not c.impl or not c.impl.startswith("cover "):
            rep.violation("arb_cover failed on %s: %s" % (d.id, c.impl), case_payload(c, g), no_input=True)
            continue
        kv = dict(x.split("=") for x in c.impl.split()[1:])
        n_vals += int(kv["n"])
        rep.samples.append({"decl": d.id, "inner": d.inner, "model_range": [lo, hi], "impl": c.impl}) if len(rep.samples) < 6 else None
        if kv["panics"] != "0":
            rep.notes.append("%s: %s generator panics (C09's concern)" % (d.id, kv["panics"]))
        if kv["missing"] != "-":
            rep.violation("valid value %s of %s is never produced by Arbitrary over all %s-byte inputs (produced %s values in [%s, %s], valid %s)"
                          % (kv["missing"], d.id, c.arg.split()[1], kv["n"], kv["min"], kv["max"], kv["valid_n"]),
                          case_payload(c, g, {"unreachable_value": kv["missing"], "model_range": [lo, hi]}))
        elif (int(kv["n"]), kv["min"], kv["max"]) != (hi - lo + 1, str(lo), str(hi)):
            rep.violation("model range [%d, %d] differs from the produced set of %s: %s" % (lo, hi, d.id, c.impl),
                          case_payload(c, g, {"model_range": [lo, hi]}), no_input=True)
    rep.coverage.update({"evaluations": n_cover, "distinct_nontrivial": n_cover,
                         "rule": "integer declarations deriving Arbitrary (all 12 inner types, every bound-kind combination, literal and expression bounds incl. shift / arithmetic / MIN / MAX); for every declaration whose range has at most 2^16 elements ALL byte strings of the consumed length go through the real generator and the produced set is compared with the set of values the real constructor accepts and with the model's range",
                         "values_produced": n_vals, "wide_range_end_probes": n_probe, "input_length_histogram": {str(k): v for k, v in sizes.items()},
                         "exhaustive": True, "declarations": len(decls)})
    if n_cover == 0 and only is None:
        rep.violation("self-check: no declaration was covered", {"kind": "coverage"}, no_input=True)


# ------------------------------------------------------------------------------------- C09

def canon_nan(o, d):
    if o and o.startswith("ok (f ") and d.inner in FLOAT_TYPES:
        bits = int(o[6:-1])
        if is_nan_bits(bits, FLOAT_TYPES[d.inner]):
            return "ok (f nan)"
    return o


def c09_class(d):
    """the recorded finding class a panicking declaration belongs to (None = not a known shape)"""
    fam = d.family()
    info = runner.DeclInfo(d)
    if fam == "int":
        if getattr(d, "sanitized", False):
            return ("int_custom_sanitizer_with_bounds", "integer Arbitrary with a custom sanitizer and bounds picks a raw value in range; the sanitizer may move it out of range")
        return None
    if fam == "str":
        sans = getattr(d, "sans", [])
        if ("lowercase" in sans or "uppercase" in sans) and "len_char_max" in info.vkinds:
            return ("str_case_sanitizer_with_len_char_max", "string Arbitrary ignores that lowercase/uppercase can lengthen the string (e.g. U+00DF -> SS), violating len_char_max")
        return None
    if fam == "float":
        from syntax import bits_to_frac
        from fractions import Fraction
        is64 = FLOAT_TYPES[d.inner]
        shape = getattr(d, "shape", None)
        if shape is None:
            return None
        lk, uk = d.kinds
        vals = {}
        bi = 0
        for s_ in shape:
            if s_ in ("L", "U"):
                vals[s_] = bits_to_frac(d.bounds[bi], is64)
                bi += 1
        excl = []
        if "L" in vals and lk == "greater":
            excl.append(vals["L"])
        if "U" in vals and uk == "less":
            excl.append(vals["U"])
        delta = Fraction(4, 10 ** 15) if is64 else Fraction(2, 10 ** 6)
        fmax = bits_to_frac(0x7FEFFFFFFFFFFFFF if is64 else 0x7F7FFFFF, is64)
        if "L" in vals and "U" in vals and vals["U"] - vals["L"] > fmax:
            return ("float_two_sided_range_overflow", "float Arbitrary with two bounds whose distance overflows the type: the scaled value is infinite or NaN")
        thr = Fraction(2) ** (970 if is64 else 103)
        if "F" in shape and ("L" in vals) != ("U" in vals) and (("L" in vals and vals["L"] >= thr) or ("U" in vals and vals["U"] <= -thr)):
            return ("float_one_sided_finite_overflow", "float Arbitrary with `finite` and a single bound of large magnitude adds the absolute base value to the bound: the sum overflows to an infinity, which `finite` rejects")
        if any(abs(b) >= 64 for b in excl):
            return ("float_exclusive_bound_delta_absorbed", "float Arbitrary corrects a value equal to an exclusive bound by a fixed delta (2e-6 / 4e-15) that is absorbed by rounding once |bound| >= 64")
        if "L" in vals and "U" in vals and excl and vals["U"] - vals["L"] <= 2 * delta:
            return ("float_exclusive_bound_delta_exceeds_range", "float Arbitrary corrects an exclusive bound by a fixed delta that is wider than the whole valid range")
        if "L" in vals and "U" in vals and uk == "less" and max(abs(vals["L"]), vals["U"] - vals["L"]) >= 64:
            return ("float_exclusive_upper_overshoot_exceeds_delta", "float Arbitrary with two bounds, the upper one exclusive: lower + from0to1 * range can overshoot the upper bound by more than the fixed correction delta when |lower| or the range is >= 64, so the corrected value still violates `less`")
        return None
    return None


def c09(tier, rng, rep, only=None):
    if only is not None:
        decls = only
    else:
        decls = (corpus.gen_arb_ints(rng.fork("arbint"), tier) + corpus.gen_arb_floats(rng.fork("arbfloat"), tier)
                 + corpus.gen_arb_strs(rng.fork("arbstr"), tier) + corpus.gen_arb_anys(rng.fork("arbany"), tier))
    g = flows.GuardRun("arb" if tier == "quick" else "arb_t", decls)
    # the proved decision procedure (Sem/ArbFloatDecide) on every float declaration, before anything is
    # built: `total` is a theorem about every byte string, `panics (b ..)` names a failing input
    gd = flows.GuardRun("arb_decide", [d for d in decls if d.family() in ("float", "str")])
    for d in gd.decls:
        gd.add_ops(d, [("arb_decide", "")])
    gd.run_model()
    decision = {d.id: (gd.by_decl[d.id][0].model or "unknown") for d in gd.decls}
    witness = {}
    for d in decls:
        ins = corpus.arb_byte_inputs(d, rng.fork(d.id), tier)
        ops = [("arb", "(b%s)" % "".join(" %d" % b for b in bs)) for bs in ins]
        dec = decision.get(d.id, "")
        if dec.startswith("panics "):
            witness[d.id] = dec[len("panics "):]
            ops.append(("arb", witness[d.id]))
        if d.family() == "any":
            ops += [("arb_rest", a_) for _, a_ in ops[:60]]
        g.add_ops(d, ops)
    dropped = run_guard_arb(g, rep, rng)
    profile_crosscheck(g, rep)          # a generator may not trust itself more in an optimised build
    n = 0
    cls = {}
    dec_stats = {"total": 0, "panics": 0, "unknown": 0, "total_decls_with_real_runs": 0, "witness_panics_confirmed": 0}
    for did_, dec in decision.items():
        dec_stats[dec.split()[0] if dec.split() and dec.split()[0] in ("total", "panics") else "unknown"] += 1
    for c in g.cases:
        if c.decl.id not in g.live or c.impl is None:
            continue
        n += 1
        d = c.decl
        if c.op == "arb_rest":
            cls[("any", "arb_rest")] = cls.get(("any", "arb_rest"), 0) + 1
            if not c.impl.startswith("same=1"):
                rep.violation("arbitrary_take_rest(%s) of %s is not the constructor applied to the inner type's arbitrary_take_rest: %s"
                              % (c.arg, d.id, c.impl), case_payload(c, g))
            continue
        impl, model = canon_nan(c.impl, d), canon_nan(c.model, d)
        kind = "ok" if impl.startswith("ok") else impl
        cls[(d.family(), kind)] = cls.get((d.family(), kind), 0) + 1
        dec = decision.get(d.id, "unknown")
        if dec == "total" and impl in ("panic", "hang"):
            # theorem C09_float_decided_total says this declaration's generator returns a valid value for
            # every byte string: no recorded class can excuse a panic here
            rep.violation("arbitrary(%s) %s on %s, whose generator is PROVED total and valid for every byte string (C09_float_decided_total / C09_str_decided_total)"
                          % (c.arg, "panicked" if impl == "panic" else "did not terminate", d.id), case_payload(c, g, {"decision": dec}))
            continue
        if d.id in witness and c.arg == witness[d.id]:
            if impl == "panic":
                dec_stats["witness_panics_confirmed"] += 1
            else:
                rep.violation("the model proves that arbitrary(%s) panics on %s (C09_float_decided_panics) but the implementation returns %s"
                              % (c.arg, d.id, c.impl), case_payload(c, g, {"decision": dec}), no_input=True)
                continue
        if impl in ("panic", "hang"):
            k = c09_class(d)
            if k and model == "panic" and impl == "panic":
                rep.known_hit(k[0], k[1])
            else:
                rep.violation("arbitrary(%s) %s on %s" % (c.arg, "panicked" if impl == "panic" else "did not terminate", d.id),
                              case_payload(c, g))
        elif model not in (None, "na") and impl != model:
            rep.violation("model and implementation differ on arbitrary(%s): impl %s, model %s" % (c.arg, c.impl, c.model),
                          case_payload(c, g), no_input=True)
    rep.coverage.update({"evaluations": n, "distinct_nontrivial": sum(v for (f, k), v in cls.items() if k == "ok"),
                         "rule": "integer / float / string declarations deriving Arbitrary; byte strings: empty, all 1-byte inputs, all-0x00 / all-0xFF of every length up to 64, boundary patterns, encodings of special floats and of case-expanding / white-space characters, random; the real arbitrary() runs under catch_unwind and a watchdog thread; a panic or hang is a violation unless it is in a recorded class AND the model predicts it",
                         "outcome_classes": {"%s/%s" % k: v for k, v in sorted(cls.items())}, "exhaustive": False,
                         "declarations": len(decls),
                         "decision_procedures": dict(dec_stats, rule="arb_float_decide / arb_str_decide (proved sound: C09_float_decided_total / _panics, C09_str_decided_total / _panics) evaluated by the model on every float and String declaration of the corpus; `total` declarations may not panic on any input tried, whatever class they resemble; for `panics` declarations the named input is run on the real generator")})
    if only is None and (not dec_stats["total"] or not dec_stats["panics"]):
        rep.violation("self-check: the decision procedure never answered %s" % ("total" if not dec_stats["total"] else "panics"), {"kind": "coverage"}, no_input=True)
    for c in g.cases[:: max(1, len(g.cases) // 6)][:6]:
        rep.samples.append({"decl": c.decl.id, "inner": c.decl.inner, "arg": c.arg, "impl": c.impl, "model": c.model})


def run_guard_arb(g, rep, rng):
    dropped = g.build()
    g.run_impl()
    # arb inputs are "(b 1 2 3)": the model takes the bytes directly
    for c in g.cases:
        pass
    g.run_model()
    n, diffs = g.vm_crosscheck(rng.fork("vm"), n=8)
    rep.coverage["vm_compute_crosscheck"] = {"compared": n, "differences": len(diffs)}
    for cid, a, b in diffs[:3]:
        rep.violation("extracted model and vm_compute disagree on %s: %r vs %r" % (cid, a, b),
                      {"kind": "extraction-mismatch", "case": cid}, no_input=True)
    rep.coverage["timing"] = g.stats
    verdict_agreement(g, dropped, rep)
    return dropped


# ------------------------------------------------------------------------------------- C12 / C13

def parse_kv(o):
    return dict(x.split("=") for x in o.split()) if o and "=" in o else None


def pair_inputs(d, rng, tier):
    fam = d.family()
    vals = guardcorpus.inputs_for(d, rng, tier)
    if fam == "float":
        is64 = FLOAT_TYPES[d.inner]
        sp = corpus.float_specials(is64)
        base = [("f", b) for b in sp[:14]] + [("f", b) for b in getattr(d, "bounds", [])]
        base += vals[:: max(1, len(vals) // 6)][:6]
    elif fam == "int":
        base = vals[:: max(1, len(vals) // 10)][:10] + [("i", b) for b in getattr(d, "bounds", [])]
        base = [v for v in base if v in vals or True]
        # adjacent values at the ends of the type and at the frontier where f64 / f32 stop being
        # exact (a comparison routed through a lossy conversion shows only there; seeded C13_T)
        from syntax import INT_TYPES, ity_min, ity_max
        if d.inner in INT_TYPES:
            lo, hi = ity_min(d.inner), ity_max(d.inner)
            cand = [lo, lo + 1, hi - 1, hi, 2 ** 24, 2 ** 24 + 1, 2 ** 53, 2 ** 53 + 1, -(2 ** 53), -(2 ** 53) - 1]
            base += [("i", c) for c in cand if lo <= c <= hi]
    elif fam == "str":
        base = [("s", x) for x in ["", "a", "A", " a", "ab", "\U0001F600", "\uff21", "\ue000", "a\U0001F600", "a\uff21",
                                   "a ", "aB", "b", "a@", "abc", "zz7", "  ", "x", "\U00010400"]]
    else:
        base = vals[:10]
    seen, out = set(), []
    for v in base:
        key = repr(v)
        if key not in seen:
            seen.add(key)
            out.append(v)
    return out


OPS_OF_CMP = {"L": "1100", "E": "0101", "G": "0011"}


def c12(tier, rng, rep, only=None):
    decls = only if only is not None else [d for d in guardcorpus.build_corpus(rng, tier)
                                           if d.family() == "float" and "Ord" in runner.DeclInfo(d).traits]

    def ops_for(g, d, r):
        vals = pair_inputs(d, r, tier)
        ops = []
        for a in vals:
            ops.append(("try_new", val_sexp(a)))
        info = runner.DeclInfo(d)
        for a in vals:
            if "TryFrom" in info.traits:
                ops.append(("try_from", val_sexp(a)))
        for s_ in ("NaN", "nan", "inf", "-inf", "infinity", "1e400", "-1e400", "0", "-0", "1.5"):
            ops.append(("from_str", val_sexp(("s", s_))))
        if "Default" in info.traits:
            ops.append(("default", ""))
        for a in vals:
            for b_ in vals:
                ops.append(("cmp2", "(p %s %s)" % (val_sexp(a), val_sexp(b_))))
        g.add_ops(d, ops)
    g = make_guard_run(tier, rng, decls=decls, ops_for=ops_for, spec=False)
    run_guard(g, rep, rng)
    profile_crosscheck(g, rep)
    # the gate itself: Eq / Ord on a float newtype is refused unless `finite` is declared
    n_gate = 0
    if only is None:
        import verdicts
        edecls = verdicts.gen_c12_decls(rng.fork("e"), tier)
        ge, dropped_e = verdict_run("eqgate", edecls, runner.FEATURES_ALL, rep, rng)
        for d in edecls:
            n_gate += 1
            payload = {"kind": "verdict", "decl": d.to_json(), "decl_rust": runner.decl_module(d, None), "rustc": (dropped_e.get(d.id) or ["(compiles)"])[:3]}
            if getattr(d, "must_refuse", False) and d.id not in dropped_e:
                rep.violation("float declaration %s asks for Eq / Ord without the traits they presuppose and compiles%s" % (d.id, "" if d.has_finite else ": a NaN is obtainable and comparable"), payload)
            elif getattr(d, "must_refuse", False):
                pass
            elif not d.has_finite and d.id not in dropped_e:
                rep.violation("float declaration %s derives Eq / Ord without `finite` and compiles: a NaN is obtainable" % d.id, payload)
            elif d.has_finite and d.id in dropped_e:
                rep.violation("float declaration %s with `finite` may not derive Eq / Ord: %s" % (d.id, dropped_e[d.id][0][:160]), payload, no_input=True)
            elif (d.id in dropped_e) != ge.model_verdict.get(d.id, "").startswith("reject"):
                rep.violation("model and rustc disagree on %s: model %s" % (d.id, ge.model_verdict.get(d.id)), payload, no_input=True)
    n_arb = 0
    if only is None:
        adecls = [d for d in corpus.gen_arb_floats(rng.fork("arbfloat"), tier) if "F" in getattr(d, "shape", [])]
        ga = flows.GuardRun("arb" if tier == "quick" else "arb_t", corpus.gen_arb_ints(rng.fork("arbint"), tier) + corpus.gen_arb_floats(rng.fork("arbfloat"), tier)
                            + corpus.gen_arb_strs(rng.fork("arbstr"), tier) + corpus.gen_arb_anys(rng.fork("arbany"), tier))
        keep = {d.id for d in adecls}
        for d in ga.decls:
            if d.id in keep:
                ins = corpus.arb_byte_inputs(d, rng.fork(d.id), tier)
                ga.add_ops(d, [("arb", "(b%s)" % "".join(" %d" % b_ for b_ in bs)) for bs in ins])
        ga.build()
        ga.run_impl()
        for c in ga.cases:
            if c.impl is None or not c.impl.startswith("ok (f "):
                continue
            n_arb += 1
            bits = int(c.impl[6:-1])
            is64 = FLOAT_TYPES[c.decl.inner]
            expo = (bits >> 52) & 0x7ff if is64 else (bits >> 23) & 0xff
            if expo == (0x7ff if is64 else 0xff):
                rep.violation("arbitrary(%s) of %s, which declares `finite`, returned the non-finite value %s" % (c.arg, c.decl.id, c.impl), case_payload(c, ga))
    rep.coverage["arbitrary_values_of_finite_types"] = n_arb
    rep.coverage["eq_ord_gate_declarations"] = n_gate
    # Deserialize is a safe entry point too: float types with `finite` deriving Eq / Ord and
    # Deserialize, fed non-finite payloads in every format (and serde's own value deserializers)
    n_de = 0
    if only is None:
        sdecls = []
        for d in corpus.gen_serde_decls(rng.fork("serde"), tier):
            if d.family() == "float" and "finite" in runner.block_idents(runner.find_block(d.toks, "validate") or []):
                d.toks = corpus.replace_derive(d.toks, ["Debug", "Clone", "PartialEq", "Eq", "PartialOrd", "Ord", "Serialize", "Deserialize", "TryFrom"])
                d.id = "q" + d.id
                sdecls.append(d)

        def ops_de(g_, d, r):
            is64 = FLOAT_TYPES[d.inner]
            ops = []
            for bs in ([0xca, 0x7f, 0xc0, 0, 0], [0xca, 0x7f, 0x80, 0, 0], [0xca, 0xff, 0x80, 0, 0], [0xca, 0xff, 0xc0, 0, 1],
                       [0xcb, 0x7f, 0xf8, 0, 0, 0, 0, 0, 0], [0xcb, 0x7f, 0xf0, 0, 0, 0, 0, 0, 0], [0xcb, 0xff, 0xf0, 0, 0, 0, 0, 0, 0],
                       [0xcb, 0x7f, 0xf0, 0, 0, 0, 0, 0, 1], [0xca, 0x3f, 0xc0, 0, 0], [0xcb, 0x40, 0x1c, 0, 0, 0, 0, 0, 0], [0xc0], [0x05]):
                ops.append(("de_mp", "(b%s)" % "".join(" %d" % b_ for b_ in bs)))
            for doc in ("NaN", "inf", "-inf", "1e400", "-1e400", "1.5", "null", "7", "-0.0", "3.5e38", "1.8e308"):
                ops.append(("de_json", val_sexp(("s", doc))))
                ops.append(("de_ron", val_sexp(("s", doc))))
            for bits in corpus.float_specials(is64):
                ops.append(("de_self", val_sexp(("f", bits))))
                ops.append(("de_seq1", val_sexp(("f", bits))))
            g_.add_ops(d, ops)
        gs = make_guard_run(tier, rng, decls=sdecls, ops_for=ops_de, spec=False, wsname="serde12")
        gs.build()
        gs.run_impl()
        for c in gs.cases:
            if c.decl.id not in gs.live or c.impl is None:
                continue
            n_de += 1
            if c.impl == "panic":
                rep.violation("%s(%s) panicked" % (c.op, c.arg), case_payload(c, gs))
            elif c.impl.startswith("ok (f "):
                is64 = FLOAT_TYPES[c.decl.inner]
                bits = int(c.impl[6:-1])
                e = (bits >> (52 if is64 else 23)) & ((1 << (11 if is64 else 8)) - 1)
                if e == (1 << (11 if is64 else 8)) - 1:
                    rep.violation("%s(%s) produced a non-finite value of %s, which declares `finite` and derives Eq / Ord: %s"
                                  % (c.op, c.arg, c.decl.id, c.impl), case_payload(c, gs))
        if not n_de:
            rep.violation("self-check: no deserialization into a finite float type deriving Eq / Ord", {"kind": "coverage"}, no_input=True)
    rep.coverage["deserializations_into_finite_eq_ord_types"] = n_de
    n = npairs = ntriples = 0
    for d in g.decls:
        if d.id not in g.live:
            continue
        is64 = FLOAT_TYPES[d.inner]
        rel = {}
        for c in g.by_decl.get(d.id, []):
            if c.impl is None:
                continue
            n += 1
            if c.op in ("try_new", "try_from", "from_str", "default"):
                if c.impl.startswith("ok (f "):
                    bits = int(c.impl[6:-1])
                    e = (bits >> (52 if is64 else 23)) & ((1 << (11 if is64 else 8)) - 1)
                    if e == (1 << (11 if is64 else 8)) - 1:
                        rep.violation("%s(%s) produced a non-finite value of a type deriving Eq/Ord: %s" % (c.op, c.arg, c.impl),
                                      case_payload(c, g))
                if c.op != "from_str" and c.impl != c.model:
                    rep.violation("model and implementation differ on %s(%s): %s vs %s" % (c.op, c.arg, c.impl, c.model),
                                  case_payload(c, g), no_input=True)
                continue
            if c.op != "cmp2":
                continue
            if c.impl == "panic":
                rep.violation("comparison panicked on %s" % c.arg, case_payload(c, g))
                continue
            if c.impl == "rejected":
                if c.model != "rejected":
                    rep.violation("model and implementation differ on %s: impl rejected, model %s" % (c.arg, c.model), case_payload(c, g), no_input=True)
                continue
            kv = parse_kv(c.impl)
            mkv = parse_kv(c.model)
            npairs += 1
            if kv.get("cmp") != kv.get("pcmp") or kv.get("cmp") not in ("L", "E", "G"):
                rep.violation("cmp disagrees with partial_cmp on %s: %s" % (c.arg, c.impl), case_payload(c, g))
            if kv.get("pcmp") != kv.get("ipcmp") or kv.get("eq") != kv.get("ieq"):
                rep.violation("comparison differs from the inner floats on %s: %s" % (c.arg, c.impl), case_payload(c, g))
            if "ops" in kv and kv.get("cmp") in OPS_OF_CMP and (kv["ops"] != OPS_OF_CMP[kv["cmp"]] or (kv.get("ne") == "1") != (kv["cmp"] != "E")):
                rep.violation("the operators < <= > >= / != disagree with cmp on %s: %s" % (c.arg, c.impl), case_payload(c, g))
            if mkv is None or (kv.get("eq"), kv.get("pcmp"), kv.get("cmp")) != (mkv.get("eq"), mkv.get("pcmp"), mkv.get("cmp")):
                rep.violation("model and implementation differ on cmp2 %s: %s vs %s" % (c.arg, c.impl, c.model), case_payload(c, g), no_input=True)
            a, b_ = c.arg[3:-1].split(") (")
            rel[(a + ")", "(" + b_)] = kv
        keys = sorted({k[0] for k in rel})
        for a in keys:
            if (a, a) in rel and rel[(a, a)]["eq"] != "1":
                rep.violation("== is not reflexive on %s of %s" % (a, d.id), {"kind": "order-law", "decl": d.to_json(), "value": a})
        opp = {"L": "G", "G": "L", "E": "E"}
        for a in keys:
            for b_ in keys:
                if (a, b_) in rel and (b_, a) in rel and rel[(b_, a)]["cmp"] != opp.get(rel[(a, b_)]["cmp"]):
                    rep.violation("cmp is not antisymmetric on %s, %s of %s" % (a, b_, d.id), {"kind": "order-law", "decl": d.to_json(), "values": [a, b_]})
                for cc in keys:
                    if (a, b_) in rel and (b_, cc) in rel and (a, cc) in rel:
                        ntriples += 1
                        x, y, z = rel[(a, b_)]["cmp"], rel[(b_, cc)]["cmp"], rel[(a, cc)]["cmp"]
                        if x in ("L", "E") and y in ("L", "E"):
                            exp = "E" if (x == "E" and y == "E") else "L"
                            if z != exp:
                                rep.violation("cmp is not transitive on %s, %s, %s of %s" % (a, b_, cc, d.id),
                                              {"kind": "order-law", "decl": d.to_json(), "values": [a, b_, cc]})
    rep.coverage.update({"evaluations": n, "distinct_nontrivial": npairs,
                         "rule": "float declarations with `finite` deriving Eq and Ord; every entry point on NaN payloads / +-inf / +-0 / subnormals / extremes / bounds; all ordered pairs of the obtainable special-value grid through eq / partial_cmp / cmp under catch_unwind, compared with the inner floats and the model (Flocq Bcompare); reflexivity, antisymmetry and transitivity checked on all pairs / triples of the real results",
                         "pairs": npairs, "triples": ntriples, "declarations": len(g.decls), "exhaustive": False})
    for c in [c for c in g.cases if c.op == "cmp2"][:: max(1, npairs // 5 or 1)][:5]:
        rep.samples.append({"decl": c.decl.id, "arg": c.arg, "impl": c.impl, "model": c.model})
    if npairs == 0 and only is None:
        rep.violation("self-check: no pair compared", {"kind": "coverage"}, no_input=True)


def c13(tier, rng, rep, only=None):
    def ops_for(g, d, r):
        vals = guardcorpus.inputs_for(d, r, tier)
        if len(vals) > 40:
            vals = vals[:: max(1, len(vals) // 40)]
        ops = [("views", val_sexp(v)) for v in vals]
        if d.family() == "int" and "Display" in runner.DeclInfo(d).traits:
            # the decimal text itself, against the model's printer (Sem/Text.show_int)
            ops += [("show_i", val_sexp(v)) for v in vals]
        pv = pair_inputs(d, r, tier)[:10]
        for a in pv:
            for b_ in pv:
                ops.append(("cmp2", "(p %s %s)" % (val_sexp(a), val_sexp(b_))))
        g.add_ops(d, ops)
    g = make_guard_run(tier, rng, decls=only, ops_for=ops_for, spec=False)
    run_guard(g, rep, rng)
    profile_crosscheck(g, rep)
    n = nviews = npairs = nshow = 0
    fields = {}
    for c in g.cases:
        if c.decl.id not in g.live or c.impl is None or (c.impl in ("na", "rejected") and c.op != "show_i"):
            continue
        n += 1
        if c.impl == "panic":
            if c.decl.family() == "float" and c.op == "cmp2":
                continue        # NaN through Ord of a float type is C12's concern (requires finite)
            rep.violation("%s panicked on %s" % (c.op, c.arg), case_payload(c, g))
            continue
        if c.op == "show_i":
            nshow += 1
            if c.impl != c.model:
                rep.violation("Display text of %s for input %s: implementation %s, model (decimal numeral of the stored value) %s"
                              % (c.decl.id, c.arg, c.impl, c.model), case_payload(c, g), no_input=(c.model is None))
            continue
        kv = parse_kv(c.impl)
        if kv is None:
            continue
        if c.op == "views":
            nviews += 1
            for k, v in kv.items():
                fields[k] = fields.get(k, 0) + 1
                if v != "1":
                    rep.violation("%s does not expose the stored inner value for input %s of %s" % (k, c.arg, c.decl.id), case_payload(c, g))
        else:
            npairs += 1
            for a, b_ in (("eq", "ieq"), ("ne", "ine"), ("self", "iself"), ("pcmp", "ipcmp"), ("ops", "iops"), ("cmp", "icmp"), ("mm", "imm"), ("cf", "icf"), ("eqc", "ieqc")):
                if a in kv:
                    fields[a] = fields.get(a, 0) + 1
                    if kv[a] != kv[b_]:
                        rep.violation("%s differs from the inner values' %s on %s: %s" % (a, a, c.arg, c.impl), case_payload(c, g))
            for h in ("h", "hstr"):
                if h in kv:
                    fields[h] = fields.get(h, 0) + 1
                    if kv[h] != "1":
                        rep.violation("hash differs from the hash of the %s on %s" % ("borrowed str" if h == "hstr" else "inner value", c.arg), case_payload(c, g))
            mkv = parse_kv(c.model)
            if mkv is None or any(k in kv and kv[k] != mkv.get(k) for k in ("eq", "pcmp", "cmp")):
                rep.violation("model and implementation differ on cmp2 %s: %s vs %s" % (c.arg, c.impl, c.model), case_payload(c, g), no_input=True)
    rep.coverage.update({"evaluations": n, "distinct_nontrivial": nviews + npairs,
                         "rule": "guard corpus (all families, generic wrapper included); every view (AsRef, Deref, Borrow, Borrow<str>, Into, Display, Clone, Copy, by-value and by-reference iteration) on obtainable values compared with the stored inner value inside the same process; eq / partial_cmp / cmp / hash on pairs (equal, adjacent, extreme, differing only before sanitisation) compared with the inner values and with the model",
                         "checked_fields": fields, "display_texts_vs_model_printer": nshow, "exhaustive": False})
    if not nshow:
        rep.violation("self-check: no integer Display text compared with the model", {"kind": "coverage"}, no_input=True)
    for c in [c for c in g.cases if c.impl and "=" in c.impl][:: max(1, (nviews + npairs) // 6 or 1)][:6]:
        rep.samples.append({"decl": c.decl.id, "op": c.op, "arg": c.arg, "impl": c.impl})
    for k in ("as_ref", "deref", "borrow", "borrow_str", "display", "display_fmt", "clone", "copy", "into", "iter_ref", "iter_val", "eq", "pcmp", "cmp", "h", "hstr"):
        if not fields.get(k):
            rep.violation("self-check: %s never checked" % k, {"kind": "coverage"}, no_input=True)


# ------------------------------------------------------------------------------------- C16

PHRASES = {
    "greater than": lambda x, b: x > b, "greater or equal to": lambda x, b: x >= b,
    "less than": lambda x, b: x < b, "less or equal to": lambda x, b: x <= b,
    "at most": lambda x, b: x <= b, "at least": lambda x, b: x >= b,
}
MSG_RE = re.compile(r"^(\w+) is too (small|big|long|short)\. The value (?:length )?must be (.+?) (\S+?)(?: character\(s\))?\.$")


def c16(tier, rng, rep, only=None):
    from syntax import INT_TYPES, ity_min, ity_max, bits_to_frac, f_next_up, f_next_down
    from fractions import Fraction
    decls = only if only is not None else corpus.gen_msg_decls(rng.fork("msg"), tier)

    def neighbours(d):
        fam = d.family()
        if fam == "int":
            b = d.bounds[0]
            return [("i", v) for v in (b - 1, b, b + 1) if ity_min(d.inner) <= v <= ity_max(d.inner)]
        if fam == "float":
            is64 = FLOAT_TYPES[d.inner]
            b = d.bounds[0]
            return [("f", v) for v in (f_next_down(b, is64), b, f_next_up(b, is64), b ^ (1 << (63 if is64 else 31)))]
        if fam == "str":
            b = d.bounds[0]
            # ASCII and multi-byte strings of the same character counts
            return [("s", ch * n_) for n_ in (b - 1, b, b + 1) if n_ >= 0 for ch in ("a", "\u0436", "\U0001F600") if n_ > 0 or ch == "a"]
        return []

    def ops_for(g, d, r):
        ops = [("msgs", "")]
        for v in neighbours(d) if hasattr(d, "bounds") else []:
            ops.append(("try_new", val_sexp(v)))
            ops.append(("de_msg", val_sexp(v)))
        if hasattr(d, "bounds") and d.family() in ("int", "float"):
            # a string the inner type parses to a rejected value: the FromStr error embeds the sentence
            ops.append(("from_str_msg", val_sexp(("s", "7" if d.family() == "int" else "7.5"))))
        g.add_ops(d, ops)
    g = make_guard_run(tier, rng, decls=decls, ops_for=ops_for, spec=False, wsname="msg")
    run_guard(g, rep, rng)
    n = n_truth = n_embed = 0
    phrases_seen = {}
    for d in g.decls:
        if d.id not in g.live:
            rep.notes.append("declaration %s did not compile" % d.id)
            continue
        cs = g.by_decl[d.id]
        m = cs[0]
        n += 1
        if m.impl is None:
            continue
        impl_msgs = dict(x.split("=", 1) for x in m.impl.split(" | "))
        model_msgs = dict(x.split("=", 1) for x in (m.model or "").split(" | ") if "=" in x)
        for variant, text in impl_msgs.items():
            skeleton = model_msgs.get(variant)
            mm = MSG_RE.match(text)
            if not text.startswith(d.name + " "):
                rep.violation("message of %s::%s does not name the newtype: %r" % (d.name, variant, text), case_payload(m, g))
            if not hasattr(d, "bounds"):
                if skeleton != text:
                    rep.violation("model and implementation differ on the message of %s: %r vs %r" % (variant, text, skeleton),
                                  case_payload(m, g), no_input=True)
                continue
            if getattr(d, "companion", False) and variant != runner.VARIANTS[d.vkind]:
                # the lax companion rule: only its text is compared with the model
                if skeleton is None or (mm and skeleton.replace("{}", mm.group(4)) != text) or (not mm and skeleton != text):
                    rep.violation("model and implementation differ on the message of %s: %r vs %r" % (variant, text, skeleton),
                                  case_payload(m, g), no_input=True)
                continue
            if not mm:
                rep.violation("unrecognised bound-violation sentence %r" % text, case_payload(m, g), no_input=True)
                continue
            name, _, phrase, btxt = mm.groups()
            phrases_seen[(d.family(), d.vkind, phrase)] = phrases_seen.get((d.family(), d.vkind, phrase), 0) + 1
            if phrase not in PHRASES:
                rep.violation("unknown relation phrase %r in %r" % (phrase, text), case_payload(m, g), no_input=True)
                continue
            # the echoed bound must denote the declared bound
            fam = d.family()
            if fam == "float":
                is64 = FLOAT_TYPES[d.inner]
                bval = bits_to_frac(d.bounds[0], is64)
                try:
                    echoed = Fraction(btxt)
                except ValueError:
                    echoed = None
                if echoed is None or abs(echoed - bval) > abs(bval) * Fraction(1, 10 ** 6) + Fraction(1, 10 ** 40):
                    rep.violation("message echoes %s for the bound %s" % (btxt, float(bval)), case_payload(m, g))
            else:
                bval = d.bounds[0]
                if btxt != str(bval):
                    rep.violation("message echoes %s for the bound %s" % (btxt, bval), case_payload(m, g))
            if skeleton is None or skeleton.replace("{}", btxt) != text:
                rep.violation("model and implementation differ on the message of %s: %r vs %r" % (variant, text, skeleton),
                              case_payload(m, g), no_input=True)
            # truthfulness: stated relation vs the real constructor at the bound's neighbours
            for c in cs[1:]:
                if c.op != "try_new" or c.impl is None:
                    continue
                n_truth += 1
                if fam == "int":
                    x = int(c.arg[3:-1])
                elif fam == "float":
                    x = bits_to_frac(int(c.arg[3:-1]), FLOAT_TYPES[d.inner])
                else:
                    x = len(c.arg[2:-1].split())
                says = PHRASES[phrase](x, bval)
                accepted = c.impl.startswith("ok")
                if says != accepted:
                    what = "value %s is %s by `%s = %s` but the message states it must be %s %s" % (
                        c.arg, "accepted" if accepted else "rejected", d.vkind, btxt, phrase, btxt)
                    if fam == "float" and d.vkind in ("less", "less_or_equal"):
                        rep.known_hit("float_less_messages_swapped", "the sentences of float `less` and `less_or_equal` are exchanged")
                    else:
                        rep.violation(what, case_payload(c, g, {"message": text}))
            for c in cs[1:]:
                if c.op == "from_str_msg" and c.impl not in (None, "ok", "na"):
                    if c.impl != "Failed to parse %s: %s" % (d.name, text):
                        rep.violation("FromStr error text %r does not embed the validation sentence %r" % (c.impl, text), case_payload(c, g))
                if c.op == "de_msg" and c.impl not in (None, "accepted", "na"):
                    n_embed += 1
                    if c.impl != "mp=1 json=1 ron=1":
                        rep.violation("the serde error of a rejected %s does not embed the validation sentence in every format: %s" % (c.arg, c.impl), case_payload(c, g))
    rep.coverage.update({"evaluations": n + n_truth, "distinct_nontrivial": n_truth,
                         "rule": "single-validator declarations for every bound kind x family x bound sign / magnitude (literal and constant bounds, several type names); the Display text of every variant is parsed into (type name, relation phrase, echoed bound); the phrase, read literally, is evaluated at the bound and its neighbours (next float up / down, +-1, string lengths) and compared with the real constructor's verdict; texts compared with the model's templates; FromStr error embedding checked",
                         "phrases": {"%s/%s/%s" % k: v for k, v in sorted(phrases_seen.items())}, "serde_errors_embedding_the_sentence": n_embed, "exhaustive": False})
    for d in g.decls[:: max(1, len(g.decls) // 6)][:6]:
        if d.id in g.live:
            rep.samples.append({"decl": d.id, "kind": getattr(d, "vkind", None), "messages": g.by_decl[d.id][0].impl})
    if n_truth == 0 and only is None:
        rep.violation("self-check: no sentence evaluated", {"kind": "coverage"}, no_input=True)


# ------------------------------------------------------------------------------------- C11

def value_json(v, d):
    """JSON text of a value written as an S-expression ((i n) / (f bits) / (s cp ..) / (l n ..))"""
    import json as js
    body = v[1:-1].split()
    tag, rest = body[0], body[1:]
    if tag == "i":
        return rest[0]
    if tag == "f":
        return None     # serde_json's default float parser is not exactly round-tripping: C10 compares with the inner value instead
    if tag == "s":
        try:
            return js.dumps("".join(chr(int(x)) for x in rest), ensure_ascii=False)
        except ValueError:
            return None
    if tag == "l":
        return "[" + ",".join(rest) + "]"
    return None


def c11_eligible(d):
    """built-in sanitizers / validators only, or custom ones that are idempotent"""
    info = runner.DeclInfo(d)
    fam = d.family()
    san = runner.find_block(d.toks, "sanitize") or []
    for t in san:
        if t[0] == "fn":
            fid = t[1]
            if fam in ("int", "float") and fid == 0:
                continue                    # clamp is idempotent
            if fam == "float" and fid == 2:
                continue                    # abs is idempotent
            if fam == "str" and fid in (1, 2):
                continue                    # ascii upper / first three chars are idempotent
            if fam == "any" and fid == 1:
                continue                    # truncate(3)
            return False
    if fam == "str":
        names = runner.block_idents(san)
        if "with" in names and any(n in names for n in ("trim", "lowercase", "uppercase")):
            # mixed built-in + custom chains: only those whose composition IN THE DECLARED ORDER is
            # idempotent: ascii-upper commutes with trim; (first three chars, then trim) yields a
            # trimmed string of at most three chars, which both steps leave alone
            seq = [("W%d" % t[1]) if t[0] == "fn" else t[1] for t in san if t[0] == "fn" or (t[0] == "id" and t[1] in ("trim", "lowercase", "uppercase"))]
            return seq in (["trim", "W1"], ["W1", "trim"], ["W2", "trim"])
    return True


def c11(tier, rng, rep, only=None):
    decls = only if only is not None else [d for d in guardcorpus.build_corpus(rng, tier) if c11_eligible(d)]
    extra_inputs = ["\u0391\u03a3", "\u03a3", "a\u03a3", "\u03a3a", "\u0391\u03a3\u0307", " \u0130 ", "\u00df", "\ufb01", "\u01c5",
                    "\u2003a\u2003", "\u0085x\u0085", "A\u0345\u03a3", "\u1f88", "\u0149", "\u1e9e\u1e9e"]
    extra_inputs = [e.encode().decode("unicode_escape") for e in extra_inputs]

    def ops_for(g, d, r):
        ins = guardcorpus.inputs_for(d, r, tier)
        if d.family() == "str":
            ins = ins + [("s", e) for e in extra_inputs]
        if d.family() == "int" and len(ins) > 80:
            ins = ins[:: max(1, len(ins) // 80)]
        info = runner.DeclInfo(d)
        ops = []
        for k_, v in enumerate(ins):
            a = val_sexp(v)
            ops.append((guardcorpus.ctor_op(d), a))
            # values are obtainable through every derived entry point, not only the constructor
            if k_ % 3 == 0:
                if "TryFrom" in info.traits:
                    ops.append(("try_from", a))
                if "From" in info.traits:
                    ops.append(("from", a))
                if "FromStr" in info.traits and d.inner == "String":
                    ops.append(("from_str_s", a))
                if "FromStr" in info.traits and d.family() == "int":
                    ops.append(("from_str", val_sexp(("s", str(v[1])))))
                if "FromStr" in info.traits and d.family() == "float" and not is_nan_bits(v[1], FLOAT_TYPES[d.inner]):
                    ops.append(("from_str", val_sexp(("s", float_text(v[1], FLOAT_TYPES[d.inner])))))
                if d.inner == "String" and "TryFrom" in info.traits:
                    ops.append(("try_from_ref", a))
                if d.inner == "String" and "From" in info.traits:
                    ops.append(("from_ref", a))
        if "Default" in info.traits and getattr(d, "default_arg", None) is not None:
            ops.append(("default", ""))
        g.add_ops(d, ops)
    g = make_guard_run(tier, rng, decls=decls, ops_for=ops_for, spec=False)
    run_guard(g, rep, rng)
    profile_crosscheck(g, rep)
    # second round: every obtained value through every derived entry point
    g2 = flows.GuardRun(g.ws.name, g.decls)
    g2.ws = g.ws
    g2.live = g.live
    n1 = n2 = 0
    firsts = {}
    for d in g.decls:
        if d.id not in g.live:
            continue
        info = runner.DeclInfo(d)
        vals = []
        seen = set()
        for c in g.by_decl.get(d.id, []):
            n1 += 1
            if c.impl != c.model and c.op in ("try_new", "new"):
                rep.notes.append("constructor differs from the model on %s %s (C01's concern)" % (d.id, c.arg))
            if c.impl and c.impl.startswith("ok ") and c.impl not in seen:
                seen.add(c.impl)
                vals.append(c.impl[3:])
        ops = []
        for v in vals:
            ops.append((guardcorpus.ctor_op(d), v))
            if "TryFrom" in info.traits:
                ops.append(("try_from", v))
            if "From" in info.traits:
                ops.append(("from", v))
            if "FromStr" in info.traits and d.inner == "String":
                ops.append(("from_str_s", v))
            if "FromStr" in info.traits and d.family() == "int":
                a_ = val_sexp(("s", v[3:-1]))
                ops.append(("from_str", a_))
                firsts[(d.id, a_)] = "ok " + v
            if "FromStr" in info.traits and d.family() == "float" and not is_nan_bits(int(v[3:-1]), FLOAT_TYPES[d.inner]):
                a_ = val_sexp(("s", float_shortest_text(int(v[3:-1]), FLOAT_TYPES[d.inner])))
                ops.append(("from_str", a_))
                firsts[(d.id, a_)] = "ok " + v
        g2.add_ops(d, ops)
    g2.run_impl()
    g2.run_model()
    kinds = {}
    for c in g2.cases:
        if c.impl is None:
            continue
        n2 += 1
        kinds[c.op] = kinds.get(c.op, 0) + 1
        want = "ok " + c.arg
        if c.op == "from_str":
            # the argument is the decimal text of the value: find the value among the first-round results
            want = firsts.get((c.decl.id, c.arg))
            if want is None:
                continue
        if c.impl != want:
            rep.violation("value %s obtained from %s is not reproduced by %s: %s" % (want[3:], c.decl.id, c.op, c.impl), case_payload(c, g2))
        elif c.model != c.impl:
            rep.violation("model and implementation differ on re-entry %s(%s): %s vs %s" % (c.op, c.arg, c.impl, c.model), case_payload(c, g2), no_input=True)
    # values obtained through Deserialize (serde corpus): they too must re-enter unchanged
    n3 = 0
    if only is None:
        sdecls = [d for d in corpus.gen_serde_decls(rng.fork("serde"), tier) if c11_eligible(d)]

        def ops_de(g_, d, r):
            docs = json_docs(d, r, tier)
            ins_ = guardcorpus.inputs_for(d, r, tier)
            if len(ins_) > 60:
                ins_ = ins_[:: max(1, len(ins_) // 60)]
            # values obtained through Deserialize, and through the constructor of the same (serde-deriving) type
            g_.add_ops(d, [("de_json", val_sexp(("s", x))) for x in docs] + [(guardcorpus.ctor_op(d), val_sexp(v)) for v in ins_])
        g3 = make_guard_run(tier, rng, decls=sdecls, ops_for=ops_de, spec=False, wsname="serde")
        run_guard(g3, rep, rng)
        g4 = flows.GuardRun(g3.ws.name, g3.decls)
        g4.ws = g3.ws
        g4.live = g3.live
        want_de = {}
        for d in g3.decls:
            if d.id not in g3.live:
                continue
            info = runner.DeclInfo(d)
            seen = set()
            ops = []
            for c in g3.by_decl.get(d.id, []):
                if c.impl and c.impl.startswith("ok ") and c.impl not in seen:
                    seen.add(c.impl)
                    ops.append((guardcorpus.ctor_op(d), c.impl[3:]))
                    # .. and back in through Deserialize of the value's own JSON text
                    doc = value_json(c.impl[3:], d)
                    if doc is not None:
                        a_ = val_sexp(("s", doc))
                        ops.append(("de_json", a_))
                        want_de[(d.id, a_)] = c.impl
            g4.add_ops(d, ops)
        g4.run_impl()
        g4.run_model()
        for c in g4.cases:
            if c.impl is None:
                continue
            n3 += 1
            kinds["deserialized->" + c.op] = kinds.get("deserialized->" + c.op, 0) + 1
            if c.op == "de_json":
                if c.impl != want_de.get((c.decl.id, c.arg)):
                    rep.violation("value %s obtained from %s by Deserialize does not come back through Deserialize of its own JSON text %s: %s"
                                  % (want_de.get((c.decl.id, c.arg), "?")[3:], c.decl.id, c.arg, c.impl), case_payload(c, g4))
                continue
            if c.impl != "ok " + c.arg:
                rep.violation("value %s obtained from %s by Deserialize is not reproduced by %s: %s" % (c.arg, c.decl.id, c.op, c.impl), case_payload(c, g4))
    # values obtained through Arbitrary (Arbitrary corpus): they too must re-enter unchanged
    n4 = 0
    if only is None:
        adecls = (corpus.gen_arb_ints(rng.fork("arbint"), tier) + corpus.gen_arb_floats(rng.fork("arbfloat"), tier) + corpus.gen_arb_strs(rng.fork("arbstr"), tier)
                  + corpus.gen_arb_anys(rng.fork("arbany"), tier))
        g5 = flows.GuardRun("arb" if tier == "quick" else "arb_t", adecls)
        for d in adecls:
            # (integer declarations with the idempotent clamp sanitizer and bounds belong to a recorded
            # C09 class: the generator may panic there, but a value it does return must be canonical)
            cls_ = c09_class(d)
            if c11_eligible(d) and (cls_ is None or cls_[0] == "int_custom_sanitizer_with_bounds"):
                ins = corpus.arb_byte_inputs(d, rng.fork(d.id), tier)
                g5.add_ops(d, [("arb", "(b%s)" % "".join(" %d" % b_ for b_ in bs)) for bs in ins[:: (1 if d.family() == "str" else 3)]])
        g5.build()
        g5.run_impl()
        profile_crosscheck(g5, rep)
        g6 = flows.GuardRun(g5.ws.name, g5.decls)
        g6.ws = g5.ws
        g6.live = g5.live
        for d in g5.decls:
            if d.id not in g5.live:
                continue
            seen = set()
            ops = []
            for c in g5.by_decl.get(d.id, []):
                if c.impl and c.impl.startswith("ok ") and c.impl not in seen:
                    seen.add(c.impl)
                    ops.append((guardcorpus.ctor_op(d), c.impl[3:]))
            g6.add_ops(d, ops)
        g6.run_impl()
        for c in g6.cases:
            if c.impl is None:
                continue
            n4 += 1
            kinds["arbitrary->" + c.op] = kinds.get("arbitrary->" + c.op, 0) + 1
            impl = c.impl
            if c.decl.family() == "float" and is_nan_bits(int(c.arg[3:-1]), FLOAT_TYPES[c.decl.inner]):
                continue
            if impl != "ok " + c.arg:
                rep.violation("value %s obtained from %s by Arbitrary is not reproduced by %s: %s" % (c.arg, c.decl.id, c.op, impl), case_payload(c, g6))
    n3 += n4
    # third/fourth rounds are identical calls on identical values (the constructors are pure): the chain of length 4
    # is covered by determinism, which the second round re-checks on every distinct value
    rep.coverage.update({"evaluations": n1 + n2 + n3, "distinct_nontrivial": n2 + n3,
                         "rule": "declarations with built-in sanitizers (every order of trim / lowercase|uppercase), idempotent custom ones, or mixed chains whose composition in the declared order is idempotent; every validator set, all families; inputs of the C01 domains on the Unicode alphabet (final sigma, dotted capital I, sharp s, ligatures, combining marks, every White_Space kind) plus targeted strings; values are obtained through the constructor, TryFrom / From / FromStr and (serde corpus) Deserialize; every distinct obtained value is fed back through try_new / TryFrom / From / FromStr and must be reproduced exactly",
                         "first_round_inputs": n1, "reentries_by_kind": kinds, "exhaustive": False})
    for c in g2.cases[:: max(1, len(g2.cases) // 6 or 1)][:6]:
        rep.samples.append({"decl": c.decl.id, "op": c.op, "value": c.arg, "impl": c.impl})
    if n2 == 0 and only is None:
        rep.violation("self-check: no value re-entered", {"kind": "coverage"}, no_input=True)


# ------------------------------------------------------------------------------------- C04 / C10

def float_text(bits, is64):
    import struct
    if is64:
        return repr(struct.unpack("<d", struct.pack("<Q", bits))[0])
    x = struct.unpack("<f", struct.pack("<I", bits))[0]
    return repr(x)


def float_shortest_text(bits, is64):
    """the shortest decimal text that parses back to this value AT ITS OWN WIDTH (what Rust's
    Display prints, up to notation): for f32 this is shorter than the text of the widened f64"""
    import struct
    if is64:
        return float_text(bits, True)
    x = struct.unpack("<f", struct.pack("<I", bits))[0]
    if x != x or x in (float("inf"), float("-inf")):
        return repr(x)
    from fractions import Fraction
    from syntax import frac_to_bits
    for p in range(1, 10):
        t = "%.*g" % (p, x)
        # exact single rounding of the decimal text (Python's float() would round twice)
        if frac_to_bits(abs(Fraction(t)), False) == (bits & 0x7fffffff):
            return t
    return repr(x)


def json_docs(d, rng, tier):
    import json as js
    fam = d.family()
    vals = guardcorpus.inputs_for(d, rng, tier)
    docs = []
    junk = ["null", "true", "[1]", "{}", "", " ", "\"5\"", "1.5", "1e3", "-0", "7", " 7 ", "100", "101",
            "99999999999999999999999999999999999999999999", "-99999999999999999999999999999999999999999999", "\"ab\"", "[]", "[1,2,3]",
            "1e400", "-1e400", "NaN", "7.0", "-0.0", "1E-400", "\"\\ud800\"", "\"unterminated", "[1,\"a\"]", "[2147483648]"]
    if fam == "int":
        if len(vals) > 40:
            vals = vals[:: max(1, len(vals) // 40)]
        docs += [str(v[1]) for v in vals]
    elif fam == "float":
        is64 = FLOAT_TYPES[d.inner]
        # numbers a hair beside an f32 midpoint (decimal for RON, integer for JSON / MessagePack readers
        # that go through u64): reading through f64 and narrowing rounds twice
        docs += ["1.0000000596046448", "16777217.000000001", "3.0000001192092896", "1152921573326323713", "9007199791611905", "16777217"]
        for v in vals:
            if not is_nan_bits(v[1], is64):
                t = float_text(v[1], is64)
                if "inf" not in t:
                    docs.append(t)
    elif fam == "str":
        if len(vals) > 60:
            vals = vals[:: max(1, len(vals) // 60)]
        for i, v in enumerate(vals):
            docs.append(js.dumps(v[1], ensure_ascii=(i % 2 == 0)))
        for long_ in ("\u0436" * 40, "a" * 23 + "\U0001F600" * 6, "ab " + "\u00df" * 30, " " * 26 + "\u20ac" * 9, "A" * 64,
                      "x" * 22 + "\u00e9\u00e9\u00e9" + "y" * 10, "\U0001F600" * 7):
            docs.append(js.dumps(long_, ensure_ascii=False))
    else:
        docs += [js.dumps(v[1]) for v in vals]
    return docs + junk


def c04(tier, rng, rep, only=None):
    decls = only if only is not None else corpus.gen_serde_decls(rng.fork("serde"), tier)

    def ops_for(g, d, r):
        docs = json_docs(d, r, tier)
        ops = [("de_json", val_sexp(("s", x))) for x in docs]
        ron_docs = [x for x in docs if x not in ("", " ")][:40]
        ops += [("de_ron", val_sexp(("s", x))) for x in ron_docs]
        # MessagePack: nil, true, fixints, u8 200, i8 -5, f32, f64, fixstr, arrays, truncated input
        for bs in ([0xc0], [0xc3], [0x05], [0x7f], [0xcc, 200], [0xd0, 0xfb], [0xcd, 0x01, 0x00], [0xca, 0x3f, 0xc0, 0, 0],
                   [0xcb, 0x40, 0x1c, 0, 0, 0, 0, 0, 0], [0xcb, 0x7f, 0xf8, 0, 0, 0, 0, 0, 0], [0xa2, 0x61, 0x42], [0xa0], [0xa1, 0x20],
                   [0x92, 1, 2], [0x90], [0x93, 3, 0xff, 2], [0xcf, 0xff, 0xff, 0xff, 0xff, 0xff, 0xff, 0xff, 0xff], [0xd3, 0x80, 0, 0, 0, 0, 0, 0, 0],
                   [0xcd], [], [0xa3, 0x61], [0x07], [0x64], [0x65], [0xca, 0x7f, 0x80, 0, 0],
                   # u64 2^60 + 2^36 + 1 and 2^24 + 1: an f32 reads them with ONE rounding
                   [0xcf, 0x10, 0, 0, 0x10, 0, 0, 0, 1], [0xce, 1, 0, 0, 1],
                   # bin8 / bin16 / bin32: serde's String also accepts UTF-8 bytes
                   [0xc4, 2, 0x61, 0x42], [0xc4, 0], [0xc4, 1, 0x20], [0xc4, 3, 0x20, 0x61, 0x20], [0xc4, 2, 0xc3, 0x9f], [0xc4, 2, 0xff, 0xfe],
                   [0xc5, 0, 2, 0x61, 0x62], [0xc6, 0, 0, 0, 1, 0x78], [0xc4, 5, 0x61, 0x62, 0x63, 0x64, 0x65]):
            ops.append(("de_mp", "(b%s)" % "".join(" %d" % b for b in bs)))
        # serde's value deserializers on a few inner values
        if d.family() in ("int", "float", "str"):
            vs_ = guardcorpus.inputs_for(d, r, tier)
            for v in vs_[:: max(1, len(vs_) // 10)][:10]:
                ops.append(("de_self", val_sexp(v)))
                ops.append(("de_seq1", val_sexp(v)))
        # nested positions
        some = [x for x in docs if x.strip()][:: max(1, len(docs) // 12)][:12]
        for i in range(0, len(some) - 1, 2):
            ops.append(("de_json_vec", val_sexp(("s", "[%s,%s]" % (some[i], some[i + 1])))))
            ops.append(("de_json_map", val_sexp(("s", "{\"k\":%s,\"a\":%s}" % (some[i], some[i + 1])))))
        for x in some:
            ops.append(("de_json_opt", val_sexp(("s", x))))
            ops.append(("de_json_struct", val_sexp(("s", "{\"a\":%s}" % x))))
        # map KEY position: JSON keys are strings, numeric key types are read out of the key text
        for x in some:
            key = x if x.startswith("\"") else "\"%s\"" % x
            ops.append(("de_json_key", val_sexp(("s", "{%s:0}" % key))))
        ops.append(("de_json_key", val_sexp(("s", "{}"))))
        if d.family() == "int":
            ops.append(("de_json_key", val_sexp(("s", "{\"1\":0,\"7\":[1,2],\"100\":null}"))))
        # deserialize_in_place on a value obtained from the first documents, fed each of a few others
        firsts = [x for x in docs if x.strip()][:3]
        others = some[:6] + ["null", "[1]", "\"\"", "\"unterminated", "1e400"]
        for x in firsts:
            for y in others:
                ops.append(("de_inplace", "(p %s %s)" % (val_sexp(("s", x)), val_sexp(("s", y)))))
        ops.append(("de_json_opt", val_sexp(("s", "null"))))
        ops.append(("de_json_vec", val_sexp(("s", "[]"))))
        g.add_ops(d, ops)
    g = make_guard_run(tier, rng, decls=decls, ops_for=ops_for, spec=False, wsname="serde")
    run_guard(g, rep, rng)
    n = 0
    cls = {}
    for c in g.cases:
        if c.decl.id not in g.live or c.impl is None:
            continue
        n += 1
        got, exp = c.impl, (c.extra[0] if c.extra else None)
        if got == "panic":
            rep.violation("%s(%s) panicked" % (c.op, c.arg), case_payload(c, g))
            continue
        if c.op == "de_inplace":
            cls[("de_inplace", got)] = cls.get(("de_inplace", got), 0) + 1
            if got not in ("na", "same=1", "kept=1"):
                rep.violation("deserialize_in_place(%s): %s (on success the place must hold what a fresh deserialization gives, on failure the value it held before)"
                              % (c.arg, got), case_payload(c, g))
            continue
        nested = c.op.startswith("de_json_")
        if nested:
            kind = "ok" if got.startswith("Some") else "fail"
            cls[(c.op, kind)] = cls.get((c.op, kind), 0) + 1
            if got != exp:
                rep.violation("%s(%s) gave %s but element-wise inner deserialization + constructor gives %s" % (c.op, c.arg, got, exp),
                              case_payload(c, g, {"expected": exp}))
            continue
        fmt = c.op[3:]
        g_ok = got.startswith("ok ")
        if fmt in ("self", "seq1"):
            # serde's value deserializers do not know newtype structs: refusing is fine, but a value
            # that comes out must be the constructor's value for what the inner type reads there
            cls[(c.decl.family() + "/" + fmt, "ok" if g_ok else "refused")] = cls.get((c.decl.family() + "/" + fmt, "ok" if g_ok else "refused"), 0) + 1
            if g_ok and got != exp:
                rep.violation("%s(%s) produced %s without the guards: the inner value deserializes to %s and the constructor gives %s"
                              % (c.op, c.arg, got, c.oracle, exp), case_payload(c, g, {"inner": c.oracle, "constructor": exp}))
            continue
        kind = "ok" if g_ok else ("inner_fail" if exp == "de_err" else "ctor_reject")
        cls[(c.decl.family() + "/" + fmt, kind)] = cls.get((c.decl.family() + "/" + fmt, kind), 0) + 1
        if g_ok:
            if got != exp:
                rep.violation("%s(%s) produced %s; the inner value deserializes to %s and the constructor gives %s"
                              % (c.op, c.arg, got, c.oracle, exp), case_payload(c, g, {"inner": c.oracle, "constructor": exp}))
        else:
            if exp is not None and exp.startswith("ok "):
                rep.violation("%s(%s) failed (%s) although the inner value %s deserializes and the constructor accepts it"
                              % (c.op, c.arg, got[:120], c.oracle), case_payload(c, g, {"inner": c.oracle, "constructor": exp}))
            elif exp is not None and exp.startswith("err") and ("Expected valid %s" % c.decl.name) not in got:
                rep.violation("serde error of a rejected value does not embed the validation message: %r" % got[:200], case_payload(c, g))
        m_exp = c.model
        m_got = "ok" if g_ok else ("parse_err" if exp == "de_err" else "err")
        m_kind = None if m_exp is None else ("ok" if m_exp.startswith("ok") else ("parse_err" if m_exp == "parse_err" else "err"))
        if m_kind is not None and (m_kind != m_got or (g_ok and m_exp != got)):
            rep.violation("model and implementation differ on %s(%s): impl %s, model %s" % (c.op, c.arg, got[:100], m_exp), case_payload(c, g), no_input=True)
    rep.coverage.update({"evaluations": n, "distinct_nontrivial": sum(v for (a, k), v in cls.items() if k != "ok"),
                         "rule": "declarations deriving Serialize+Deserialize over all families (generic wrapper included); documents in JSON, RON (Name(..) around the inner document) and MessagePack: encodings of the C01 inputs, boundary / out-of-range numbers, wrong types, escapes, non-ASCII, lone surrogates, truncated input, and the same embedded in Vec / Option / struct field / map value; the real result is compared with the real inner type deserialized from the same document followed by the real constructor (same process) and with the model fed that inner result; formats are third-party code (partial)",
                         "outcome_classes": {"%s/%s" % k: v for k, v in sorted(cls.items())}, "exhaustive": False})
    for c in g.cases[:: max(1, len(g.cases) // 6 or 1)][:6]:
        rep.samples.append({"decl": c.decl.id, "op": c.op, "arg": c.arg, "impl": c.impl[:80] if c.impl else None, "expected": c.extra[:1]})
    for k in ("ok", "inner_fail", "ctor_reject"):
        if not any(v for (a, kk), v in cls.items() if kk == k) and only is None:
            rep.violation("self-check: no %s outcome" % k, {"kind": "coverage"}, no_input=True)


def c10(tier, rng, rep, only=None):
    decls = only if only is not None else [d for d in corpus.gen_serde_decls(rng.fork("serde"), tier) if c11_eligible(d)]

    def ops_for(g, d, r):
        vals = guardcorpus.inputs_for(d, r, tier)
        if len(vals) > 60:
            vals = vals[:: max(1, len(vals) // 60)]
        info = runner.DeclInfo(d)
        ops = [("ser", val_sexp(v)) for v in vals]
        if d.family() in ("int", "str"):
            ops += [("ser_text", val_sexp(v)) for v in vals]
        if d.family() == "str" or (d.family() == "int" and d.inner not in ("u128", "i128")):
            ops += [("ser_mp_bytes", val_sexp(v)) for v in vals]
        if "TryFrom" in info.traits or "From" in info.traits:
            # the value to serialize may also have been obtained through the derived conversion
            ops += [("ser_conv", val_sexp(v)) for v in vals[::2]]
        if "FromStr" in info.traits and d.family() in ("int", "float"):
            # ... or by parsing its decimal text
            ops += [("ser_parse", val_sexp(v)) for v in vals[::2] if not (d.family() == "float" and is_nan_bits(v[1], FLOAT_TYPES[d.inner]))]
        if "Default" in info.traits and info.has_default and vals:
            # ... or from Default
            ops.append(("ser_default", val_sexp(vals[0])))
        g.add_ops(d, ops)
    g = make_guard_run(tier, rng, decls=decls, ops_for=ops_for, spec=False, wsname="serde")
    run_guard(g, rep, rng)
    n = 0
    fields = {}
    for c in g.cases:
        if c.decl.id not in g.live or c.impl in (None, "rejected", "na"):
            continue
        if c.impl == "panic":
            rep.violation("serialization panicked on %s" % c.arg, case_payload(c, g))
            continue
        n += 1
        if c.op == "ser_mp_bytes":
            fields["msgpack_bytes_vs_model_writer"] = fields.get("msgpack_bytes_vs_model_writer", 0) + 1
            if c.impl != c.model:
                rep.violation("MessagePack bytes of the value obtained from %s: implementation %s, model writer (rmp-serde's encoding of the inner value) %s"
                              % (c.arg, c.impl, c.model), case_payload(c, g), no_input=(c.model is None))
            continue
        if c.op == "ser_text":
            fields["json_text_vs_model_writer"] = fields.get("json_text_vs_model_writer", 0) + 1
            if c.impl != c.model:
                rep.violation("JSON text of the value obtained from %s: implementation %s, model writer (serde_json's encoding of the inner value) %s"
                              % (c.arg, c.impl, c.model), case_payload(c, g), no_input=(c.model is None))
            continue
        kv = parse_kv(c.impl) or {}
        for k, v in kv.items():
            fields[k] = fields.get(k, 0) + 1
            if v != "1":
                what = ("%s serialization of %s differs from the inner value's own encoding" % (k, c.arg) if not k.startswith("rt_")
                        else "%s: deserializing the serialization of the value obtained from %s does not give the value back" % (k, c.arg))
                rep.violation(what, case_payload(c, g))
    rep.coverage.update({"evaluations": n, "distinct_nontrivial": n,
                         "rule": "declarations deriving Serialize+Deserialize with built-in or idempotent sanitizers; every obtainable value of the C01 domains: JSON and MessagePack output byte-compared with the inner value's own encoding, RON compared with Name(<inner>); round trip through each format whenever the inner value itself round-trips",
                         "checked_fields": fields, "exhaustive": False})
    for c in g.cases[:: max(1, len(g.cases) // 6 or 1)][:6]:
        rep.samples.append({"decl": c.decl.id, "arg": c.arg, "impl": c.impl})
    for k in ("json", "mp", "ron", "rt_json", "rt_mp", "rt_ron", "rt_ron_named"):
        if not fields.get(k) and only is None:
            rep.violation("self-check: %s never checked" % k, {"kind": "coverage"}, no_input=True)


# ------------------------------------------------------------------------------------- C08

KNOWN_REJECT = {
    "rustc:known:custom_with_closure": ("custom_with_closure_rejected", "a closure given as custom `with` validator is spliced as `#with(value)` without parentheses and never compiles"),
    "rustc:known:new_unchecked_generics": ("generic_new_unchecked_rejected", "new_unchecked on a generic newtype: the impl block omits the generic parameters"),
    "rustc:known:into_generic_bounds": ("generic_into_with_bounds_rejected", "derive(Into) on a generic newtype with trait bounds: the bounds are repeated in type position"),
    "rustc:known:type_param_clash_deserialize": ("type_param_clashes_with_serde_impl", "a type parameter named D / DE / S collides with the generic parameters of the generated serde impls"),
    "rustc:known:type_param_clash_serialize": ("type_param_clashes_with_serde_impl", "a type parameter named D / DE / S collides with the generic parameters of the generated serde impls"),
    "rustc:known:untyped_literal_in_display": ("untyped_literal_bound_expression_rejected", "a bound expression made of unsuffixed literals beyond i32 is also spliced into the Display arm where it is typed i32"),
    "parse:tokens_after_literal": ("leading_literal_expression_rejected", "a bound expression that starts with a literal (`1 << 4`) is parsed as that literal and the rest is refused"),
}


def verdict_run(wsname, decls, features, rep, rng):
    for d in decls:
        d.no_run = True
    g = flows.GuardRun(wsname, decls, features=features)
    dropped = g.build()
    g.run_model()
    return g, dropped


# what the macro itself says when it refuses a declaration for the model's reason (substring of its message)
REASON_TEXT = {
    "gen:arbitrary_any_validation": "Cannot derive trait `Arbitrary` for a custom type",
    "gen:arbitrary_custom": ("derive `Arbitrary` trait for a type with custom", "Cannot derive trait `Arbitrary` for a type with custom"),
    "gen:arbitrary_predicate": "`predicate` validator",
    "gen:arbitrary_regex": "`regex` validator",
    "gen:arbitrary_with_sanitizer": "`with` sanitizer",
    "gen:default_missing": "`default = ` parameter is missing",
    "meta:derive_attribute": "#[derive(..)] macro is not allowed",
    "meta:empty_tuple_struct": "empty tuple struct",
    "meta:field_visibility": "visibility for the inner field is forbidden",
    "meta:not_tuple_struct": "only with tuple structs",
    "meta:unsupported_attribute": "does not support this attribute",
    "parse:arbitrary_feature": "feature `arbitrary`",
    "parse:duplicate_block": "Duplicate attribute",
    "parse:duplicate_error": "Duplicate `error`",
    "parse:duplicate_with": "Duplicate `with`",
    "parse:error_without_with": "`error` attribute requires an accompanying `with`",
    "parse:missing_parenthesis": "must be used with parenthesis",
    "parse:new_unchecked_feature": "feature `new_unchecked`",
    "parse:no_validators": "At least one validator",
    "parse:regex_feature": "feature `regex`",
    "parse:schemars_feature": "feature `schemars08`",
    "parse:serde_feature": "feature `serde`",
    "parse:unknown_attribute": "Unknown attribute",
    "parse:unknown_sanitizer": "Unknown sanitizer",
    "parse:unknown_trait": "does not know how to derive",
    "parse:unknown_validator": ("Unknown validation attribute", "Unknown validator", "expected `,`"),
    "parse:with_error_mixed": "cannot be used mixed with other validators",
    "parse:with_without_error": "`with` attribute requires an accompanying `error`",
    "traits:copy_string": "Copy trait cannot be derived",
    "traits:eq_requires_partial_eq": "Eq requires PartialEq",
    "traits:float_hash": "cannot derive `Hash` trait for float",
    "traits:float_needs_finite": "proves that inner value is not NaN",
    "traits:from_and_try_from": "no need to derive `TryFrom`",
    "traits:from_with_validation": "cannot derive `From` trait, because there is validation",
    "traits:into_iterator": "cannot derive `IntoIterator`",
    "traits:ord_requires": "Trait Ord requires",
    "validate:bounds_exclude": "The lower bound",
    "validate:duplicate_sanitizer": "Duplicated sanitizer",
    "validate:duplicate_validator": "Duplicated validator",
    "validate:greater_and_greater_or_equal": "EITHER `greater` OR `greater_or_equal`",
    "validate:invalid_regex": "regex parse error",
    "validate:len_char_min_gt_max": "`len_char_min` cannot be greater than `len_char_max`",
    "validate:less_and_less_or_equal": "EITHER `less` OR `less_or_equal`",
    "validate:lowercase_and_uppercase": "`lowercase` and `uppercase`",
}


def c08(tier, rng, rep, only=None):
    import verdicts
    n = 0
    classes = {}
    reasons = {}
    runs = []
    if only is not None:
        runs.append(("replay", only, runner.FEATURES_ALL))
    else:
        runs.append(("verdict" if tier == "quick" else "verdict_t", verdicts.gen_verdict_decls(rng.fork("v"), tier) +
                     guardcorpus.build_corpus(rng.fork("g"), "quick")[::7], runner.FEATURES_ALL))
        runs.append(("eqgate", verdicts.gen_c12_decls(rng.fork("e"), tier), runner.FEATURES_ALL))
        runs.append(("verdict_nofeat", verdicts.gen_feature_decls(rng.fork("w"), tier), ["std"]))
        # every feature gate on its own: an item is accepted iff ITS feature is enabled
        for f_ in ("serde", "regex", "arbitrary", "new_unchecked"):
            runs.append(("verdict_only_" + f_, verdicts.gen_feature_decls(rng.fork("w"), tier), ["std", f_]))
    for wsname, decls, feats in runs:
        g, dropped = verdict_run(wsname, decls, feats, rep, rng)
        for d in decls:
            n += 1
            mv = g.model_verdict.get(d.id, "missing")
            impl_rej = d.id in dropped
            head, _, ref = mv.partition(" ref=")
            m_rej = head.startswith("reject")
            cls = head.split()[1] if m_rej else "accept"
            classes[cls] = classes.get(cls, 0) + 1
            payload = {"kind": "verdict", "decl": d.to_json(), "decl_rust": runner.decl_module(d, None), "features": feats,
                       "rustc": (dropped.get(d.id) or ["(compiles)"])[:3], "model": mv, "intended": getattr(d, "expect", None)}
            if impl_rej and not m_rej and getattr(d, "hygiene_known", False):
                rep.known_hit("sibling_item_shadows_name_used_by_expansion",
                              "a user item named Option / Some / None / Ok / Err, a user trait named Debug / Clone / Into / Default, or a user module named core / std, next to the declaration is picked up by the unqualified names of the expansion")
                continue
            if impl_rej != m_rej:
                # the reference predicate decides which side is wrong
                ref_says_ok = ref == "1"
                if impl_rej and ref_says_ok:
                    rep.violation("well-formed declaration %s is now refused: %s" % (d.id, payload["rustc"][0][:200]), payload)
                elif (not impl_rej) and not ref_says_ok:
                    rep.violation("declaration %s must be refused (%s, reference %s) but compiles" % (d.id, cls, ref), payload)
                elif (not impl_rej) and ref_says_ok and cls.startswith("rustc:known:"):
                    # a recorded "well-formed but refused" finding that no longer reproduces: the
                    # property demands acceptance, and the declaration is accepted
                    rep.notes.append("recorded finding %s does not reproduce on %s: the declaration is accepted" % (cls, d.id))
                    classes["recorded_refusal_no_longer_reproduces"] = classes.get("recorded_refusal_no_longer_reproduces", 0) + 1
                else:
                    rep.violation("model and rustc disagree on %s: model %s, rustc %s" % (d.id, mv, payload["rustc"][0][:160]), payload, no_input=True)
                continue
            if impl_rej and m_rej and cls in REASON_TEXT:
                msgs = dropped[d.id]
                reasons[cls] = reasons.get(cls, 0) + 1
                want = REASON_TEXT[cls] if isinstance(REASON_TEXT[cls], tuple) else (REASON_TEXT[cls],)
                if not any(w_ in m_ for m_ in msgs for w_ in want):
                    if all(getattr(m_, "code", None) for m_ in msgs):
                        # nothing came from the macro: it accepted the declaration, only rustc trips over the expansion
                        rep.violation("declaration %s must be refused by the macro (%s) but is expanded; only rustc rejects the expansion: %s"
                                      % (d.id, cls, msgs[0][:160]), payload)
                    else:
                        rep.violation("declaration %s is refused, but not with the diagnostic of the rule %s: %s" % (d.id, cls, msgs[0][:160]),
                                      payload, no_input=True)
            if impl_rej and ref == "1":
                k = KNOWN_REJECT.get(cls)
                if k:
                    rep.known_hit(k[0], k[1])
                elif cls in ("rustc:bound_type", "rustc:derive_dependency", "rustc:const_fn_body", "rustc:from_without_new",
                             "gen:non_finite_literal", "parse:schemars_feature", "parse:serde_feature", "parse:arbitrary_feature",
                             "parse:regex_feature", "parse:new_unchecked_feature", "traits:from_and_try_from"):
                    pass        # refusals outside the rule book's scope: ill-typed expressions, rustc's own derive rules, features
                else:
                    rep.violation("declaration %s satisfies the reference rules but is refused as %s" % (d.id, cls), payload)
            if (not impl_rej) and ref not in ("1",):
                if ref == "0:literal_bounds":
                    rep.known_hit("empty_literal_range_accepted", "exclusive literal bounds that leave no value between them (e.g. greater = 5, less = 6 on integers) are accepted")
                else:
                    rep.violation("declaration %s breaks the reference rule %s but is accepted" % (d.id, ref), payload)
    # ---- declarations written through macro_rules! helpers: the inner type arrives as a `ty` / `ident` fragment
    if only is None:
        mods = []
        for i, (frag, inner, rules, use) in enumerate((
                ("ty", "i32", "validate(greater_or_equal = 1, less = 100)", "T::try_new(5).is_ok() && T::try_new(100).is_err()"),
                ("ty", "u8", "validate(less_or_equal = 9)", "T::try_new(9).is_ok() && T::try_new(10).is_err()"),
                ("ty", "f64", "validate(finite, greater = 0.0)", "T::try_new(1.5).is_ok() && T::try_new(f64::NAN).is_err()"),
                ("ty", "String", "sanitize(trim, lowercase), validate(not_empty, len_char_max = 5)", "T::try_new(\" Ab \").map(|t| t.into_inner()).ok() == Some(\"ab\".to_string())"),
                ("ident", "i64", "validate(greater = 0)", "T::try_new(1).is_ok()"),
                ("tt", "f32", "validate(finite)", "T::try_new(1.0).is_ok()"),
                ("ty", "Vec<i32>", "validate(predicate = |v| !v.is_empty())", "T::try_new(vec![1]).is_ok()"))):
            text = ("pub mod mr%d {\n    #![allow(dead_code, unused_imports)]\n    use nutype::nutype;\n"
                    "    macro_rules! mk { ($n:ident, $t:%s) => { #[nutype(%s, derive(Debug))] pub struct $n($t); } }\n    mk!(T, %s);\n"
                    "    pub fn check() -> bool { %s }\n}\n" % (i, frag, rules, inner, use))
            mods.append(("mr%d" % i, text))
        wsx = runner.ModuleWorkspace("verdict_extra", runner.FEATURES_ALL, nshards=4)
        droppedx = wsx.verdicts(mods)
        for mid, text in mods:
            n += 1
            classes["macro_rules_generated"] = classes.get("macro_rules_generated", 0) + 1
            if mid in droppedx:
                rep.violation("a declaration generated by a macro_rules! helper is refused: %s" % droppedx[mid][0][:200],
                              {"kind": "verdict", "module": text, "rustc": droppedx[mid][:3]})
    # ---- the #[test]s the macro emits for what it cannot decide itself
    n_tests = 0
    if only is None:
        gdecls = verdicts.gen_gentest_decls(rng.fork("gt"), tier)
        gg = flows.GuardRun("gentest", gdecls)
        for d in gdecls:
            gg.add_ops(d, [("gen_tests", "")])
        gg.build()
        gg.run_model()
        with flock("cargo_gentest"):
            p = run(["cargo", "test", "--offline", "--no-fail-fast", "-j", str(NPROC)], cwd=gg.ws.dir, timeout=1500)
        real = {}
        for line in (p.stdout + p.stderr).splitlines():
            m_ = re.match(r"test decls::(\w+)::__nutype_\w+__::tests::(\w+) \.\.\. (ok|FAILED)", line)
            if m_:
                real.setdefault(m_.group(1), {})[m_.group(2)] = m_.group(3)
        for d in gdecls:
            if d.id not in gg.live:
                rep.notes.append("gentest declaration %s did not compile" % d.id)
                continue
            mo = gg.by_decl[d.id][0].model or ""
            model = dict(x.split("=") for x in mo.split(";") if "=" in x)
            got = real.get(d.id, {})
            n_tests += len(got)
            if got != model:
                rep.violation("generated tests of %s: real outcome %s, model %s" % (d.id, got, model),
                              {"kind": "generated-test", "decl": d.to_json(), "decl_rust": runner.decl_module(d, None), "real": got, "model": model},
                              no_input=False)
        classes["generated_tests_run"] = n_tests
        # the same #[test]s must exist and decide the same when the user's crate depends on nutype
        # without its `std` feature (numeric declarations; the test harness itself still links std)
        ndecls = [d for d in verdicts.gen_gentest_decls(rng.fork("gt"), tier) if d.family() in ("int", "float")]
        for d in ndecls:
            d.id = "n" + d.id
        gn = flows.GuardRun("gentest_nostdfeat", ndecls, features=["serde", "arbitrary", "new_unchecked"])
        for d in ndecls:
            gn.add_ops(d, [("gen_tests", "")])
        gn.build()
        gn.run_model()
        with flock("cargo_gentest_nostdfeat"):
            p = run(["cargo", "test", "--offline", "--no-fail-fast", "-j", str(NPROC)], cwd=gn.ws.dir, timeout=1500)
        real = {}
        for line in (p.stdout + p.stderr).splitlines():
            m_ = re.match(r"test decls::(\w+)::__nutype_\w+__::tests::(\w+) \.\.\. (ok|FAILED)", line)
            if m_:
                real.setdefault(m_.group(1), {})[m_.group(2)] = m_.group(3)
        n_nostd = 0
        for d in ndecls:
            if d.id not in gn.live:
                rep.notes.append("gentest declaration %s did not compile without the std feature" % d.id)
                continue
            mo = gn.by_decl[d.id][0].model or ""
            model = dict(x.split("=") for x in mo.split(";") if "=" in x)
            got = real.get(d.id, {})
            n_nostd += len(got)
            if got != model:
                rep.violation("generated tests of %s with nutype's `std` feature off: real outcome %s, model %s" % (d.id, got, model),
                              {"kind": "generated-test", "decl": d.to_json(), "decl_rust": runner.decl_module(d, None), "real": got, "model": model,
                               "features": gn.features}, no_input=False)
        classes["generated_tests_run_without_std_feature"] = n_nostd
        if n_tests < 50:
            rep.violation("self-check: generated tests were not run (%d)" % n_tests, {"kind": "coverage"}, no_input=True)
    rep.coverage.update({"evaluations": n, "distinct_nontrivial": sum(v for k_, v in classes.items() if k_ != "accept"),
                         "rule": "declarations generated from the attribute grammar: every refusal class of the macro and its near misses (struct shape, attributes, field visibility, unknown / wrong-family / wrong-case names, duplicates, literal bounds in every relative position incl. equal and adjacent, expressions hiding the same contradictions, with/error pairing, the full family x trait x validation matrix with derive dependencies, Arbitrary restrictions, regex literals, const_fn, generics and short type-parameter names) under all features and under std only; three verdicts per declaration: rustc on the real expansion (errors attributed by span), the model's front end, the reference rule book",
                         "verdict_classes": classes, "refusals_with_the_rule_book_diagnostic": reasons, "exhaustive": False})
    rep.samples.append({"classes": dict(list(classes.items())[:8])})
    if only is None and classes.get("accept", 0) < 50:
        rep.violation("self-check: too few accepted declarations", {"kind": "coverage"}, no_input=True)


# ------------------------------------------------------------------------------------- C02

def c02(tier, rng, rep, only=None):
    import verdicts
    from syntax import INT_TYPES, ity_min, ity_max, bits_to_frac, f_next_up, f_next_down
    decls = only if only is not None else verdicts.gen_c02_decls(rng.fork("c02"), tier)

    def probes(d):
        fam = d.family()
        kind, v = d.rule
        if fam == "int":
            return [("i", x) for x in (v - 2, v - 1, v, v + 1, v + 2) if ity_min(d.inner) <= x <= ity_max(d.inner)]
        if fam == "float":
            is64 = FLOAT_TYPES[d.inner]
            out = [v, v ^ (1 << (63 if is64 else 31))]
            if bits_to_frac(v, is64) is not None:
                out += [f_next_up(v, is64), f_next_down(v, is64)]
            return [("f", x) for x in out]
        return [("s", "a" * k_) for k_ in (v - 1, v, v + 1, v + 2) if k_ >= 0]

    layout_inputs = {"i32": [("i", x) for x in (-5, 0, 3, 4, 7, 8, 10, 11, 49, 50, 99, 100, 101, 150, 1000)],
                     "String": [("s", x) for x in ["", "a", " ab ", "AB", "ab1", " Zz ", "abc", "bb", "b{2}", "abbc", "b", "Bb{2}", "k1", "K22", "\u212a7", "k", "kx"]],
                     "f64": [("f", x) for x in (0, 1 << 63, 0x401C000000000000, 0xC01C000000000000, 0x7FF0000000000000, 0x7FF8000000000000, 0x3FF0000000000000)]}

    def ops_for(g, d, r):
        if "spelling" in d.tags:
            g.add_ops(d, [("try_new", val_sexp(v)) for v in probes(d)], spec=True)
        elif "presence" in d.tags:
            g.add_ops(d, [("try_new", val_sexp(v)) for _, v in d.witnesses] +
                      [("try_new", val_sexp(v)) for v, _ in getattr(d, "order_witnesses", [])], spec=True)
        elif "sanorder" in d.tags:
            g.add_ops(d, [("new", val_sexp(("s", s_))) for s_, _ in d.expected], spec=True)
        elif "layout" in d.tags:
            info = runner.DeclInfo(d)
            g.add_ops(d, [("try_new", val_sexp(v)) for v in layout_inputs[d.inner]] + ([("default", "")] if info.has_default else []), spec=False)
    g = make_guard_run(tier, rng, decls=decls, ops_for=ops_for, spec=True, wsname="c02")
    dropped = run_guard(g, rep, rng)
    n = n_sp = n_lay = n_pres = n_ord = 0
    for d in g.decls:
        mv = g.model_verdict.get(d.id, "")
        if (d.id in dropped) != mv.startswith("reject"):
            rep.violation("verdict of %s differs: model %s, rustc %s" % (d.id, mv, (dropped.get(d.id) or ["compiles"])[0][:150]),
                          {"kind": "verdict", "decl": d.to_json(), "decl_rust": runner.decl_module(d, None).split("pub fn run")[0]}, no_input=True)
    fams = {}
    for d in g.decls:
        if "mustreject" in d.tags and d.id in g.live:
            rep.violation("declaration %s writes rules the macro cannot honour together; it must be refused, but it compiles (a rule is silently dropped)" % d.id,
                          {"kind": "verdict", "decl": d.to_json(), "decl_rust": runner.decl_module(d, None).split("pub fn run")[0]})
    for d in g.decls:
        if d.id not in g.live:
            continue
        cs = g.by_decl.get(d.id, [])
        if "spelling" in d.tags:
            kind, v = d.rule
            fam = d.family()
            for c in cs:
                n += 1
                n_sp += 1
                if c.impl is None:
                    continue
                if fam == "int":
                    x, bv = int(c.arg[3:-1]), v
                elif fam == "float":
                    is64 = FLOAT_TYPES[d.inner]
                    x, bv = bits_to_frac(int(c.arg[3:-1]), is64), bits_to_frac(v, is64)
                else:
                    x, bv = len(c.arg[2:-1].split()), v
                if x is None or bv is None:
                    continue
                expected_ok = verdicts.REL[kind](x, bv)
                if c.impl.startswith("ok") != expected_ok:
                    rep.violation("rule `%s = <%s>` written in %s is not enforced with the denoted value: try_new(%s) gives %s"
                                  % (kind, v, d.id, c.arg, c.impl), case_payload(c, g, {"written_rule": [kind, v]}))
                elif c.impl != c.model:
                    rep.violation("model and implementation differ on %s try_new(%s): %s vs %s" % (d.id, c.arg, c.impl, c.model),
                                  case_payload(c, g), no_input=True)
        elif "presence" in d.tags:
            for c, (rname, _) in zip(cs, d.witnesses):
                n += 1
                n_pres += 1
                if c.impl is None:
                    continue
                if not c.impl.startswith("err"):
                    rep.violation("rule `%s` written in %s next to other rules is not enforced: try_new(%s) gives %s"
                                  % (rname, d.id, c.arg, c.impl), case_payload(c, g, {"written_rule": rname}))
                elif c.impl != c.model:
                    rep.violation("model and implementation differ on %s try_new(%s): %s vs %s" % (d.id, c.arg, c.impl, c.model),
                                  case_payload(c, g), no_input=True)
            for c, (v_, first) in zip(cs[len(d.witnesses):], getattr(d, "order_witnesses", [])):
                n += 1
                n_pres += 1
                if c.impl is None:
                    continue
                if c.impl != "err " + runner.VARIANTS[first]:
                    rep.violation("rules of %s are not checked in the written order: try_new(%s) gives %s, the first written rule it violates is `%s`"
                                  % (d.id, c.arg, c.impl, first), case_payload(c, g, {"first_written_rule_violated": first}))
                elif c.impl != c.model:
                    rep.violation("model and implementation differ on %s try_new(%s): %s vs %s" % (d.id, c.arg, c.impl, c.model),
                                  case_payload(c, g), no_input=True)
        elif "sanorder" in d.tags:
            for c, (s_, want) in zip(cs, d.expected):
                n += 1
                n_ord += 1
                if c.impl is None:
                    continue
                if c.impl != "ok " + val_sexp(("s", want)):
                    rep.violation("sanitizers of %s do not run in the written order: new(%r) stores %s, the written pipeline gives %r"
                                  % (d.id, s_, c.impl, want), case_payload(c, g, {"expected": want}))
                elif c.impl != c.model:
                    rep.violation("model and implementation differ on %s new(%s): %s vs %s" % (d.id, c.arg, c.impl, c.model),
                                  case_payload(c, g), no_input=True)
        elif "layout" in d.tags:
            fams.setdefault(d.family_id, []).append(d)
            for c in cs:
                n += 1
                n_lay += 1
                if c.impl != c.model:
                    rep.violation("model and implementation differ on %s %s(%s): %s vs %s" % (d.id, c.op, c.arg, c.impl, c.model),
                                  case_payload(c, g), no_input=True)
    for fid, members in fams.items():
        ref_d = members[0]
        ref_out = [c.impl for c in g.by_decl[ref_d.id]]
        for d in members[1:]:
            out = [c.impl for c in g.by_decl[d.id]]
            if out != ref_out:
                k_ = next(i for i, (a, b_) in enumerate(zip(out, ref_out)) if a != b_)
                c = g.by_decl[d.id][k_]
                rep.violation("the same rules written in a different layout behave differently: %s(%s) gives %s in %s but %s in %s"
                              % (c.op, c.arg, c.impl, d.id, ref_out[k_], ref_d.id), case_payload(c, g, {"other_layout": ref_d.to_json()}))
    rep.coverage.update({"evaluations": n, "distinct_nontrivial": n_sp,
                         "rule": "(1) single-rule declarations for every bound spelling (signed / underscored literals, constants, negated constants, parenthesised, arithmetic, shifts, bit-or, T::MIN/MAX, calls, integer literal for a float bound, exponent floats, associated float constants) x every bound kind x several inner types: the real try_new at the denoted bound and its neighbours is compared with the verdict computed from the INTENDED value and kind (independent of the model) and with the model; (2) layout families: one rule set in every attribute order, with / without trailing commas, closures vs paths, regex literal vs static path: all members must behave identically; (3) presence: declarations with two or three rules (finite / lower / upper in every order, literal and constant spellings; not_empty / len_char_min / len_char_max / regex) and for every written rule a witness input that violates it: the constructor must refuse each witness (multi-byte witnesses for the length rules); (4) sanitizer order: chains mixing built-in and custom sanitizers in many orders, the stored value compared with the written pipeline evaluated here on ASCII inputs",
                         "presence_probes": n_pres, "sanitizer_order_probes": n_ord, "spelling_probes": n_sp, "layout_probes": n_lay, "layout_families": len(fams), "declarations": len(g.decls), "exhaustive": False})
    for c in g.cases[:: max(1, len(g.cases) // 6 or 1)][:6]:
        rep.samples.append({"decl": c.decl.id, "rule": getattr(c.decl, "rule", None), "op": c.op, "arg": c.arg, "impl": c.impl})
    if n_sp == 0 and only is None:
        rep.violation("self-check: no spelling probed", {"kind": "coverage"}, no_input=True)


# ------------------------------------------------------------------------------------- C15

def nostd_extra_modules():
    """hand-written declarations with type / lifetime parameters (verdict only: all are legal)"""
    decls = [
        ("#[nutype(derive(Debug, Clone, PartialEq, FromStr, AsRef))]", "pub struct P<T>(T);"),
        ("#[nutype(validate(predicate = |v| *v != T::default()), derive(Debug, Clone, PartialEq, FromStr, Display))]", "pub struct P<T: Default + PartialEq>(T);"),
        ("#[nutype(validate(predicate = |v| *v != T::default()), derive(Debug, Clone, PartialEq, Eq, PartialOrd, Ord, Hash, FromStr, Display, AsRef, Deref, Borrow, Serialize, Deserialize))]",
         "pub struct P<T: Default + PartialEq>(T);"),
        ("#[nutype(derive(Debug, Clone, Copy, PartialEq, AsRef, Deref, Into))]", "pub struct P<'a>(&'a str);"),
        ("#[nutype(validate(predicate = |s| !s.is_empty()), derive(Debug, Clone, Copy, PartialEq, Eq, PartialOrd, Ord, Hash, AsRef, Deref, Display, TryFrom, Into, Borrow))]", "pub struct P<'a>(&'a str);"),
        ("#[nutype(derive(Debug, Clone, PartialEq, AsRef, Display, Deref, Serialize, Deserialize, Default), default = T::default())]", "pub struct P<T: Default>(T);"),
        ("#[nutype(derive(Debug, Clone, PartialEq, AsRef, Display, Deref, Serialize, Deserialize))]", "pub struct P<T>(T);"),
        ("#[nutype(derive(Debug, Clone, PartialEq, AsRef, Into, Deref, From, Serialize, Deserialize))]", "pub struct P<T>(Vec<T>);"),
        ("#[nutype(sanitize(with = |mut v| { v.sort(); v }), validate(predicate = |v| !v.is_empty()), derive(Debug, Clone, PartialEq, AsRef, Deref, TryFrom, IntoIterator, Serialize, Deserialize))]",
         "pub struct P<T: Ord>(Vec<T>);"),
        ("#[nutype(validate(predicate = |v| !v.is_empty()), derive(Debug, Clone, PartialEq, Eq, Hash, AsRef, Deref, TryFrom, Into, Borrow, Display))]",
         "pub struct P<'a>(alloc::borrow::Cow<'a, str>);"),
        ("#[nutype(validate(with = chk, error = CErr), derive(Debug, Clone, PartialEq, FromStr))]",
         "pub struct P<T: Default + PartialEq>(T);\n    use super::rt::CErr;\n    fn chk<T: Default + PartialEq>(v: &T) -> Result<(), CErr> { if *v == T::default() { Err(CErr(0)) } else { Ok(()) } }"),
        ("#[nutype(const_fn, validate(greater = 0), derive(Debug, Clone, Copy, PartialEq, Eq, PartialOrd, Ord, Hash, FromStr, Display, TryFrom, Into, AsRef, Deref, Borrow, Default), default = 1)]", "pub struct P(i64);"),
        ("#[nutype(validate(predicate = |v| !v.is_empty()), derive(Debug, Clone, PartialEq, AsRef, Deref, TryFrom, Serialize, Deserialize))]", "pub struct P<T>(Vec<T>) where T: Ord;"),
        ("#[nutype(validate(predicate = |p| p.x >= 0), default = Pt { x: 0, y: 0 }, derive(Debug, Clone, PartialEq, Default, AsRef))]",
         "pub struct P(Pt);\n    #[derive(Debug, Clone, PartialEq)] pub struct Pt { pub x: i32, pub y: i32 }"),
        ("#[nutype(validate(greater = 0), default = { if cfg!(debug_assertions) { 4 } else { 5 } }, derive(Debug, Clone, PartialEq, Default))]", "pub struct P(i32);"),
        ("#[nutype(sanitize(with = |v: f32| { if v < 0.0 { 0.0 } else { v } }), validate(finite), default = match 1 { 1 => 1.5, _ => 2.5 }, derive(Debug, Clone, PartialEq, Default))]", "pub struct P(f32);"),
        ("#[nutype(validate(predicate = |v| !v.0.is_empty()), derive(Debug, Clone, PartialEq, AsRef, Deref, TryFrom))]", "pub struct P<'a, T: Clone>((alloc::borrow::Cow<'a, str>, T));"),
        ("#[nutype(sanitize(with = |mut v: alloc::collections::BTreeMap<K, V>| { v.retain(|_, x| *x != V::default()); v }), derive(Debug, Clone, PartialEq, AsRef, Deref, From, IntoIterator))]",
         "pub struct P<K: Ord, V: Default + PartialEq>(alloc::collections::BTreeMap<K, V>);"),
        # other-type newtypes whose inner type is merely NAMED like the string family
        ("#[nutype(validate(predicate = |s| s.0[0] != 0), derive(Debug, Clone, PartialEq, AsRef, Deref, TryFrom))]",
         "pub struct P(InlineString);\n    #[derive(Debug, Clone, PartialEq)] pub struct InlineString(pub [u8; 8]);"),
        ("#[nutype(sanitize(with = |s: alloc::string::String| s), derive(Debug, Clone, PartialEq, AsRef, Deref, From))]", "pub struct P(alloc::string::String);"),
        ("#[nutype(derive(Debug, Clone, Copy, PartialEq, AsRef))]", "pub struct P<'a>(&'a FixedString);\n    #[derive(Debug, PartialEq)] pub struct FixedString(pub [u8; 4]);"),
    ]
    out = []
    for i, (attr_, item) in enumerate(decls):
        text = ("pub mod x%d {\n    #![allow(dead_code, unused_imports)]\n    use nutype::nutype;\n    use alloc::vec::Vec;\n    %s\n    %s\n}\n" % (i, attr_, item))
        out.append(("x%d" % i, text))
    return out


def c15(tier, rng, rep, only=None):
    feats = ["serde", "arbitrary", "new_unchecked"]
    if only is not None:
        decls = only
    else:
        base = [d for d in guardcorpus.build_corpus(rng.fork("g"), tier) if d.family() != "str"]
        arb = [d for d in corpus.gen_arb_ints(rng.fork("ai"), tier) + corpus.gen_arb_floats(rng.fork("af"), tier)]
        ser = [d for d in corpus.gen_serde_decls(rng.fork("z"), tier) if d.family() != "str"]
        decls = base + arb[::2] + ser
        # new_unchecked and custom errors on a few of them
        from syntax import tid
        for i, d in enumerate(decls):
            if i % 9 == 4 and not d.generics:
                d.toks = [tid("new_unchecked"), ("c",)] + d.toks
    for d in decls:
        d.no_run = True
    g = flows.GuardRun("nostd" if tier == "quick" else "nostd_t", decls, features=feats, nostd=True)
    dropped = g.build()
    g.run_model()
    n = 0
    by_fam = {}
    for d in decls:
        n += 1
        mv = g.model_verdict.get(d.id, "")
        by_fam[d.family()] = by_fam.get(d.family(), 0) + 1
        if d.id in dropped and not mv.startswith("reject"):
            msgs = dropped[d.id]
            rep.violation("declaration %s does not compile inside a #![no_std] crate: %s" % (d.id, msgs[0][:200]),
                          {"kind": "verdict", "decl": d.to_json(), "decl_rust": runner.nostd_module(d), "features": feats, "rustc": msgs[:3]})
        elif d.id not in dropped and mv.startswith("reject"):
            rep.notes.append("%s compiles although the model rejects it (%s): C08's concern" % (d.id, mv))
    # the same crates under cfg(test): the #[test]s the macro generates must resolve without std too
    n_t = 0
    if only is None:
        g.ws.write([d for d in decls if d.id in g.live])
        rc, errors, stderr = g.ws.check_tests()
        bad = runner.attribute_errors(g.ws, errors) if rc != 0 else {}
        for did, msgs in bad.items():
            d = [x for x in decls if x.id == did][0]
            rep.violation("declaration %s builds inside a #![no_std] crate but not under cfg(test) (generated unit tests): %s" % (did, msgs[0][:200]),
                          {"kind": "verdict", "decl": d.to_json(), "decl_rust": runner.nostd_module(d), "features": feats, "rustc": msgs[:3],
                           "reproduce": "cargo check --tests in a #![no_std] library crate"})
        if rc != 0 and not bad:
            rep.violation("cargo check --tests of the no_std corpus fails: %s" % stderr[-300:], {"kind": "verdict", "stderr": stderr[-2000:]}, no_input=True)
        n_t = len(g.live)
        # generic / lifetime-parameterised declarations of the documented grammar (hand-written, verdict only)
        extra = nostd_extra_modules()
        ws3 = runner.ModuleWorkspace("nostd_extra", feats, nshards=4, nostd=True)
        dropped3 = ws3.verdicts(extra)
        for mid, text in extra:
            n += 1
            by_fam["generic"] = by_fam.get("generic", 0) + 1
            if mid in dropped3:
                rep.violation("declaration %s of the documented grammar does not compile inside a #![no_std] crate: %s" % (mid, dropped3[mid][0][:200]),
                              {"kind": "verdict", "module": text, "features": feats, "rustc": dropped3[mid][:3]})
        ws3.write_modules([m for m in extra if m[0] not in dropped3])
        rc, errors, stderr = ws3.check_tests()
        if rc != 0:
            bad = runner.attribute_errors(ws3, errors)
            for mid, msgs in bad.items():
                rep.violation("declaration %s builds inside a #![no_std] crate but not under cfg(test): %s" % (mid, msgs[0][:200]),
                              {"kind": "verdict", "module": dict(extra).get(mid), "features": feats, "rustc": msgs[:3]})
            if not bad:
                rep.violation("cargo check --tests of the generic no_std modules fails: %s" % stderr[-300:], {"kind": "verdict", "stderr": stderr[-2000:]}, no_input=True)
    rep.coverage["checked_under_cfg_test"] = n_t
    # path roots and bare names of the real expansions (std build of the same families)
    g2decls = [d for d in guardcorpus.build_corpus(rng.fork("C01x"), tier)]
    g2 = flows.GuardRun("guard" if tier == "quick" else "guard_t", g2decls)
    for d in g2decls:
        g2.add_ops(d, [("inventory", "")])
    g2.build()
    g2.run_model()
    n_inv = inventory_check(g2, rep, "c15", decl_filter=lambda d: d.family() != "str")
    rep.coverage["expansions_checked"] = n_inv
    rep.coverage.update({"evaluations": n, "distinct_nontrivial": n - len(dropped),
                         "rule": "integer / float / other-type declarations of the guard, Arbitrary and serde corpora (every derivable trait set incl. FromStr, Display, Default, Serialize/Deserialize, Arbitrary; const_fn, default, custom error, generics, new_unchecked) built as #![no_std] library crates against nutype with default-features = false (+serde +arbitrary +new_unchecked); rustc's verdict per declaration",
                         "declarations_by_family": by_fam, "rejected": len(dropped), "exhaustive": False})
    rep.samples.append({"built": n - len(dropped), "of": n})
    if only is None and n - len(dropped) < 100:
        rep.violation("self-check: too few declarations built", {"kind": "coverage"}, no_input=True)


# ------------------------------------------------------------------------------------- inventory

INT_TYPES_ALL = ["u8", "u16", "u32", "u64", "u128", "usize", "i8", "i16", "i32", "i64", "i128", "isize"]
AUTO_MARKERS = {"core::marker::StructuralPartialEq", "core::clone::TrivialClone"}
DERIVE_PATH = {"Debug": "core::fmt::Debug", "Clone": "core::clone::Clone", "Copy": "core::marker::Copy",
               "PartialEq": "core::cmp::PartialEq", "Eq": "core::cmp::Eq", "PartialOrd": "core::cmp::PartialOrd",
               "Ord": "core::cmp::Ord", "Hash": "core::hash::Hash"}
CORE_PRELUDE = {"Option", "Some", "None", "Result", "Ok", "Err", "Self", "Default", "Into", "From", "Sized", "Send", "Sync", "Copy", "Clone",
                "Drop", "Fn", "FnMut", "FnOnce", "Iterator", "IntoIterator", "AsRef", "AsMut", "PartialEq", "Eq", "PartialOrd", "Ord",
                "ToOwned", "TryFrom", "TryInto", "Debug", "Hash", "Box", "String", "Vec", "ToString",
                "format_args!", "panic!", "unreachable!", "write!", "stringify!", "assert!", "matches!", "concat!", "core!"}
NOSTD_BARE_OK = CORE_PRELUDE - {"Box", "String", "Vec", "ToString", "ToOwned"}


PRIVATE_HELPER_NAMES = ("__sanitize__", "__validate__")


def norm_fns(records, public_types=()):
    """the function records of an expansion, up to what no client can observe: private inherent
    helpers that neither return nor construct the type nor hand out `&mut` are dropped (their
    number and names are the macro's business), and calls of such helpers are not listed.  Public
    functions and trait methods are compared exactly."""
    out = []
    for rec in records:
        r = rec.split("|")
        kv = dict(x.split("=", 1) for x in r[4:])
        if r[1] == "-" and kv.get("pub") == "0" and kv.get("ret_self") == "0" and kv.get("ctor") == "0" \
                and kv.get("ret_mut") == "0" and kv.get("recv") != "mut" and kv.get("field") != "mut" and kv.get("unsafe") == "0":
            continue
        if r[2].startswith("other:") and r[2][6:] not in public_types:
            r[2] = "other:_"        # a private helper type of the expansion (e.g. the serde visitor): its name is not observable
        calls = [c_ for c_ in kv.get("calls", "-").split(",") if c_ and c_ != "-" and c_ not in PRIVATE_HELPER_NAMES]
        if "try_new" in calls and "new" in calls:
            # a call named `new` beside try_new is somebody else's constructor (`Box::new` inside the expansion of a
            # `vec![..]` default expression): the guards run through try_new either way
            calls.remove("new")
        kv["calls"] = ",".join(calls) or "-"
        out.append("|".join(r[:4] + ["%s=%s" % (k_, kv[k_]) for k_ in (x.split("=", 1)[0] for x in r[4:])]))
    return sorted(out)


def inventory_check(g, rep, what, decl_filter=None):
    """compare the real expansions with the model's inventory; `what` selects the facets a
    property looks at: 'c05' (constructors, mutable access, privacy, visibility),
    'c15' (path roots / bare names), 'all'"""
    recs = flows.expand_inventory(g.ws)
    n = 0
    for d in g.decls:
        if d.id not in g.live or (decl_filter and not decl_filter(d)):
            continue
        n += 1
        info = runner.DeclInfo(d)
        mine = [list(r) for r in recs.get(d.id, [])]
        # `#[automatically_derived]` says "derived by rustc" only on the traits rustc derives; on an
        # impl the macro writes itself (Borrow, AsRef, From, ...) the attribute is a lint hint and the
        # impl is inspected like any other hand-written one
        std_derived = set(DERIVE_PATH.values()) | AUTO_MARKERS
        cs = [c for c in g.by_decl.get(d.id, []) if c.op == "inventory"]
        model = [x.split("|") for x in (cs[0].model or "").split(" ;; ")] if cs and cs[0].model else []
        written = {r[1] for r in model if r[0] == "fn"}      # traits whose impl the macro writes itself (e.g. float Ord)
        for r in mine:
            if r[0] == "fn" and r[-1] == "auto=1" and (r[1] not in std_derived or r[1] in written):
                r[-1] = "auto=0"
            if r[0] == "impl" and len(r) > 3 and r[3] == "auto=1" and (r[1] not in std_derived or r[1] in written):
                r[3] = "auto=0"
        payload = {"kind": "inventory", "decl": d.to_json(), "decl_rust": runner.decl_module(d, None).split("pub fn run")[0]}
        if not mine:
            rep.violation("no expansion records for %s" % d.id, payload, no_input=True)
            continue
        pubty = ("TError", "TParseError", d.name + "Error", d.name + "ParseError")
        fns = norm_fns(("|".join(r) for r in mine if r[0] == "fn" and r[-1] == "auto=0"), pubty)
        mfns = norm_fns(("|".join(r) + "|auto=0" for r in model if r[0] == "fn"), pubty)
        uses = sorted("|".join(r) for r in mine if r[0] == "use")
        vis_txt = {"": "priv", "pub": "pub", "pub_crate": "pub(crate)", "pub_super": "pub(super)"}
        muses = sorted("use|%s|%s" % (vis_txt.get(r[1], r[1]), r[2]) for r in model if r[0] == "use")
        if what in ("c05", "all"):
            # structural facts, stated directly on the real expansion
            for r in mine:
                if r[0] == "struct" and (r[2] != "vis=pub" or r[3] != "nfields=1" or r[4] != "fieldvis=priv"):
                    rep.violation("the generated struct of %s is not `pub struct T(<private field>)`: %s" % (d.id, "|".join(r)), payload)
                if r[0] == "mod" and r[2] != "vis=priv":
                    rep.violation("the generated module of %s is not private: %s" % (d.id, "|".join(r)), payload)
                if r[0] == "item":
                    rep.violation("unexpected item in the generated module of %s: %s" % (d.id, "|".join(r)), payload)
                if r[0] == "aconst":
                    kv = dict(x.split("=") for x in r[4:])
                    if kv["ty_self"] == "1" or kv["ctor"] == "1":
                        rep.violation("associated constant %s::%s of %s is a value of the type made without the guarded constructors: %s"
                                      % (r[1], r[3], d.id, "|".join(r)), payload)
                if r[0] == "type" and r[-1] != "mut=0":
                    rep.violation("associated type with a mutable reference in %s: %s" % (d.id, "|".join(r)), payload)
                if r[0] == "fn":
                    kv = dict(x.split("=") for x in r[4:])
                    name = r[3]
                    if kv["recv"] == "mut" or kv["ret_mut"] == "1" or kv["field"] == "mut":
                        rep.violation("function %s::%s of %s gives mutable access to the inner value: %s" % (r[1], name, d.id, "|".join(r)), payload)
                    if kv["auto"] == "0" and kv["ctor"] == "1" and not ((r[1] == "-" and name in ("try_new", "new")) or
                                                                      (name == "new_unchecked" and kv["unsafe"] == "1" and info.new_unchecked)):
                        rep.violation("function %s::%s of %s constructs the type directly, bypassing the guards" % (r[1], name, d.id), payload)
                    if kv["auto"] == "0" and r[2] == "T" and kv["recv"] == "none" and kv["ret_self"] == "1" and kv["ctor"] == "0" \
                            and not ({"try_new", "new"} & set(kv["calls"].split(","))):
                        rep.violation("function %s::%s of %s returns the type without calling try_new / new" % (r[1], name, d.id), payload)
                if r[0] == "impl" and r[3] == "auto=1" and r[2] == "T" and r[1] not in AUTO_MARKERS:
                    if r[1] not in {DERIVE_PATH.get(t) for t in info.traits}:
                        rep.violation("unexpected derived impl %s on %s" % (r[1], d.id), payload)
            if uses != muses:
                rep.violation("re-exports of %s differ from the declared visibility: real %s, model %s" % (d.id, uses, muses), payload)
        if what in ("c15", "all") and d.family() != "str":
            for r in mine:
                if r[0] == "roots":
                    prims = set(INT_TYPES_ALL) | {"f32", "f64", "char", "str", "bool"}
                    # paths the user wrote in bound expressions (constants of a user module / type) are the user's
                    own = {str(e_[0]).split("::")[0] for e_ in d.env}
                    bad = [x for x in r[1].split(",") if x and x not in ("core", "alloc", "serde", "arbitrary") and x not in prims and x not in own]
                    if bad:
                        rep.violation("expansion of %s names the crate root(s) %s" % (d.id, bad), payload)
                if r[0] == "bare":
                    own = {d.name, d.name + "Error", d.name + "ParseError", "CErr", "T", "TT", "Inner", "__Visitor", "D", "DE", "S", "E", "H", "V"}
                    own |= {g_[0] for g_ in d.generics}
                    own |= {e_[0].split("::")[0].rstrip("!") for e_ in d.env} | {"RE0", "RE1", "RE2", "RE3", "RE4", "RE5"}
                    own |= set(re.findall(r"[A-Za-z_]\w*", d.inner))
                    bad = [x for x in r[1].split(",") if x and x not in NOSTD_BARE_OK and x not in own]
                    if bad:
                        rep.violation("expansion of %s uses bare name(s) outside the core prelude: %s" % (d.id, bad), payload, no_input=True)
        if fns != mfns:
            only_real = [x for x in fns if x not in mfns]
            only_model = [x for x in mfns if x not in fns]
            rep.violation("inventory of %s differs from the model: only in the expansion %s; only in the model %s"
                          % (d.id, only_real[:3], only_model[:3]), payload, no_input=True)
    return n


# ------------------------------------------------------------------------------------- C05

def c05(tier, rng, rep, only=None):
    import attacks
    mods = attacks.gen_attack_modules(tier)
    if only is not None:
        return
    ws = runner.ModuleWorkspace("attack", runner.FEATURES_ALL)
    dropped = ws.verdicts([(m[0], m[1]) for m in mods])
    n = 0
    by_attack = {}
    for mid, text, expect_rejected, desc in mods:
        n += 1
        rejected = mid in dropped
        key = (desc["attack"], "rejected" if rejected else "compiles")
        by_attack[key] = by_attack.get(key, 0) + 1
        payload = {"kind": "attack", "module": text, "description": desc, "rustc": (dropped.get(mid) or ["(compiles)"])[:3],
                   "reproduce": "put the module into a crate depending on nutype (all features) and run cargo check"}
        if expect_rejected and not rejected:
            rep.violation("bypass attempt `%s` on a %s newtype (%s) compiles" % (desc["attack"], desc["shape"], desc.get("where", desc.get("vis"))), payload)
        elif (not expect_rejected) and rejected:
            rep.violation("legal use `%s` on a %s newtype is refused: %s" % (desc["attack"], desc["shape"], dropped[mid][0][:160]), payload, no_input=True)
    # the feature gate of new_unchecked: a second crate whose nutype dependency lacks the feature
    gate = attacks.gen_gate_modules()
    ws2 = runner.ModuleWorkspace("attack_gate", [f for f in runner.FEATURES_ALL if f != "new_unchecked"], nshards=4)
    dropped2 = ws2.verdicts([(m[0], m[1]) for m in gate])
    for mid, text, expect_rejected, desc in gate:
        n += 1
        rejected = mid in dropped2
        key = (desc["attack"], "rejected" if rejected else "compiles")
        by_attack[key] = by_attack.get(key, 0) + 1
        payload = {"kind": "attack", "module": text, "description": desc, "rustc": (dropped2.get(mid) or ["(compiles)"])[:3],
                   "reproduce": "put the module into a crate depending on nutype with features std, serde, regex, arbitrary (not new_unchecked) and run cargo check"}
        if expect_rejected and not rejected:
            rep.violation("`%s` with the flag %s on a %s newtype compiles although the crate feature new_unchecked is off"
                          % (desc["attack"], desc["flags"], desc["shape"]), payload)
        elif (not expect_rejected) and rejected:
            rep.violation("legal declaration of a %s newtype is refused when the new_unchecked feature is off: %s" % (desc["shape"], dropped2[mid][0][:160]), payload, no_input=True)
    mods = mods + gate
    # structural half: the real expansions against the inventory model
    n_inv = 0
    for wsname, decls in (("guard", guardcorpus.build_corpus(rng.fork("C01x"), tier)),
                          ("serde", corpus.gen_serde_decls(rng.fork("serde"), tier)),
                          ("arb", corpus.gen_arb_ints(rng.fork("arbint"), tier) + corpus.gen_arb_floats(rng.fork("arbfloat"), tier) + corpus.gen_arb_strs(rng.fork("arbstr"), tier)
                           + corpus.gen_arb_anys(rng.fork("arbany"), tier))):
        g = flows.GuardRun(wsname if tier == "quick" else wsname + "_t", decls)
        for d in decls:
            g.add_ops(d, [("inventory", "")])
        g.build()
        g.run_model()
        n_inv += inventory_check(g, rep, "c05")
    mixed_rules_must_be_refused(rep, rng, tier, "values are built without running the written built-in validators")
    rep.coverage["expansions_checked"] = n_inv
    rep.coverage.update({"evaluations": n + n_inv, "distinct_nontrivial": sum(1 for m in mods if m[2]),
                         "rule": "(structural) every emitted impl block and function of the real expansion (-Zunpretty=expanded parsed with syn) of the guard / serde / Arbitrary corpora: struct and field visibility, private module, no extra items, no &mut receiver / &mut return / mutable field access, direct construction only in try_new / new / unsafe new_unchecked, every other function returning the type calls try_new / new, derived impls = declared derives, re-exports = declared visibility, all compared with the inventory model; (behavioural) bypass catalogue (tuple / struct-literal construction, field read / write, destructuring, *t = .., as_mut, AsMut / BorrowMut / DerefMut, &mut *t, iter_mut, for x in &mut t, get_mut / push / clear through Deref, new_unchecked without flag / without unsafe, new / From beside validation, Default without default, private helper functions, naming the private module, naming a private newtype or its error types from outside) x declaration shapes (int, String, Vec, float, validation-free; with / without new_unchecked) x position (sibling module / declaring module); each program is its own module, rustc's verdicts collected by iterated builds; legal twins must compile",
                         "verdicts_by_attack": {"%s/%s" % k: v for k, v in sorted(by_attack.items())}, "exhaustive": True})
    rep.samples.append({"attack": mods[0][3], "verdict": "rejected" if mods[0][0] in dropped else "compiles"})


PROPS = {
    "C01": (["Props/C01.v"], c01, ["bound expressions evaluate without overflow (corpus keeps them in range)",
                                   "user closures are total functions (library of harness/rtgen.py)",
                                   "Unicode tables are read off this toolchain's std (harness/unigen) and re-checked against std::str on every string of the corpus"]),
    "C07": (["Props/C07.v"], c07, ["float comparisons with NaN operands are outside C07_first (hypothesis `comparable`), recorded as a known finding",
                                   "variant names are read through a wildcard-free match generated per declaration"]),
    "C03": (["Props/C03.v"], c03, ["conversions are compared on thinned C01 input domains",
                                   "Default is observed under catch_unwind"]),
    "C14": (["Props/C14.v"], c14, ["arbitrary 1.3.2 int_in_range is modelled (Sem/Bytes.v) and validated by this exhaustive enumeration",
                                   "declarations with a custom sanitizer are outside C14_surjective (d_sans = []) and are not enumerated"]),
    "C09": (["Props/C09.v"], c09, ["arbitrary 1.3.2 primitives (fill_buffer, int_in_range, char) are modelled, not verified",
                                   "String::arbitrary / f32::arbitrary of declarations without validation: only totality is observed",
                                   "float generator: partial (see DESIGN 5 C09), recorded classes"]),
    "C12": (["Props/C12.v"], c12, ["lib_typed: user sanitizers return a float when given a float (enforced by rustc)",
                                   "IEEE semantics by Flocq Bcompare; order laws proved without reals (SpecFloat.SFcompare)"]),
    "C13": (["Props/C13.v"], c13, ["views are compared with the inner value inside the Rust process (bitwise for floats)",
                                   "hashes use std DefaultHasher with fixed keys"]),
    "C16": (["Props/C16.v"], c16, ["decimal rendering of the echoed bound ({:#?}) is not modelled: the harness checks that the echoed text denotes the bound",
                                   "serde error text is checked by the C04 run"]),
    "C11": (["Props/C11.v", "Lemmas/UnicodeLemmas.v"], c11, ["Unicode tables are read off this toolchain's std by harness/unigen (regenerated in --setup); trim / case algorithms re-implemented in Gallina and diffed against std on every string of the corpus",
                                   "mixed built-in + custom sanitizer chains are outside the statement",
                                   "Display / Deserialize re-entry for non-string inner types relies on parse(display x) = x of the inner type (oracle)"]),
    "C04": (["Props/C04.v"], c04, ["serde_json / ron / rmp-serde and the inner type's Deserialize are third-party code: their real results are the oracle (partial)",
                                   "the model covers the glue: inner-then-constructor, error path, newtype-only visitor"]),
    "C10": (["Props/C10.v"], c10, ["formats are third-party code (partial); wrap/unwrap of the newtype-struct layer is a parameter with unwrap (wrap x) = x",
                                   "round trip is required only when the inner value itself round-trips in the format"]),
    "C08": (["Props/C08.v"], c08, ["rustc's verdict is read from cargo JSON diagnostics attributed to declarations by span",
                                   "typing of bound expressions, derive dependencies and const-fn bodies are rustc rules modelled in Macro/Validate.rustc_checks",
                                   "the regex crate decides the validity of regex literals (oracle table regex_lib)"]),
    "C02": (["Props/C02.v"], c02, ["float literal values are Rust's decimal parse of the literal text (computed by the harness with exact rational rounding and checked here against the real behaviour)",
                                   "repeated blocks and malformed attributes are covered by the verdict corpus of C08"]),
    "C15": (["Props/C15.v"], c15, ["name resolution is rustc's; the theorem is over the inventory abstraction (path roots of the emitted items)",
                                   "the build probe enables ERROR_IN_CORE on this toolchain (rustc >= 1.81)"]),
    "C05": (["Props/C05.v"], c05, ["rustc's privacy, borrow and unsafety rules are assumed, not modelled",
                                   "inner types with interior mutability and user closures spliced inside the private module are outside the statement"]),
    "C06": (["Props/C06.v"], c06, ["the inner type's FromStr is an oracle (its real result is given to the model)",
                                   "`Any`/generic inner types with FromStr are not in the corpus yet"]),
}


ZOO_PROPS = ("C01", "C03", "C04", "C06", "C09", "C10", "C11", "C12", "C13", "C14")


def zoo_part(rep, pid):
    """inner types outside the modelled families (harness/zoo): in-process comparison with the
    inner value or a hand-written reference; the lines of this property only"""
    ok, res = flows.run_zoo()
    if not ok:
        rep.violation("the declarations over other inner types (harness/zoo) no longer build or run: %s" % res[-300:],
                      {"kind": "zoo-build", "stderr": res}, no_input=True)
        return
    mine = res.get(pid, [])
    bad = [m for m in mine if not m[2]]
    rep.coverage["other_inner_types"] = {"checks": len(mine), "failed": len(bad),
                                         "types": sorted({m[0] for m in mine}),
                                         "rule": "Vec<f64>, Option<f32>, Cow<str>, &str, a type parameter as inner type (at f64 / String), (i32, String), [u8; 4]: constructor vs a hand-written sanitize-then-validate reference, conversions vs the constructor, views / comparisons / hash vs the inner value, all inside one process"}
    seen = set()
    for ty, check, _, detail in bad:
        if (ty, check) in seen:
            continue
        seen.add((ty, check))
        rep.violation("%s of %s (inner type outside the modelled families) disagrees with the inner value / reference: %s" % (check, ty, detail),
                      {"kind": "zoo", "type": ty, "check": check, "detail": detail,
                       "reproduce": "cd harness/zoo && cargo run --offline | grep FAIL"})


def run_property(pid, tier, replay=None):
    if pid not in PROPS:
        print("unknown or unclaimed property", pid)
        return 2
    files, fn, assumptions = PROPS[pid]
    rep = Report(pid, tier)
    rep.replay_mode = replay is not None
    rng = Rng(seed()).fork(pid)
    proof_stage(rep, files)
    only = None
    if replay:
        j = json.load(open(replay))
        if "decl" in j:
            only = [Decl.from_json(j["decl"])]
    try:
        fn(tier, rng, rep, only)
        if only is None and pid in ZOO_PROPS:
            zoo_part(rep, pid)
    except RuntimeError as e:
        # the corpus could not be built or run against this tree (e.g. cargo fails with an error no
        # declaration can be blamed for): the correspondence cannot be established, which is reported,
        # not swallowed by a crash of the check
        import traceback
        msg = str(e)
        rep.violation("the correspondence run could not be completed on this tree: %s" % " ".join(msg.split())[:300],
                      {"kind": "harness", "error": msg[-6000:], "traceback": traceback.format_exc()[-3000:]}, no_input=True)
    return finish(rep, assumptions)
