"""Per-property checks: proof obligations (Props/Cnn.v) + correspondence + failing-input search."""
import os, sys, time, json, re
from common import *
import engine, flows, runner, guardcorpus, corpus
from syntax import val_sexp, Decl, FLOAT_TYPES

TRUSTED_BASE = [
    "Coq 8.16.1 kernel (coqc; vm_compute used in witnesses and table facts; no native_compute)",
    "Flocq 4.1.0 IEEE754.Binary/Bits as the semantics of f32/f64",
    "stdlib axioms reported by Print Assumptions for Flocq-dependent theorems: ClassicalDedekindReals.sig_not_dec, ClassicalDedekindReals.sig_forall_dec, FunctionalExtensionality.functional_extensionality_dep, Classical_Prop.classic",
    "hand-written Gallina model coq/{Base,Macro,Sem,Run} tied to /repo by the behavioural correspondence of this run",
    "extraction: ExtrOcamlBasic + ExtrOcamlString only (coq/Extract/Extract.v), cross-checked against vm_compute on a sample every run",
    "harness: corpus generator and Rust/S-expression renderers (harness/*.py), generated run() functions, outcome canonicaliser",
    "rustc 1.95 / syn 2.0.66 / proc-macro2 as pinned by /repo/Cargo.lock",
]
ALLOWED_AXIOMS = {
    "ClassicalDedekindReals.sig_not_dec", "ClassicalDedekindReals.sig_forall_dec",
    "FunctionalExtensionality.functional_extensionality_dep", "Classical_Prop.classic",
}


class Report:
    def __init__(self, pid, tier):
        self.pid, self.tier = pid, tier
        self.violations = []      # dict(kind, what, payload)
        self.known = {}           # class -> count
        self.notes = []
        self.coverage = {}
        self.samples = []
        self.replay_mode = False
        self.t0 = time.time()

    def violation(self, what, payload, no_input=False):
        if self.replay_mode and payload.get("kind") == "coverage":
            return
        self.violations.append({"what": what, "payload": payload, "no_input": no_input})

    def known_hit(self, cls, what):
        e = self.known.setdefault(cls, {"count": 0, "what": what})
        e["count"] += 1


def proof_stage(rep, prop_files):
    """hygiene gate + build of the property's theorems + axiom allow-list"""
    problems = engine.hygiene()
    ok, oblig, axioms, log_ = engine.theorem_status(prop_files)
    bad_axioms = [a for a in axioms if a not in ALLOWED_AXIOMS]
    rep.coverage.update({
        "obligations": len(oblig),
        "discharged": len(oblig) if (ok and not problems and not bad_axioms) else 0,
        "checker_cmd": "cd coq && coq_makefile -f _CoqProject -o Makefile && make " + " ".join(f[:-2] + ".vo" for f in prop_files),
        "trusted_base": TRUSTED_BASE,
        "theorems": oblig,
        "axioms_printed": axioms,
    })
    if problems:
        rep.proof_broken = "hygiene: " + "; ".join(problems[:5])
    elif not ok:
        m = re.search(r'File "([^"]+)", line (\d+).*?\n(Error:.*?)(?:\n\n|\Z)', log_, re.S)
        rep.proof_broken = "coq build failed: " + (("%s:%s %s" % (m.group(1), m.group(2), m.group(3)[:300])) if m else log_[-400:])
    elif bad_axioms:
        rep.proof_broken = "axioms outside the allow-list: " + ", ".join(bad_axioms)
    else:
        rep.proof_broken = None
    return rep.proof_broken is None


def finish(rep, assumptions):
    known = engine.load_known()
    listed = {(k["property"], k["class"]) for k in known.get("findings", [])}
    out_viol = []
    for cls, e in sorted(rep.known.items()):
        if (rep.pid, cls) in listed:
            print("KNOWN-FINDING: property=%s %s [%s, %d case(s) this run]" % (rep.pid, e["what"], cls, e["count"]))
        else:
            out_viol.append({"what": "unlisted finding class %s: %s" % (cls, e["what"]), "payload": e, "no_input": False})
    # minimise: one behavioural violation per declaration, the one with the shortest input first
    best = {}
    rest = []
    for v in rep.violations:
        pl = v["payload"]
        if pl.get("kind") == "behavioural" and "decl_id" in pl:
            key = (pl["decl_id"], pl.get("op"))
            if key not in best or len(str(pl.get("arg"))) < len(str(best[key]["payload"].get("arg"))):
                best[key] = v
        else:
            rest.append(v)
    rep.coverage["violating_cases"] = len(rep.violations)
    out_viol += sorted(best.values(), key=lambda v: (v["no_input"], len(str(v["payload"].get("arg"))))) + rest
    if rep.proof_broken and not out_viol:
        out_viol.append({"what": rep.proof_broken, "payload": {"kind": "proof-obligation", "detail": rep.proof_broken,
                                                               "theorem_files": rep.coverage.get("checker_cmd")},
                         "no_input": True})
    rep.coverage["samples"] = rep.samples[:8]
    rep.coverage["notes"] = rep.notes[:20]
    rep.coverage["known_finding_hits"] = {k: v["count"] for k, v in rep.known.items()}
    wall = time.time() - rep.t0
    engine.write_evidence(rep.pid, rep.tier, "proof", rep.coverage, wall, len(out_viol), assumptions)
    for i, v in enumerate(out_viol[:5]):
        payload = dict(v["payload"])
        payload.update({"property": rep.pid, "what": v["what"], "seed": seed(), "tier": rep.tier})
        path = engine.write_replay(rep.pid, i, payload)
        print("VIOLATION property=%s replay=%s%s" % (rep.pid, path, " no-failing-input-found" if v["no_input"] else ""))
    if len(out_viol) > 5:
        print("(%d further violations not listed)" % (len(out_viol) - 5))
    return 1 if out_viol else 0


def case_payload(c, g, extra=None):
    d = c.decl
    p = {"kind": "behavioural", "decl_id": d.id, "decl_rust": d.rust_struct(runner.fn_render(d.inner)) if False else None,
         "decl": d.to_json(), "op": c.op, "arg": c.arg, "impl": c.impl, "model": c.model, "spec": c.spec,
         "features": g.features,
         "reproduce": "./check %s --replay <this file>" % "Cnn"}
    p["decl_rust"] = runner.decl_module(d, None).split("pub fn run")[0]
    if extra:
        p.update(extra)
    return p


def is_nan_bits(bits, is64):
    e = (bits >> (52 if is64 else 23)) & ((1 << (11 if is64 else 8)) - 1)
    m = bits & ((1 << (52 if is64 else 23)) - 1)
    return e == (1 << (11 if is64 else 8)) - 1 and m != 0


def ok_err(o):
    """projection used by C01: Ok with value / Err (any variant) / other"""
    if o is None:
        return None
    if o.startswith("ok "):
        return o
    if o.startswith("err") or o.startswith("errc"):
        return "err"
    return o


def make_guard_run(tier, rng, alphabet=None, decls=None, ops_for=None, spec=True, wsname="guard"):
    decls = decls if decls is not None else guardcorpus.build_corpus(rng, tier)
    g = flows.GuardRun(wsname if tier == "quick" else wsname + "_t", decls)
    for d in decls:
        r = rng.fork(d.id)
        if ops_for:
            ops_for(g, d, r)
        else:
            op = guardcorpus.ctor_op(d)
            ins = guardcorpus.inputs_for(d, r, tier, alphabet)
            g.add_ops(d, [(op, val_sexp(v)) for v in ins], spec=spec)
    return g


def run_guard(g, rep, rng, release=False):
    dropped = g.build(release=release)
    g.run_impl(release=release)
    g.run_model()
    n, diffs = g.vm_crosscheck(rng.fork("vm"))
    rep.coverage["vm_compute_crosscheck"] = {"compared": n, "differences": len(diffs)}
    for cid, a, b in diffs[:3]:
        rep.violation("extracted model and vm_compute disagree on %s: %r vs %r" % (cid, a, b),
                      {"kind": "extraction-mismatch", "case": cid}, no_input=True)
    rep.coverage["timing"] = g.stats
    return dropped


# ------------------------------------------------------------------------------------- C01

def c01(tier, rng, rep, only=None):
    g = make_guard_run(tier, rng, decls=only)
    dropped = run_guard(g, rep, rng)
    if tier == "thorough":
        pass
    n_cases = n_ok = n_err = n_nontrivial = 0
    classes = {}
    seen_out = set()
    for d in g.decls:
        mv = g.model_verdict.get(d.id, "missing")
        if d.id in dropped:
            if not mv.startswith("reject"):
                rep.notes.append("declaration %s accepted by the model but rejected by rustc: %s" % (d.id, dropped[d.id][:1]))
            continue
        if mv.startswith("reject"):
            rep.notes.append("declaration %s rejected by the model (%s) but compiled" % (d.id, mv))
    for c in g.cases:
        if c.decl.id not in g.live or c.impl is None:
            continue
        n_cases += 1
        fam = c.decl.family()
        impl_p, model_p = ok_err(c.impl), ok_err(c.model)
        spec_o, _, cmpok = (c.spec or "").rpartition(" ")
        spec_p = ok_err(spec_o)
        key = (fam, "ok" if impl_p.startswith("ok") else impl_p)
        classes[key] = classes.get(key, 0) + 1
        if (c.decl.id, c.impl) not in seen_out:
            seen_out.add((c.decl.id, c.impl))
        if c.impl != "ok " + c.arg:
            n_nontrivial += 1
        if impl_p == "panic":
            rep.violation("constructor panicked on %s %s" % (c.op, c.arg), case_payload(c, g))
            continue
        if impl_p != spec_p:
            # the real constructor contradicts the specification
            if cmpok == "0" and fam == "float" and c.impl.startswith("ok (f "):
                rep.known_hit("float_nan_passes_bounds",
                              "float bound validators accept NaN when `finite` is not declared")
            else:
                rep.violation("%s(%s) returned %s but sanitize-then-validate requires %s" % (c.op, c.arg, c.impl, spec_o),
                              case_payload(c, g))
        elif impl_p != model_p:
            rep.violation("model and implementation differ on %s(%s): impl %s, model %s (spec agrees with impl)"
                          % (c.op, c.arg, c.impl, c.model), case_payload(c, g), no_input=True)
    rep.coverage.update({
        "evaluations": n_cases,
        "distinct_nontrivial": n_nontrivial,
        "rule": "deterministic covering corpus of declarations (family x inner type x sanitizer x ordered validator list x bound spelling x bound position x flags) with boundary-neighbourhood / exhaustive 8-bit / special-float / short-string inputs; non-trivial = outcome is not Ok(raw) (a sanitizer changed the value or a validator rejected); every case compared three ways: real try_new/new, extracted model, L3 specification",
        "declarations": len(g.decls), "declarations_compiled": len(g.live),
        "outcome_classes": {"%s/%s" % k: v for k, v in sorted(classes.items())},
        "exhaustive": False,
    })
    for c in g.cases[:: max(1, len(g.cases) // 6)][:6]:
        rep.samples.append({"decl": c.decl.id, "inner": c.decl.inner, "op": c.op, "arg": c.arg, "impl": c.impl, "model": c.model})
    for fam in ("int", "float", "str", "any"):
        for kind in ("ok", "err"):
            if not classes.get((fam, kind)):
                rep.violation("self-check: no %s/%s outcome was exercised" % (fam, kind), {"kind": "coverage"}, no_input=True)


# ------------------------------------------------------------------------------------- C07

def c07(tier, rng, rep, only=None):
    decls = only if only is not None else (guardcorpus.build_corpus(rng, tier) + corpus.gen_perm_decls(rng.fork("perm"), tier))
    if only is None:
        # the perm declarations live in their own workspace so that the shared guard build is reused
        g1 = make_guard_run(tier, rng, decls=[d for d in decls if "perm" not in d.tags])
        g2 = make_guard_run(tier, rng, decls=[d for d in decls if "perm" in d.tags], wsname="perm")
        runs = [g1, g2]
    else:
        runs = [make_guard_run(tier, rng, decls=decls, wsname="replay")]
    n_cases = n_err = n_multi = 0
    per_variant = {}
    for g in runs:
        dropped = run_guard(g, rep, rng)
        for did, msgs in dropped.items():
            mv = g.model_verdict.get(did, "")
            if not mv.startswith("reject"):
                # the wildcard-free match over the declared variants did not compile (or the
                # declaration itself was refused): the variant list may have changed
                txt = " | ".join(msgs)[:300]
                if "variant" in txt or "pattern" in txt or "E0004" in txt or "E0599" in txt or "non-exhaustive" in txt:
                    d = [x for x in g.decls if x.id == did][0]
                    rep.violation("generated error enum of %s does not have exactly the declared variants: %s" % (did, txt),
                                  {"kind": "variants", "decl": d.to_json(), "decl_rust": runner.decl_module(d, None).split("pub fn run")[0], "rustc": msgs[:3]})
                else:
                    rep.notes.append("declaration %s unexpectedly rejected: %s" % (did, txt))
        for c in g.cases:
            if c.decl.id not in g.live or c.impl is None:
                continue
            n_cases += 1
            spec_o, _, cmpok = (c.spec or "").rpartition(" ")
            if not (c.impl.startswith("err") or c.impl.startswith("errc")):
                continue
            n_err += 1
            per_variant[c.impl] = per_variant.get(c.impl, 0) + 1
            if c.impl != spec_o:
                if cmpok == "0" and c.decl.family() == "float":
                    rep.known_hit("float_nan_passes_bounds",
                                  "a NaN violates a bound's meaning but no bound check fires, so a later variant (or none) is reported")
                else:
                    rep.violation("%s(%s) reported %s but the first violated rule in written order is %s"
                                  % (c.op, c.arg, c.impl, spec_o), case_payload(c, g))
            elif c.impl != c.model:
                rep.violation("model and implementation differ on %s(%s): impl %s, model %s" % (c.op, c.arg, c.impl, c.model),
                              case_payload(c, g), no_input=True)
    rep.coverage.update({
        "evaluations": n_cases, "distinct_nontrivial": n_err,
        "rule": "guard corpus plus every permutation of the full built-in validator set per family (integers also with contradictory constant bounds); non-trivial = the constructor rejected; the reported variant is compared with the first violated validator of the L3 specification; the variant list is pinned by a wildcard-free match compiled per declaration",
        "rejections_by_variant": per_variant, "exhaustive": False,
    })
    for g in runs:
        for c in [c for c in g.cases if c.impl and c.impl.startswith("err")][:3]:
            rep.samples.append({"decl": c.decl.id, "op": c.op, "arg": c.arg, "impl": c.impl, "spec": c.spec})
    if n_err == 0:
        rep.violation("self-check: no rejection was exercised", {"kind": "coverage"}, no_input=True)


# ------------------------------------------------------------------------------------- C03

def c03(tier, rng, rep, only=None):
    def ops_for(g, d, r):
        info = runner.DeclInfo(d)
        ins = guardcorpus.inputs_for(d, r, tier)
        if d.family() == "int" and len(ins) > 64:
            ins = ins[:: max(1, len(ins) // 64)]
        if d.family() == "str" and len(ins) > 80:
            ins = ins[:: max(1, len(ins) // 80)]
        ctor = guardcorpus.ctor_op(d)
        ops = []
        for v in ins:
            a = val_sexp(v)
            ops.append((ctor, a))
            if "TryFrom" in info.traits:
                ops.append(("try_from", a))
                if d.inner == "String":
                    ops.append(("try_from_ref", a))
            if "From" in info.traits:
                ops.append(("from", a))
                if d.inner == "String":
                    ops.append(("from_ref", a))
            if "FromStr" in info.traits and d.inner == "String":
                ops.append(("from_str_s", a))
        if getattr(d, "default_arg", None) is not None and "Default" in info.traits:
            ops.append((ctor, val_sexp(d.default_arg)))
            ops.append(("default", ""))
        g.add_ops(d, ops)
    g = make_guard_run(tier, rng, decls=only, ops_for=ops_for, spec=False)
    run_guard(g, rep, rng)
    n = nconv = 0
    kinds = {}
    for d in g.decls:
        if d.id not in g.live:
            continue
        last_ctor = None
        for c in g.by_decl.get(d.id, []):
            if c.impl is None:
                continue
            n += 1
            if c.op in ("try_new", "new"):
                last_ctor = c
                if c.impl != c.model:
                    rep.notes.append("constructor differs from model on %s %s (C01's concern)" % (d.id, c.arg))
                continue
            nconv += 1
            kinds[c.op] = kinds.get(c.op, 0) + 1
            if c.op == "default":
                exp = last_ctor.impl if last_ctor.impl.startswith("ok") else "panic"
            else:
                exp = last_ctor.impl
            if c.impl != exp:
                rep.violation("%s(%s) returned %s but the constructor returns %s for the same input"
                              % (c.op, last_ctor.arg, c.impl, last_ctor.impl), case_payload(c, g, {"constructor": last_ctor.impl}))
            elif c.impl != c.model:
                rep.violation("model and implementation differ on %s(%s): impl %s, model %s" % (c.op, c.arg, c.impl, c.model),
                              case_payload(c, g), no_input=True)
    rep.coverage.update({"evaluations": n, "distinct_nontrivial": nconv,
                         "rule": "every derived conversion (TryFrom/From from the inner type and from &str, string FromStr, Default) is run next to the canonical constructor on the same input (inputs of the C01 domains, thinned) and must return the identical outcome, error variant included; Default is compared with the constructor applied to the declared default (panic when rejected)",
                         "conversions_by_kind": kinds, "exhaustive": False})
    for c in [c for c in g.cases if c.op not in ("try_new", "new")][:: max(1, nconv // 6)][:6]:
        rep.samples.append({"decl": c.decl.id, "op": c.op, "arg": c.arg, "impl": c.impl})
    for k in ("try_from", "from", "from_str_s", "default", "try_from_ref", "from_ref"):
        if not kinds.get(k):
            rep.violation("self-check: conversion %s was not exercised" % k, {"kind": "coverage"}, no_input=True)


# ------------------------------------------------------------------------------------- C06

def numeric_strings(d, rng):
    from syntax import INT_TYPES, ity_min, ity_max, bits_to_frac
    out = ["", " ", "abc", "+", "-", "--1", "1 ", " 1", "+5", "-0", "007", "0x10", "1_000", "1e3", "NaN", "nan",
           "inf", "-inf", "infinity", "+inf", "1e400", "-1e400", "1e-400", "0.1", ".5", "5.", "1.0", "-1.5",
           "١٢", "5\u00a0".encode().decode("unicode_escape"), "99999999999999999999999999999999999999999", "-99999999999999999999999999999999999999999",
           "340282366920938463463374607431768211455", "340282366920938463463374607431768211456",
           "-170141183460469231731687303715884105728", "-170141183460469231731687303715884105729", "3.4028235e38", "3.4028236e38",
           "1.7976931348623157e308", "1.7976931348623159e308", "4.9e-324", "2e-324", "7", "7.0", "100", "101", "-0.0"]
    if d.inner in INT_TYPES:
        lo, hi = ity_min(d.inner), ity_max(d.inner)
        for b in list(getattr(d, "bounds", [])) + [lo, hi, 0]:
            for dl in (-1, 0, 1):
                out.append(str(b + dl))
        out += [str(lo - 1), str(hi + 1)]
        for _ in range(6):
            out.append(str(rng.range(lo, hi)))
    else:
        is64 = FLOAT_TYPES[d.inner]
        for b in getattr(d, "bounds", []):
            fr = bits_to_frac(b, is64)
            if fr is not None:
                out.append(repr(float(fr)))
                out.append(repr(float(fr) + 0.5))
        for _ in range(6):
            out.append("%d.%d" % (rng.range(-200, 200), rng.below(1000)))
    for _ in range(4):
        out.append("".join(chr(rng.choice([48, 49, 57, 45, 46, 101, 32, 0x663, 0xff11, 0x7f])) for _ in range(rng.range(1, 6))))
    return out


def c06(tier, rng, rep, only=None):
    def ops_for(g, d, r):
        info = runner.DeclInfo(d)
        if d.family() not in ("int", "float") or "FromStr" not in info.traits:
            return
        g.add_ops(d, [("from_str", val_sexp(("s", s))) for s in numeric_strings(d, r)])
    g = make_guard_run(tier, rng, decls=only, ops_for=ops_for, spec=False)
    run_guard(g, rep, rng)
    n = 0
    cls = {}
    for c in g.cases:
        if c.decl.id not in g.live or c.impl is None:
            continue
        n += 1
        ctor = c.extra[0] if c.extra else None
        if c.impl == "panic":
            rep.violation("from_str(%s) panicked" % c.arg, case_payload(c, g))
            continue
        exp = "parse_err" if c.oracle == "none" else ctor
        k = "parse_err" if c.impl == "parse_err" else ("ok" if c.impl.startswith("ok") else "validate_err")
        cls[(c.decl.family(), k)] = cls.get((c.decl.family(), k), 0) + 1
        if c.impl != exp:
            rep.violation("from_str(%s) returned %s; inner parse gives %s and the constructor gives %s"
                          % (c.arg, c.impl, c.oracle, ctor), case_payload(c, g, {"inner_parse": c.oracle, "constructor": ctor}))
        elif c.impl != c.model:
            rep.violation("model and implementation differ on from_str(%s): impl %s, model %s" % (c.arg, c.impl, c.model),
                          case_payload(c, g), no_input=True)
    rep.coverage.update({"evaluations": n, "distinct_nontrivial": sum(v for (f, k), v in cls.items() if k != "ok"),
                         "rule": "integer and float declarations deriving FromStr; strings = decimal renderings of every bound and extreme +-1, overflowing digit strings, signs, whitespace, NaN/inf/-0/1e400, empty, non-numeric, non-ASCII digits, random; the real from_str is compared with <Inner as FromStr>::from_str followed by the real constructor (computed in the same process) and with the model fed the real inner-parse result",
                         "outcome_classes": {"%s/%s" % k: v for k, v in sorted(cls.items())}, "exhaustive": False})
    for c in g.cases[:: max(1, len(g.cases) // 6)][:6]:
        rep.samples.append({"decl": c.decl.id, "inner": c.decl.inner, "arg": c.arg, "impl": c.impl, "inner_parse": c.oracle})
    for fam in ("int", "float"):
        for k in ("parse_err", "ok", "validate_err"):
            if not cls.get((fam, k)):
                rep.violation("self-check: no %s/%s outcome" % (fam, k), {"kind": "coverage"}, no_input=True)


PROPS = {
    "C01": (["Props/C01.v"], c01, ["bound expressions evaluate without overflow (corpus keeps them in range)",
                                   "user closures are total functions (library of harness/rtgen.py)",
                                   "String sanitizers checked on the ASCII alphabet until Unicode tables are wired"]),
    "C07": (["Props/C07.v"], c07, ["float comparisons with NaN operands are outside C07_first (hypothesis `comparable`), recorded as a known finding",
                                   "variant names are read through a wildcard-free match generated per declaration"]),
    "C03": (["Props/C03.v"], c03, ["conversions are compared on thinned C01 input domains",
                                   "Default is observed under catch_unwind"]),
    "C06": (["Props/C06.v"], c06, ["the inner type's FromStr is an oracle (its real result is given to the model)",
                                   "`Any`/generic inner types with FromStr are not in the corpus yet"]),
}


def run_property(pid, tier, replay=None):
    if pid not in PROPS:
        print("unknown or unclaimed property", pid)
        return 2
    files, fn, assumptions = PROPS[pid]
    rep = Report(pid, tier)
    rep.replay_mode = replay is not None
    rng = Rng(seed()).fork(pid)
    proof_stage(rep, files)
    only = None
    if replay:
        j = json.load(open(replay))
        if "decl" in j:
            only = [Decl.from_json(j["decl"])]
    fn(tier, rng, rep, only)
    return finish(rep, assumptions)
