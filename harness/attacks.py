"""The bypass catalogue of C05: client programs that try to create or mutate a newtype value
without passing the guards.  Every attack must be REJECTED by rustc; every legal twin must
compile (so that a rejection is not an artefact of the harness)."""
from syntax import *
from corpus import *
import runner

SHAPES = {
    # name: (inner, attribute blocks, value expr for a valid ctor call, has_validation)
    "int": ("i32", lambda: [block("sanitize", [[tid("with"), EQ, tfn(0, "p", "s")]]),
                            block("validate", [[tid("greater"), EQ, tx(lit("1"))]]),
                            [tid("default"), EQ, tx(lit("5"))],
                            derive_block(["Debug", "Clone", "Copy", "PartialEq", "AsRef", "Deref", "Borrow", "Into", "TryFrom", "Display", "Default", "FromStr"])], "5"),
    "str": ("String", lambda: [block("sanitize", [[tid("trim")]]),
                               block("validate", [[tid("not_empty")]]),
                               derive_block(["Debug", "Clone", "PartialEq", "AsRef", "Deref", "Borrow", "Into", "TryFrom", "Display", "FromStr"])], '"ab"'),
    "vec": ("Vec<i32>", lambda: [block("validate", [[tid("predicate"), EQ, tfn(0, "p", "p")]]),
                                 derive_block(["Debug", "Clone", "PartialEq", "AsRef", "Deref", "Borrow", "Into", "TryFrom", "IntoIterator"])], "vec![1, 2]"),
    "float": ("f64", lambda: [block("validate", [[tid("finite")]]),
                              derive_block(["Debug", "Clone", "Copy", "PartialEq", "Eq", "PartialOrd", "Ord", "AsRef", "Deref", "Borrow", "Into", "TryFrom"])], "1.5"),
    "novalid": ("i32", lambda: [block("sanitize", [[tid("with"), EQ, tfn(0, "p", "s")]]),
                                derive_block(["Debug", "Clone", "AsRef", "Deref", "Borrow", "Into", "From"])], "5"),
}

# (name, body using `t` (a valid mutable value) and the type `T`, shapes it applies to, legal?)
ATTACKS = [
    ("tuple_ctor", "let x = T({RAW});", None, False),
    ("tuple_ctor_path", "let x = decl::T({RAW});", None, False),
    ("struct_literal", "let x = T { 0: {RAW} };", None, False),
    ("field_read", "let x = &t.0;", None, False),
    ("field_write", "t.0 = {RAW};", None, False),
    ("destructure", "let T(x) = t;", None, False),
    ("destructure_ref_mut", "let T(ref mut x) = t;", None, False),
    ("deref_assign", "*t = {RAW};", None, False),
    ("as_mut", "let r: &mut {INNER} = t.as_mut();", None, False),
    ("as_mut_trait", "let r: &mut {INNER} = ::core::convert::AsMut::<{INNER}>::as_mut(&mut t);", None, False),
    ("borrow_mut", "let r: &mut {INNER} = ::core::borrow::BorrowMut::<{INNER}>::borrow_mut(&mut t);", None, False),
    ("deref_mut", "let r: &mut {INNER} = ::core::ops::DerefMut::deref_mut(&mut t);", None, False),
    ("deref_mut_auto", "let r: &mut {INNER} = &mut *t;", None, False),
    ("iter_mut", "for x in t.iter_mut() { *x = 0; }", ["vec"], False),
    ("for_mut", "for x in &mut t { *x = 0; }", ["vec"], False),
    ("get_mut", "if let Some(x) = t.get_mut(0) { *x = 0; }", ["vec"], False),
    ("push_through_deref", "t.push(7);", ["vec"], False),
    ("string_push_through_deref", "t.push('x');", ["str"], False),
    ("string_clear", "t.clear();", ["str", "vec"], False),
    ("new_unchecked_no_flag", "let x = unsafe { T::new_unchecked({RAW}) };", None, False),
    ("new_without_validation_only", "let x = T::new({RAW});", ["int", "str", "vec", "float"], False),
    ("from_with_validation", "let x = T::from({RAW});", ["int", "str", "vec", "float"], False),
    ("default_not_derived", "let x = <T as ::core::default::Default>::default();", ["str", "vec", "float", "novalid"], False),
    ("call_private_sanitize", "let x = T::__sanitize__({RAW});", None, False),
    ("call_private_validate", "let x = T::__validate__(&{RAW_OWNED});", ["int", "str", "vec", "float"], False),
    ("name_private_module", "let x: decl::__nutype_T__::T = t;", None, False),
    # legal twins
    ("legal_ctor", "let x = {CTOR};", None, True),
    ("legal_into_inner", "let x: {INNER} = t.into_inner();", None, True),
    ("legal_as_ref_deref", "let a: &{INNER} = &*t; let b = t.as_ref();", None, True),
    ("legal_clone", "let x = t.clone();", None, True),
    ("legal_iter", "for x in &t { let _ = x; } for x in t.clone() { let _ = x; }", ["vec"], True),
    ("legal_default", "let x = T::default();", ["int"], True),
    ("legal_swap", "let mut u = {CTOR}; ::core::mem::swap(&mut t, &mut u);", None, True),
]


def gen_attack_modules(tier):
    """returns list of (id, rust module text, expect_rejected, description dict)"""
    out = []
    n = 0
    for sname, (inner, mk, raw) in SHAPES.items():
        has_val = sname != "novalid"
        fr = runner.fn_render(inner)
        for flags in ("plain", "unchecked"):
            blocks = mk()
            if flags == "unchecked":
                blocks = [[tid("new_unchecked")]] + blocks
            attr_text = runner.toks_rust(attr(blocks), fr)
            ctor = ("T::try_new(%s).unwrap()" % raw) if has_val else ("T::new(%s)" % raw)
            raw_owned = raw if inner != "String" else "String::from(%s)" % raw
            cat = list(ATTACKS)
            if flags == "unchecked":
                cat = [("new_unchecked_without_unsafe", "let x = T::new_unchecked({RAW_OWNED});", None, False),
                       ("legal_new_unchecked_unsafe", "let x = unsafe { T::new_unchecked({RAW_OWNED}) };", None, True),
                       ("tuple_ctor", "let x = T({RAW});", None, False), ("field_write", "t.0 = {RAW};", None, False)]
            for aname, body, shapes, legal in cat:
                if shapes is not None and sname not in shapes:
                    continue
                for where in ("sibling", "same_module"):
                    if where == "same_module" and aname in ("tuple_ctor_path", "name_private_module"):
                        continue
                    b = (body.replace("{RAW_OWNED}", raw_owned).replace("{RAW}", raw).replace("{INNER}", inner).replace("{CTOR}", ctor))
                    fn = "    pub fn attack() { let mut t = %s; %s }\n" % (ctor, b)
                    if where == "sibling":
                        text = ("pub mod k%d {\n    #![allow(dead_code, unused_imports, unused_variables, unused_mut, unused_unsafe, unused_assignments)]\n"
                                "    pub mod decl {\n        use super::super::rt::*;\n        use nutype::nutype;\n        #[nutype(%s)]\n        pub struct T(%s);\n    }\n"
                                "    use decl::T;\n%s}\n" % (n, attr_text, inner, fn))
                    else:
                        text = ("pub mod k%d {\n    #![allow(dead_code, unused_imports, unused_variables, unused_mut, unused_unsafe, unused_assignments)]\n"
                                "    use super::rt::*;\n    use nutype::nutype;\n    #[nutype(%s)]\n    pub struct T(%s);\n    mod decl { pub use super::T; }\n%s}\n" % (n, attr_text, inner, fn))
                    out.append(("k%d" % n, text, not legal, {"shape": sname, "flags": flags, "attack": aname, "where": where, "legal": legal}))
                    n += 1
    # visibility of the type and of its error types
    for vis, vis_txt in (("priv", ""), ("pub_crate", "pub(crate) "), ("pub", "pub ")):
        for what, use in (("type", "let x: Option<a::P> = None;"), ("error_type", "let x: Option<a::PError> = None;"),
                          ("parse_error_type", "let x: Option<a::PParseError> = None;")):
            text = ("pub mod k%d {\n    #![allow(dead_code, unused_imports, unused_variables)]\n"
                    "    mod a {\n        use nutype::nutype;\n        #[nutype(validate(greater = 1), derive(Debug, FromStr))]\n        %sstruct P(i32);\n    }\n"
                    "    pub fn attack() { %s }\n}\n" % (n, vis_txt, use))
            out.append(("k%d" % n, text, vis == "priv", {"shape": "visibility", "vis": vis, "attack": "name_" + what, "legal": vis != "priv"}))
            n += 1
    # nested modules: kN { mod outer { pub mod a { <vis> struct P } fn inside() } fn attack() }
    VIS = [("priv", "", 0), ("pub_self", "pub(self) ", 0), ("pub_super", "pub(super) ", 1), ("pub_in_grandparent", "pub(in super::super) ", 2),
           ("pub_crate", "pub(crate) ", 2), ("pub", "pub ", 2)]        # reach: 0 = a only, 1 = outer, 2 = kN and beyond
    for vis, vis_txt, reach in VIS:
        for what, ty in (("type", "P"), ("error_type", "PError"), ("parse_error_type", "PParseError")):
            for pos, need in (("from_parent_module", 1), ("from_grandparent_module", 2)):
                legal = reach >= need
                use = "let x: Option<%s%s> = None;" % ("a::" if pos == "from_parent_module" else "outer::a::", ty)
                inside = use if pos == "from_parent_module" else ""
                outside = use if pos == "from_grandparent_module" else ""
                text = ("pub mod k%d {\n    #![allow(dead_code, unused_imports, unused_variables)]\n"
                        "    mod outer {\n        pub mod a {\n            use nutype::nutype;\n            #[nutype(validate(greater = 1), derive(Debug, FromStr))]\n            %sstruct P(i32);\n        }\n"
                        "        pub fn inside() { %s }\n    }\n    pub fn attack() { %s }\n}\n" % (n, vis_txt, inside, outside))
                out.append(("k%d" % n, text, not legal, {"shape": "visibility_nested", "vis": vis, "attack": "name_%s_%s" % (what, pos), "where": pos, "legal": legal}))
                n += 1
        # the hidden module is never nameable from outside the declaring module, whatever the visibility
        for pos, path in (("from_parent_module", "a::__nutype_P__::P"), ("from_grandparent_module", "outer::a::__nutype_P__::P")):
            use = "let x: Option<%s> = None;" % path
            text = ("pub mod k%d {\n    #![allow(dead_code, unused_imports, unused_variables)]\n"
                    "    mod outer {\n        pub mod a {\n            use nutype::nutype;\n            #[nutype(validate(greater = 1), derive(Debug, FromStr))]\n            %sstruct P(i32);\n        }\n"
                    "        pub fn inside() { %s }\n    }\n    pub fn attack() { %s }\n}\n" % (n, vis_txt, use if pos == "from_parent_module" else "", use if pos != "from_parent_module" else ""))
            out.append(("k%d" % n, text, True, {"shape": "visibility_nested", "vis": vis, "attack": "name_hidden_module_" + pos, "where": pos, "legal": False}))
            n += 1
    return out + gen_foreign_attr_modules()


def gen_foreign_attr_modules():
    """attributes below #[nutype(..)] that would let rustc's own derives (which see the private
    field) build the type without the guards; a doc comment is the legal twin"""
    out = []
    n = 0
    cases = [("foreign_derive_default", "#[derive(Default)]", "let x = T::default();", False),
             ("foreign_pathed_derive_default", "#[::core::prelude::v1::derive(Default)]", "let x = T::default();", False),
             ("foreign_core_derive_default", "#[core::prelude::rust_2021::derive(Default)]", "let x = T::default();", False),
             ("foreign_derive_deserialize", "#[derive(serde::Deserialize)]", "let x: T = serde_json::from_str(\"0\").unwrap();", False),
             ("foreign_pathed_derive_deserialize", "#[::serde::Deserialize]", "let x = 0;", False),
             ("foreign_cfg_attr_derive", "#[cfg_attr(all(), derive(Default))]", "let x = T::default();", False),
             ("legal_doc_comment", "/// a documented newtype", "let x = T::try_new(5).unwrap();", True),
             ("legal_doc_attribute", "#[doc = \"a documented newtype\"]", "let x = T::try_new(5).unwrap();", True)]
    for aname, attr_line, body, legal in cases:
        for inner, rule in (("i32", "validate(greater = 0)"), ("f64", "validate(finite)")):
            b = body.replace("try_new(5)", "try_new(5.0)") if inner == "f64" else body
            text = ("pub mod y%d {\n    #![allow(dead_code, unused_imports, unused_variables)]\n"
                    "    pub mod decl {\n        use nutype::nutype;\n        #[nutype(%s, derive(Debug))]\n        %s\n        pub struct T(%s);\n    }\n"
                    "    use decl::T;\n    pub fn attack() { %s }\n}\n" % (n, rule, attr_line, inner, b))
            out.append(("y%d" % n, text, not legal, {"shape": "int" if inner == "i32" else "float", "flags": "plain", "attack": aname, "where": "attribute below #[nutype]", "legal": legal}))
            n += 1
    return out


def gen_gate_modules():
    """modules for a crate whose nutype dependency has the new_unchecked feature OFF: the flag
    must be refused however it is placed; the same declarations without the flag must compile"""
    out = []
    n = 0
    for sname, (inner, mk, raw) in SHAPES.items():
        has_val = sname != "novalid"
        fr = runner.fn_render(inner)
        raw_owned = raw if inner != "String" else "String::from(%s)" % raw
        ctor = ("T::try_new(%s).unwrap()" % raw) if has_val else ("T::new(%s)" % raw)
        for place in ("none", "first", "last"):
            blocks = mk()
            if place == "first":
                blocks = [[tid("new_unchecked")]] + blocks
            elif place == "last":
                blocks = blocks + [[tid("new_unchecked")]]
            attr_text = runner.toks_rust(attr(blocks), fr)
            uses = [("declare_only", "let t = %s;" % ctor)]
            if place != "none":
                uses.append(("call_unsafe", "let x = unsafe { T::new_unchecked(%s) };" % raw_owned))
                uses.append(("fn_pointer", "let f: unsafe fn(%s) -> T = T::new_unchecked;" % inner))
            else:
                uses.append(("call_unsafe_no_flag", "let x = unsafe { T::new_unchecked(%s) };" % raw_owned))
            for uname, body in uses:
                legal = place == "none" and uname == "declare_only"
                text = ("pub mod q%d {\n    #![allow(dead_code, unused_imports, unused_variables, unused_mut, unused_unsafe)]\n"
                        "    pub mod decl {\n        use super::super::rt::*;\n        use nutype::nutype;\n        #[nutype(%s)]\n        pub struct T(%s);\n    }\n"
                        "    use decl::T;\n    pub fn attack() { %s }\n}\n" % (n, attr_text, inner, body))
                out.append(("q%d" % n, text, not legal, {"shape": sname, "flags": "new_unchecked:" + place, "attack": "feature_off_" + uname,
                                                          "where": "crate without the new_unchecked feature", "legal": legal}))
                n += 1
    return out
