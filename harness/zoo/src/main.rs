//! Inner types beyond the modelled families (float-containing collections, Option, Cow, &str, a
//! type parameter as the inner type, tuples, arrays): every check compares the newtype with the
//! inner value inside this process, or with a hand-written sanitize-then-validate reference.
//! One line per check: `zoo <property> <type> <check> ok` or `... FAIL <detail>`.
#![allow(dead_code, unused_macros, clippy::all)]
use nutype::nutype;
use std::borrow::{Borrow, Cow};
use std::collections::hash_map::DefaultHasher;
use std::hash::{Hash, Hasher};

fn hash_of<T: Hash + ?Sized>(t: &T) -> u64 {
    let mut h = DefaultHasher::new();
    t.hash(&mut h);
    h.finish()
}

fn report(prop: &str, ty: &str, check: &str, ok: bool, detail: String) {
    if ok {
        println!("zoo {} {} {} ok", prop, ty, check);
    } else {
        println!("zoo {} {} {} FAIL {}", prop, ty, check, detail.replace('\n', " "));
    }
}

// ---------------------------------------------------------------- declarations

fn sort_dedup_f(mut v: Vec<f64>) -> Vec<f64> {
    v.retain(|x| !x.is_infinite());
    v
}

#[nutype(
    sanitize(with = sort_dedup_f),
    validate(predicate = |v| !v.is_empty() && v.len() <= 4),
    derive(Debug, Clone, PartialEq, PartialOrd, AsRef, Deref, Into, TryFrom, Borrow, IntoIterator, Serialize, Deserialize)
)]
pub struct Samples(Vec<f64>);

#[nutype(derive(Debug, Clone, Copy, PartialEq, PartialOrd, AsRef, Deref, Into, From, Borrow, Default), default = None)]
pub struct MaybeF(Option<f32>);

#[nutype(
    validate(predicate = |s| !s.is_empty()),
    derive(Debug, Clone, PartialEq, Eq, PartialOrd, Ord, Hash, AsRef, Deref, Into, TryFrom, Borrow, Display)
)]
pub struct Label<'a>(Cow<'a, str>);

#[nutype(
    sanitize(with = |s: &'a str| s.trim()),
    validate(predicate = |s| s.len() >= 2),
    derive(Debug, Clone, Copy, PartialEq, Eq, PartialOrd, Ord, Hash, AsRef, Deref, Into, TryFrom, Borrow, Display)
)]
pub struct Tag<'a>(&'a str);

#[nutype(
    validate(predicate = |v| *v == *v),
    derive(Debug, Clone, PartialEq, PartialOrd, AsRef, Deref, Display, FromStr, Borrow)
)]
pub struct Reflexive<T: PartialEq>(T);

#[nutype(derive(Debug, Clone, PartialEq, PartialOrd, AsRef, Deref, Display, FromStr, Borrow))]
pub struct Plain<T>(T);

#[nutype(
    sanitize(with = |(a, b): (i32, String)| (a.clamp(0, 100), b.trim().to_string())),
    validate(predicate = |p| !p.1.is_empty()),
    derive(Debug, Clone, PartialEq, Eq, PartialOrd, Ord, Hash, AsRef, Deref, Into, TryFrom, Borrow)
)]
pub struct Pair((i32, String));

#[nutype(
    validate(predicate = |a| a[0] != 0),
    derive(Debug, Clone, Copy, PartialEq, Eq, PartialOrd, Ord, Hash, AsRef, Deref, Into, TryFrom, Borrow)
)]
pub struct Quad([u8; 4]);

// a default expression whose value depends on the call (history) / on the instantiation
static CTR: std::sync::atomic::AtomicUsize = std::sync::atomic::AtomicUsize::new(0);
fn next_default() -> Vec<i32> {
    match CTR.fetch_add(1, std::sync::atomic::Ordering::SeqCst) % 3 { 0 => vec![1], 1 => vec![], _ => vec![2] }
}

#[nutype(validate(predicate = |v| !v.is_empty()), default = next_default(), derive(Debug, Clone, PartialEq, Default, AsRef))]
pub struct Seq(Vec<i32>);

pub trait Seed { fn seed() -> Self; fn zero() -> Self; }
impl Seed for u64 { fn seed() -> Self { 5 } fn zero() -> Self { 0 } }
impl Seed for u8 { fn seed() -> Self { 0 } fn zero() -> Self { 0 } }
impl Seed for i16 { fn seed() -> Self { -1 } fn zero() -> Self { 0 } }

#[nutype(validate(predicate = |v| *v != T::zero()), default = T::seed(), derive(Debug, Clone, PartialEq, Default, AsRef))]
pub struct Packed<T: Seed + PartialEq>(T);

#[nutype(sanitize(with = |v: i64| v.clamp(0, 10)), validate(greater = 0), default = 50, derive(Debug, Clone, Copy, PartialEq, Default, AsRef))]
pub struct Lvl(i64);

// an inner type whose inherent `from_str` differs from its `FromStr` impl: the derived FromStr of
// the newtype must go through the trait
#[derive(Debug, Clone, PartialEq)]
pub struct Celsius(pub i32);
impl Celsius {
    pub fn from_str(s: &str) -> Result<Celsius, String> { s.trim_end_matches('C').parse::<i32>().map(Celsius).map_err(|e| e.to_string()) }
}
impl std::str::FromStr for Celsius {
    type Err = String;
    fn from_str(s: &str) -> Result<Self, Self::Err> { s.parse::<i32>().map(Celsius).map_err(|_| "not a number".to_string()) }
}
impl std::fmt::Display for Celsius {
    fn fmt(&self, f: &mut std::fmt::Formatter<'_>) -> std::fmt::Result { write!(f, "{}", self.0) }
}

#[nutype(validate(predicate = |c| c.0 > -273), derive(Debug, Clone, PartialEq, FromStr, AsRef, Display))]
pub struct Temp(Celsius);

#[nutype(derive(Debug, Clone, PartialEq, FromStr, AsRef))]
pub struct RawTemp(Celsius);

// owned deserialization of a lifetime-parameterised newtype
#[nutype(validate(predicate = |s| !s.is_empty()), derive(Debug, Clone, PartialEq, AsRef, Serialize, Deserialize))]
pub struct Note<'a>(Cow<'a, str>);

fn owned_roundtrip<T: serde::de::DeserializeOwned>(doc: String) -> Option<T> { serde_json::from_reader(doc.as_bytes()).ok() }

// user functions whose names an expansion might also want to use for its own helpers
fn default_value() -> i32 { 7 }
fn sanitize(v: i32) -> i32 { v.clamp(0, 50) }
fn validate(v: &i32) -> bool { *v != 13 }
fn inner() -> i32 { 3 }
fn value() -> i32 { 40 }

#[nutype(sanitize(with = sanitize), validate(predicate = validate, greater_or_equal = inner(), less_or_equal = value()), default = default_value(),
         derive(Debug, Clone, Copy, PartialEq, Default, TryFrom, AsRef))]
pub struct Helped(i32);

// ---------------------------------------------------------------- generic check pieces

macro_rules! pairwise {
    ($prop:expr, $ty:expr, $vals:expr, $mk:expr, [$($tr:ident),*]) => {{
        let vals = $vals;
        for (ai, a) in vals.iter().enumerate() {
            for (bi, b_) in vals.iter().enumerate() {
                let (ta, tb) = match ($mk(a.clone()), $mk(b_.clone())) { (Some(x), Some(y)) => (x, y), _ => continue };
                let (ia, ib) = (ta.clone().into_inner(), tb.clone().into_inner());
                $( pairwise!(@one $tr, $prop, $ty, ai, bi, ta, tb, ia, ib); )*
            }
        }
    }};
    (@one PartialEq, $p:expr, $ty:expr, $ai:expr, $bi:expr, $ta:expr, $tb:expr, $ia:expr, $ib:expr) => {
        report($p, $ty, "eq", ($ta == $tb) == ($ia == $ib) && ($ta != $tb) == ($ia != $ib), format!("pair {} {}", $ai, $bi));
        // the same object on both sides
        report($p, $ty, "eq_self", ($ta == $ta) == ($ia == $ia), format!("value {}", $ai));
    };
    (@one PartialOrd, $p:expr, $ty:expr, $ai:expr, $bi:expr, $ta:expr, $tb:expr, $ia:expr, $ib:expr) => {
        report($p, $ty, "partial_cmp", $ta.partial_cmp(&$tb) == $ia.partial_cmp(&$ib), format!("pair {} {}", $ai, $bi));
        report($p, $ty, "lt_le_gt_ge", ($ta < $tb, $ta <= $tb, $ta > $tb, $ta >= $tb) == ($ia < $ib, $ia <= $ib, $ia > $ib, $ia >= $ib), format!("pair {} {}", $ai, $bi));
    };
    (@one Ord, $p:expr, $ty:expr, $ai:expr, $bi:expr, $ta:expr, $tb:expr, $ia:expr, $ib:expr) => {
        report($p, $ty, "cmp", $ta.cmp(&$tb) == $ia.cmp(&$ib), format!("pair {} {}", $ai, $bi));
        report($p, $ty, "max_min", $ta.clone().max($tb.clone()).into_inner() == $ia.clone().max($ib.clone())
               && $ta.clone().min($tb.clone()).into_inner() == $ia.clone().min($ib.clone()), format!("pair {} {}", $ai, $bi));
    };
    (@one Hash, $p:expr, $ty:expr, $ai:expr, $bi:expr, $ta:expr, $tb:expr, $ia:expr, $ib:expr) => {
        report($p, $ty, "hash", hash_of(&$ta) == hash_of(&$ia), format!("value {}", $ai));
    };
}

pub static LEVEL_LIMIT: std::sync::atomic::AtomicI64 = std::sync::atomic::AtomicI64::new(3);
fn max_level() -> i64 { LEVEL_LIMIT.load(std::sync::atomic::Ordering::SeqCst) }
#[nutype(validate(greater_or_equal = 0, less_or_equal = max_level()), derive(Debug, Arbitrary))]
struct Level(i64);

#[nutype(validate(predicate = |v| v.len() <= 8), derive(Debug, Clone, PartialEq, Serialize, Deserialize, AsRef))]
struct Digest(Vec<u8>);

// an inner type with its own FromStr, behind a sanitizer and a validator
#[derive(Debug, Clone, Copy, PartialEq)]
pub struct Span { lo: i32, hi: i32 }
impl std::str::FromStr for Span {
    type Err = String;
    fn from_str(s: &str) -> Result<Self, String> {
        let (a, b_) = s.split_once("..").ok_or("no ..")?;
        Ok(Span { lo: a.parse::<i32>().map_err(|e| e.to_string())?, hi: b_.parse::<i32>().map_err(|e| e.to_string())? })
    }
}
#[nutype(sanitize(with = |s: Span| if s.lo <= s.hi { s } else { Span { lo: s.hi, hi: s.lo } }),
         validate(predicate = |s| (s.hi as i64 - s.lo as i64) <= 100),
         derive(Debug, Clone, Copy, PartialEq, FromStr, TryFrom, AsRef))]
struct Ordered(Span);
#[nutype(sanitize(with = |s: Span| if s.lo <= s.hi { s } else { Span { lo: s.hi, hi: s.lo } }), derive(Debug, Clone, Copy, PartialEq, FromStr, AsRef))]
struct OrderedFree(Span);

// an Option inner value on the wire
#[nutype(validate(predicate = |o| o.map_or(true, |a| a < 150)), derive(Debug, Clone, PartialEq, Serialize, Deserialize, AsRef))]
struct MaybeAge(Option<u8>);
#[derive(Debug, PartialEq, serde::Deserialize)]
struct AgeHolder { a: MaybeAge, rest: Vec<MaybeAge> }

// by-reference iteration hands out the items with the lifetime the inner collection gives them
#[nutype(derive(Debug, Clone, AsRef, IntoIterator))]
struct Words<'a>(Vec<&'a str>);
fn longest_inner<'a>(w: &Vec<&'a str>) -> &'a str { let mut best: &'a str = ""; for x in w { if x.len() > best.len() { best = *x; } } best }
fn longest<'a>(w: &Words<'a>) -> &'a str { let mut best: &'a str = ""; for x in w { if x.len() > best.len() { best = *x; } } best }

// a user trait in scope whose methods are named like the inherent float methods the expansion relies on
mod hostile {
    pub trait Finiteish { fn is_finite(&self) -> bool; fn is_nan(&self) -> bool; fn is_infinite(&self) -> bool; }
    impl Finiteish for f64 { fn is_finite(&self) -> bool { true } fn is_nan(&self) -> bool { false } fn is_infinite(&self) -> bool { false } }
    impl Finiteish for f32 { fn is_finite(&self) -> bool { true } fn is_nan(&self) -> bool { false } fn is_infinite(&self) -> bool { false } }
}
mod scoped {
    #![allow(unused_imports)]
    use super::hostile::Finiteish;
    use nutype::nutype;
    #[nutype(validate(finite), derive(Debug, Clone, Copy, PartialEq, Eq, PartialOrd, Ord, TryFrom, FromStr, AsRef))]
    pub struct Fin(f64);
    #[nutype(validate(finite, greater_or_equal = 0.0), derive(Debug, Clone, Copy, PartialEq, Eq, PartialOrd, Ord, TryFrom, AsRef))]
    pub struct Fin32(f32);
    pub fn trait_is_in_scope(x: &f64) -> bool { x.is_finite() }
}

fn bits_eq_vec(a: &[f64], b: &[f64]) -> bool {
    a.len() == b.len() && a.iter().zip(b).all(|(x, y)| x.to_bits() == y.to_bits())
}

fn main() {
    let nan = f64::NAN;
    // ------------------------------------------------------------ Samples(Vec<f64>)
    {
        let raws: Vec<Vec<f64>> = vec![vec![], vec![1.0], vec![nan], vec![1.0, nan], vec![0.0], vec![-0.0], vec![f64::INFINITY],
                                       vec![1.0, f64::INFINITY, 2.0], vec![1.0, 2.0, 3.0, 4.0], vec![1.0, 2.0, 3.0, 4.0, 5.0],
                                       vec![f64::INFINITY, 1.0, 2.0, 3.0, 4.0], vec![2.0, 1.0]];
        for (k, raw) in raws.iter().enumerate() {
            let reference: Result<Vec<f64>, ()> = { let s = sort_dedup_f(raw.clone()); if !s.is_empty() && s.len() <= 4 { Ok(s) } else { Err(()) } };
            let got = Samples::try_new(raw.clone());
            let same = match (&got, &reference) { (Ok(t), Ok(r)) => bits_eq_vec(t.as_ref(), r), (Err(_), Err(_)) => true, _ => false };
            report("C01", "Samples", "try_new", same, format!("input {}", k));
            let via = Samples::try_from(raw.clone());
            report("C03", "Samples", "try_from", match (&via, &got) { (Ok(a), Ok(b_)) => bits_eq_vec(a.as_ref(), b_.as_ref()), (Err(_), Err(_)) => true, _ => false }, format!("input {}", k));
            if let Ok(t) = &got {
                let i = t.clone().into_inner();
                report("C13", "Samples", "as_ref", bits_eq_vec(<Samples as AsRef<Vec<f64>>>::as_ref(t), &i), format!("input {}", k));
                report("C13", "Samples", "deref", bits_eq_vec(&**t, &i), format!("input {}", k));
                report("C13", "Samples", "borrow", bits_eq_vec(<Samples as Borrow<Vec<f64>>>::borrow(t), &i), format!("input {}", k));
                let conv: Vec<f64> = t.clone().into();
                report("C13", "Samples", "into", bits_eq_vec(&conv, &i), format!("input {}", k));
                report("C13", "Samples", "iter", bits_eq_vec(&t.clone().into_iter().collect::<Vec<_>>(), &i)
                       && bits_eq_vec(&(&*t).into_iter().cloned().collect::<Vec<_>>(), &i), format!("input {}", k));
                // serde: transparent, and the guards run again on the way in
                let js = serde_json::to_string(t).ok();
                let ji = serde_json::to_string(&i).ok();
                report("C10", "Samples", "serialize_transparent", js == ji, format!("input {}", k));
            }
            let doc = serde_json::to_string(raw).unwrap_or_default();
            if !raw.iter().any(|x| !x.is_finite()) {
                let de = serde_json::from_str::<Samples>(&doc);
                report("C04", "Samples", "deserialize", match (&de, &reference) { (Ok(t), Ok(r)) => bits_eq_vec(t.as_ref(), r), (Err(_), Err(_)) => true, _ => false }, format!("input {}", k));
            }
        }
        pairwise!("C13", "Samples", raws.clone(), |v: Vec<f64>| Samples::try_new(v).ok(), [PartialEq, PartialOrd]);
    }
    // ------------------------------------------------------------ MaybeF(Option<f32>)
    {
        let raws = vec![None, Some(0.0f32), Some(-0.0), Some(1.5), Some(f32::NAN), Some(f32::INFINITY), Some(f32::MIN_POSITIVE)];
        for (k, raw) in raws.iter().enumerate() {
            let t = MaybeF::new(*raw);
            let i = t.into_inner();
            let same = |a: &Option<f32>, b_: &Option<f32>| a.map(|x| x.to_bits()) == b_.map(|x| x.to_bits());
            report("C01", "MaybeF", "new", same(&i, raw), format!("input {}", k));
            report("C03", "MaybeF", "from", same(&MaybeF::from(*raw).into_inner(), raw), format!("input {}", k));
            report("C13", "MaybeF", "as_ref", same(<MaybeF as AsRef<Option<f32>>>::as_ref(&t), &i), format!("input {}", k));
            report("C13", "MaybeF", "deref", same(&*t, &i), format!("input {}", k));
            let c = t;
            report("C13", "MaybeF", "copy", same(&c.into_inner(), &i) && same(&t.into_inner(), &i), format!("input {}", k));
            let conv: Option<f32> = t.into();
            report("C13", "MaybeF", "into", same(&conv, &i), format!("input {}", k));
        }
        report("C03", "MaybeF", "default", MaybeF::default().into_inner().is_none(), String::new());
        pairwise!("C13", "MaybeF", raws.clone(), |v: Option<f32>| Some(MaybeF::new(v)), [PartialEq, PartialOrd]);
    }
    // ------------------------------------------------------------ Label<'a>(Cow<'a, str>)
    {
        let raws: Vec<Cow<'static, str>> = vec![Cow::Borrowed(""), Cow::Borrowed("a"), Cow::Owned("a".to_string()), Cow::Borrowed("ab"),
                                               Cow::Owned("\u{df}".to_string()), Cow::Borrowed(" "), Cow::Borrowed("B")];
        for (k, raw) in raws.iter().enumerate() {
            let got = Label::try_new(raw.clone());
            report("C01", "Label", "try_new", got.is_ok() == !raw.is_empty() && got.as_ref().map(|t| t.as_ref() == raw).unwrap_or(true), format!("input {}", k));
            report("C03", "Label", "try_from", Label::try_from(raw.clone()).ok() == got.clone().ok(), format!("input {}", k));
            if let Ok(t) = &got {
                let i = t.clone().into_inner();
                report("C13", "Label", "as_ref", <Label as AsRef<Cow<str>>>::as_ref(t) == &i, format!("input {}", k));
                report("C13", "Label", "deref", &**t == &i, format!("input {}", k));
                report("C13", "Label", "borrow", <Label as Borrow<Cow<str>>>::borrow(t) == &i, format!("input {}", k));
                report("C13", "Label", "display", t.to_string() == i.to_string() && format!("{:>6}|{:.1}|{:*<4}", t, t, t) == format!("{:>6}|{:.1}|{:*<4}", i, i, i), format!("input {}", k));
                let conv: Cow<str> = t.clone().into();
                report("C13", "Label", "into", conv == i, format!("input {}", k));
            }
        }
        pairwise!("C13", "Label", raws.clone(), |v: Cow<'static, str>| Label::try_new(v).ok(), [PartialEq, PartialOrd, Ord, Hash]);
    }
    // ------------------------------------------------------------ Tag<'a>(&'a str)
    {
        let raws: Vec<&'static str> = vec!["", "a", " a ", "ab", "  ab  ", "abc", "\u{2003}xy\u{2003}", "B ", "ab\n"];
        for (k, raw) in raws.iter().enumerate() {
            let reference: Result<&str, ()> = { let s = raw.trim(); if s.len() >= 2 { Ok(s) } else { Err(()) } };
            let got = Tag::try_new(raw);
            report("C01", "Tag", "try_new", got.clone().map(|t| t.into_inner()).map_err(|_| ()) == reference, format!("input {}", k));
            report("C03", "Tag", "try_from", Tag::try_from(*raw).ok() == got.clone().ok(), format!("input {}", k));
            if let Ok(t) = got {
                let i = t.into_inner();
                report("C13", "Tag", "as_ref", *<Tag as AsRef<&str>>::as_ref(&t) == i, format!("input {}", k));
                report("C13", "Tag", "deref", *t == i, format!("input {}", k));
                report("C13", "Tag", "display", t.to_string() == i.to_string() && format!("{:>7}|{:.1}", t, t) == format!("{:>7}|{:.1}", i, i), format!("input {}", k));
                report("C11", "Tag", "reenter", Tag::try_new(i).ok() == Some(t), format!("input {}", k));
                let conv: &str = t.into();
                report("C13", "Tag", "into", conv == i, format!("input {}", k));
            }
        }
        pairwise!("C13", "Tag", raws.clone(), |v: &'static str| Tag::try_new(v).ok(), [PartialEq, PartialOrd, Ord, Hash]);
    }
    // ------------------------------------------------------------ Reflexive<T>(T), Plain<T>(T) at f64 and String
    {
        let raws = vec![0.0f64, -0.0, 1.5, nan, f64::INFINITY, -2.0];
        for (k, raw) in raws.iter().enumerate() {
            let got = Reflexive::<f64>::try_new(*raw);
            report("C01", "Reflexive<f64>", "try_new", got.is_ok() == !raw.is_nan() && got.as_ref().map(|t| t.as_ref().to_bits() == raw.to_bits()).unwrap_or(true), format!("input {}", k));
            let text = format!("{}", raw);
            let parsed = text.parse::<Reflexive<f64>>();
            report("C06", "Reflexive<f64>", "from_str", parsed.is_ok() == got.is_ok() && match (&parsed, &got) { (Ok(a), Ok(b_)) => a.as_ref().to_bits() == b_.as_ref().to_bits(), _ => true }, format!("input {}", k));
            let p = Plain::<f64>::new(*raw);
            report("C13", "Plain<f64>", "views", p.as_ref().to_bits() == raw.to_bits() && (*p).to_bits() == raw.to_bits()
                   && p.to_string() == raw.to_string() && format!("{:8.2}|{:+}", p, p) == format!("{:8.2}|{:+}", raw, raw), format!("input {}", k));
            report("C06", "Plain<f64>", "from_str", text.parse::<Plain<f64>>().map(|t| t.into_inner().to_bits()).ok() == text.parse::<f64>().map(|x| x.to_bits()).ok(), format!("input {}", k));
        }
        report("C06", "Plain<f64>", "from_str_err", "x".parse::<Plain<f64>>().is_err() && "".parse::<Plain<i32>>().is_err(), String::new());
        pairwise!("C13", "Plain<f64>", raws.clone(), |v: f64| Some(Plain::<f64>::new(v)), [PartialEq, PartialOrd]);
        pairwise!("C13", "Reflexive<f64>", raws.clone(), |v: f64| Reflexive::<f64>::try_new(v).ok(), [PartialEq, PartialOrd]);
        let strs = vec!["".to_string(), "a".to_string(), "b".to_string(), "ab".to_string()];
        pairwise!("C13", "Plain<String>", strs.clone(), |v: String| Some(Plain::<String>::new(v)), [PartialEq, PartialOrd]);
    }
    // ------------------------------------------------------------ Pair((i32, String)), Quad([u8; 4])
    {
        let raws = vec![(5, "a".to_string()), (-5, " a ".to_string()), (500, "b".to_string()), (1, "  ".to_string()), (1, String::new()), (100, "zz".to_string())];
        for (k, raw) in raws.iter().enumerate() {
            let reference: Result<(i32, String), ()> = { let s = (raw.0.clamp(0, 100), raw.1.trim().to_string()); if !s.1.is_empty() { Ok(s) } else { Err(()) } };
            let got = Pair::try_new(raw.clone());
            report("C01", "Pair", "try_new", got.clone().map(|t| t.into_inner()).map_err(|_| ()) == reference, format!("input {}", k));
            report("C03", "Pair", "try_from", Pair::try_from(raw.clone()).ok() == got.clone().ok(), format!("input {}", k));
            if let Ok(t) = &got {
                let i = t.clone().into_inner();
                report("C13", "Pair", "views", <Pair as AsRef<(i32, String)>>::as_ref(t) == &i && &**t == &i && <Pair as Borrow<(i32, String)>>::borrow(t) == &i, format!("input {}", k));
                report("C11", "Pair", "reenter", Pair::try_new(i.clone()).ok().as_ref() == Some(t), format!("input {}", k));
            }
        }
        pairwise!("C13", "Pair", raws.clone(), |v: (i32, String)| Pair::try_new(v).ok(), [PartialEq, PartialOrd, Ord, Hash]);
        let quads = vec![[0u8, 0, 0, 0], [1, 0, 0, 0], [1, 2, 3, 4], [255, 255, 255, 255], [0, 1, 1, 1], [1, 0, 0, 1]];
        for (k, raw) in quads.iter().enumerate() {
            let got = Quad::try_new(*raw);
            report("C01", "Quad", "try_new", got.is_ok() == (raw[0] != 0) && got.clone().map(|t| t.into_inner() == *raw).unwrap_or(true), format!("input {}", k));
            if let Ok(t) = got {
                let c = t;
                report("C13", "Quad", "views", *<Quad as AsRef<[u8; 4]>>::as_ref(&t) == *raw && *t == *raw && c.into_inner() == *raw, format!("input {}", k));
            }
        }
        pairwise!("C13", "Quad", quads.clone(), |v: [u8; 4]| Quad::try_new(v).ok(), [PartialEq, PartialOrd, Ord, Hash]);
    }
    // ------------------------------------------------------------ FromStr goes through the inner type's FromStr impl
    {
        for (k, text) in ["21", "21C", "-300", "-300C", "C", "", " 7", "0"].iter().enumerate() {
            let inner: Result<Celsius, String> = <Celsius as std::str::FromStr>::from_str(text);
            let got = text.parse::<Temp>();
            let want_ok = match &inner { Ok(c) => Temp::try_new(c.clone()).ok(), Err(_) => None };
            let is_parse_err = matches!(got, Err(TempParseError::Parse(_)));
            report("C06", "Temp", "from_str", got.ok() == want_ok && (inner.is_err() == is_parse_err), format!("input {}", k));
            let got2 = text.parse::<RawTemp>();
            report("C06", "RawTemp", "from_str", got2.ok().map(|t| t.into_inner()) == inner.ok(), format!("input {}", k));
        }
    }
    // ------------------------------------------------------------ owned deserialization of Note<'a>
    {
        let n: Option<Note<'static>> = owned_roundtrip("\"hello\"".to_string());
        report("C04", "Note", "deserialize_owned", n.as_ref().map(|t| t.as_ref().as_ref() == "hello").unwrap_or(false), String::new());
        let e: Option<Note<'static>> = owned_roundtrip("\"\"".to_string());
        report("C04", "Note", "deserialize_owned_rejects", e.is_none(), String::new());
        let js = n.as_ref().and_then(|t| serde_json::to_string(t).ok());
        report("C10", "Note", "serialize_transparent", js.as_deref() == Some("\"hello\""), String::new());
    }
    // ------------------------------------------------------------ user functions named like plausible helpers
    {
        report("C03", "Helped", "default_calls_user_fn", Helped::default().into_inner() == 7 && Helped::try_new(default_value()).map(|t| t.into_inner()).ok() == Some(7), String::new());
        for (k, raw) in [-5, 2, 3, 13, 40, 41, 99].iter().enumerate() {
            let s = sanitize(*raw);
            let want = if validate(&s) && s >= inner() && s <= value() { Some(s) } else { None };
            report("C01", "Helped", "try_new", Helped::try_new(*raw).ok().map(|t| t.into_inner()) == want, format!("input {}", k));
        }
    }
    // ------------------------------------------------------------ Default along a history / across instantiations
    {
        std::panic::set_hook(Box::new(|_| {}));
        let outcomes: Vec<Option<Vec<i32>>> = (0..6).map(|_| std::panic::catch_unwind(|| Seq::default().into_inner()).ok()).collect();
        let expected: Vec<Option<Vec<i32>>> = vec![Some(vec![1]), None, Some(vec![2]), Some(vec![1]), None, Some(vec![2])];
        report("C03", "Seq", "default_history", outcomes == expected, format!("{:?}", outcomes));
        let a = std::panic::catch_unwind(|| Packed::<u64>::default().into_inner()).ok();
        let b_ = std::panic::catch_unwind(|| Packed::<u8>::default().into_inner()).ok();
        let c = std::panic::catch_unwind(|| Packed::<i16>::default().into_inner()).ok();
        let b2 = std::panic::catch_unwind(|| Packed::<u8>::default().into_inner()).ok();
        report("C03", "Packed<T>", "default_instantiations", a == Some(5) && b_.is_none() && c == Some(-1) && b2.is_none(), format!("{:?} {:?} {:?} {:?}", a, b_, c, b2));
        let l: Vec<i64> = (0..3).map(|_| Lvl::default().into_inner()).collect();
        report("C03", "Lvl", "default_sanitized", l == vec![10, 10, 10] && Lvl::try_new(50).map(|t| t.into_inner()).ok() == Some(10), format!("{:?}", l));
        let _ = std::panic::take_hook();
    }
    // ------------------------------------------------------------ `finite` means f64::is_finite whatever traits the user has in scope
    {
        use std::str::FromStr;
        let scope_ok = scoped::trait_is_in_scope(&f64::NAN);        // the user trait answers "finite" for NaN
        for (k, x) in [f64::NAN, f64::INFINITY, f64::NEG_INFINITY, -f64::NAN].iter().enumerate() {
            report("C12", "Fin", "non_finite_refused", scope_ok && scoped::Fin::try_new(*x).is_err() && scoped::Fin::try_from(*x).is_err()
                   && scoped::Fin32::try_new(*x as f32).is_err(), format!("input {}", k));
        }
        report("C12", "Fin", "non_finite_text_refused", scoped::Fin::from_str("NaN").is_err() && scoped::Fin::from_str("inf").is_err() && scoped::Fin::from_str("1.5").is_ok(), String::new());
        report("C01", "Fin", "try_new", scoped::Fin::try_new(1.5).map(|t| t.into_inner()).ok() == Some(1.5) && scoped::Fin32::try_new(-1.0).is_err(), String::new());
    }
    // ------------------------------------------------------------ Words<'a>: items outlive the borrow of the wrapper
    {
        let text = String::from("alpha beta gamma-delta");
        let kept: &str = { let w = Words::new(text.split(' ').collect()); let i = w.as_ref().clone(); let a = longest(&w); let b_ = longest_inner(&i); if a == b_ { a } else { "" } };
        report("C13", "Words", "iter_ref_item_lifetime", kept == "gamma-delta", kept.to_string());
    }
    // ------------------------------------------------------------ Ordered(Span): FromStr = the inner type's parser, then the constructor
    {
        use std::str::FromStr;
        for (k, text) in ["1..5", "5..1", "101..0", "0..300", "300..0", "x", "5..", "..", "-3..3", "7..7", " 1..2", "2147483647..-2147483648"].iter().enumerate() {
            let inner = Span::from_str(text);
            let got = Ordered::from_str(text);
            let ok = match (&inner, &got) {
                (Err(_), Err(OrderedParseError::Parse(_))) => true,
                (Ok(sp), Ok(t)) => Ordered::try_new(*sp).ok() == Some(*t),
                (Ok(sp), Err(OrderedParseError::Validate(e))) => Ordered::try_new(*sp).err().as_ref() == Some(e),
                _ => false,
            };
            report("C06", "Ordered", "from_str", ok, format!("text {} {:?}", k, got));
            let got2 = OrderedFree::from_str(text);
            let ok2 = match (&inner, &got2) { (Err(_), Err(_)) => true, (Ok(sp), Ok(t)) => OrderedFree::new(*sp) == *t, _ => false };
            report("C06", "OrderedFree", "from_str", ok2, format!("text {} {:?}", k, got2));
            if let Ok(sp) = inner {
                report("C03", "Ordered", "try_from", Ordered::try_from(sp) == Ordered::try_new(sp), format!("text {}", k));
            }
        }
    }
    // ------------------------------------------------------------ MaybeAge(Option<u8>): every format reads what it writes
    {
        for (k, raw) in [None, Some(0u8), Some(42), Some(149), Some(150), Some(200)].iter().enumerate() {
            let want = MaybeAge::try_new(*raw).ok();
            let js = serde_json::to_string(raw).unwrap();
            let ron_i = ron::to_string(raw).unwrap();
            let mp = rmp_serde::to_vec(raw).unwrap();
            let a = serde_json::from_str::<MaybeAge>(&js).ok();
            let b1 = ron::from_str::<MaybeAge>(&format!("MaybeAge({})", ron_i)).ok();
            let b2 = ron::from_str::<MaybeAge>(&format!("({})", ron_i)).ok();
            let c = rmp_serde::from_slice::<MaybeAge>(&mp).ok();
            report("C04", "MaybeAge", "deserialize", a == want && b1 == want && b2 == want && c == want, format!("input {} json {:?} ron {:?}/{:?} mp {:?}", k, a, b1, b2, c));
            let h = ron::from_str::<AgeHolder>(&format!("(a:({}),rest:[({}),(None)])", ron_i, ron_i)).ok();
            let hw = want.clone().map(|w| AgeHolder { a: w.clone(), rest: vec![w, MaybeAge::try_new(None).unwrap()] });
            report("C04", "MaybeAge", "deserialize_nested_ron", h == hw, format!("input {} {:?}", k, h));
            if let Some(t) = &want {
                let rt = ron::to_string(t).ok().and_then(|s| ron::from_str::<MaybeAge>(&s).ok());
                let jt = serde_json::to_string(t).ok().and_then(|s| serde_json::from_str::<MaybeAge>(&s).ok());
                let mt = rmp_serde::to_vec(t).ok().and_then(|s| rmp_serde::from_slice::<MaybeAge>(&s).ok());
                report("C10", "MaybeAge", "roundtrip", rt.as_ref() == Some(t) && jt.as_ref() == Some(t) && mt.as_ref() == Some(t), format!("input {} ron {:?} json {:?} mp {:?}", k, rt, jt, mt));
                report("C10", "MaybeAge", "serialize_transparent", serde_json::to_string(t).unwrap() == js && rmp_serde::to_vec(t).unwrap() == mp, format!("input {}", k));
            }
        }
    }
    // ------------------------------------------------------------ Digest(Vec<u8>): a byte vector is still a sequence on the wire
    {
        for (k, raw) in [vec![], vec![1u8, 2, 3], vec![0u8, 255, 128, 7], vec![200u8; 8], vec![1u8; 9]].iter().enumerate() {
            let t = Digest::try_new(raw.clone());
            report("C01", "Digest", "try_new", t.is_ok() == (raw.len() <= 8) && t.as_ref().map(|t| t.as_ref() == raw).unwrap_or(true), format!("input {}", k));
            let mp_i = rmp_serde::to_vec(raw).unwrap();
            let ron_i = ron::to_string(raw).unwrap();
            let js_i = serde_json::to_string(raw).unwrap();
            if let Ok(t) = &t {
                let mp_t = rmp_serde::to_vec(t).unwrap();
                let ron_t = ron::to_string(t).unwrap();
                report("C10", "Digest", "serialize_transparent", serde_json::to_string(t).unwrap() == js_i && mp_t == mp_i
                       && (ron_t == format!("Digest({})", ron_i) || ron_t == format!("({})", ron_i)), format!("input {} mp {:?} ron {}", k, mp_t, ron_t));
                report("C10", "Digest", "cross_read_as_inner", rmp_serde::from_slice::<Vec<u8>>(&mp_t).ok().as_ref() == Some(raw), format!("input {}", k));
                report("C10", "Digest", "roundtrip", rmp_serde::from_slice::<Digest>(&mp_t).ok().as_ref() == Some(t)
                       && ron::from_str::<Digest>(&ron_t).ok().as_ref() == Some(t), format!("input {}", k));
            }
            let de_mp = rmp_serde::from_slice::<Digest>(&mp_i).ok();
            let de_js = serde_json::from_str::<Digest>(&js_i).ok();
            report("C04", "Digest", "deserialize", de_mp == t.clone().ok() && de_js == t.clone().ok(), format!("input {}", k));
        }
    }
    // ------------------------------------------------------------ bounds are read when a value is made, not once
    {
        use arbitrary::{Arbitrary, Unstructured};
        let draw = || -> std::collections::BTreeSet<i64> {
            let mut seen = std::collections::BTreeSet::new();
            for a in 0..=255u8 {
                for b in [0u8, 1, 7, 255] {
                    let bytes = [a, b, a ^ b, 3];
                    match std::panic::catch_unwind(|| Level::arbitrary(&mut Unstructured::new(&bytes)).ok().map(|v| v.into_inner())) {
                        Ok(Some(v)) => { seen.insert(v); }
                        Ok(None) => {}
                        Err(_) => { seen.insert(i64::MIN); }      // a panic inside arbitrary()
                    }
                }
            }
            seen
        };
        std::panic::set_hook(Box::new(|_| {}));
        LEVEL_LIMIT.store(3, std::sync::atomic::Ordering::SeqCst);
        let first = draw();
        LEVEL_LIMIT.store(9, std::sync::atomic::Ordering::SeqCst);
        let second = draw();
        let ctor_follows = Level::try_new(7).is_ok() && Level::try_new(10).is_err();
        LEVEL_LIMIT.store(1, std::sync::atomic::Ordering::SeqCst);
        let third = draw();
        let _ = std::panic::take_hook();
        let want = |hi: i64| (0..=hi).collect::<std::collections::BTreeSet<i64>>();
        report("C14", "Level", "range_follows_bound_expression", ctor_follows && first == want(3) && second == want(9) && third == want(1),
               format!("{:?} {:?} {:?}", first, second, third));
        report("C09", "Level", "values_valid_under_current_bound", third.iter().all(|v| *v <= 1) && second.iter().all(|v| *v <= 9), String::new());
    }
    println!("zoo done");
}
