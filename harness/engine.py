"""Build of the Coq development and the extracted model; running the model; evidence."""
import os, json, time, re, glob
from common import *

HYGIENE_RE = re.compile(r"\b(Admitted|admit|Axiom|Axioms|Parameter|Parameters|Conjecture|Hypothesis|Variable"
                        r"|Unset\s+Guard|bypass_check|type-in-type|impredicative-set|Admit\s+Obligations)\b")


def coq_files():
    out = []
    for line in open(os.path.join(COQ, "_CoqProject")):
        line = line.strip()
        if line.endswith(".v"):
            out.append(line)
    return out


def strip_comments(src):
    out, depth, i = [], 0, 0
    while i < len(src):
        if src.startswith("(*", i):
            depth += 1
            i += 2
        elif src.startswith("*)", i) and depth:
            depth -= 1
            i += 2
        else:
            if depth == 0:
                out.append(src[i])
            i += 1
    return "".join(out)


def hygiene():
    """no Admitted / axioms / disabled checks anywhere in the development.  `Variable` and
    `Hypothesis` are allowed inside Sections only (checked by section depth)."""
    problems = []
    for f in sorted(glob.glob(os.path.join(COQ, "**", "*.v"), recursive=True)):
        src = strip_comments(open(f).read())
        src = re.sub(r'"[^"]*"', '""', src)
        depth = 0
        for ln, line in enumerate(src.splitlines(), 1):
            if re.match(r"\s*Section\b", line):
                depth += 1
            elif re.match(r"\s*End\b", line) and depth:
                depth -= 1
            for m in HYGIENE_RE.finditer(line):
                w = m.group(1)
                if w in ("Variable", "Hypothesis") and depth > 0:
                    continue
                if w in ("Variable", "Hypothesis") and re.search(r"\(\s*\w+\s*:", line) is None and depth == 0:
                    pass
                problems.append("%s:%d: %s" % (os.path.relpath(f, VERIF), ln, line.strip()))
    return problems


def build_coq(targets=None, timeout=2400):
    """full .vo build through coq_makefile (never -vos).  Returns (ok, log)."""
    with flock("coq"):
        mk = os.path.join(COQ, "Makefile")
        proj = os.path.join(COQ, "_CoqProject")
        if not os.path.exists(mk) or os.path.getmtime(mk) < os.path.getmtime(proj):
            run(["coq_makefile", "-f", "_CoqProject", "-o", "Makefile"], cwd=COQ, check=True)
        cmd = ["timeout", str(timeout), "make", "-j", str(NPROC)]
        if targets:
            cmd += targets
        p = run(cmd, cwd=COQ, timeout=timeout + 60)
        return p.returncode == 0, p.stdout + p.stderr


def build_model(timeout=600):
    """extract Run/Runner.v to OCaml and compile the driver (cached on the .vo inputs)"""
    out = os.path.join(BUILD, "extract")
    os.makedirs(out, exist_ok=True)
    exe = os.path.join(out, "model_run")
    # extraction reads the compiled files: they must be current with the sources the stamp hashes
    ok, log_ = build_coq(targets=["Run/Runner.vo"])
    if not ok:
        raise RuntimeError("coq build of Run/Runner.vo failed:\n" + log_[-3000:])
    with flock("extract"):
        stamp_src = sha("".join(open(os.path.join(COQ, f)).read() for f in coq_files()
                                if not f.startswith(("Props/", "Lemmas/"))) +
                        open(os.path.join(COQ, "Extract", "Extract.v")).read() +
                        open(os.path.join(COQ, "Extract", "driver.ml")).read())
        stamp = os.path.join(out, "stamp")
        if os.path.exists(exe) and os.path.exists(stamp) and open(stamp).read() == stamp_src:
            return exe
        p = run(["timeout", str(timeout), "coqc", "-Q", COQ, "NV", os.path.join(COQ, "Extract", "Extract.v")],
                cwd=out)
        if p.returncode != 0:
            raise RuntimeError("extraction failed:\n" + p.stdout + p.stderr)
        import shutil
        shutil.copyfile(os.path.join(COQ, "Extract", "driver.ml"), os.path.join(out, "driver.ml"))
        p = run(["ocamlfind", "ocamlopt", "-O2", "-w", "-a", "model.mli", "model.ml", "driver.ml", "-o", "model_run"],
                cwd=out)
        if p.returncode != 0:
            raise RuntimeError("ocaml build failed:\n" + p.stdout + p.stderr)
        open(stamp, "w").write(stamp_src)
    return exe


def run_model(lines, nproc=NPROC):
    """lines: case S-expressions.  Returns dict id -> outcome text."""
    from concurrent.futures import ThreadPoolExecutor
    exe = build_model()
    chunks = [lines[i::nproc] for i in range(nproc)]

    def one(ch):
        if not ch:
            return ""
        # long case lines (thorough tier) recurse deeply in the extracted list functions
        p = run(["sh", "-c", 'ulimit -s unlimited 2>/dev/null || ulimit -s 4000000 2>/dev/null; exec "$0"', exe],
                input="\n".join(ch) + "\n", timeout=3000)
        if p.returncode != 0:
            raise RuntimeError("model_run failed: " + p.stderr[-2000:])
        return p.stdout
    out = {}
    with ThreadPoolExecutor(max_workers=nproc) as ex:
        for text in ex.map(one, chunks):
            for line in text.splitlines():
                cid, _, rest = line.partition(" ")
                out[cid] = rest
    return out


def coq_eval_lines(lines, timeout=600):
    """evaluate the same cases inside coqc by vm_compute (cross-check of the extraction)"""
    tmp = os.path.join(BUILD, "vmcheck")
    os.makedirs(tmp, exist_ok=True)
    body = ["From NV Require Import Base.Util Run.Runner.", "Local Open Scope string_scope."]
    for l in lines:
        body.append('Eval vm_compute in run_line "%s".' % l.replace('"', '""'))
    path = os.path.join(tmp, "cases.v")
    open(path, "w").write("\n".join(body) + "\n")
    p = run(["timeout", str(timeout), "coqc", "-noglob", "-Q", COQ, "NV", path], cwd=tmp)
    if p.returncode != 0:
        raise RuntimeError("coqc cases.v failed: " + p.stdout[-2000:] + p.stderr[-2000:])
    text = re.sub(r"\s+", " ", p.stdout)
    out = {}
    for m in re.finditer(r'"((?:[^"]|"")*)"', text):
        s = m.group(1).replace('""', '"')
        cid, _, rest = s.partition(" ")
        out[cid] = rest
    return out


def ft_sexp(features):
    order = ["std", "serde", "regex", "arbitrary", "new_unchecked", "schemars08"]
    return "(ft %s)" % " ".join("1" if f in features else "0" for f in order)


def theorem_status(prop_files, timeout=2400):
    """build the given Props/*.vo (and what they depend on); parse Print Assumptions output.
    Returns (ok, obligations, axioms_by_theorem, log)."""
    targets = [f[:-2] + ".vo" for f in prop_files]
    # Print Assumptions output is emitted at compile time: force recompilation of the Props files
    for f in prop_files:
        vo = os.path.join(COQ, f[:-2] + ".vo")
        if os.path.exists(vo):
            os.remove(vo)
    ok, log_ = build_coq(targets, timeout=timeout)
    oblig = []
    for f in prop_files:
        src = strip_comments(open(os.path.join(COQ, f)).read())
        oblig += re.findall(r"^\s*(?:Theorem|Lemma|Corollary|Example)\s+(\w+)", src, re.M)
    axioms = set()
    in_block = False
    for line in log_.splitlines():
        if line.startswith("Axioms:"):
            in_block = True
            continue
        if not in_block:
            continue
        if line.startswith((" ", "\t")):
            continue
        m = re.match(r"([A-Za-z_][\w.']*)\s*(:.*)?$", line)
        if m and not line.startswith(("COQ", "Closed under", "make")):
            axioms.add(m.group(1))
        else:
            in_block = False
    axioms = sorted(axioms)
    return ok, oblig, axioms, log_


def write_evidence(pid, tier, level, coverage, wall_s, violations, assumptions):
    os.makedirs(EVIDENCE, exist_ok=True)
    ev = {"property_id": pid, "tier": tier, "seed": seed(), "level": level, "coverage": coverage,
          "assumptions": assumptions, "wall_s": round(wall_s, 2), "violations": violations}
    with open(os.path.join(EVIDENCE, pid + ".json"), "w") as f:
        json.dump(ev, f, indent=1, sort_keys=True)


def write_replay(pid, n, payload):
    d = os.path.join(REPLAYS, pid)
    os.makedirs(d, exist_ok=True)
    path = os.path.join(d, "%s_%d.json" % (time.strftime("%Y%m%d_%H%M%S"), n))
    with open(path, "w") as f:
        json.dump(payload, f, indent=1, sort_keys=True)
    return path


def load_known():
    path = os.path.join(VERIF, "known_findings.json")
    if not os.path.exists(path):
        return {"findings": [], "fixed": []}
    return json.load(open(path))
