(* S-expressions: the wire format between the harness and the executable model.
   Every case line the harness produces is parsed HERE (in Gallina), so the same
   [run_line] entry point serves vm_compute inside coqc and the extracted OCaml driver. *)
From NV Require Import Base.Util.
Local Open Scope string_scope.

Inductive sexp : Type :=
| A (s : string)
| L (l : list sexp).

Definition is_space (c : ascii) : bool :=
  match c with
  | " "%char => true
  | "009"%char => true
  | "010"%char => true
  | "013"%char => true
  | _ => false
  end.

Fixpoint srev_acc (s acc : string) : string :=
  match s with EmptyString => acc | String c r => srev_acc r (String c acc) end.
Definition srev (s : string) : string := srev_acc s EmptyString.

Definition flush (cur : option string) (top : list sexp) : list sexp :=
  match cur with Some r => A (srev r) :: top | None => top end.

(* one pass, structural on the input; [top] and atoms are accumulated reversed *)
Fixpoint go (cs : string) (cur : option string) (top : list sexp) (stack : list (list sexp))
  : option (list sexp) :=
  match cs with
  | EmptyString =>
      match stack with [] => Some (rev (flush cur top)) | _ => None end
  | String c rest =>
      if is_space c then go rest None (flush cur top) stack
      else if Ascii.eqb c "("%char then go rest None [] (flush cur top :: stack)
      else if Ascii.eqb c ")"%char then
        match stack with
        | [] => None
        | parent :: st => go rest None (L (rev (flush cur top)) :: parent) st
        end
      else go rest (Some (String c (match cur with Some r => r | None => EmptyString end))) top stack
  end.

Definition parse_sexps (s : string) : option (list sexp) := go s None [] [].
Definition parse_sexp (s : string) : option sexp :=
  match parse_sexps s with Some [x] => Some x | _ => None end.

(* decoders *)
Definition as_atom (x : sexp) : option string := match x with A s => Some s | _ => None end.
Definition as_list (x : sexp) : option (list sexp) := match x with L l => Some l | _ => None end.
Definition as_Z (x : sexp) : option Z := do s <- as_atom x; Z_of_string s.
Definition as_N (x : sexp) : option N := do z <- as_Z x; if (z <? 0)%Z then None else Some (Z.to_N z).
Definition as_nat (x : sexp) : option nat := do n <- as_N x; Some (N.to_nat n).
Definition as_bool (x : sexp) : option bool :=
  do s <- as_atom x;
  if String.eqb s "1" then Some true else if String.eqb s "0" then Some false else None.
Definition as_Zs (x : sexp) : option (list Z) := do l <- as_list x; omap as_Z l.
Definition as_Ns (x : sexp) : option (list N) := do l <- as_list x; omap as_N l.

(* a tagged list: (tag a b c) *)
Definition tagged (x : sexp) : option (string * list sexp) :=
  match x with
  | L (A t :: args) => Some (t, args)
  | _ => None
  end.
