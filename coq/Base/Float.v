(* IEEE-754 semantics of f32/f64 over bit patterns, by Flocq 4.1 (IEEE754.Binary / Bits).
   Rust's `<`, `<=`, `>`, `>=`, partial_cmp are [Bcompare]; abs/neg are sign-bit operations;
   + - * / are round-to-nearest-even.  NaN payloads produced by arithmetic follow Flocq's
   architecture-independent choice and are never compared bit-for-bit with the hardware. *)
From NV Require Import Base.Util Base.FloatBits.
From Flocq Require Import Core IEEE754.BinarySingleNaN IEEE754.Binary IEEE754.Bits.
Local Open Scope Z_scope.

Definition fcmp (is64 : bool) (x y : Z) : option comparison :=
  if is64 then b64_compare (b64_of_bits x) (b64_of_bits y)
  else b32_compare (b32_of_bits x) (b32_of_bits y).

Definition f_lt (is64 : bool) (x y : Z) : bool := match fcmp is64 x y with Some Lt => true | _ => false end.
Definition f_le (is64 : bool) (x y : Z) : bool := match fcmp is64 x y with Some Lt | Some Eq => true | _ => false end.
Definition f_gt (is64 : bool) (x y : Z) : bool := match fcmp is64 x y with Some Gt => true | _ => false end.
Definition f_ge (is64 : bool) (x y : Z) : bool := match fcmp is64 x y with Some Gt | Some Eq => true | _ => false end.
Definition f_eq (is64 : bool) (x y : Z) : bool := match fcmp is64 x y with Some Eq => true | _ => false end.

Definition f_is_finite (is64 : bool) (x : Z) : bool :=
  if is64 then is_finite 53 1024 (b64_of_bits x) else is_finite 24 128 (b32_of_bits x).
Definition f_is_nan (is64 : bool) (x : Z) : bool :=
  if is64 then is_nan 53 1024 (b64_of_bits x) else is_nan 24 128 (b32_of_bits x).

Definition f_binop (is64 : bool)
  (op32 : mode -> binary32 -> binary32 -> binary32) (op64 : mode -> binary64 -> binary64 -> binary64)
  (x y : Z) : Z :=
  if is64 then bits_of_b64 (op64 mode_NE (b64_of_bits x) (b64_of_bits y))
  else bits_of_b32 (op32 mode_NE (b32_of_bits x) (b32_of_bits y)).

Definition f_add is64 := f_binop is64 b32_plus b64_plus.
Definition f_sub is64 := f_binop is64 b32_minus b64_minus.
Definition f_mul is64 := f_binop is64 b32_mult b64_mult.
Definition f_div is64 := f_binop is64 b32_div b64_div.

(* `n as f32` / `n as f64` for a non-negative integer *)
Definition f_of_Z (is64 : bool) (n : Z) : Z :=
  if is64 then bits_of_b64 (binary_normalize 53 1024 (refl_equal _) (refl_equal _) mode_NE n 0 false)
  else bits_of_b32 (binary_normalize 24 128 (refl_equal _) (refl_equal _) mode_NE n 0 false).
