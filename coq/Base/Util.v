(* Small shared vocabulary: result type, option monad, decimal printing/parsing of Z. *)
From Coq Require Export List ZArith Bool String Ascii Lia.
From Coq Require Import DecimalString DecimalZ.
Export ListNotations.
Local Open Scope string_scope.

Inductive result (A E : Type) : Type :=
| Ok (a : A)
| Err (e : E).
Arguments Ok {A E} a.
Arguments Err {A E} e.

Definition obind {A B} (o : option A) (f : A -> option B) : option B :=
  match o with Some a => f a | None => None end.
Notation "'do' x <- m ; k" := (obind m (fun x => k))
  (at level 200, x pattern, m at level 100, k at level 200, right associativity).

Fixpoint omap {A B} (f : A -> option B) (l : list A) : option (list B) :=
  match l with
  | [] => Some []
  | a :: l' => do b <- f a; do bs <- omap f l'; Some (b :: bs)
  end.

Definition string_of_Z (z : Z) : string := NilZero.string_of_int (Z.to_int z).
Definition Z_of_string (s : string) : option Z :=
  match NilZero.int_of_string s with Some i => Some (Z.of_int i) | None => None end.
Definition string_of_N (n : N) : string := string_of_Z (Z.of_N n).
Definition string_of_bool (b : bool) : string := if b then "1" else "0".

Fixpoint concat_with (sep : string) (l : list string) : string :=
  match l with
  | [] => ""
  | [x] => x
  | x :: l' => x ++ sep ++ concat_with sep l'
  end.

Definition in_range (lo hi x : Z) : bool := (lo <=? x)%Z && (x <=? hi)%Z.

Fixpoint find_index {A} (p : A -> bool) (l : list A) : option nat :=
  match l with
  | [] => None
  | a :: l' => if p a then Some O else option_map S (find_index p l')
  end.
