(* Rust primitive integer types: width and signedness; values are unbounded [Z]
   constrained by [in_ty].  usize/isize are 64-bit (target assumption, DESIGN §8). *)
From NV Require Import Base.Util.
Local Open Scope string_scope.
Local Open Scope Z_scope.

Record int_ty := { signed : bool; bits : Z }.

Definition ity_min (t : int_ty) : Z := if signed t then - 2 ^ (bits t - 1) else 0.
Definition ity_max (t : int_ty) : Z := if signed t then 2 ^ (bits t - 1) - 1 else 2 ^ bits t - 1.
Definition in_ty (t : int_ty) (z : Z) : bool := in_range (ity_min t) (ity_max t) z.

Definition ity_of_name (s : string) : option int_ty :=
  if String.eqb s "u8" then Some {| signed := false; bits := 8 |}
  else if String.eqb s "u16" then Some {| signed := false; bits := 16 |}
  else if String.eqb s "u32" then Some {| signed := false; bits := 32 |}
  else if String.eqb s "u64" then Some {| signed := false; bits := 64 |}
  else if String.eqb s "u128" then Some {| signed := false; bits := 128 |}
  else if String.eqb s "usize" then Some {| signed := false; bits := 64 |}
  else if String.eqb s "i8" then Some {| signed := true; bits := 8 |}
  else if String.eqb s "i16" then Some {| signed := true; bits := 16 |}
  else if String.eqb s "i32" then Some {| signed := true; bits := 32 |}
  else if String.eqb s "i64" then Some {| signed := true; bits := 64 |}
  else if String.eqb s "i128" then Some {| signed := true; bits := 128 |}
  else if String.eqb s "isize" then Some {| signed := true; bits := 64 |}
  else None.

Definition wf_ity (t : int_ty) : Prop := 8 <= bits t.

(* two's-complement wrap of an arbitrary Z into the type *)
Definition wrap (t : int_ty) (z : Z) : Z :=
  let m := 2 ^ bits t in
  let r := z mod m in
  if signed t then (if r <? 2 ^ (bits t - 1) then r else r - m) else r.
