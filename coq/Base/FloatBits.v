(* IEEE-754 binary32/binary64 values as bit patterns (Z), with the few purely bit-level
   operations the macro layer needs.  Ordering and arithmetic live in Base/Float.v (Flocq). *)
From NV Require Import Base.Util.
Local Open Scope Z_scope.

Definition f_manw (is64 : bool) : Z := if is64 then 52 else 23.
Definition f_expw (is64 : bool) : Z := if is64 then 11 else 8.
Definition f_width (is64 : bool) : Z := if is64 then 64 else 32.

Definition fb_exp (is64 : bool) (b : Z) : Z := (b / 2 ^ f_manw is64) mod 2 ^ f_expw is64.
Definition fb_man (is64 : bool) (b : Z) : Z := b mod 2 ^ f_manw is64.
Definition fb_sign (is64 : bool) (b : Z) : bool := 2 ^ (f_width is64 - 1) <=? b.
Definition fb_is_finite (is64 : bool) (b : Z) : bool := negb (fb_exp is64 b =? 2 ^ f_expw is64 - 1).
Definition fb_is_nan (is64 : bool) (b : Z) : bool :=
  (fb_exp is64 b =? 2 ^ f_expw is64 - 1) && negb (fb_man is64 b =? 0).
Definition fb_neg (is64 : bool) (b : Z) : Z := Z.lxor b (2 ^ (f_width is64 - 1)).
Definition fb_abs (is64 : bool) (b : Z) : Z := b mod 2 ^ (f_width is64 - 1).
Definition fb_valid (is64 : bool) (b : Z) : bool := (0 <=? b) && (b <? 2 ^ f_width is64).
