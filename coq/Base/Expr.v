(* Bound / default expressions as the user writes them, and what rustc makes of them.
   No expression parser is modelled (DESIGN §2.1): an expression is a tree, and the
   only token-level facts the macro can observe are given by [leading_lit]. *)
From NV Require Import Base.Util Base.IntTy.
Local Open Scope string_scope.
Local Open Scope Z_scope.

Inductive binop := OAdd | OSub | OMul | ODiv | ORem | OShl | OShr | OAnd | OOr | OXor.

(* A numeric literal token.  [l_f32]/[l_f64] are the bit patterns Rust's decimal parser
   assigns to the literal text (an oracle supplied by the harness, validated by the C02
   correspondence at the neighbours of every bound). *)
Record lit := {
  l_float : bool;             (* syn's Lit::Float (has '.', exponent or f32/f64 suffix) *)
  l_suffix : option string;   (* "u8", "f64", ... *)
  l_radix : bool;             (* 0x / 0o / 0b prefix *)
  l_int : Z;                  (* value of an integer literal (natural number) *)
  l_f32 : Z;
  l_f64 : Z
}.

Inductive expr :=
| ELit (l : lit)
| EConst (name : string)      (* constant, associated constant (T::MAX) or nullary call *)
| ENeg (e : expr)
| ENot (e : expr)             (* bitwise complement, !e *)
| EParen (e : expr)
| EBin (op : binop) (a b : expr)
| EStr (s : list N)           (* string literal *)
| EList (l : list Z).         (* vec![..] *)

(* the constants a declaration may mention: name -> (type name, value or float bits) *)
Definition env := list (string * (string * Z)).
Fixpoint lookup (en : env) (n : string) : option (string * Z) :=
  match en with
  | [] => None
  | (k, v) :: r => if String.eqb k n then Some v else lookup r n
  end.

(* What syn's speculative [parse_number] sees at the start of the token run of [e]:
   an optional '-' followed by a literal, and whether that is the whole run. *)
Fixpoint leading_lit (e : expr) : option (bool * lit * bool) :=
  match e with
  | ELit l => Some (false, l, true)
  | ENeg (ELit l) => Some (true, l, true)
  | EBin _ a _ =>
      match leading_lit a with Some (n, l, _) => Some (n, l, false) | None => None end
  | _ => None
  end.

(* <T as FromStr>::from_str on "-"? ++ literal text with '_' removed *)
Definition int_from_str (t : int_ty) (neg : bool) (l : lit) : option Z :=
  if l_float l then None
  else match l_suffix l with
       | Some _ => None
       | None =>
           if l_radix l then None
           else if neg && negb (signed t) then None
           else let v := if neg then - l_int l else l_int l in
                if in_ty t v then Some v else None
       end.

Definition suffix_ok (tyname : string) (l : lit) : bool :=
  match l_suffix l with None => true | Some s => String.eqb s tyname end.

(* rustc's evaluation of an integer expression at type [t] (named [tn]); None = the crate
   does not compile (type error, overflowing literal, arithmetic overflow in a constant) *)
Fixpoint eval_int (tn : string) (t : int_ty) (en : env) (e : expr) : option Z :=
  match e with
  | ELit l =>
      if l_float l then None
      else if suffix_ok tn l && in_ty t (l_int l) then Some (l_int l) else None
  | EConst n =>
      match lookup en n with
      | Some (ty, v) => if String.eqb ty tn && in_ty t v then Some v else None
      | None => None
      end
  | ENeg (ELit l) =>
      if l_float l then None
      else if signed t && suffix_ok tn l && in_ty t (- l_int l) then Some (- l_int l) else None
  | ENeg a =>
      if signed t then
        do v <- eval_int tn t en a; if in_ty t (- v) then Some (- v) else None
      else None
  | ENot a =>
      (* two's complement for signed types, 2^bits - 1 - x for unsigned ones *)
      do v <- eval_int tn t en a;
      Some (if signed t then - v - 1 else 2 ^ bits t - 1 - v)
  | EParen a => eval_int tn t en a
  | EBin op a b =>
      do x <- eval_int tn t en a;
      match op with
      | OShl | OShr =>
          (* the shift amount may have its own integer type; only its value matters *)
          do y <- match b with
                  | ELit l => if l_float l then None else Some (l_int l)
                  | _ => eval_int tn t en b
                  end;
          if (0 <=? y) && (y <? bits t) then
            Some (match op with OShl => wrap t (x * 2 ^ y) | _ => Z.shiftr x y end)
          else None
      | _ =>
          do y <- eval_int tn t en b;
          let r := match op with
                   | OAdd => Some (x + y) | OSub => Some (x - y) | OMul => Some (x * y)
                   | ODiv => if y =? 0 then None else Some (Z.quot x y)
                   | ORem => if y =? 0 then None else Some (Z.rem x y)
                   | OAnd => Some (Z.land x y) | OOr => Some (Z.lor x y) | OXor => Some (Z.lxor x y)
                   | _ => None
                   end in
          do v <- r; if in_ty t v then Some v else None
      end
  | EStr _ | EList _ => None
  end.
