(* C06  Non-string FromStr is inner parsing followed by the constructor. *)
From NV Require Import Base.Util Base.Expr Macro.Surface Macro.Ast Sem.Guard Sem.Value Sem.Eval
     Sem.Conv Spec.GuardSpec Lemmas.ConvLemmas.

(* [inner] is the result of the inner type's own FromStr on the same string *)
Theorem C06_parse_err_iff :
  forall (lib : fnlib) (d : decl) (inner : option value),
    d_family d <> FStr -> has_trait TrFromStr (d_traits d) = true ->
    (op_from_str lib d inner = OParseErr <-> inner = None).
Proof. exact from_str_parse_err_iff. Qed.
Print Assumptions C06_parse_err_iff.

(* otherwise it returns what the constructor returns for the parsed value; a rejection
   carries the constructor's error *)
Theorem C06_is_constructor :
  forall (lib : fnlib) (d : decl) (x : value),
    d_family d <> FStr -> has_trait TrFromStr (d_traits d) = true ->
    op_from_str lib d (Some x) = construct lib d x.
Proof. exact from_str_is_constructor. Qed.
Print Assumptions C06_is_constructor.

(* it never yields a value the constructor would reject, and never panics *)
Theorem C06_never_invalid :
  forall (lib : fnlib) (d : decl) (inner : option value) (v : value),
    d_family d <> FStr -> has_trait TrFromStr (d_traits d) = true ->
    op_from_str lib d inner = OOk v ->
    exists x, inner = Some x /\ construct lib d x = OOk v.
Proof.
  intros lib d inner v Hf Ht H. destruct inner as [x|].
  - exists x. split; [reflexivity|]. rewrite <- (from_str_is_constructor lib d x Hf Ht). exact H.
  - assert (E : op_from_str lib d None = OParseErr) by (apply from_str_parse_err_iff; auto).
    rewrite E in H. discriminate.
Qed.
Print Assumptions C06_never_invalid.

Theorem C06_no_panic :
  forall (lib : fnlib) (d : decl) (inner : option value), op_from_str lib d inner <> OPanic.
Proof.
  intros lib d inner. unfold op_from_str.
  destruct (d_family d); try discriminate;
    (destruct (has_trait TrFromStr (d_traits d)); [|discriminate]);
    (destruct inner; [apply Lemmas.DeclLemmas.construct_never_panics | discriminate]).
Qed.
Print Assumptions C06_no_panic.

(* ---- integer newtypes, on the text itself: the inner parser is core's decimal parser
   (Sem/Text.parse_int, compared with the real `from_str` on every run) ---- *)
From NV Require Import Base.IntTy Sem.Text Lemmas.TextLemmas.

Theorem C06_int_text_parse_err_iff :
  forall (lib : fnlib) (d : decl) (tn : string) (t : int_ty) (s : list N),
    d_family d = FInt tn t -> has_trait TrFromStr (d_traits d) = true ->
    (op_from_str_text lib d s = OParseErr <-> parse_int t s = None).
Proof. exact from_str_text_parse_err_iff. Qed.
Print Assumptions C06_int_text_parse_err_iff.

Theorem C06_int_text_is_constructor :
  forall (lib : fnlib) (d : decl) (tn : string) (t : int_ty) (s : list N) (z : Z),
    d_family d = FInt tn t -> has_trait TrFromStr (d_traits d) = true -> parse_int t s = Some z ->
    op_from_str_text lib d s = construct lib d (VI z) /\ in_ty t z = true.
Proof. exact from_str_text_is_constructor. Qed.
Print Assumptions C06_int_text_is_constructor.

(* what the inner parser accepts: an optional sign (`-` for signed types only), then at least
   one ASCII digit and nothing else; the value is inside the type (no wrap on overflow) *)
Theorem C06_parse_int_shape :
  forall (t : int_ty) (s : list N) (z : Z),
    parse_int t s = Some z ->
    exists sign ds, s = (sign ++ ds)%list /\ ds <> [] /\
                    (sign = [] \/ sign = [43%N] \/ (sign = [45%N] /\ signed t = true)) /\
                    Forall (fun c => (48 <=? c)%N && (c <=? 57)%N = true) ds.
Proof. exact parse_int_shape. Qed.
Theorem C06_parse_int_in_type :
  forall (t : int_ty) (s : list N) (z : Z), parse_int t s = Some z -> in_ty t z = true.
Proof. exact parse_int_sound. Qed.
Print Assumptions C06_parse_int_shape.

(* "-128" / "128" / "+5" / "-0" / "" / "+" / "--1" / "٣" (U+0663) / "1 " on i8 and u8 *)
Example C06_parse_int_examples :
  let i8 := {| signed := true; bits := 8 |} in let u8 := {| signed := false; bits := 8 |} in
  parse_int i8 [45; 49; 50; 56]%N = Some (-128)%Z /\ parse_int i8 [49; 50; 56]%N = None /\
  parse_int u8 [43; 53]%N = Some 5%Z /\ parse_int u8 [45; 48]%N = None /\ parse_int i8 [45; 48]%N = Some 0%Z /\
  parse_int i8 []%N = None /\ parse_int i8 [43]%N = None /\ parse_int i8 [45; 45; 49]%N = None /\
  parse_int u8 [1635]%N = None /\ parse_int u8 [49; 32]%N = None /\ parse_int u8 [48; 48; 55]%N = Some 7%Z /\
  parse_int u8 [50; 53; 54]%N = None /\ parse_int i8 [43; 45; 53]%N = None.
Proof. vm_compute. repeat split; reflexivity. Qed.
