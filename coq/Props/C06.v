(* C06  Non-string FromStr is inner parsing followed by the constructor. *)
From NV Require Import Base.Util Base.Expr Macro.Surface Macro.Ast Sem.Guard Sem.Value Sem.Eval
     Sem.Conv Spec.GuardSpec Lemmas.ConvLemmas.

(* [inner] is the result of the inner type's own FromStr on the same string *)
Theorem C06_parse_err_iff :
  forall (lib : fnlib) (d : decl) (inner : option value),
    d_family d <> FStr -> has_trait TrFromStr (d_traits d) = true ->
    (op_from_str lib d inner = OParseErr <-> inner = None).
Proof. exact from_str_parse_err_iff. Qed.
Print Assumptions C06_parse_err_iff.

(* otherwise it returns what the constructor returns for the parsed value; a rejection
   carries the constructor's error *)
Theorem C06_is_constructor :
  forall (lib : fnlib) (d : decl) (x : value),
    d_family d <> FStr -> has_trait TrFromStr (d_traits d) = true ->
    op_from_str lib d (Some x) = construct lib d x.
Proof. exact from_str_is_constructor. Qed.
Print Assumptions C06_is_constructor.

(* it never yields a value the constructor would reject, and never panics *)
Theorem C06_never_invalid :
  forall (lib : fnlib) (d : decl) (inner : option value) (v : value),
    d_family d <> FStr -> has_trait TrFromStr (d_traits d) = true ->
    op_from_str lib d inner = OOk v ->
    exists x, inner = Some x /\ construct lib d x = OOk v.
Proof.
  intros lib d inner v Hf Ht H. destruct inner as [x|].
  - exists x. split; [reflexivity|]. rewrite <- (from_str_is_constructor lib d x Hf Ht). exact H.
  - assert (E : op_from_str lib d None = OParseErr) by (apply from_str_parse_err_iff; auto).
    rewrite E in H. discriminate.
Qed.
Print Assumptions C06_never_invalid.

Theorem C06_no_panic :
  forall (lib : fnlib) (d : decl) (inner : option value), op_from_str lib d inner <> OPanic.
Proof.
  intros lib d inner. unfold op_from_str.
  destruct (d_family d); try discriminate;
    (destruct (has_trait TrFromStr (d_traits d)); [|discriminate]);
    (destruct inner; [apply Lemmas.DeclLemmas.construct_never_panics | discriminate]).
Qed.
Print Assumptions C06_no_panic.
