(* C16  Validation error messages state the violated rule truthfully. *)
From NV Require Import Base.Util Base.IntTy Base.Float Macro.Ast Macro.Messages Spec.Truth
     Sem.Value Sem.Eval Spec.GuardSpec.
Local Open Scope Z_scope.
Local Open Scope string_scope.

(* integers: for every bound kind, every value and every bound, the stated constraint is
   satisfied by exactly the values the validator accepts *)
Theorem C16_truthful_int :
  forall (tn : string) (t : int_ty) (k : vkind) (r : relword) (x b : Z),
    msg_rel (FInt tn t) k = Some r -> stated_int r x b = accepts_int k x b.
Proof. intros tn t k r x b H. destruct k; cbn in H; try discriminate; injection H as <-; reflexivity. Qed.
Print Assumptions C16_truthful_int.

(* strings: the length sentences (repaired: "at most" / "at least") are truthful *)
Theorem C16_truthful_str :
  forall (k : vkind) (r : relword) (len b : Z),
    msg_rel FStr k = Some r -> stated_int r len b = accepts_int k len b.
Proof. intros k r len b H. destruct k; cbn in H; try discriminate; injection H as <-; reflexivity. Qed.
Print Assumptions C16_truthful_str.

(* floats: `greater` and `greater_or_equal` are truthful ... *)
Theorem C16_truthful_float_lower :
  forall (is64 : bool) (k : vkind) (r : relword) (x b : Z),
    (k = KGreater \/ k = KGreaterOrEqual) ->
    msg_rel (FFloat is64) k = Some r -> stated_float is64 r x b = accepts_float is64 k x b.
Proof. intros is64 k r x b [-> | ->] H; cbn in H; injection H as <-; reflexivity. Qed.
Print Assumptions C16_truthful_float_lower.

(* ... KNOWN FINDING float_less_messages_swapped: the sentences of `less` and
   `less_or_equal` are exchanged; at x = bound the `less_or_equal` rule accepts the value the
   message calls forbidden ("must be less than b"), and the `less` rule rejects a value its
   message admits ("less or equal to b").  The pinned suite asserts the swapped text
   (test_suite/tests/float.rs:492), so it cannot be repaired without editing that test. *)
Theorem C16_float_less_refuted :
  exists (k : vkind) (r : relword) (x b : Z),
    msg_rel (FFloat true) k = Some r /\ stated_float true r x b <> accepts_float true k x b.
Proof.
  exists KLessOrEqual, RLess, 4607182418800017408, 4607182418800017408.
  split; [reflexivity|]. vm_compute. discriminate.
Qed.
Print Assumptions C16_float_less_refuted.

(* the message names the newtype: the text starts with the type name *)
Theorem C16_names_type :
  forall (fam : family) (name : string) (k : vkind),
    msg_text fam name k <> "" -> exists rest, msg_text fam name k = name ++ rest.
Proof.
  intros fam name k H. unfold msg_text in *.
  destruct fam, k; cbn in *; try contradiction; eexists; reflexivity.
Qed.
Print Assumptions C16_names_type.

(* serde and FromStr errors embed the same sentence *)
Theorem C16_embedded :
  forall (name msg : string),
    serde_msg name msg = msg ++ " Expected valid " ++ name /\
    parse_msg name msg = "Failed to parse " ++ name ++ ": " ++ msg.
Proof. intros. split; reflexivity. Qed.
Print Assumptions C16_embedded.
