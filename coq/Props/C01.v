(* C01  Constructors compute exactly sanitize-then-validate, for every input.
   This file holds statements only; proofs live in Lemmas/. *)
From NV Require Import Base.Util Base.FloatBits Base.Float Base.Expr Macro.Surface Macro.Ast
     Sem.Guard Sem.Value Sem.Eval Spec.GuardSpec
     Lemmas.GuardLemmas Lemmas.DeclLemmas Lemmas.FloatLemmas Run.Runner.
Local Open Scope Z_scope.
Local Open Scope string_scope.

(* try_new returns Ok exactly when the value obtained by applying the declared sanitizers in
   declaration order satisfies every declared validator; the wrapped value is that value. *)
Theorem C01_try_new_ok :
  forall (lib : fnlib) (d : decl) (raw v : value),
    comparable d (spec_sanitize lib d raw) = true ->
    (d_try_new lib d raw = Ok v <->
     v = spec_sanitize lib d raw /\ spec_valid lib d (spec_sanitize lib d raw) = true).
Proof. exact try_new_ok_iff_spec. Qed.
Print Assumptions C01_try_new_ok.

(* otherwise it returns Err (and no value exists: the result is a sum type) *)
Theorem C01_try_new_err :
  forall (lib : fnlib) (d : decl) (raw : value),
    comparable d (spec_sanitize lib d raw) = true ->
    ((exists e, d_try_new lib d raw = Err e) <-> spec_valid lib d (spec_sanitize lib d raw) = false).
Proof. exact try_new_err_iff_spec. Qed.
Print Assumptions C01_try_new_err.

(* float declarations with `finite`: exact on EVERY bit pattern, NaN payloads included *)
Theorem C01_try_new_finite :
  forall (lib : fnlib) (d : decl) (vs : list validator) (raw v : value),
    d_validation d = Some (RVStandard vs) -> In VFinite vs -> bounds_not_nan d = true ->
    (d_try_new lib d raw = Ok v <->
     v = spec_sanitize lib d raw /\ spec_valid lib d (spec_sanitize lib d raw) = true).
Proof. exact try_new_ok_iff_spec_finite. Qed.
Print Assumptions C01_try_new_finite.

(* [comparable] is no restriction outside the float family ... *)
Theorem C01_comparable_non_float :
  forall (d : decl) (x : value),
    (forall is64, d_family d <> FFloat is64) -> comparable d x = true.
Proof.
  intros d x H. unfold comparable. destruct (d_family d) eqn:E; try reflexivity.
  exfalso. eapply H. reflexivity.
Qed.
Print Assumptions C01_comparable_non_float.

(* ... and inside it only excludes NaN operands *)
Theorem C01_comparable_float :
  forall (d : decl) (x : value),
    bounds_not_nan d = true ->
    (forall is64 z, d_family d = FFloat is64 -> x = VF z -> f_is_nan is64 z = false) ->
    comparable d x = true.
Proof. exact comparable_of_not_nan. Qed.
Print Assumptions C01_comparable_float.

(* without validators, new wraps exactly the sanitized value *)
Theorem C01_new :
  forall (lib : fnlib) (d : decl) (raw : value), d_new lib d raw = spec_sanitize lib d raw.
Proof. exact new_is_sanitize. Qed.
Print Assumptions C01_new.

Theorem C01_no_panic :
  forall (lib : fnlib) (d : decl) (raw : value), construct lib d raw <> OPanic.
Proof. exact construct_never_panics. Qed.
Print Assumptions C01_no_panic.

(* const_fn, generic parameters, name, visibility, derive list do not change the outcome *)
Theorem C01_flags :
  forall (lib : fnlib) (d d' : decl) (raw : value),
    d_family d = d_family d' -> d_sans d = d_sans d' -> d_validation d = d_validation d' ->
    d_env d = d_env d' -> construct lib d raw = construct lib d' raw.
Proof. exact construct_flags_irrelevant. Qed.
Print Assumptions C01_flags.

(* --- non-vacuity and the recorded finding --------------------------------------------- *)

Definition ex_decl (fam : family) (ss : list sanitizer) (vs : list validator) : decl :=
  {| d_family := fam; d_name := "T"; d_vis := "pub"; d_generics := []; d_sans := ss;
     d_validation := Some (RVStandard vs); d_new_unchecked := false; d_const_fn := false;
     d_default := None; d_traits := []; d_env := [] |}.

Definition ex_int : decl :=
  ex_decl (FInt "i8" {| IntTy.signed := true; IntTy.bits := 8 |})
          [SWith {| fn_id := 0; fn_form := FPath |}]
          [VGreater (BLit 5); VLessOrEqual (BLit 100); VPredicate {| fn_id := 0; fn_form := FPath |}].

(* 120 is clamped to 100 by the sanitizer, then accepted; 5 is rejected *)
Example C01_example_int :
  comparable ex_int (spec_sanitize (the_lib ex_int) ex_int (VI 120)) = true /\
  d_try_new (the_lib ex_int) ex_int (VI 120) = Ok (VI 100) /\
  d_try_new (the_lib ex_int) ex_int (VI 5) = Err (EVariant KGreater).
Proof. vm_compute. auto. Qed.

Definition ex_float : decl :=
  ex_decl (FFloat false) [] [VGreater (BLit 0); VLess (BLit 1092616192)].   (* (0.0, 10.0) *)

(* KNOWN FINDING float_nan_passes_bounds: without `finite` a NaN passes every bound check
   although it satisfies none of the declared bounds. *)
Theorem C01_float_nan_refuted :
  exists (d : decl) (x : value),
    d_try_new (the_lib d) d x = Ok x /\ spec_valid (the_lib d) d (spec_sanitize (the_lib d) d x) = false.
Proof. exists ex_float, (VF 2143289344). vm_compute. auto. Qed.
Print Assumptions C01_float_nan_refuted.

Example C01_example_float_ok :
  comparable ex_float (VF 1065353216) = true /\
  d_try_new (the_lib ex_float) ex_float (VF 1065353216) = Ok (VF 1065353216).
Proof. vm_compute. auto. Qed.

(* --- the recorded finding float_nan_passes_bounds, characterised exactly --------------------
   for a NaN the bound validators are transparent: the outcome is decided by the first `finite`
   or rejecting predicate in written order, and a NaN is accepted although the rules' meaning
   excludes it exactly when no such validator exists and some bound is declared *)
From NV Require Import Lemmas.NanLemmas.
Theorem C01_nan_outcome :
  forall (lib : fnlib) (d : decl) (is64 : bool) (vs : list validator) (x : Z),
    d_family d = FFloat is64 -> d_sans d = [] -> d_validation d = Some (RVStandard vs) ->
    f_is_nan is64 x = true ->
    d_try_new lib d (VF x) =
    match first_nan_violation lib vs (VF x) with
    | None => Ok (VF x)
    | Some k => Err (EVariant k)
    end.
Proof. exact try_new_nan. Qed.
Print Assumptions C01_nan_outcome.

Theorem C01_nan_finding_exact :
  forall (lib : fnlib) (d : decl) (is64 : bool) (vs : list validator) (x : Z),
    d_family d = FFloat is64 -> d_sans d = [] -> d_validation d = Some (RVStandard vs) ->
    f_is_nan is64 x = true ->
    (d_try_new lib d (VF x) = Ok (VF x) /\ spec_valid lib d (VF x) = false) <->
    (existsb (stops_nan lib (VF x)) vs = false /\ existsb is_bound vs = true).
Proof. exact nan_accepted_invalid_iff. Qed.
Print Assumptions C01_nan_finding_exact.
