(* C09  Derived Arbitrary is total and yields only valid values, for every byte input.
   Integers: proved below.  Strings and floats: see the later sections of this file. *)
From NV Require Import Base.Util Base.IntTy Base.Expr Macro.Surface Macro.Ast
     Sem.Guard Sem.Value Sem.Eval Sem.Bytes Sem.ArbInt Sem.ArbStr Sem.ArbFloat Spec.GuardSpec
     Lemmas.BytesLemmas Lemmas.ArbIntLemmas Run.Runner.
Local Open Scope Z_scope.
Local Open Scope string_scope.

(* integers, bounds only, no custom sanitizer, non-empty valid set: for EVERY byte string the
   generator returns a value (never an error, never a panic) and the value is valid *)
Theorem C09_int :
  forall (lib : fnlib) (d : decl) (tn : string) (t : int_ty) (vs : list validator) (lo hi : Z) (bs : bytes),
    wf_bits t -> d_family d = FInt tn t -> d_sans d = [] ->
    d_validation d = Some (RVStandard vs) ->
    forallb is_bound_validator vs = true -> single_bounds vs = true -> bounds_in_ty d t vs ->
    arb_boundary d = Some (lo, hi) -> lo <= hi -> bytes_ok bs = true ->
    exists x, arb_int lib d bs = OOk (VI x) /\ spec_valid lib d (VI x) = true.
Proof. exact arb_int_valid. Qed.
Print Assumptions C09_int.

Theorem C09_int_no_validation :
  forall (lib : fnlib) (d : decl) (tn : string) (t : int_ty) (bs : bytes),
    wf_bits t -> d_family d = FInt tn t -> d_validation d = None -> bytes_ok bs = true ->
    exists v, arb_int lib d bs = OOk v.
Proof. exact arb_int_no_validation. Qed.
Print Assumptions C09_int_no_validation.

Theorem C09_int_in_range_in_bounds :
  forall (t : int_ty) (lo hi : Z) (bs : bytes),
    wf_bits t -> bytes_ok bs = true -> lo <= hi -> hi - lo <= 2 ^ bits t - 1 ->
    exists x r, int_in_range t lo hi bs = Some (x, r) /\ lo <= x <= hi.
Proof. exact int_in_range_in_bounds. Qed.
Print Assumptions C09_int_in_range_in_bounds.

Definition ex_int (ss : list sanitizer) (vs : list validator) : decl :=
  {| d_family := FInt "i8" {| IntTy.signed := true; IntTy.bits := 8 |}; d_name := "T"; d_vis := "pub";
     d_generics := []; d_sans := ss; d_validation := Some (RVStandard vs); d_new_unchecked := false;
     d_const_fn := false; d_default := None; d_traits := [TrArbitrary]; d_env := [] |}.

(* KNOWN FINDING int_custom_sanitizer_with_bounds: a custom sanitizer is accepted together
   with bounds and Arbitrary, but the generator picks a RAW value in the valid range and the
   sanitizer may move it out: `sanitize(with = |v| v / 2), validate(greater = 5)`, byte 0x00
   picks 6, sanitized to 3, rejected -> panic. *)
Theorem C09_int_sanitizer_refuted :
  exists (d : decl) (bs : bytes),
    bytes_ok bs = true /\ arb_boundary d = Some (6, 127) /\ arb_int (the_lib d) d bs = OPanic.
Proof.
  exists (ex_int [SWith {| fn_id := 1; fn_form := FPath |}] [VGreater (BLit 5)]), [0].
  vm_compute. auto.
Qed.
Print Assumptions C09_int_sanitizer_refuted.

(* --- strings and floats: recorded finding classes, each with a machine-checked witness ---- *)

Definition ex_decl (fam : family) (ss : list sanitizer) (vs : list validator) : decl :=
  {| d_family := fam; d_name := "T"; d_vis := "pub"; d_generics := []; d_sans := ss;
     d_validation := Some (RVStandard vs); d_new_unchecked := false; d_const_fn := false;
     d_default := None; d_traits := [TrArbitrary]; d_env := [] |}.

(* KNOWN FINDING str_case_sanitizer_with_len_char_max: sanitize(uppercase),
   validate(len_char_max = 1); bytes 01 DF 00 00 00 generate U+00DF, upper-cased to "SS" *)
Theorem C09_str_case_refuted :
  exists (d : decl) (bs : bytes), bytes_ok bs = true /\ arb_str (the_lib d) d bs = OPanic.
Proof. exists (ex_decl FStr [SUppercase] [VLenCharMax (BLit 1)]), [1; 223; 0; 0; 0]. vm_compute. auto. Qed.
Print Assumptions C09_str_case_refuted.

(* the repaired not_empty / len_char_min interplay: one zero byte now yields three chars *)
Example C09_str_not_empty_min_fixed :
  let d := ex_decl FStr [] [VNotEmpty; VLenCharMin (BLit 3)] in
  arb_str (the_lib d) d [0] = OOk (VS [0; 0; 0]%N).
Proof. vm_compute. reflexivity. Qed.

(* KNOWN FINDING float_exclusive_bound_delta_absorbed: validate(greater = 64.0) on f32, empty
   input: base 0.0, x = 64.0, 64.0 + 0.000002 = 64.0, rejected *)
Theorem C09_float_delta_absorbed_refuted :
  exists (d : decl) (bs : bytes), bytes_ok bs = true /\ arb_float (the_lib d) d bs = OPanic.
Proof. exists (ex_decl (FFloat false) [] [VGreater (BLit 1115684864)]), []. vm_compute. auto. Qed.
Print Assumptions C09_float_delta_absorbed_refuted.

(* KNOWN FINDING float_exclusive_bound_delta_exceeds_range: (1e-40, 1e-39) on f32 *)
Theorem C09_float_delta_exceeds_range_refuted :
  exists (d : decl) (bs : bytes), bytes_ok bs = true /\ arb_float (the_lib d) d bs = OPanic.
Proof. exists (ex_decl (FFloat false) [] [VGreater (BLit 71362); VLess (BLit 713624)]), []. vm_compute. auto. Qed.
Print Assumptions C09_float_delta_exceeds_range_refuted.

(* KNOWN FINDING float_two_sided_range_overflow: finite, [-3e38, 3e38) on f32: range = inf,
   0.0 * inf = NaN *)
Theorem C09_float_range_overflow_refuted :
  exists (d : decl) (bs : bytes), bytes_ok bs = true /\ arb_float (the_lib d) d bs = OPanic.
Proof.
  exists (ex_decl (FFloat false) [] [VGreaterOrEqual (BLit 4284592614); VFinite; VLess (BLit 2137108966)]), [].
  vm_compute. auto.
Qed.
Print Assumptions C09_float_range_overflow_refuted.

(* KNOWN FINDING float_one_sided_finite_overflow: finite, less_or_equal = -3.0e38 on f32, bytes
   B6 ED 21 FE (base value -5.38e37): -|b| + -3.0e38 = -inf *)
Theorem C09_float_one_sided_overflow_refuted :
  exists (d : decl) (bs : bytes), bytes_ok bs = true /\ arb_float (the_lib d) d bs = OPanic.
Proof.
  exists (ex_decl (FFloat false) [] [VFinite; VLessOrEqual (BLit 4284592614)]), [182; 237; 33; 254].
  vm_compute. auto.
Qed.
Print Assumptions C09_float_one_sided_overflow_refuted.

(* KNOWN FINDING float_exclusive_upper_overshoot_exceeds_delta: finite, [-956.078, 0.9478) on
   f32, all-ones bytes: the scaled value overshoots the upper bound by more than the delta *)
Theorem C09_float_exclusive_upper_overshoot_refuted :
  exists (d : decl) (bs : bytes), bytes_ok bs = true /\ arb_float (the_lib d) d bs = OPanic.
Proof.
  exists (ex_decl (FFloat false) [] [VFinite; VGreaterOrEqual (BLit 3295610110); VLess (BLit 1064477445)]),
         [255; 255; 255; 255].
  vm_compute. auto.
Qed.
Print Assumptions C09_float_exclusive_upper_overshoot_refuted.

(* the repaired two-sided case: greater = 0.0, less_or_equal = 1.0 on f64, eight zero bytes *)
Example C09_float_two_sided_fixed :
  let d := ex_decl (FFloat true) [] [VGreater (BLit 0); VLessOrEqual (BLit 4607182418800017408)] in
  arb_float (the_lib d) d [0; 0; 0; 0; 0; 0; 0; 0] = OOk (VF 4391576639459776022).
Proof. vm_compute. reflexivity. Qed.

(* the repaired overshoot: greater_or_equal = -1.1, less_or_equal = 0.1 on f64, all-ones bytes:
   -1.1 + 1.0 * fl(0.1 - -1.1) = 0.10000000000000009 is clamped to the upper bound *)
Example C09_float_inclusive_upper_clamped :
  let d := ex_decl (FFloat true) [] [VGreaterOrEqual (BLit 13831004815617530266); VLessOrEqual (BLit 4591870180066957722)] in
  arb_float (the_lib d) d [255; 255; 255; 255; 255; 255; 255; 255] = OOk (VF 4591870180066957722).
Proof. vm_compute. reflexivity. Qed.

(* --- strings: the generator is total and yields only valid values ----------------------- *)
From NV Require Import Lemmas.ArbStrLemmas Macro.Validate.
From NV.Unicode Require UStr.

(* declarations without case-mapping sanitizers (none, or trim), validators among
   len_char_min / len_char_max / not_empty (literal or expression bounds), non-empty valid set:
   for EVERY byte string the refill loop terminates within the model's fuel, the
   unreachable!() arm is never taken, and the value returned is valid *)
Theorem C09_str :
  forall (lib : fnlib), l_trim lib = UStr.u_trim ->
  forall (d : decl) (vs : list validator) (mn mx : Z) (bs : bytes),
    d_family d = FStr -> d_validation d = Some (RVStandard vs) ->
    forallb str_gen_validator vs = true -> str_gen_sans (d_sans d) = true ->
    has_dup vkind_eqb (map vkind_of vs) = false ->
    str_spec d = (mn, mx) -> 0 <= mn <= mx -> mx - mn <= 2 ^ 64 - 1 -> bytes_ok bs = true ->
    exists v, arb_str lib d bs = OOk v /\ spec_valid lib d v = true.
Proof. exact arb_str_valid. Qed.
Print Assumptions C09_str.

Theorem C09_str_refill_terminates :
  forall (lib : fnlib), l_trim lib = UStr.u_trim ->
  forall (target : nat) (out : list N) (bs : bytes),
    (List.length (UStr.u_trim out) <= target)%nat ->
    exists s, refill lib (List.length bs + target + 1) target out bs = Some s /\
              List.length (UStr.u_trim s) = target.
Proof. exact refill_model_fuel. Qed.
Print Assumptions C09_str_refill_terminates.

(* --- floats: the conditioned base value always exists -------------------------------------- *)
From NV Require Import Lemmas.ArbFloatLemmas.

(* the 'outer loop with the 1000-step byte mangling terminates within the model's fuel for
   every byte string and returns a value satisfying its condition (finite / not NaN) *)
Theorem C09_float_base_total :
  forall (is64 : bool) (k : base_kind) (bs : bytes),
    exists x r, base_value is64 k (List.length bs + 2) bs = Some (x, r) /\ base_cond is64 k x = true.
Proof. exact base_value_model_fuel. Qed.
Print Assumptions C09_float_base_total.

Theorem C09_float_inner_never_out_of_fuel :
  forall (is64 : bool) (d : decl) (vs : list validator) (bs : bytes), arb_float_inner is64 d vs bs <> None.
Proof. exact arb_float_inner_some. Qed.
Print Assumptions C09_float_inner_never_out_of_fuel.

(* --- floats: the generator yields a valid value for every byte string, in the shapes that are
   outside the recorded classes (no exclusive bound; `finite` not combined with a single bound) *)
From NV Require Import Base.Float Lemmas.ArbFloatValid.

(* no validation: plain delegation *)
Theorem C09_float_no_validation :
  forall (lib : fnlib) (d : decl) (is64 : bool) (bs : bytes),
    d_family d = FFloat is64 -> d_validation d = None -> exists v, arb_float lib d bs = OOk v.
Proof. exact arb_float_no_validation_ok. Qed.
Print Assumptions C09_float_no_validation.

(* validate(finite) *)
Theorem C09_float_finite_only :
  forall (lib : fnlib) (d : decl) (is64 : bool) (bs : bytes),
    d_family d = FFloat is64 -> d_sans d = [] -> d_validation d = Some (RVStandard [VFinite]) ->
    exists x, arb_float lib d bs = OOk (VF x) /\ f_is_finite is64 x = true.
Proof. exact arb_float_finite_ok. Qed.
Print Assumptions C09_float_finite_only.

(* validate(greater_or_equal = L) / validate(less_or_equal = U): IEEE addition is monotone, an
   overflow to an infinity still satisfies the bound *)
Theorem C09_float_lower_inclusive :
  forall (lib : fnlib) (d : decl) (is64 : bool) (bnd : bound) (bs : bytes),
    d_family d = FFloat is64 -> d_sans d = [] ->
    d_validation d = Some (RVStandard [VGreaterOrEqual bnd]) ->
    f_is_finite is64 (bval d bnd) = true ->
    exists x, arb_float lib d bs = OOk (VF x) /\ f_ge is64 x (bval d bnd) = true.
Proof. exact arb_float_lower_incl_ok. Qed.
Print Assumptions C09_float_lower_inclusive.

Theorem C09_float_upper_inclusive :
  forall (lib : fnlib) (d : decl) (is64 : bool) (bnd : bound) (bs : bytes),
    d_family d = FFloat is64 -> d_sans d = [] ->
    d_validation d = Some (RVStandard [VLessOrEqual bnd]) ->
    f_is_finite is64 (bval d bnd) = true ->
    exists x, arb_float lib d bs = OOk (VF x) /\ f_le is64 x (bval d bnd) = true.
Proof. exact arb_float_upper_incl_ok. Qed.
Print Assumptions C09_float_upper_inclusive.

(* two inclusive bounds, with or without `finite`, in any order, when the distance of the bounds
   does not overflow: lower + from0to1 * range is monotone from below and the clamp introduced
   by the repair (fix: float Arbitrary clamps the scaled value to an inclusive upper bound)
   bounds it from above; every byte string whose bytes are bytes *)
Theorem C09_float_two_inclusive :
  forall (lib : fnlib) (d : decl) (is64 : bool) (vs : list validator) (bl bu : bound) (bs : bytes),
    d_family d = FFloat is64 -> d_sans d = [] -> d_validation d = Some (RVStandard vs) ->
    (forall v, In v vs -> v = VFinite \/ v = VGreaterOrEqual bl \/ v = VLessOrEqual bu) ->
    fboundaries d vs None None =
      (Some {| fb_val := bval d bl; fb_incl := true |}, Some {| fb_val := bval d bu; fb_incl := true |}) ->
    bytes_ok bs = true ->
    f_le is64 (bval d bl) (bval d bu) = true ->
    f_is_finite is64 (f_sub is64 (bval d bu) (bval d bl)) = true ->
    exists x, arb_float lib d bs = OOk (VF x) /\
              f_le is64 (bval d bl) x = true /\ f_le is64 x (bval d bu) = true /\ f_is_finite is64 x = true.
Proof. exact arb_float_two_incl_finite_ok. Qed.
Print Assumptions C09_float_two_inclusive.

(* the hypotheses are met: [0.5, 9.5] with finite on f64 *)
Example C09_float_two_inclusive_nonvacuous :
  let d := ex_decl (FFloat true) [] [VFinite; VGreaterOrEqual (BLit 4602678819172646912); VLessOrEqual (BLit 4621537642612260864)] in
  fboundaries d [VFinite; VGreaterOrEqual (BLit 4602678819172646912); VLessOrEqual (BLit 4621537642612260864)] None None =
    (Some {| fb_val := 4602678819172646912; fb_incl := true |}, Some {| fb_val := 4621537642612260864; fb_incl := true |}) /\
  f_le true 4602678819172646912 4621537642612260864 = true /\
  f_is_finite true (f_sub true 4621537642612260864 4602678819172646912) = true.
Proof. vm_compute. auto. Qed.

(* --- strings with case sanitizers: valid whenever no len_char_max is declared ----------------
   (the recorded class str_case_sanitizer_with_len_char_max is exactly the complement: a case
   mapping never shortens a string, never creates or removes white space, and commutes with trim) *)
From NV Require Import Lemmas.ArbStrCaseLemmas Lemmas.CanonLemmas.
Theorem C09_str_case_without_max :
  forall (lib : fnlib), unicode_lib lib ->
  forall (ft : features) (sd : sdecl) (d : decl) (vs : list validator) (bs : bytes),
    macro_verdict ft sd = Accept d -> d_family d = FStr -> d_validation d = Some (RVStandard vs) ->
    has_trait TrArbitrary (d_traits d) = true ->
    forallb str_min_validator vs = true ->
    bytes_ok bs = true ->
    exists v, arb_str lib d bs = OOk v /\ spec_valid lib d v = true.
Proof. intros lib Hl ft sd d vs bs. exact (macro_accepted_arb_str_min_valid lib ft sd d vs bs Hl). Qed.
Print Assumptions C09_str_case_without_max.

Theorem C09_case_mappings_never_shorten :
  forall s, (List.length s <= List.length (UStr.u_lower s))%nat /\ (List.length s <= List.length (UStr.u_upper s))%nat.
Proof. intro s. split; [apply u_lower_length_ge | apply u_upper_length_ge]. Qed.
Print Assumptions C09_case_mappings_never_shorten.

(* --- floats: one EXCLUSIVE bound, characterised exactly ---------------------------------------
   validate(greater = L): the generator computes fl(|base| + L) and, when that is not above L,
   adds the fixed correction delta.  It yields a valid value for EVERY byte string exactly when
   the delta is not absorbed at the bound (fl(L + delta) > L); otherwise every input whose
   first draw is 0 — the empty input, the all-zero input — panics.  This is the recorded class
   float_exclusive_bound_delta_absorbed, now with its boundary proved rather than sampled. *)
From NV Require Import Base.FloatBits Lemmas.ArbFloatExcl.

Theorem C09_float_lower_exclusive :
  forall (lib : fnlib) (d : decl) (is64 : bool) (bnd : bound) (bs : bytes),
    d_family d = FFloat is64 -> d_sans d = [] ->
    d_validation d = Some (RVStandard [VGreater bnd]) ->
    f_is_finite is64 (bval d bnd) = true ->
    f_gt is64 (f_add is64 (bval d bnd) (correction_delta is64)) (bval d bnd) = true ->
    exists x, arb_float lib d bs = OOk (VF x) /\ f_gt is64 x (bval d bnd) = true.
Proof. exact arb_float_lower_excl_ok. Qed.
Print Assumptions C09_float_lower_exclusive.

Theorem C09_float_lower_exclusive_iff :
  forall (lib : fnlib) (d : decl) (is64 : bool) (bnd : bound),
    d_family d = FFloat is64 -> d_sans d = [] ->
    d_validation d = Some (RVStandard [VGreater bnd]) ->
    f_is_finite is64 (bval d bnd) = true ->
    ((forall bs, exists x, arb_float lib d bs = OOk (VF x) /\ f_gt is64 x (bval d bnd) = true) <->
     f_gt is64 (f_add is64 (bval d bnd) (correction_delta is64)) (bval d bnd) = true).
Proof. exact arb_float_lower_excl_iff. Qed.
Print Assumptions C09_float_lower_exclusive_iff.

Theorem C09_float_upper_exclusive :
  forall (lib : fnlib) (d : decl) (is64 : bool) (bnd : bound) (bs : bytes),
    d_family d = FFloat is64 -> d_sans d = [] ->
    d_validation d = Some (RVStandard [VLess bnd]) ->
    f_is_finite is64 (bval d bnd) = true ->
    f_lt is64 (f_sub is64 (bval d bnd) (correction_delta is64)) (bval d bnd) = true ->
    exists x, arb_float lib d bs = OOk (VF x) /\ f_lt is64 x (bval d bnd) = true.
Proof. exact arb_float_upper_excl_ok. Qed.
Print Assumptions C09_float_upper_exclusive.

Theorem C09_float_upper_exclusive_iff :
  forall (lib : fnlib) (d : decl) (is64 : bool) (bnd : bound),
    d_family d = FFloat is64 -> d_sans d = [] ->
    d_validation d = Some (RVStandard [VLess bnd]) ->
    f_is_finite is64 (bval d bnd) = true ->
    ((forall bs, exists x, arb_float lib d bs = OOk (VF x) /\ f_lt is64 x (bval d bnd) = true) <->
     f_lt is64 (f_sub is64 (bval d bnd) (correction_delta is64)) (bval d bnd) = true).
Proof. exact arb_float_upper_excl_iff. Qed.
Print Assumptions C09_float_upper_exclusive_iff.

(* `finite` beside ONE inclusive bound (either order): valid for every byte string when adding the
   bound to the largest finite value does not overflow; the recorded class
   float_one_sided_finite_overflow is the complement (`finite, less_or_equal = -3.0e38`) *)
Theorem C09_float_finite_lower_inclusive :
  forall (lib : fnlib) (d : decl) (is64 : bool) (vs : list validator) (bnd : bound) (bs : bytes),
    d_family d = FFloat is64 -> d_sans d = [] -> d_validation d = Some (RVStandard vs) ->
    vs = [VFinite; VGreaterOrEqual bnd] \/ vs = [VGreaterOrEqual bnd; VFinite] ->
    f_is_finite is64 (bval d bnd) = true ->
    f_is_finite is64 (f_add is64 (max_finite is64) (bval d bnd)) = true ->
    exists x, arb_float lib d bs = OOk (VF x) /\
              f_is_finite is64 x = true /\ f_ge is64 x (bval d bnd) = true.
Proof. exact arb_float_finite_lower_incl_ok. Qed.
Print Assumptions C09_float_finite_lower_inclusive.

Theorem C09_float_finite_upper_inclusive :
  forall (lib : fnlib) (d : decl) (is64 : bool) (vs : list validator) (bnd : bound) (bs : bytes),
    d_family d = FFloat is64 -> d_sans d = [] -> d_validation d = Some (RVStandard vs) ->
    vs = [VFinite; VLessOrEqual bnd] \/ vs = [VLessOrEqual bnd; VFinite] ->
    f_is_finite is64 (bval d bnd) = true ->
    f_is_finite is64 (f_add is64 (fb_neg is64 (max_finite is64)) (bval d bnd)) = true ->
    exists x, arb_float lib d bs = OOk (VF x) /\
              f_is_finite is64 x = true /\ f_le is64 x (bval d bnd) = true.
Proof. exact arb_float_finite_upper_incl_ok. Qed.
Print Assumptions C09_float_finite_upper_inclusive.

(* non-vacuity: greater = 0.5 on f64 meets the hypothesis; greater = 64.0 on f32 does not, and the
   empty input panics there *)
Example C09_float_lower_exclusive_nonvacuous :
  f_gt true (f_add true 4602678819172646912 (correction_delta true)) 4602678819172646912 = true /\
  f_gt false (f_add false 1115684864 (correction_delta false)) 1115684864 = false.
Proof. vm_compute. auto. Qed.

(* --- floats: TWO bounds with an exclusive one -------------------------------------------------
   x0 = L + u * fl(U - L) with u in [0,1] lies between L and xmax = L + 1.0 * fl(U - L) (IEEE
   addition / multiplication are monotone); an exclusive end is corrected by the fixed delta.
   Valid for every byte string under decidable conditions on the two bound values alone; for
   [L, U) and (L, U] the condition that matters is also necessary (all-ones / all-zero input). *)
From NV Require Import Lemmas.ArbFloatExcl2.

(* [L, U), `finite` optional, any order *)
Theorem C09_float_incl_excl :
  forall (lib : fnlib) (d : decl) (is64 : bool) (vs : list validator) (bl bu : bound) (bs : bytes),
    d_family d = FFloat is64 -> d_sans d = [] -> d_validation d = Some (RVStandard vs) ->
    (forall v, In v vs -> v = VFinite \/ v = VGreaterOrEqual bl \/ v = VLess bu) ->
    fboundaries d vs None None =
      (Some {| fb_val := bval d bl; fb_incl := true |}, Some {| fb_val := bval d bu; fb_incl := false |}) ->
    bytes_ok bs = true ->
    f_is_finite is64 (f_sub is64 (bval d bu) (bval d bl)) = true ->
    f_le is64 (bval d bl) (f_sub is64 (bval d bu) (correction_delta is64)) = true ->
    f_lt is64 (f_sub is64 (f_xmax is64 (bval d bl) (bval d bu)) (correction_delta is64)) (bval d bu) = true ->
    exists x, arb_float lib d bs = OOk (VF x) /\
              f_le is64 (bval d bl) x = true /\ f_lt is64 x (bval d bu) = true /\ f_is_finite is64 x = true.
Proof. exact arb_float_incl_excl_ok. Qed.
Print Assumptions C09_float_incl_excl.

(* ... and the overshoot condition is necessary when the scaled value can reach U at all: this is
   the recorded class float_exclusive_upper_overshoot_exceeds_delta (and delta_absorbed at U) *)
Theorem C09_float_incl_excl_iff :
  forall (lib : fnlib) (d : decl) (is64 : bool) (vs : list validator) (bl bu : bound),
    d_family d = FFloat is64 -> d_sans d = [] -> d_validation d = Some (RVStandard vs) ->
    (forall v, In v vs -> v = VFinite \/ v = VGreaterOrEqual bl \/ v = VLess bu) ->
    fboundaries d vs None None =
      (Some {| fb_val := bval d bl; fb_incl := true |}, Some {| fb_val := bval d bu; fb_incl := false |}) ->
    f_is_finite is64 (f_sub is64 (bval d bu) (bval d bl)) = true ->
    f_le is64 (bval d bl) (f_sub is64 (bval d bu) (correction_delta is64)) = true ->
    f_ge is64 (f_xmax is64 (bval d bl) (bval d bu)) (bval d bu) = true ->
    ((forall bs, bytes_ok bs = true ->
        exists x, arb_float lib d bs = OOk (VF x) /\
                  f_le is64 (bval d bl) x = true /\ f_lt is64 x (bval d bu) = true /\ f_is_finite is64 x = true) <->
     f_lt is64 (f_sub is64 (f_xmax is64 (bval d bl) (bval d bu)) (correction_delta is64)) (bval d bu) = true).
Proof. exact arb_float_incl_excl_iff. Qed.
Print Assumptions C09_float_incl_excl_iff.

(* (L, U]: exactly when the delta is not absorbed at L *)
Theorem C09_float_excl_incl_iff :
  forall (lib : fnlib) (d : decl) (is64 : bool) (vs : list validator) (bl bu : bound),
    d_family d = FFloat is64 -> d_sans d = [] -> d_validation d = Some (RVStandard vs) ->
    (forall v, In v vs -> v = VFinite \/ v = VGreater bl \/ v = VLessOrEqual bu) ->
    fboundaries d vs None None =
      (Some {| fb_val := bval d bl; fb_incl := false |}, Some {| fb_val := bval d bu; fb_incl := true |}) ->
    f_is_finite is64 (f_sub is64 (bval d bu) (bval d bl)) = true ->
    f_lt is64 (bval d bl) (bval d bu) = true ->
    ((forall bs, bytes_ok bs = true ->
        exists x, arb_float lib d bs = OOk (VF x) /\
                  f_lt is64 (bval d bl) x = true /\ f_le is64 x (bval d bu) = true /\ f_is_finite is64 x = true) <->
     f_gt is64 (f_add is64 (bval d bl) (correction_delta is64)) (bval d bl) = true).
Proof. exact arb_float_excl_incl_iff. Qed.
Print Assumptions C09_float_excl_incl_iff.

(* (L, U): sufficient conditions *)
Theorem C09_float_excl_excl :
  forall (lib : fnlib) (d : decl) (is64 : bool) (vs : list validator) (bl bu : bound) (bs : bytes),
    d_family d = FFloat is64 -> d_sans d = [] -> d_validation d = Some (RVStandard vs) ->
    (forall v, In v vs -> v = VFinite \/ v = VGreater bl \/ v = VLess bu) ->
    fboundaries d vs None None =
      (Some {| fb_val := bval d bl; fb_incl := false |}, Some {| fb_val := bval d bu; fb_incl := false |}) ->
    bytes_ok bs = true ->
    f_is_finite is64 (f_sub is64 (bval d bu) (bval d bl)) = true ->
    f_lt is64 (bval d bl) (f_sub is64 (bval d bu) (correction_delta is64)) = true ->
    f_lt is64 (f_sub is64 (f_xmax is64 (bval d bl) (bval d bu)) (correction_delta is64)) (bval d bu) = true ->
    f_gt is64 (f_add is64 (bval d bl) (correction_delta is64)) (bval d bl) = true ->
    f_lt is64 (f_add is64 (bval d bl) (correction_delta is64)) (bval d bu) = true ->
    exists x, arb_float lib d bs = OOk (VF x) /\
              f_lt is64 (bval d bl) x = true /\ f_lt is64 x (bval d bu) = true /\ f_is_finite is64 x = true.
Proof. exact arb_float_excl_excl_ok. Qed.
Print Assumptions C09_float_excl_excl.

(* the conditions on concrete bounds: [0.0, 1.0) on f64 meets them; [64.0, 65.0) on f32 does not
   (65.0 - 0.000002 rounds back to 65.0) *)
Example C09_float_incl_excl_conditions :
  f_lt true (f_sub true (f_xmax true 0 4607182418800017408) (correction_delta true)) 4607182418800017408 = true /\
  f_lt false (f_sub false (f_xmax false 1115684864 1115815936) (correction_delta false)) 1115815936 = false.
Proof. vm_compute. auto. Qed.

(* --- floats: ONE decision procedure over all shapes --------------------------------------------
   Sem/ArbFloatDecide.arb_float_decide reads a declaration (family, sanitizers, validators, bound
   values) and answers Total / PanicsOn bs / Unknown; it is run by the correspondence on every
   float declaration of the Arbitrary corpus.  Total is a THEOREM about every byte string, PanicsOn
   names a failing input. *)
From NV Require Import Sem.ArbFloatDecide Lemmas.ArbFloatDecideLemmas.

Theorem C09_float_decided_total :
  forall (lib : fnlib) (d : decl) (bs : bytes),
    arb_float_decide d = AVTotal -> bytes_ok bs = true ->
    exists v, arb_float lib d bs = OOk v /\ spec_valid lib d v = true.
Proof. exact arb_float_decide_total_sound. Qed.
Print Assumptions C09_float_decided_total.

Theorem C09_float_decided_panics :
  forall (lib : fnlib) (d : decl) (bs : bytes),
    arb_float_decide d = AVPanicsOn bs -> arb_float lib d bs = OPanic /\ bytes_ok bs = true.
Proof.
  intros lib d bs H. split.
  - exact (arb_float_decide_panics_sound lib d bs H).
  - exact (arb_float_decide_panics_bytes_ok d bs H).
Qed.
Print Assumptions C09_float_decided_panics.

(* the three answers occur: f64 [0.0, 1.0) is total, f32 [64.0, 65.0) panics on the all-ones input,
   f32 `finite, less_or_equal = -3.0e38` is left open (it belongs to a recorded class) *)
Example C09_float_decided_examples :
  arb_float_decide (ex_decl (FFloat true) [] [VGreaterOrEqual (BLit 0); VLess (BLit 4607182418800017408)]) = AVTotal /\
  arb_float_decide (ex_decl (FFloat false) [] [VGreaterOrEqual (BLit 1115684864); VLess (BLit 1115815936)]) = AVPanicsOn [255; 255; 255; 255] /\
  arb_float_decide (ex_decl (FFloat false) [] [VFinite; VLessOrEqual (BLit 4284688930)]) = AVUnknown.
Proof. vm_compute. auto. Qed.

(* --- strings: the same packaging — one decision procedure over all shapes ------------------------
   Total (no case sanitizer, or a case sanitizer without len_char_max) is a theorem about every byte
   string; PanicsOn names the failing input of the recorded class str_case_sanitizer_with_len_char_max
   for EVERY len_char_max between 1 and 2^64 - 1: mx copies of U+00DF (uppercase) / U+0130 (lowercase)
   behind the bytes that make int_in_range pick the largest length. *)
From NV Require Import Sem.ArbStrDecide Lemmas.ArbStrDecideLemmas.

Theorem C09_str_decided_total :
  forall (lib : fnlib), unicode_lib lib ->
  forall (d : decl) (bs : bytes),
    arb_str_decide d = SVTotal -> bytes_ok bs = true ->
    exists v, arb_str lib d bs = OOk v /\ spec_valid lib d v = true.
Proof. exact arb_str_decide_total_sound. Qed.
Print Assumptions C09_str_decided_total.

Theorem C09_str_decided_panics :
  forall (lib : fnlib), unicode_lib lib ->
  forall (d : decl) (bs : bytes),
    arb_str_decide d = SVPanicsOn bs -> arb_str lib d bs = OPanic /\ bytes_ok bs = true.
Proof. exact arb_str_decide_panics_sound. Qed.
Print Assumptions C09_str_decided_panics.

(* --- the decision procedure the correspondence runs: arb_float_decide refined on its Unknown answers by the
   overflow witness (`finite` beside one bound whose sum with +-MAX overflows: the input that draws MAX panics;
   this closes the recorded class float_one_sided_finite_overflow) --------------------------------------------- *)
Theorem C09_float_decided_ext_total :
  forall (lib : fnlib) (d : decl) (bs : bytes),
    arb_float_decide_ext d = AVTotal -> bytes_ok bs = true ->
    exists v, arb_float lib d bs = OOk v /\ spec_valid lib d v = true.
Proof. exact arb_float_decide_ext_total_sound. Qed.
Theorem C09_float_decided_ext_panics :
  forall (lib : fnlib) (d : decl) (bs : bytes),
    arb_float_decide_ext d = AVPanicsOn bs -> arb_float lib d bs = OPanic /\ bytes_ok bs = true.
Proof.
  intros lib d bs H. split.
  - exact (arb_float_decide_ext_panics_sound lib d bs H).
  - exact (arb_float_decide_ext_panics_bytes_ok d bs H).
Qed.
Print Assumptions C09_float_decided_ext_panics.

(* `finite, less_or_equal = -3.0e38` on f32: left open by arb_float_decide, decided by the refinement *)
Example C09_float_decided_ext_example :
  arb_float_decide_ext (ex_decl (FFloat false) [] [VFinite; VLessOrEqual (BLit 4284688930)]) = AVPanicsOn [255; 255; 127; 127].
Proof. vm_compute. reflexivity. Qed.
