(* C09  Derived Arbitrary is total and yields only valid values, for every byte input.
   Integers: proved below.  Strings and floats: see the later sections of this file. *)
From NV Require Import Base.Util Base.IntTy Base.Expr Macro.Surface Macro.Ast
     Sem.Guard Sem.Value Sem.Eval Sem.Bytes Sem.ArbInt Spec.GuardSpec
     Lemmas.BytesLemmas Lemmas.ArbIntLemmas Run.Runner.
Local Open Scope Z_scope.
Local Open Scope string_scope.

(* integers, bounds only, no custom sanitizer, non-empty valid set: for EVERY byte string the
   generator returns a value (never an error, never a panic) and the value is valid *)
Theorem C09_int :
  forall (lib : fnlib) (d : decl) (tn : string) (t : int_ty) (vs : list validator) (lo hi : Z) (bs : bytes),
    wf_bits t -> d_family d = FInt tn t -> d_sans d = [] ->
    d_validation d = Some (RVStandard vs) ->
    forallb is_bound_validator vs = true -> single_bounds vs = true -> bounds_in_ty d t vs ->
    arb_boundary d = Some (lo, hi) -> lo <= hi -> bytes_ok bs = true ->
    exists x, arb_int lib d bs = OOk (VI x) /\ spec_valid lib d (VI x) = true.
Proof. exact arb_int_valid. Qed.
Print Assumptions C09_int.

Theorem C09_int_no_validation :
  forall (lib : fnlib) (d : decl) (tn : string) (t : int_ty) (bs : bytes),
    wf_bits t -> d_family d = FInt tn t -> d_validation d = None -> bytes_ok bs = true ->
    exists v, arb_int lib d bs = OOk v.
Proof. exact arb_int_no_validation. Qed.
Print Assumptions C09_int_no_validation.

Theorem C09_int_in_range_in_bounds :
  forall (t : int_ty) (lo hi : Z) (bs : bytes),
    wf_bits t -> bytes_ok bs = true -> lo <= hi -> hi - lo <= 2 ^ bits t - 1 ->
    exists x r, int_in_range t lo hi bs = Some (x, r) /\ lo <= x <= hi.
Proof. exact int_in_range_in_bounds. Qed.
Print Assumptions C09_int_in_range_in_bounds.

Definition ex_int (ss : list sanitizer) (vs : list validator) : decl :=
  {| d_family := FInt "i8" {| IntTy.signed := true; IntTy.bits := 8 |}; d_name := "T"; d_vis := "pub";
     d_generics := []; d_sans := ss; d_validation := Some (RVStandard vs); d_new_unchecked := false;
     d_const_fn := false; d_default := None; d_traits := [TrArbitrary]; d_env := [] |}.

(* KNOWN FINDING int_custom_sanitizer_with_bounds: a custom sanitizer is accepted together
   with bounds and Arbitrary, but the generator picks a RAW value in the valid range and the
   sanitizer may move it out: `sanitize(with = |v| v / 2), validate(greater = 5)`, byte 0x00
   picks 6, sanitized to 3, rejected -> panic. *)
Theorem C09_int_sanitizer_refuted :
  exists (d : decl) (bs : bytes),
    bytes_ok bs = true /\ arb_boundary d = Some (6, 127) /\ arb_int (the_lib d) d bs = OPanic.
Proof.
  exists (ex_int [SWith {| fn_id := 1; fn_form := FPath |}] [VGreater (BLit 5)]), [0].
  vm_compute. auto.
Qed.
Print Assumptions C09_int_sanitizer_refuted.
