(* C04  Deserialization can never produce a value the constructor would reject. *)
From NV Require Import Base.Util Base.Expr Macro.Surface Macro.Ast Sem.Guard Sem.Value Sem.Eval
     Sem.Conv Sem.Serde Spec.GuardSpec Lemmas.SerdeLemmas.

Theorem C04_sound :
  forall (lib : fnlib) (doc : Type) (de_inner : doc -> option value)
         (unwrap : string -> doc -> option doc) (d : decl) (x : doc) (v : value),
    deserialize lib doc de_inner unwrap d x = OOk v ->
    exists inner_doc raw, unwrap (d_name d) x = Some inner_doc /\ de_inner inner_doc = Some raw /\
                          construct lib d raw = OOk v.
Proof. exact deserialize_sound. Qed.
Print Assumptions C04_sound.

Theorem C04_complete :
  forall (lib : fnlib) (doc : Type) (de_inner : doc -> option value)
         (unwrap : string -> doc -> option doc) (d : decl) (x inner_doc : doc) (raw : value),
    has_trait TrDeserialize (d_traits d) = true ->
    unwrap (d_name d) x = Some inner_doc -> de_inner inner_doc = Some raw ->
    deserialize lib doc de_inner unwrap d x = construct lib d raw.
Proof. exact deserialize_complete. Qed.
Print Assumptions C04_complete.

Theorem C04_inner_failure :
  forall (lib : fnlib) (doc : Type) (de_inner : doc -> option value)
         (unwrap : string -> doc -> option doc) (d : decl) (x inner_doc : doc),
    has_trait TrDeserialize (d_traits d) = true ->
    unwrap (d_name d) x = Some inner_doc -> de_inner inner_doc = None ->
    deserialize lib doc de_inner unwrap d x = OParseErr.
Proof. exact deserialize_fails_with_inner. Qed.
Print Assumptions C04_inner_failure.

Theorem C04_nested :
  forall (lib : fnlib) (doc : Type) (de_inner : doc -> option value)
         (unwrap : string -> doc -> option doc) (d : decl) (l : list doc) (vs : list value),
    traverse doc (deserialize lib doc de_inner unwrap d) l = Some vs ->
    Forall2 (fun x v => exists inner_doc raw, unwrap (d_name d) x = Some inner_doc /\
                                              de_inner inner_doc = Some raw /\ construct lib d raw = OOk v) l vs.
Proof. exact traverse_sound. Qed.
Print Assumptions C04_nested.

(* ---- JSON, concretely (Sem/Json): an integer document is accepted only if it denotes a value of
   the inner type (no wrap), and a string document only yields scalar values ------------------- *)
From NV Require Import Base.IntTy Sem.Json Lemmas.JsonLemmas.
Theorem C04_json_int_in_type :
  forall (t : int_ty) (s : list N) (z : Z), json_read_int t s = Some z -> in_ty t z = true.
Proof. exact json_read_int_sound. Qed.
Theorem C04_json_string_scalar :
  forall (t s : list N), json_read_string t = Some s ->
    Forall (fun c => scalar c = true) t -> Forall (fun c => scalar c = true) s.
Proof. exact json_read_string_scalar. Qed.
Print Assumptions C04_json_int_in_type.

(* the general theorems at the two concrete formats: a JSON / MessagePack document deserializes into a String or
   integer newtype only through the constructor applied to what the format's reader yields for the inner type *)
From NV Require Import Sem.MsgPack.
Theorem C04_json_sound :
  forall (lib : fnlib) (d : decl) (doc : list N) (v : value),
    deserialize lib (list N) (json_de_inner (d_family d)) json_unwrap d doc = OOk v ->
    exists raw, json_de_inner (d_family d) doc = Some raw /\ construct lib d raw = OOk v.
Proof.
  intros lib d doc v H.
  destruct (deserialize_sound lib (list N) (json_de_inner (d_family d)) json_unwrap d doc v H) as (inner & raw & Hu & Hd & Hc).
  unfold json_unwrap in Hu. injection Hu as <-. exists raw. split; assumption.
Qed.
Theorem C04_msgpack_sound :
  forall (lib : fnlib) (d : decl) (doc : list N) (v : value),
    deserialize lib (list N) (mp_de_inner (d_family d)) mp_unwrap d doc = OOk v ->
    exists raw, mp_de_inner (d_family d) doc = Some raw /\ construct lib d raw = OOk v.
Proof.
  intros lib d doc v H.
  destruct (deserialize_sound lib (list N) (mp_de_inner (d_family d)) mp_unwrap d doc v H) as (inner & raw & Hu & Hd & Hc).
  unfold mp_unwrap in Hu. injection Hu as <-. exists raw. split; assumption.
Qed.
Print Assumptions C04_msgpack_sound.
