(* C14  Integer Arbitrary can produce every valid value. *)
From NV Require Import Base.Util Base.IntTy Base.Expr Macro.Surface Macro.Ast
     Sem.Guard Sem.Value Sem.Eval Sem.Bytes Sem.ArbInt Spec.GuardSpec
     Lemmas.BytesLemmas Lemmas.ArbIntLemmas Run.Runner.
Local Open Scope Z_scope.
Local Open Scope string_scope.

(* the generator's range is exactly the valid range ... *)
Theorem C14_range_eq_valid :
  forall (lib : fnlib) (d : decl) (tn : string) (t : int_ty) (vs : list validator) (lo hi x : Z),
    d_family d = FInt tn t -> d_validation d = Some (RVStandard vs) ->
    forallb is_bound_validator vs = true -> single_bounds vs = true ->
    arb_boundary d = Some (lo, hi) -> in_ty t x = true ->
    (spec_valid lib d (VI x) = true <-> lo <= x <= hi).
Proof. exact arb_range_eq_valid. Qed.
Print Assumptions C14_range_eq_valid.

(* ... and every value of it is produced by some byte input: not a strict subset *)
Theorem C14_surjective :
  forall (lib : fnlib) (d : decl) (tn : string) (t : int_ty) (vs : list validator) (lo hi x : Z),
    wf_bits t -> d_family d = FInt tn t -> d_sans d = [] ->
    d_validation d = Some (RVStandard vs) ->
    forallb is_bound_validator vs = true -> single_bounds vs = true -> bounds_in_ty d t vs ->
    arb_boundary d = Some (lo, hi) ->
    in_ty t x = true -> spec_valid lib d (VI x) = true ->
    exists bs, bytes_ok bs = true /\ arb_int lib d bs = OOk (VI x).
Proof. exact arb_int_surjective. Qed.
Print Assumptions C14_surjective.

(* the primitive the generator relies on (arbitrary 1.3.2 int_in_range) is onto its range *)
Theorem C14_int_in_range_surjective :
  forall (t : int_ty) (lo hi v : Z),
    wf_bits t -> lo <= v <= hi -> hi - lo <= 2 ^ bits t - 1 ->
    exists bs, bytes_ok bs = true /\ exists r, int_in_range t lo hi bs = Some (v, r).
Proof. exact int_in_range_surjective. Qed.
Print Assumptions C14_int_in_range_surjective.

Definition ex_decl (t : int_ty) (tn : string) (vs : list validator) (en : env) : decl :=
  {| d_family := FInt tn t; d_name := "T"; d_vis := "pub"; d_generics := []; d_sans := [];
     d_validation := Some (RVStandard vs); d_new_unchecked := false; d_const_fn := false;
     d_default := None; d_traits := [TrArbitrary]; d_env := en |}.

(* `less = ONE << 4` on u8: the range is [0, 15] (it was [0, 8] before the repair of the
   unparenthesised splice), and 15 is produced by the byte 0x0F *)
Example C14_example_shift :
  let d := ex_decl {| IntTy.signed := false; IntTy.bits := 8 |} "u8"
                   [VLess (BExpr (EBin OShl (EConst "ONE") (ELit {| l_float := false; l_suffix := None;
                       l_radix := false; l_int := 4; l_f32 := 0; l_f64 := 0 |})))]
                   [("ONE", ("u8", 1))] in
  arb_boundary d = Some (0, 15) /\ arb_int (the_lib d) d [15] = OOk (VI 15).
Proof. vm_compute. auto. Qed.

(* the side conditions of C14_surjective / C09_int hold for every declaration the macro
   accepts: at most one bound per side, and (with derive(Arbitrary)) bound validators only *)
From NV Require Import Macro.Parse Macro.Validate Lemmas.ArbAcceptedLemmas.

Theorem C14_accepted_single_bounds :
  forall (ft : features) (sd : sdecl) (d : decl) (tn : string) (t : int_ty) (vs : list validator),
    macro_verdict ft sd = Accept d -> d_family d = FInt tn t -> d_validation d = Some (RVStandard vs) ->
    single_bounds vs = true.
Proof. exact accepted_single_bounds. Qed.
Print Assumptions C14_accepted_single_bounds.

Theorem C14_accepted_arbitrary_bounds_only :
  forall (ft : features) (sd : sdecl) (d : decl) (tn : string) (t : int_ty) (vs : list validator),
    macro_verdict ft sd = Accept d -> d_family d = FInt tn t -> d_validation d = Some (RVStandard vs) ->
    has_trait TrArbitrary (d_traits d) = true ->
    (forall v, In v vs -> match v with VGreater _ | VGreaterOrEqual _ | VLess _ | VLessOrEqual _ | VPredicate _ => True | _ => False end) ->
    forallb is_bound_validator vs = true.
Proof. exact accepted_arbitrary_bounds_only. Qed.
Print Assumptions C14_accepted_arbitrary_bounds_only.
