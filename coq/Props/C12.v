(* C12  Float newtypes with `finite` have a lawful, panic-free Eq and a total Ord. *)
From NV Require Import Base.Util Base.FloatBits Base.Float Base.Expr Macro.Surface Macro.Ast
     Macro.Parse Macro.Validate
     Sem.Guard Sem.Value Sem.Eval Sem.Conv Sem.Bytes Sem.ArbFloat Sem.Order Spec.GuardSpec
     Lemmas.MacroLemmas Lemmas.FloatOrder Lemmas.OrderLemmas Run.Lib Run.Runner.
Local Open Scope Z_scope.

(* Eq / Ord are only permitted together with `finite` (a custom validator does not count) *)
Theorem C12_eq_ord_require_finite :
  forall (ft : features) (sd : sdecl) (d : decl) (is64 : bool),
    macro_verdict ft sd = Accept d -> d_family d = FFloat is64 ->
    has_trait TrEq (d_traits d) = true \/ has_trait TrOrd (d_traits d) = true ->
    exists vs, d_validation d = Some (RVStandard vs) /\ In VFinite vs.
Proof. exact accepted_float_eq_ord_finite. Qed.
Print Assumptions C12_eq_ord_require_finite.

(* no NaN or infinite value is obtainable through any safe entry point: try_new, TryFrom,
   FromStr (whatever the inner parser returns, "NaN" included), Deserialize, Default and
   Arbitrary (which validates or panics); From does not exist alongside validation *)
Theorem C12_obtainable_finite :
  forall (lib : fnlib), lib_typed lib ->
  forall (d : decl) (is64 : bool) (vs : list validator),
    d_family d = FFloat is64 -> d_validation d = Some (RVStandard vs) -> In VFinite vs ->
    (forall raw, typed (d_family d) raw = true -> finite_outcome is64 (op_try_new lib d raw)) /\
    (forall raw, typed (d_family d) raw = true -> finite_outcome is64 (op_try_from lib d raw)) /\
    (forall inner, (forall x, inner = Some x -> typed (d_family d) x = true) ->
                   finite_outcome is64 (op_from_str lib d inner)) /\
    (forall inner, (forall x, inner = Some x -> typed (d_family d) x = true) ->
                   finite_outcome is64 (op_deserialize lib d inner)) /\
    finite_outcome is64 (op_default lib d) /\
    (forall bs, finite_outcome is64 (arb_float lib d bs)) /\
    (forall raw, op_from lib d raw = ONotAvail \/ has_trait TrFrom (d_traits d) = true).
Proof. exact obtainable_finite. Qed.
Print Assumptions C12_obtainable_finite.

(* cmp never panics on obtainable values and agrees with partial_cmp of the inner floats *)
Theorem C12_cmp_total :
  forall (is64 : bool) (x y : Z),
    f_is_finite is64 x = true -> f_is_finite is64 y = true ->
    exists c, value_cmp (FFloat is64) (VF x) (VF y) = CmpOk c /\
              value_pcmp (FFloat is64) (VF x) (VF y) = Some c.
Proof. exact cmp_total_finite. Qed.
Print Assumptions C12_cmp_total.

Theorem C12_eq_reflexive :
  forall (is64 : bool) (x : Z), f_is_finite is64 x = true -> value_eq (FFloat is64) (VF x) (VF x) = true.
Proof. exact eq_reflexive_finite. Qed.
Print Assumptions C12_eq_reflexive.

(* the order is total, antisymmetric up to ==, transitive: sorting and ordered maps are safe *)
Theorem C12_total_order :
  forall (is64 : bool) (l : list Z),
    Forall (fun x => f_is_finite is64 x = true) l ->
    (forall a, In a l -> f_le_rel is64 a a) /\
    (forall a b, In a l -> In b l -> f_le_rel is64 a b \/ f_le_rel is64 b a) /\
    (forall a b c, In a l -> In b l -> In c l -> f_le_rel is64 a b -> f_le_rel is64 b c -> f_le_rel is64 a c) /\
    (forall a b, In a l -> In b l -> ord_cmp is64 a b <> None) /\
    (forall a b, In a l -> In b l -> exists c, ord_cmp is64 a b = Some c /\ ord_cmp is64 b a = Some (CompOpp c)) /\
    (forall a b, In a l -> In b l -> f_lt is64 a b = negb (f_le is64 b a)).
Proof. exact sort_safe. Qed.
Print Assumptions C12_total_order.

Theorem C12_eq_transitive :
  forall (is64 : bool) (x y z : Z),
    f_eq is64 x y = true -> f_eq is64 y z = true -> f_eq is64 x z = true.
Proof. exact fcmp_eq_trans. Qed.
Print Assumptions C12_eq_transitive.

(* the library used by the correspondence satisfies the typing hypothesis *)
Theorem C12_the_lib_typed : forall d, lib_typed (the_lib d).
Proof.
  intros d id fam v. unfold the_lib, l_san, san.
  destruct v, fam; cbn; try discriminate; intros _; try reflexivity;
    destruct id as [|[p|p|]]; reflexivity.
Qed.
Print Assumptions C12_the_lib_typed.

(* 0.0 == -0.0, distinct bit patterns: equality is IEEE equality, not bit equality *)
Example C12_example :
  value_eq (FFloat false) (VF 0) (VF 2147483648) = true /\
  value_cmp (FFloat false) (VF 1065353216) (VF 1073741824) = CmpOk Lt /\
  value_cmp (FFloat false) (VF 2143289344) (VF 0) = CmpPanic.
Proof. vm_compute. auto. Qed.
