(* C11  Stored values are canonical: re-entering any entry point reproduces them. *)
From NV Require Import Base.Util Base.Expr Macro.Surface Macro.Ast Sem.Guard Sem.Value Sem.Eval
     Sem.Conv Spec.GuardSpec Lemmas.CanonLemmas Run.Runner.
From NV.Unicode Require UnicodeData UStr.
From NV Require Lemmas.UnicodeLemmas.
Local Open Scope string_scope.

(* every accepted order of the built-in string sanitizers is idempotent on EVERY Unicode
   string: final sigma, dotted capital I, sharp s, ligatures and all White_Space included
   (tables generated from this toolchain's std, facts checked over all table entries) *)
Theorem C11_builtin_chain_idempotent :
  forall (lib : fnlib) (d : decl),
    unicode_lib lib -> accepted_builtin_chain (d_sans d) = true ->
    forall s, spec_sanitize lib d (spec_sanitize lib d (VS s)) = spec_sanitize lib d (VS s).
Proof. exact builtin_chain_idempotent. Qed.
Print Assumptions C11_builtin_chain_idempotent.

Theorem C11_trim_idem : forall s, UStr.u_trim (UStr.u_trim s) = UStr.u_trim s.
Proof. exact UnicodeLemmas.u_trim_idem. Qed.
Theorem C11_lower_idem : forall s, UStr.u_lower (UStr.u_lower s) = UStr.u_lower s.
Proof. exact UnicodeLemmas.u_lower_idem. Qed.
Theorem C11_upper_idem : forall s, UStr.u_upper (UStr.u_upper s) = UStr.u_upper s.
Proof. exact UnicodeLemmas.u_upper_idem. Qed.
Print Assumptions C11_lower_idem.

(* a single custom sanitizer declared idempotent (numeric or string) *)
Theorem C11_custom_idempotent :
  forall (lib : fnlib) (d : decl) (f : fnref),
    d_sans d = [SWith f] ->
    (forall x, l_san lib (fn_id f) (l_san lib (fn_id f) x) = l_san lib (fn_id f) x) ->
    idempotent_on lib d.
Proof. exact custom_idempotent. Qed.
Print Assumptions C11_custom_idempotent.

(* try_new(v.into_inner()) == Ok(v) for every obtainable v *)
Theorem C11_reenter :
  forall (lib : fnlib) (d : decl) (raw v : value),
    idempotent_on lib d -> comparable d (spec_sanitize lib d raw) = true ->
    construct lib d raw = OOk v -> construct lib d v = OOk v.
Proof. exact reenter. Qed.
Print Assumptions C11_reenter.

(* consequently any chain of re-entry steps stays on the same value *)
Theorem C11_chain :
  forall (lib : fnlib) (d : decl) (raw v : value) (n : nat),
    idempotent_on lib d -> comparable d (spec_sanitize lib d raw) = true ->
    construct lib d raw = OOk v -> chain lib d n v = OOk v.
Proof. exact chain_stays. Qed.
Print Assumptions C11_chain.

(* the library of the correspondence runs the Unicode model *)
Example C11_the_lib_unicode : forall d, unicode_lib (the_lib d).
Proof. intros d. repeat split. Qed.

(* "ΑΣ" lower-cases with a final sigma, and lower-casing again changes nothing;
   "ß" upper-cases to "SS" *)
Example C11_example_sigma :
  UStr.u_lower [913; 931]%N = [945; 962]%N /\ UStr.u_lower [945; 962]%N = [945; 962]%N /\
  UStr.u_upper [223]%N = [83; 83]%N.
Proof. vm_compute. auto. Qed.

(* a mixed chain whose composition in the declared order is idempotent although the custom step
   alone does not commute with trim: sanitize(with = |s| s.chars().take(n).collect(), trim).
   (Hoisting trim in front of the custom step breaks this: " ab cd" would be stored as "ab ".) *)
From NV Require Lemmas.MixedChainLemmas.
Theorem C11_take_then_trim_idempotent :
  forall (lib : fnlib) (d : decl) (f : fnref) (n : nat),
    l_trim lib = UStr.u_trim ->
    d_sans d = [SWith f; STrim] ->
    (forall s, l_san lib (fn_id f) (VS s) = VS (firstn n s)) ->
    forall s, spec_sanitize lib d (spec_sanitize lib d (VS s)) = spec_sanitize lib d (VS s).
Proof. exact MixedChainLemmas.take_trim_chain_idempotent. Qed.
Print Assumptions C11_take_then_trim_idempotent.

(* the reverse order is NOT idempotent: trim, then the first three chars of " ab cd"... *)
Example C11_trim_then_take_not_idempotent :
  let once := firstn 3 (UStr.u_trim [97; 98; 32; 99]%N) in
  once = [97; 98; 32]%N /\ firstn 3 (UStr.u_trim once) = [97; 98]%N.
Proof. vm_compute. auto. Qed.

(* Display -> FromStr of an integer newtype stays on the same value: printing is core's
   decimal Display, parsing core's decimal parser (Sem/Text), and parse (show z) = z for every
   z of the type, whatever its width *)
From NV Require Import Base.IntTy Sem.Text Lemmas.TextLemmas.
Theorem C11_parse_show_int :
  forall (t : int_ty) (z : Z), in_ty t z = true -> parse_int t (show_int z) = Some z.
Proof. exact parse_show_int. Qed.
Print Assumptions C11_parse_show_int.

Theorem C11_display_from_str_int :
  forall (lib : fnlib) (d : decl) (tn : string) (t : int_ty) (raw : value) (z : Z),
    d_family d = FInt tn t -> has_trait TrFromStr (d_traits d) = true ->
    idempotent_on lib d -> construct lib d raw = OOk (VI z) -> in_ty t z = true ->
    op_from_str_text lib d (show_int z) = OOk (VI z).
Proof. exact display_from_str_int. Qed.
Print Assumptions C11_display_from_str_int.

Example C11_show_int_examples :
  show_int (-170141183460469231731687303715884105728)%Z =
    [45; 49; 55; 48; 49; 52; 49; 49; 56; 51; 52; 54; 48; 52; 54; 57; 50; 51; 49; 55; 51; 49; 54; 56; 55; 51; 48; 51; 55; 49; 53; 56; 56; 52; 49; 48; 53; 55; 50; 56]%N
  /\ show_int 0 = [48]%N /\ show_int 255 = [50; 53; 53]%N.
Proof. vm_compute. repeat split; reflexivity. Qed.
