(* C02  Every written rule is enforced as written, or the declaration is rejected. *)
From NV Require Import Base.Util Base.IntTy Base.Expr Macro.Surface Macro.Ast Macro.Parse Macro.Validate
     Sem.Value Sem.Eval Lemmas.ParseLemmas Run.Runner.
Local Open Scope string_scope.

(* whatever spelling the bound has (literal with sign / underscores, constant, negated
   constant, parentheses, arithmetic, shift, T::MAX, call): if the declaration is accepted the
   bound enforced at run time is the value the expression denotes *)
Theorem C02_enforced_bound_is_denoted :
  forall (d : decl) (tn : string) (t : int_ty) (e : expr) (b : bound) (v : Z),
    d_family d = FInt tn t ->
    parse_bound_int t e = Accept b -> eval_int tn t (d_env d) e = Some v -> bval d b = v.
Proof. exact enforced_bound_is_denoted. Qed.
Print Assumptions C02_enforced_bound_is_denoted.

(* no validator is dropped, replaced or reordered inside validate(..) *)
Theorem C02_no_rule_dropped :
  forall (ft : features) (fam : family) (ts : list tok) (vs : list validator),
    parse_validation ft fam ts = Accept (RVStandard vs) ->
    exists attrs, parse_terminated (parse_validate_attr ft fam) ts = Accept attrs /\ vs = std_of attrs.
Proof. exact parse_validation_keeps_all. Qed.
Print Assumptions C02_no_rule_dropped.

(* a second validate(..) / sanitize(..) block is refused (it used to replace the first) *)
Theorem C02_repeated_validate_rejected :
  forall (ft : features) (fam : family) (ts : list tok) (rest : list (list tok)) (sn : seen) (p : parsed),
    sn_val sn = true ->
    parse_blocks ft fam ([TId "validate"; TG ts] :: rest) sn p = Reject "parse:duplicate_block".
Proof. exact parse_blocks_dup_validate. Qed.
Theorem C02_repeated_sanitize_rejected :
  forall (ft : features) (fam : family) (ts : list tok) (rest : list (list tok)) (sn : seen) (p : parsed),
    sn_san sn = true ->
    parse_blocks ft fam ([TId "sanitize"; TG ts] :: rest) sn p = Reject "parse:duplicate_block".
Proof. exact parse_blocks_dup_sanitize. Qed.
Print Assumptions C02_repeated_validate_rejected.

(* `greater = -K` with K = 5 on i32 is enforced as -5 (it was enforced as +5 before the repair
   of the consuming speculative parse): -3 is accepted, -7 rejected *)
Example C02_example_neg_const :
  run_line "(case d (ft 1 0 0 0 0 0) (sd (item tuple pub T (gen) (attrs) (fields (_ i32))) (toks (id validate) (g (id greater) e (x (neg (k K))))) (env (K i32 5))) (try_new (i -3)) (try_new (i -7)))"
  = ["d accept ref=1"; "d.0 ok (i -3)"; "d.1 err GreaterViolated"].
Proof. vm_compute. reflexivity. Qed.

(* --- attribute layouts: order of the blocks and trailing commas never matter --------------- *)
From NV Require Import Lemmas.LayoutLemmas.
From Coq Require Import Permutation.

Theorem C02_trailing_comma_irrelevant :
  forall (ft : features) (fam : family) (bs : list wblock),
    parse_attrs ft fam (render bs true) = parse_attrs ft fam (render bs false).
Proof. exact parse_trailing_comma_irrelevant. Qed.
Print Assumptions C02_trailing_comma_irrelevant.

(* for every permutation of the written blocks the parser accepts the same declarations and
   produces the very same rules *)
Theorem C02_block_order_irrelevant :
  forall (ft : features) (fam : family) (bs1 bs2 : list wblock) (t1 t2 : bool),
    Permutation bs1 bs2 ->
    forall p, parse_attrs ft fam (render bs1 t1) = Accept p <-> parse_attrs ft fam (render bs2 t2) = Accept p.
Proof. exact parse_accept_order_irrelevant. Qed.
Print Assumptions C02_block_order_irrelevant.
