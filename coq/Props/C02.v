(* C02  Every written rule is enforced as written, or the declaration is rejected. *)
From NV Require Import Base.Util Base.IntTy Base.Expr Macro.Surface Macro.Ast Macro.Parse Macro.Validate
     Sem.Value Sem.Eval Lemmas.ParseLemmas Run.Runner.
Local Open Scope string_scope.

(* whatever spelling the bound has (literal with sign / underscores, constant, negated
   constant, parentheses, arithmetic, shift, T::MAX, call): if the declaration is accepted the
   bound enforced at run time is the value the expression denotes *)
Theorem C02_enforced_bound_is_denoted :
  forall (d : decl) (tn : string) (t : int_ty) (e : expr) (b : bound) (v : Z),
    d_family d = FInt tn t ->
    parse_bound_int t e = Accept b -> eval_int tn t (d_env d) e = Some v -> bval d b = v.
Proof. exact enforced_bound_is_denoted. Qed.
Print Assumptions C02_enforced_bound_is_denoted.

(* no validator is dropped, replaced or reordered inside validate(..) *)
Theorem C02_no_rule_dropped :
  forall (ft : features) (fam : family) (ts : list tok) (vs : list validator),
    parse_validation ft fam ts = Accept (RVStandard vs) ->
    exists attrs, parse_terminated (parse_validate_attr ft fam) ts = Accept attrs /\ vs = std_of attrs.
Proof. exact parse_validation_keeps_all. Qed.
Print Assumptions C02_no_rule_dropped.

(* a second validate(..) / sanitize(..) block is refused (it used to replace the first) *)
Theorem C02_repeated_validate_rejected :
  forall (ft : features) (fam : family) (ts : list tok) (rest : list (list tok)) (sn : seen) (p : parsed),
    sn_val sn = true ->
    parse_blocks ft fam ([TId "validate"; TG ts] :: rest) sn p = Reject "parse:duplicate_block".
Proof. exact parse_blocks_dup_validate. Qed.
Theorem C02_repeated_sanitize_rejected :
  forall (ft : features) (fam : family) (ts : list tok) (rest : list (list tok)) (sn : seen) (p : parsed),
    sn_san sn = true ->
    parse_blocks ft fam ([TId "sanitize"; TG ts] :: rest) sn p = Reject "parse:duplicate_block".
Proof. exact parse_blocks_dup_sanitize. Qed.
Print Assumptions C02_repeated_validate_rejected.

(* `greater = -K` with K = 5 on i32 is enforced as -5 (it was enforced as +5 before the repair
   of the consuming speculative parse): -3 is accepted, -7 rejected *)
Example C02_example_neg_const :
  run_line "(case d (ft 1 0 0 0 0 0) (sd (item tuple pub T (gen) (attrs) (fields (_ i32))) (toks (id validate) (g (id greater) e (x (neg (k K))))) (env (K i32 5))) (try_new (i -3)) (try_new (i -7)))"
  = ["d accept ref=1"; "d.0 ok (i -3)"; "d.1 err GreaterViolated"].
Proof. vm_compute. reflexivity. Qed.

(* --- attribute layouts: order of the blocks and trailing commas never matter --------------- *)
From NV Require Import Lemmas.LayoutLemmas.
From Coq Require Import Permutation.

Theorem C02_trailing_comma_irrelevant :
  forall (ft : features) (fam : family) (bs : list wblock),
    parse_attrs ft fam (render bs true) = parse_attrs ft fam (render bs false).
Proof. exact parse_trailing_comma_irrelevant. Qed.
Print Assumptions C02_trailing_comma_irrelevant.

(* for every permutation of the written blocks the parser accepts the same declarations and
   produces the very same rules *)
Theorem C02_block_order_irrelevant :
  forall (ft : features) (fam : family) (bs1 bs2 : list wblock) (t1 t2 : bool),
    Permutation bs1 bs2 ->
    forall p, parse_attrs ft fam (render bs1 t1) = Accept p <-> parse_attrs ft fam (render bs2 t2) = Accept p.
Proof. exact parse_accept_order_irrelevant. Qed.
Print Assumptions C02_block_order_irrelevant.

(* --- the written order is the executed order, end to end ------------------------------------ *)
From NV Require Import Lemmas.OrderLemmas2 Sem.Guard Sem.Value Sem.Eval Spec.GuardSpec.

(* the sanitize(..) group: the parser's result is the position-wise image of the written items,
   nothing dropped, duplicated or moved; two different written lists never parse to the same list *)
Theorem C02_sanitizers_in_written_order :
  forall (fam : family) (items : list sitem) (trailing : bool) (ss : list sanitizer),
    parse_terminated (parse_sanitizer fam) (render_sanitize_group items trailing) = Accept ss ->
    ss = map sem_sitem items.
Proof. exact sanitize_group_written_order. Qed.
Print Assumptions C02_sanitizers_in_written_order.

Theorem C02_validators_in_written_order :
  forall (ft : features) (fam : family) (ws : list vitem) (trailing : bool) (vs : list validator),
    parse_validation ft fam (render_validate_group (map GStd ws) trailing) = Accept (RVStandard vs) ->
    vs = map (sem_vitem fam) ws.
Proof. exact validate_group_written_order_std. Qed.
Print Assumptions C02_validators_in_written_order.

(* the rest of the front end (validate_guard, validate_traits, gen_checks, rustc_checks) only
   judges: an accepted declaration carries exactly the parsed lists *)
Theorem C02_front_end_keeps_lists :
  forall (ft : features) (sd : sdecl) (d : decl),
    full_verdict ft sd = Accept d ->
    exists p, parse_meta (sd_item sd) = Accept (d_family d) /\
              parse_attrs ft (d_family d) (sd_attr sd) = Accept p /\
              d_sans d = p_sans p /\ d_validation d = p_validation p.
Proof. exact full_front_end_keeps_lists. Qed.
Print Assumptions C02_front_end_keeps_lists.

(* #[nutype(sanitize(items), validate(ws), derive(..))] with the blocks in any order *)
Theorem C02_accepted_declaration_as_written :
  forall (ft : features) (sd : sdecl) (d : decl) (bs : list wblock) (t ts tv : bool)
         (items : list sitem) (ws : list vitem) (derives : list tok),
    macro_verdict ft sd = Accept d -> sd_attr sd = render bs t ->
    Permutation bs [WSanitize (render_sanitize_group items ts);
                    WValidate (render_validate_group (map GStd ws) tv);
                    WDerive derives] ->
    d_sans d = map sem_sitem items /\
    d_validation d = Some (RVStandard (map (sem_vitem (d_family d)) ws)).
Proof. exact accepted_three_blocks_as_written. Qed.
Print Assumptions C02_accepted_declaration_as_written.

(* semantics: the constructor stores the fold of the WRITTEN sanitizers in written order and
   reports the first WRITTEN validator that fails *)
Theorem C02_executed_in_written_order :
  forall (lib : fnlib) (ft : features) (sd : sdecl) (d : decl) (bs : list wblock) (t : bool)
         (items : list sitem) (ws : list vitem) (raw : value),
    full_verdict ft sd = Accept d -> sd_attr sd = render bs t ->
    sanitize_written bs items -> validate_written bs ws ->
    comparable d (run_written_sanitizers lib d items raw) = true ->
    d_try_new lib d raw =
    match first_written_violated lib d ws (run_written_sanitizers lib d items raw) with
    | None => Ok (run_written_sanitizers lib d items raw)
    | Some k => Err (EVariant k)
    end.
Proof. exact full_accepted_try_new_written_order. Qed.
Print Assumptions C02_executed_in_written_order.
