(* C13  Views and comparison traits are transparent to the inner value.
   In the model a newtype value IS its stored inner value, every view is the identity and the
   comparison traits are the inner ones by definition (Sem/Order.v); the weight of C13 lies in
   the correspondence, which compares each view / comparison of the real generated code with
   the inner value inside the same process.  Proved here: the consequences users rely on. *)
From NV Require Import Base.Util Base.FloatBits Base.Float Macro.Ast Sem.Value Sem.Order
     Lemmas.ViewLemmas Sem.Utf8 Lemmas.Utf8Order.

(* == holds exactly for equal stored values: lawful Eq, and equal values hash equally *)
Theorem C13_eq_iff :
  forall (fam : family) (a b : value),
    (forall is64, fam <> FFloat is64) -> typed fam a = true -> typed fam b = true ->
    (match a, b with VF _, _ | _, VF _ => False | VI _, VI _ | VS _, VS _ | VL _, VL _ => True | _, _ => False end) ->
    (value_eq fam a b = true <-> a = b).
Proof. exact value_eq_iff. Qed.
Print Assumptions C13_eq_iff.

Theorem C13_cmp_antisym :
  forall (fam : family) (a b : value) (c : comparison),
    (forall is64, fam <> FFloat is64) ->
    value_pcmp fam a b = Some c -> value_pcmp fam b a = Some (CompOpp c).
Proof. exact value_cmp_antisym. Qed.
Print Assumptions C13_cmp_antisym.

(* the hash equals the hash of the borrowed form, whatever the hasher *)
Theorem C13_hash_borrow :
  forall (H : Type) (hash_inner : value -> H) (stored : value),
    newtype_hash hash_inner stored = hash_inner stored.
Proof. exact @hash_eq_borrowed. Qed.
Print Assumptions C13_hash_borrow.

(* Ord of a non-float newtype is the inner type's lawful total order: it always answers (cmp
   cannot panic), is reflexive and transitive, and partial_cmp says Equal exactly when == holds *)
Definition C13_same_shape (a b : value) : Prop :=
  match a, b with VI _, VI _ | VS _, VS _ | VL _, VL _ => True | _, _ => False end.

Theorem C13_cmp_total :
  forall (fam : family) (a b : value),
    (forall is64, fam <> FFloat is64) -> C13_same_shape a b ->
    exists c, value_pcmp fam a b = Some c /\ value_cmp fam a b = CmpOk c.
Proof. exact value_pcmp_total. Qed.
Print Assumptions C13_cmp_total.

Theorem C13_cmp_refl :
  forall (fam : family) (a : value),
    (forall is64, fam <> FFloat is64) -> C13_same_shape a a ->
    value_pcmp fam a a = Some Eq.
Proof. exact value_pcmp_refl. Qed.
Print Assumptions C13_cmp_refl.

Theorem C13_cmp_lt_trans :
  forall (fam : family) (a b d : value),
    (forall is64, fam <> FFloat is64) ->
    value_pcmp fam a b = Some Lt -> value_pcmp fam b d = Some Lt -> value_pcmp fam a d = Some Lt.
Proof. exact value_pcmp_lt_trans. Qed.
Print Assumptions C13_cmp_lt_trans.

Theorem C13_partial_cmp_agrees_with_eq :
  forall (fam : family) (a b : value),
    value_pcmp fam a b = Some Eq <-> value_eq fam a b = true.
Proof. exact value_pcmp_eq_consistent. Qed.
Print Assumptions C13_partial_cmp_agrees_with_eq.

(* non-vacuity: two strings, a proper prefix sorts first *)
Example C13_cmp_example :
  value_pcmp FStr (VS [97%N]) (VS [97%N; 98%N]) = Some Lt /\ C13_same_shape (VS [97%N]) (VS [97%N; 98%N]).
Proof. split; [vm_compute; reflexivity | exact I]. Qed.

(* Rust compares `String` / `str` byte-wise on the UTF-8 form (memcmp); the model compares scalar
   value by scalar value.  The two orders coincide for every pair of strings, so the model's
   string comparison IS the inner type's comparison *)
Theorem C13_str_order_is_byte_order :
  forall (s t : list N),
    value_pcmp FStr (VS s) (VS t) = Some (lex_cmp N.compare (utf8_encode s) (utf8_encode t)).
Proof. intros s t. cbn [value_pcmp]. f_equal. symmetry. exact (utf8_order_preserved s t). Qed.
Print Assumptions C13_str_order_is_byte_order.

(* non-vacuity: U+FF5E (3 bytes EF BD 9E) sorts before U+10000 (4 bytes F0 90 80 80) both ways *)
Example C13_str_order_example :
  lex_cmp N.compare (utf8_encode [0xFF5E%N]) (utf8_encode [0x10000%N]) = Lt
  /\ value_pcmp FStr (VS [0xFF5E%N]) (VS [0x10000%N]) = Some Lt.
Proof. split; vm_compute; reflexivity. Qed.

(* the Display view of an integer newtype (the decimal text of the stored value, Sem.Text)
   identifies the stored value: two values of the type never print alike *)
From NV Require Import Base.IntTy Sem.Text Lemmas.TextLemmas.
Theorem C13_display_int_injective :
  forall (t : int_ty) (z1 z2 : Z),
    in_ty t z1 = true -> in_ty t z2 = true -> show_int z1 = show_int z2 -> z1 = z2.
Proof.
  intros t z1 z2 H1 H2 E.
  pose proof (parse_show_int t z1 H1) as P1. pose proof (parse_show_int t z2 H2) as P2.
  rewrite E in P1. rewrite P1 in P2. injection P2 as P2. exact P2.
Qed.
Print Assumptions C13_display_int_injective.

(* likewise ==: Rust compares the UTF-8 bytes, the model the scalar values — the same relation *)
Theorem C13_str_eq_is_byte_eq :
  forall s t : list N, utf8_encode s = utf8_encode t <-> s = t.
Proof. exact utf8_encode_eq_iff. Qed.
Print Assumptions C13_str_eq_is_byte_eq.
