(* C05  Safe client code cannot create or mutate a value bypassing the guards.
   Structural half: over the inventory of emitted items (Macro/Inventory.v, compared with the
   real expansions by the harness). *)
From NV Require Import Base.Util Macro.Surface Macro.Ast Macro.Inventory.
Local Open Scope string_scope.

Definition str_in (s : string) (l : list string) : bool := existsb (String.eqb s) l.

(* every emitted function that constructs the type directly is try_new / new, or the unsafe
   new_unchecked (present only with the per-type flag) *)
Theorem C05_constructors :
  forall (ft : features) (d : decl) (f : fn_rec),
    In f (gen_fns ft d) -> fr_ctor f = true ->
    (fr_trait f = "-" /\ (fr_name f = "try_new" \/ fr_name f = "new")) \/
    (fr_name f = "new_unchecked" /\ fr_unsafe f = true /\ d_new_unchecked d = true).
Proof.
  intros ft d f Hin Hc. unfold gen_fns in Hin. apply in_app_or in Hin. destruct Hin as [Hin|Hin].
  - unfold inherent_fns in Hin.
    destruct (has_validation d), (d_new_unchecked d) eqn:Hu; cbn in Hin;
      repeat (destruct Hin as [<-|Hin]; [cbn in Hc; try discriminate; auto|]); try contradiction.
  - apply in_app_or in Hin. destruct Hin as [Hin|Hin].
    + unfold error_fns in Hin. destruct (is_standard d); cbn in Hin;
        repeat (destruct Hin as [<-|Hin]; [discriminate|]); contradiction.
    + apply in_flat_map in Hin. destruct Hin as (t & _ & Hf).
      destruct t; cbn in Hf; destruct (d_family d); cbn in Hf;
        repeat (destruct Hf as [<-|Hf]; [discriminate|]); try contradiction.
Qed.
Print Assumptions C05_constructors.

(* every other safe function of the type that returns it from nothing (no self receiver)
   runs the declared guards: it calls try_new or new *)
Theorem C05_delegation :
  forall (ft : features) (d : decl) (f : fn_rec),
    In f (gen_fns ft d) -> fr_self f = "T" -> fr_recv f = RNone -> fr_ret_self f = true -> fr_ctor f = false ->
    str_in "try_new" (fr_calls f) || str_in "new" (fr_calls f) = true.
Proof.
  intros ft d f Hin Hs Hr Hrs Hc. unfold gen_fns in Hin. apply in_app_or in Hin. destruct Hin as [Hin|Hin].
  - unfold inherent_fns in Hin.
    destruct (has_validation d), (d_new_unchecked d); cbn in Hin;
      repeat (destruct Hin as [<-|Hin]; [cbn in *; try discriminate; auto|]); try contradiction.
  - apply in_app_or in Hin. destruct Hin as [Hin|Hin].
    + unfold error_fns in Hin. destruct (is_standard d); cbn in Hin;
        repeat (destruct Hin as [<-|Hin]; [cbn in *; discriminate|]); contradiction.
    + apply in_flat_map in Hin. destruct Hin as (t & _ & Hf).
      destruct t; cbn in Hf; unfold ctor_call, inner_other in Hf; destruct (d_family d), (has_validation d); cbn in Hf;
        repeat (destruct Hf as [<-|Hf]; [cbn in *; try discriminate; try reflexivity|]); try contradiction.
      all: try (destruct is64; cbn in *; discriminate).
Qed.
Print Assumptions C05_delegation.

(* no mutable view: no emitted function takes &mut self, returns &mut, or touches the field
   mutably *)
Theorem C05_no_mutable_access :
  forall (ft : features) (d : decl) (f : fn_rec),
    In f (gen_fns ft d) ->
    fr_recv f <> RMut /\ fr_ret_mut f = false /\ fr_field f <> FMut.
Proof.
  intros ft d f Hin. unfold gen_fns in Hin. apply in_app_or in Hin. destruct Hin as [Hin|Hin].
  - unfold inherent_fns in Hin.
    destruct (has_validation d), (d_new_unchecked d); cbn in Hin;
      repeat (destruct Hin as [<-|Hin]; [cbn; repeat split; discriminate || reflexivity|]); try contradiction.
  - apply in_app_or in Hin. destruct Hin as [Hin|Hin].
    + unfold error_fns in Hin. destruct (is_standard d); cbn in Hin;
        repeat (destruct Hin as [<-|Hin]; [cbn; repeat split; discriminate || reflexivity|]); contradiction.
    + apply in_flat_map in Hin. destruct Hin as (t & _ & Hf).
      destruct t; cbn in Hf; destruct (d_family d); cbn in Hf;
        repeat (destruct Hf as [<-|Hf]; [cbn; repeat split; discriminate || reflexivity|]); try contradiction.
Qed.
Print Assumptions C05_no_mutable_access.

(* new_unchecked exists only with the per-type flag, and it is unsafe *)
Theorem C05_new_unchecked_gated :
  forall (ft : features) (d : decl) (f : fn_rec),
    In f (gen_fns ft d) -> fr_name f = "new_unchecked" -> d_new_unchecked d = true /\ fr_unsafe f = true.
Proof.
  intros ft d f Hin Hn. unfold gen_fns in Hin. apply in_app_or in Hin. destruct Hin as [Hin|Hin].
  - unfold inherent_fns in Hin.
    destruct (has_validation d), (d_new_unchecked d); cbn in Hin;
      repeat (destruct Hin as [<-|Hin]; [cbn in Hn; try discriminate; auto|]); try contradiction.
  - apply in_app_or in Hin. destruct Hin as [Hin|Hin].
    + unfold error_fns in Hin. destruct (is_standard d); cbn in Hin;
        repeat (destruct Hin as [<-|Hin]; [discriminate|]); contradiction.
    + apply in_flat_map in Hin. destruct Hin as (t & _ & Hf).
      destruct t; cbn in Hf; destruct (d_family d); cbn in Hf;
        repeat (destruct Hf as [<-|Hf]; [discriminate|]); try contradiction.
Qed.
Print Assumptions C05_new_unchecked_gated.

(* the type and its generated error types are re-exported with exactly the declared visibility *)
Theorem C05_reexports_visibility :
  forall (d : decl) (u : string * string), In u (gen_uses d) -> fst u = d_vis d.
Proof.
  intros d u Hin. unfold gen_uses in Hin. destruct Hin as [<-|Hin]; [reflexivity|].
  apply in_app_or in Hin. destruct Hin as [Hin|Hin].
  - destruct (is_standard d); [destruct Hin as [<-|[]]; reflexivity | contradiction].
  - destruct (has_trait TrFromStr (d_traits d) && negb (Macro.Parse.is_str (d_family d)));
      [destruct Hin as [<-|[]]; reflexivity | contradiction].
Qed.
Print Assumptions C05_reexports_visibility.
