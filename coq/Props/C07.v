(* C07  Rejections report the first violated rule; only declared error variants exist. *)
From NV Require Import Base.Util Base.Expr Macro.Surface Macro.Ast Macro.Parse Macro.Validate
     Sem.Guard Sem.Value Sem.Eval Spec.GuardSpec Lemmas.GuardLemmas Lemmas.DeclLemmas Lemmas.FloatLemmas
     Lemmas.MacroLemmas Run.Runner.
Local Open Scope Z_scope.
Local Open Scope string_scope.
Local Open Scope list_scope.

(* the error is the variant of the first validator, in the order written, that the sanitized
   value violates -- never a rule the value satisfies *)
Theorem C07_first :
  forall (lib : fnlib) (d : decl) (vs : list validator) (raw : value) (e : verr),
    d_validation d = Some (RVStandard vs) ->
    comparable d (spec_sanitize lib d raw) = true ->
    d_try_new lib d raw = Err e ->
    exists k pre v post,
      e = EVariant k /\ vs = pre ++ v :: post /\ vkind_of v = k /\
      holds lib d v (spec_sanitize lib d raw) = false /\
      Forall (fun v' => holds lib d v' (spec_sanitize lib d raw) = true) pre.
Proof.
  intros lib d vs raw e Hv Hc Ht.
  destruct (try_new_err_first_violated lib d vs raw e Hv Hc Ht) as (k & -> & Hk).
  destruct (first_violated_sound lib d vs _ k Hk) as (pre & v & post & H1 & H2 & H3 & H4).
  exists k, pre, v, post. auto.
Qed.
Print Assumptions C07_first.

(* one variant per declared validator: kinds of an accepted declaration are pairwise
   distinct, and the generated enum lists exactly [map vkind_of vs] (tied to the real
   expansion by the exhaustive wildcard-free match the harness compiles per declaration) *)
Theorem C07_variants_distinct :
  forall (ft : features) (sd : sdecl) (d : decl) (vs : list validator),
    macro_verdict ft sd = Accept d -> d_validation d = Some (RVStandard vs) ->
    has_dup vkind_eqb (map vkind_of vs) = false.
Proof. exact accepted_no_dup_validators. Qed.
Print Assumptions C07_variants_distinct.

(* with a custom `with`/`error` validator the user function's error is returned unchanged *)
Theorem C07_custom_error_unchanged :
  forall (lib : fnlib) (d : decl) (w : fnref) (err : string) (raw : value) (e : verr),
    d_validation d = Some (RVCustom w err) ->
    d_try_new lib d raw = Err e ->
    exists code, l_cust lib (fn_id w) (spec_sanitize lib d raw) = Some code /\ e = ECustom code.
Proof. exact custom_error_unchanged. Qed.
Print Assumptions C07_custom_error_unchanged.

(* the reported variant always belongs to a declared validator *)
Theorem C07_only_declared :
  forall (lib : fnlib) (d : decl) (vs : list validator) (raw : value) (k : vkind),
    d_validation d = Some (RVStandard vs) ->
    comparable d (spec_sanitize lib d raw) = true ->
    d_try_new lib d raw = Err (EVariant k) -> In k (map vkind_of vs).
Proof.
  intros lib d vs raw k Hv Hc Ht.
  destruct (try_new_err_first_violated lib d vs raw _ Hv Hc Ht) as (k' & He & Hk). injection He as <-.
  destruct (first_violated_sound lib d vs _ k Hk) as (pre & v & post & -> & <- & _).
  rewrite map_app. apply in_or_app. right. left. reflexivity.
Qed.
Print Assumptions C07_only_declared.

Definition ex_decl (fam : family) (vs : list validator) : decl :=
  {| d_family := fam; d_name := "T"; d_vis := "pub"; d_generics := []; d_sans := [];
     d_validation := Some (RVStandard vs); d_new_unchecked := false; d_const_fn := false;
     d_default := None; d_traits := []; d_env := [] |}.

(* the empty string violates not_empty, len_char_min and the regex at once: the first one
   in the written order is reported *)
Example C07_example_str :
  let d1 := ex_decl FStr [VNotEmpty; VLenCharMin (BLit 2); VRegex (RPath "RE0")] in
  let d2 := ex_decl FStr [VRegex (RPath "RE0"); VLenCharMin (BLit 2); VNotEmpty] in
  d_try_new (the_lib d1) d1 (VS []) = Err (EVariant KNotEmpty) /\
  d_try_new (the_lib d2) d2 (VS []) = Err (EVariant KRegex).
Proof. vm_compute. auto. Qed.
