(* C03  TryFrom, From, string FromStr and Default agree with the canonical constructor. *)
From NV Require Import Base.Util Base.Expr Macro.Surface Macro.Ast Macro.Parse Macro.Validate
     Sem.Guard Sem.Value Sem.Eval Sem.Conv Spec.GuardSpec Lemmas.ConvLemmas Lemmas.MacroLemmas Run.Runner.
Local Open Scope string_scope.

Theorem C03_try_from :
  forall (lib : fnlib) (d : decl) (raw : value),
    has_trait TrTryFrom (d_traits d) = true -> op_try_from lib d raw = construct lib d raw.
Proof. exact try_from_is_constructor. Qed.
Print Assumptions C03_try_from.

Theorem C03_from :
  forall (lib : fnlib) (d : decl) (raw : value),
    has_trait TrFrom (d_traits d) = true -> has_validation d = false ->
    op_from lib d raw = construct lib d raw.
Proof. exact from_is_constructor. Qed.
Print Assumptions C03_from.

(* From exists only where `new` does: refused alongside validators (str / int / float) *)
Theorem C03_from_refused_with_validation :
  forall (ft : features) (sd : sdecl) (d : decl),
    macro_verdict ft sd = Accept d -> (forall ty, d_family d <> FAny ty) ->
    has_trait TrFrom (d_traits d) = true -> has_validation d = false.
Proof. exact accepted_from_without_validation. Qed.
Print Assumptions C03_from_refused_with_validation.

Theorem C03_from_str_string :
  forall (lib : fnlib) (d : decl) (s : list N),
    d_family d = FStr -> has_trait TrFromStr (d_traits d) = true ->
    op_from_str_string lib d s = construct lib d (VS s).
Proof. exact from_str_string_is_constructor. Qed.
Print Assumptions C03_from_str_string.

(* Default::default() is the constructor applied to the declared default expression, and it
   panics rather than return a value the constructor rejects *)
Theorem C03_default :
  forall (lib : fnlib) (d : decl) (v : value),
    has_trait TrDefault (d_traits d) = true -> default_value d = Some v ->
    match construct lib d v with
    | OOk x => op_default lib d = OOk x
    | OErr _ => op_default lib d = OPanic
    | _ => False
    end.
Proof. exact default_is_constructor. Qed.
Print Assumptions C03_default.

Theorem C03_default_never_invalid :
  forall (lib : fnlib) (d : decl) (x : value),
    op_default lib d = OOk x -> exists v, default_value d = Some v /\ construct lib d v = OOk x.
Proof. exact default_never_invalid. Qed.
Print Assumptions C03_default_never_invalid.
