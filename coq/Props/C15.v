(* C15  Without `std`, generated code for non-string newtypes is no_std-clean.
   (first instalment: the statement is checked by building the corpus inside #![no_std] crates;
   the path-root theorem over the inventory follows with the expansion inventory) *)
From NV Require Import Base.Util Macro.Surface Macro.Ast Macro.Inventory.
Local Open Scope string_scope.

(* every trait path the macro emits for integer / float / other inner types is rooted in
   core, serde or arbitrary *)
Definition root_of (tr : string) : string :=
  (fix go (s acc : string) : string :=
     match s with
     | EmptyString => acc
     | String ":" _ => acc
     | String c r => go r (acc ++ String c EmptyString)
     end) tr "".

Definition allowed_root (r : string) : bool :=
  String.eqb r "-" || String.eqb r "core" || String.eqb r "alloc" || String.eqb r "serde" || String.eqb r "arbitrary".

Theorem C15_trait_roots :
  forall (ft : features) (d : decl),
    d_family d <> FStr ->
    forallb (fun f => allowed_root (root_of (fr_trait f))) (gen_fns ft d) = true.
Proof.
  intros ft d Hf. unfold gen_fns. rewrite !forallb_app. repeat (apply andb_true_intro; split).
  - unfold inherent_fns. destruct (has_validation d), (d_new_unchecked d); reflexivity.
  - unfold error_fns. destruct (is_standard d); reflexivity.
  - rewrite forallb_forall. intros f Hin. apply in_flat_map in Hin. destruct Hin as (t & _ & Hf').
    destruct t; cbn in Hf'; destruct (d_family d) eqn:E; try contradiction; cbn in Hf';
      repeat (destruct Hf' as [<-|Hf']; [reflexivity|]); try contradiction.
Qed.
Print Assumptions C15_trait_roots.
