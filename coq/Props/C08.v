(* C08  Unsound or contradictory declarations are refused; well-formed ones accepted.
   (first instalment: facts about accepted declarations; the reference rule book is
   Spec/Reference.v and is evaluated next to rustc's verdict on every declaration of the corpus) *)
From NV Require Import Base.Util Base.Expr Macro.Surface Macro.Ast Macro.Parse Macro.Validate
     Spec.Reference Lemmas.MacroLemmas.
Local Open Scope string_scope.

Theorem C08_no_duplicate_validators :
  forall (ft : features) (sd : sdecl) (d : decl) (vs : list validator),
    macro_verdict ft sd = Accept d -> d_validation d = Some (RVStandard vs) ->
    has_dup vkind_eqb (map vkind_of vs) = false.
Proof. exact accepted_no_dup_validators. Qed.
Print Assumptions C08_no_duplicate_validators.

Theorem C08_from_needs_no_validation :
  forall (ft : features) (sd : sdecl) (d : decl),
    macro_verdict ft sd = Accept d -> (forall ty, d_family d <> FAny ty) ->
    has_trait TrFrom (d_traits d) = true -> has_validation d = false.
Proof. exact accepted_from_without_validation. Qed.
Print Assumptions C08_from_needs_no_validation.

Theorem C08_float_eq_ord_need_finite :
  forall (ft : features) (sd : sdecl) (d : decl) (is64 : bool),
    macro_verdict ft sd = Accept d -> d_family d = FFloat is64 ->
    has_trait TrEq (d_traits d) = true \/ has_trait TrOrd (d_traits d) = true ->
    exists vs, d_validation d = Some (RVStandard vs) /\ In VFinite vs.
Proof. exact accepted_float_eq_ord_finite. Qed.
Print Assumptions C08_float_eq_ord_need_finite.

Theorem C08_reference_verdict_sound :
  forall (ft : features) (it : item) (fam : family) (p : parsed) (rv : list N -> bool),
    ref_verdict ft it fam p rv = "1" <-> ref_ok ft it fam p rv = true.
Proof. exact ref_verdict_ok. Qed.
Print Assumptions C08_reference_verdict_sound.
