(* C08  Unsound or contradictory declarations are refused; well-formed ones accepted.
   (first instalment: facts about accepted declarations; the reference rule book is
   Spec/Reference.v and is evaluated next to rustc's verdict on every declaration of the corpus) *)
From NV Require Import Base.Util Base.IntTy Base.Expr Macro.Surface Macro.Ast Macro.Parse Macro.Validate Macro.GenTests
     Sem.Guard Sem.Value Sem.Eval Sem.Conv Spec.Reference Lemmas.MacroLemmas.
From Coq Require Import Zify ZifyBool.
Local Open Scope string_scope.

Theorem C08_no_duplicate_validators :
  forall (ft : features) (sd : sdecl) (d : decl) (vs : list validator),
    macro_verdict ft sd = Accept d -> d_validation d = Some (RVStandard vs) ->
    has_dup vkind_eqb (map vkind_of vs) = false.
Proof. exact accepted_no_dup_validators. Qed.
Print Assumptions C08_no_duplicate_validators.

Theorem C08_from_needs_no_validation :
  forall (ft : features) (sd : sdecl) (d : decl),
    macro_verdict ft sd = Accept d -> (forall ty, d_family d <> FAny ty) ->
    has_trait TrFrom (d_traits d) = true -> has_validation d = false.
Proof. exact accepted_from_without_validation. Qed.
Print Assumptions C08_from_needs_no_validation.

Theorem C08_float_eq_ord_need_finite :
  forall (ft : features) (sd : sdecl) (d : decl) (is64 : bool),
    macro_verdict ft sd = Accept d -> d_family d = FFloat is64 ->
    has_trait TrEq (d_traits d) = true \/ has_trait TrOrd (d_traits d) = true ->
    exists vs, d_validation d = Some (RVStandard vs) /\ In VFinite vs.
Proof. exact accepted_float_eq_ord_finite. Qed.
Print Assumptions C08_float_eq_ord_need_finite.

Theorem C08_reference_verdict_sound :
  forall (ft : features) (it : item) (fam : family) (p : parsed) (rv : list N -> bool),
    ref_verdict ft it fam p rv = "1" <-> ref_ok ft it fam p rv = true.
Proof. exact ref_verdict_ok. Qed.
Print Assumptions C08_reference_verdict_sound.

(* When contradictory bounds are given as expressions the macro cannot evaluate, the unit test
   it generates fails (integers; `excl` = one of the two bounds is greater / less) *)
Theorem C08_generated_bounds_test_fails :
  forall (d : decl) (tn : string) (t : int_ty) (kl ku : vkind) (bl bu : bound),
    d_family d = FInt tn t ->
    first_bound [KGreater; KGreaterOrEqual] (standard_validators d) = Some (kl, bl) ->
    first_bound [KLess; KLessOrEqual] (standard_validators d) = Some (ku, bu) ->
    let excl := existsb (fun v => match v with VGreater _ | VLess _ => true | _ => false end) (standard_validators d) in
    (bval d bu < bval d bl \/ (excl = true /\ bval d bu = bval d bl))%Z ->
    bounds_test d = Some false.
Proof.
  intros d tn t kl ku bl bu Hf Hl Hu excl H. unfold bounds_test. rewrite Hf, Hl, Hu.
  fold excl. destruct excl; f_equal; lia.
Qed.
Print Assumptions C08_generated_bounds_test_fails.

(* an invalid default makes the generated default test fail *)
Theorem C08_generated_default_test_fails :
  forall (lib : fnlib) (d : decl) (v : value) (e : verr),
    has_validation d = true -> d_generics d = [] -> d_default d <> None ->
    default_value d = Some v -> d_try_new lib d v = Err e ->
    default_test lib d = Some false.
Proof.
  intros lib d v e Hv Hg Hd Hdv Ht. unfold default_test. rewrite Hv, Hg. cbn.
  destruct (d_default d); [|contradiction]. rewrite Hdv, Ht. reflexivity.
Qed.
Print Assumptions C08_generated_default_test_fails.

(* --- the macro against the rule book, for EVERY declaration of the grammar ---------------- *)
From NV Require Import Lemmas.ReferenceLemmas.

(* everything the book forbids is refused -- except the recorded class, characterised exactly:
   both exclusive bounds are literals and no value lies strictly between them
   (integers: less = greater + 1; floats: adjacent values) *)
Theorem C08_reject_sound :
  forall (ft : features) (sd : sdecl) (fam : family) (p : parsed),
    parse_meta (sd_item sd) = Accept fam -> parse_attrs ft fam (sd_attr sd) = Accept p ->
    forall d, full_verdict ft sd = Accept d ->
    ref_verdict ft (sd_item sd) fam p regex_oracle = "1" \/
    (ref_verdict ft (sd_item sd) fam p regex_oracle = "0:literal_bounds" /\
     recorded_class fam (std_validators p)).
Proof. exact macro_sound_wrt_book. Qed.
Print Assumptions C08_reject_sound.

(* every declaration the book admits is accepted, outside the conditions that are rustc's
   (typing of bound expressions, const-fn bodies) and the recorded "well-formed but refused"
   classes collected in [extra_ok] *)
Theorem C08_accept_complete :
  forall (ft : features) (sd : sdecl) (fam : family) (p : parsed),
    parse_meta (sd_item sd) = Accept fam -> parse_attrs ft fam (sd_attr sd) = Accept p ->
    ref_ok ft (sd_item sd) fam p regex_oracle = true -> extra_ok ft sd fam p = true ->
    exists d, full_verdict ft sd = Accept d.
Proof. exact book_complete_outside_recorded. Qed.
Print Assumptions C08_accept_complete.
