(* C10  Serialization is transparent and valid values survive a serde round trip. *)
From NV Require Import Base.Util Base.Expr Macro.Surface Macro.Ast Sem.Guard Sem.Value Sem.Eval
     Sem.Conv Sem.Serde Spec.GuardSpec Lemmas.CanonLemmas Lemmas.SerdeLemmas.

Theorem C10_transparent :
  forall (doc : Type) (ser_inner : value -> doc) (wrap : string -> doc -> doc)
         (unwrap : string -> doc -> option doc),
    (forall n x, unwrap n (wrap n x) = Some x) ->
    forall (d : decl) (v : value),
      unwrap (d_name d) (serialize doc ser_inner wrap d v) = Some (ser_inner v).
Proof. exact serialize_transparent. Qed.
Print Assumptions C10_transparent.

Theorem C10_roundtrip :
  forall (lib : fnlib) (doc : Type) (de_inner : doc -> option value) (ser_inner : value -> doc)
         (wrap : string -> doc -> doc) (unwrap : string -> doc -> option doc),
    (forall n x, unwrap n (wrap n x) = Some x) ->
    forall (d : decl) (raw v : value),
      has_trait TrDeserialize (d_traits d) = true ->
      idempotent_on lib d -> comparable d (spec_sanitize lib d raw) = true ->
      construct lib d raw = OOk v ->
      de_inner (ser_inner v) = Some v ->
      deserialize lib doc de_inner unwrap d (serialize doc ser_inner wrap d v) = OOk v.
Proof. exact roundtrip. Qed.
Print Assumptions C10_roundtrip.
