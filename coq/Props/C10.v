(* C10  Serialization is transparent and valid values survive a serde round trip. *)
From NV Require Import Base.Util Base.Expr Macro.Surface Macro.Ast Sem.Guard Sem.Value Sem.Eval
     Sem.Conv Sem.Serde Spec.GuardSpec Lemmas.CanonLemmas Lemmas.SerdeLemmas.

Theorem C10_transparent :
  forall (doc : Type) (ser_inner : value -> doc) (wrap : string -> doc -> doc)
         (unwrap : string -> doc -> option doc),
    (forall n x, unwrap n (wrap n x) = Some x) ->
    forall (d : decl) (v : value),
      unwrap (d_name d) (serialize doc ser_inner wrap d v) = Some (ser_inner v).
Proof. exact serialize_transparent. Qed.
Print Assumptions C10_transparent.

Theorem C10_roundtrip :
  forall (lib : fnlib) (doc : Type) (de_inner : doc -> option value) (ser_inner : value -> doc)
         (wrap : string -> doc -> doc) (unwrap : string -> doc -> option doc),
    (forall n x, unwrap n (wrap n x) = Some x) ->
    forall (d : decl) (raw v : value),
      has_trait TrDeserialize (d_traits d) = true ->
      idempotent_on lib d -> comparable d (spec_sanitize lib d raw) = true ->
      construct lib d raw = OOk v ->
      de_inner (ser_inner v) = Some v ->
      deserialize lib doc de_inner unwrap d (serialize doc ser_inner wrap d v) = OOk v.
Proof. exact roundtrip. Qed.
Print Assumptions C10_roundtrip.

(* ---- JSON, concretely: the text serde_json writes for a String / integer value and what it
   reads back (Sem/Json, compared with the real crate on every run of C04 / C10) ---------------- *)
From NV Require Import Base.IntTy Sem.Text Sem.Json Lemmas.JsonLemmas.

(* reading what was written gives the value back: every Unicode string, every integer of every width *)
Theorem C10_json_string_roundtrip : forall s : list N, json_read_string (json_write_string s) = Some s.
Proof. exact json_read_write_string. Qed.
Theorem C10_json_int_roundtrip :
  forall (t : int_ty) (z : Z), in_ty t z = true -> json_read_int t (json_write_int z) = Some z.
Proof. exact json_read_write_int. Qed.
Print Assumptions C10_json_string_roundtrip.

(* a newtype's JSON text is its inner value's JSON text *)
Theorem C10_json_transparent :
  forall (d : decl) (v : value), serialize (list N) json_ser_inner json_wrap d v = json_ser_inner v.
Proof. exact json_serialize_transparent. Qed.

(* the abstract round trip with its format hypothesis discharged: String and integer newtypes *)
Theorem C10_json_roundtrip :
  forall (lib : fnlib) (d : decl) (raw v : value),
    has_trait TrDeserialize (d_traits d) = true ->
    idempotent_on lib d -> comparable d (spec_sanitize lib d raw) = true ->
    construct lib d raw = OOk v ->
    json_storable (d_family d) v = true ->
    deserialize lib (list N) (json_de_inner (d_family d)) json_unwrap d
      (serialize (list N) json_ser_inner json_wrap d v) = OOk v.
Proof. exact json_roundtrip. Qed.
Print Assumptions C10_json_roundtrip.

(* the written text has no raw control character and no unescaped quote inside *)
Theorem C10_json_string_wellformed :
  forall s : list N,
    json_write_string s = (34%N :: interior (json_write_string s) ++ [34%N])%list /\
    Forall (fun c => (32 <=? c)%N = true) (interior (json_write_string s)) /\
    no_raw_quote false (interior (json_write_string s)) = true.
Proof. exact json_write_string_interior. Qed.

(* ---- MessagePack, concretely (Sem/Utf8, Sem/MsgPack: what rmp-serde writes and reads for integers
   up to 64 bits and for strings, UTF-8 in between) ------------------------------------------------ *)
From NV Require Import Sem.Utf8 Sem.MsgPack Lemmas.MsgPackLemmas.

Theorem C10_utf8_roundtrip :
  forall s : list N, Forall (fun c => scalar c = true) s -> utf8_decode (utf8_encode s) = Some s.
Proof. exact utf8_decode_encode. Qed.
Theorem C10_utf8_strict : forall b s : list N, utf8_decode b = Some s -> utf8_encode s = b.
Proof. exact utf8_encode_decode. Qed.
Theorem C10_msgpack_int_roundtrip :
  forall (t : int_ty) (z : Z), in_ty t z = true -> (bits t <= 64)%Z -> mp_read_int t (mp_write_int z) = Some z.
Proof. exact mp_read_write_int. Qed.
Theorem C10_msgpack_str_roundtrip :
  forall s : list N, Forall (fun c => scalar c = true) s ->
    (N.of_nat (List.length (utf8_encode s)) < 4294967296)%N -> mp_read_str (mp_write_str s) = Some s.
Proof. exact mp_read_write_str. Qed.
Theorem C10_msgpack_int_minimal :
  forall (b : list N) (z : Z), all_bytes b = true -> mp_int_value b = Some z ->
    (List.length (mp_write_int z) <= List.length b)%nat.
Proof. exact mp_write_int_minimal. Qed.
Print Assumptions C10_msgpack_str_roundtrip.

(* the newtype level for MessagePack, as for JSON: the written document is the inner value's own
   document, and the abstract round trip holds with its format hypothesis discharged (String
   newtypes whose UTF-8 form is shorter than 2^32 bytes, integer newtypes of at most 64 bits) *)
Theorem C10_msgpack_transparent :
  forall (d : decl) (v : value), serialize (list N) mp_ser_inner mp_wrap d v = mp_ser_inner v.
Proof. exact mp_serialize_transparent. Qed.
Print Assumptions C10_msgpack_transparent.

Theorem C10_msgpack_roundtrip :
  forall (lib : fnlib) (d : decl) (raw v : value),
    has_trait TrDeserialize (d_traits d) = true ->
    idempotent_on lib d -> comparable d (spec_sanitize lib d raw) = true ->
    construct lib d raw = OOk v ->
    mp_storable (d_family d) v = true ->
    deserialize lib (list N) (mp_de_inner (d_family d)) mp_unwrap d
      (serialize (list N) mp_ser_inner mp_wrap d v) = OOk v.
Proof. exact mp_roundtrip. Qed.
Print Assumptions C10_msgpack_roundtrip.

(* the size hypothesis of the MessagePack string round trip in terms of what nutype's own rule
   `len_char_max` counts (scalar values): a string of fewer than 2^30 characters always fits,
   since UTF-8 spends between one and four bytes per scalar value *)
From NV Require Import Lemmas.Utf8Order.
Theorem C10_utf8_length :
  forall s : list N, (List.length s <= List.length (utf8_encode s) <= 4 * List.length s)%nat.
Proof. exact utf8_encode_length. Qed.
Theorem C10_msgpack_str_roundtrip_chars :
  forall s : list N, Forall (fun c => scalar c = true) s ->
    (N.of_nat (List.length s) < 1073741824)%N -> mp_read_str (mp_write_str s) = Some s.
Proof.
  intros s Hs Hlen. apply mp_read_write_str; [exact Hs|].
  pose proof (utf8_encode_length s) as [_ H]. lia.
Qed.
Print Assumptions C10_msgpack_str_roundtrip_chars.
