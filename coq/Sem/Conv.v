(* L2: derived conversions that create a value (common/gen/traits.rs, string/gen/traits/mod.rs):
   each one is the emitted body, i.e. a call of the canonical constructor. *)
From NV Require Import Base.Util Base.IntTy Base.Expr Macro.Surface Macro.Ast Macro.Parse
     Sem.Guard Sem.Value Sem.Eval.
Local Open Scope string_scope.

Section WithLib.
  Variable lib : fnlib.

  Definition op_try_new (d : decl) (raw : value) : outcome :=
    if has_validation d then construct lib d raw else ONotAvail.
  Definition op_new (d : decl) (raw : value) : outcome :=
    if has_validation d then ONotAvail else OOk (d_new lib d raw).

  (* TryFrom: Self::try_new(raw), or Ok(Self::new(raw)) with Infallible when no validation *)
  Definition op_try_from (d : decl) (raw : value) : outcome :=
    if has_trait TrTryFrom (d_traits d) then construct lib d raw else ONotAvail.
  (* From: Self::new(raw) *)
  Definition op_from (d : decl) (raw : value) : outcome :=
    if has_trait TrFrom (d_traits d) then OOk (d_new lib d raw) else ONotAvail.

  (* FromStr of string newtypes: try_new(raw_string) / Ok(new(raw_string)) *)
  Definition op_from_str_string (d : decl) (s : list N) : outcome :=
    match d_family d with
    | FStr => if has_trait TrFromStr (d_traits d) then construct lib d (VS s) else ONotAvail
    | _ => ONotAvail
    end.

  (* FromStr of the other families: raw.parse().map_err(Parse)? then the constructor;
     [inner] is the result of the inner type's own FromStr *)
  Definition op_from_str (d : decl) (inner : option value) : outcome :=
    match d_family d with
    | FStr => ONotAvail
    | _ =>
        if has_trait TrFromStr (d_traits d) then
          match inner with None => OParseErr | Some x => construct lib d x end
        else ONotAvail
    end.

  Definition default_value (d : decl) : option value :=
    match d_default d with
    | None => None
    | Some e =>
        match d_family d, e with
        | FInt tn t, _ => do v <- eval_int tn t (d_env d) e; Some (VI v)
        | FFloat is64, _ => do v <- eval_float is64 (d_env d) e; Some (VF v)
        | FStr, EStr s => Some (VS s)
        | FAny _, EList l => Some (VL l)
        | _, _ => None
        end
    end.

  (* Default: try_new(default).unwrap_or_else(panic) / new(default) *)
  Definition op_default (d : decl) : outcome :=
    if has_trait TrDefault (d_traits d) then
      match default_value d with
      | Some v =>
          if has_validation d then
            match d_try_new lib d v with Ok v' => OOk v' | Err _ => OPanic end
          else OOk (d_new lib d v)
      | None => ONotAvail
      end
    else ONotAvail.

  (* Deserialize: the visitor deserializes the inner type, then calls the constructor *)
  Definition op_deserialize (d : decl) (inner : option value) : outcome :=
    if has_trait TrDeserialize (d_traits d) then
      match inner with None => OParseErr | Some x => construct lib d x end
    else ONotAvail.
End WithLib.
