(* L2: UTF-8, the byte form of a Rust `String` (the payload of a MessagePack str, Sem.MsgPack).

   Encoding (`char::encode_utf8`): a scalar value below U+0080 is one byte; below U+0800 two
   bytes 110xxxxx 10xxxxxx; below U+10000 three bytes 1110xxxx 10xxxxxx 10xxxxxx; otherwise four
   bytes 11110xxx 10xxxxxx 10xxxxxx 10xxxxxx.

   Decoding (`core::str::from_utf8`, strict): the lead byte fixes the length of the sequence,
   every following byte must be a continuation byte 10xxxxxx, and the value denoted must need
   that many bytes (no overlong form: two bytes denote at least U+0080, three at least U+0800,
   four at least U+10000), must not be a surrogate U+D800..U+DFFF and must not exceed U+10FFFF.
   A continuation byte in lead position, the bytes F5..FF, a sequence cut short by the end of
   the input are errors.  `from_utf8` words the same conditions as ranges on the second byte
   (E0 A0..BF, ED 80..9F, F0 90..BF, F4 80..8F; C0 and C1 never lead): the accepted set is the
   same, see [Lemmas.MsgPackLemmas.utf8_decode_encode] (nothing is accepted but encodings) and
   [utf8_encode_decode] (every encoding is accepted).

   Strings are lists of scalar values and bytes are lists of [N] below 256, as everywhere. *)
From NV Require Import Base.Util Sem.Json.
Local Open Scope N_scope.

(* ---- encoding ---- *)

Definition utf8_encode_char (c : N) : list N :=
  if c <? 0x80 then [c]
  else if c <? 0x800 then [0xC0 + c / 64; 0x80 + c mod 64]
  else if c <? 0x10000 then [0xE0 + c / 4096; 0x80 + (c / 64) mod 64; 0x80 + c mod 64]
  else [0xF0 + c / 262144; 0x80 + (c / 4096) mod 64; 0x80 + (c / 64) mod 64; 0x80 + c mod 64].

Definition utf8_encode (s : list N) : list N := flat_map utf8_encode_char s.

(* ---- decoding ---- *)

(* a continuation byte 10xxxxxx *)
Definition utf8_cont (b : N) : bool := (0x80 <=? b) && (b <? 0xC0).

Definition is_surrogate (c : N) : bool := (0xD800 <=? c) && (c <? 0xE000).

(* one scalar value from the front of the input: the value and the rest *)
Definition utf8_decode_one (l : list N) : option (N * list N) :=
  match l with
  | [] => None
  | b0 :: r =>
      if b0 <? 0x80 then Some (b0, r)
      else if b0 <? 0xC0 then None                       (* stray continuation byte *)
      else if b0 <? 0xE0 then
        match r with
        | b1 :: r1 =>
            if utf8_cont b1 then
              let c := (b0 - 0xC0) * 64 + (b1 - 0x80) in
              if c <? 0x80 then None else Some (c, r1)
            else None
        | _ => None
        end
      else if b0 <? 0xF0 then
        match r with
        | b1 :: b2 :: r2 =>
            if utf8_cont b1 && utf8_cont b2 then
              let c := (b0 - 0xE0) * 4096 + (b1 - 0x80) * 64 + (b2 - 0x80) in
              if (c <? 0x800) || is_surrogate c then None else Some (c, r2)
            else None
        | _ => None
        end
      else if b0 <? 0xF8 then
        match r with
        | b1 :: b2 :: b3 :: r3 =>
            if utf8_cont b1 && utf8_cont b2 && utf8_cont b3 then
              let c := (b0 - 0xF0) * 262144 + (b1 - 0x80) * 4096 + (b2 - 0x80) * 64 + (b3 - 0x80) in
              if (c <? 0x10000) || (0x10FFFF <? c) then None else Some (c, r3)
            else None
        | _ => None
        end
      else None
  end.

(* the whole input.  Every step consumes at least one byte, so fuel = length of the input is
   never exhausted. *)
Fixpoint utf8_decode_fuel (fuel : nat) (l : list N) : option (list N) :=
  match l with
  | [] => Some []
  | _ :: _ =>
      match fuel with
      | O => None
      | S f =>
          match utf8_decode_one l with
          | Some (c, rest) => option_map (cons c) (utf8_decode_fuel f rest)
          | None => None
          end
      end
  end.

Definition utf8_decode (l : list N) : option (list N) := utf8_decode_fuel (List.length l) l.
