(* arbitrary::Unstructured (arbitrary 1.3.2, the version /repo/Cargo.lock pins) over a byte
   list: third-party semantics, modelled and validated by the correspondence, not verified. *)
From NV Require Import Base.Util Base.IntTy.
Local Open Scope Z_scope.

Definition bytes := list Z.   (* each in 0..255 *)

(* fill_buffer: take n bytes, zero-padded; never fails *)
Fixpoint take_pad (n : nat) (bs : bytes) : list Z * bytes :=
  match n with
  | O => ([], bs)
  | S n' =>
      match bs with
      | [] => let (l, r) := take_pad n' [] in (0 :: l, r)
      | b :: r => let (l, r') := take_pad n' r in (b :: l, r')
      end
  end.

(* little-endian value of a byte list *)
Fixpoint le_value (l : list Z) : Z :=
  match l with [] => 0 | b :: r => b + 256 * le_value r end.

(* <uN as Arbitrary>::arbitrary *)
Definition arb_uint (nbytes : nat) (bs : bytes) : Z * bytes :=
  let (l, r) := take_pad nbytes bs in (le_value l, r).

(* <char as Arbitrary>::arbitrary *)
Definition arb_char (bs : bytes) : N * bytes :=
  let (x, r) := arb_uint 4 bs in
  let c := x mod 1114112 in
  (Z.to_N (if (55296 <=? c) && (c <=? 57343) then c - 55296 else c), r).

(* big-endian accumulation of at most n bytes, stopping early when the input is exhausted *)
Fixpoint take_be (n : nat) (bs : bytes) (acc : Z) : Z * bytes :=
  match n with
  | O => (acc, bs)
  | S n' =>
      match bs with
      | [] => (acc, [])
      | b :: r => take_be n' r (acc * 256 + b)
      end
  end.

(* number of bytes int_in_range_impl wants for a given delta > 0 *)
Definition bytes_wanted (t : int_ty) (delta : Z) : nat :=
  Nat.min (Z.to_nat (bits t / 8)) (Z.to_nat (Z.log2 delta / 8 + 1)).

(* Unstructured::int_in_range(lo..=hi): None = the `start <= end` assertion panics *)
Definition int_in_range (t : int_ty) (lo hi : Z) (bs : bytes) : option (Z * bytes) :=
  if hi <? lo then None
  else if lo =? hi then Some (lo, bs)
  else
    let delta := hi - lo in
    let (acc, rest) := take_be (bytes_wanted t delta) bs 0 in
    let off := if delta =? 2 ^ bits t - 1 then acc else acc mod (delta + 1) in
    Some (lo + off, rest).

Definition byte_ok (b : Z) : bool := (0 <=? b) && (b <? 256).
Definition bytes_ok (bs : bytes) : bool := forallb byte_ok bs.
