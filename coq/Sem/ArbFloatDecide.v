(* One executable decision procedure for the derived Arbitrary of float newtypes
   (Sem/ArbFloat.v): from the declaration alone (family, sanitizers, validators, bound values)
   answer
     AVTotal        for EVERY byte string the generator returns a valid value,
     AVPanicsOn bs  the generator panics on the input bs,
     AVUnknown      neither is established.
   Definitions only (extracted and run); soundness is Lemmas/ArbFloatDecideLemmas.v. *)
From NV Require Import Base.Util Base.IntTy Base.FloatBits Base.Float Base.Expr
     Macro.Surface Macro.Ast Sem.Guard Sem.Value Sem.Eval Sem.Bytes Sem.ArbFloat.
Local Open Scope Z_scope.

Inductive arb_verdict := AVTotal | AVPanicsOn (bs : bytes) | AVUnknown.

(* ---- normal form of a validator list ------------------------------------------------------
   (has finite, lower bound (inclusive?, bound), upper bound (inclusive?, bound)); None when a
   validator occurs twice on the same side / finite occurs twice / anything else occurs *)
Definition arb_nf_t : Type := (bool * option (bool * bound) * option (bool * bound))%type.

Fixpoint arb_nf_go (vs : list validator) (fin : bool) (lo hi : option (bool * bound)) : option arb_nf_t :=
  match vs with
  | [] => Some (fin, lo, hi)
  | VFinite :: r => if fin then None else arb_nf_go r true lo hi
  | VGreater b :: r => match lo with Some _ => None | None => arb_nf_go r fin (Some (false, b)) hi end
  | VGreaterOrEqual b :: r => match lo with Some _ => None | None => arb_nf_go r fin (Some (true, b)) hi end
  | VLess b :: r => match hi with Some _ => None | None => arb_nf_go r fin lo (Some (false, b)) end
  | VLessOrEqual b :: r => match hi with Some _ => None | None => arb_nf_go r fin lo (Some (true, b)) end
  | _ :: _ => None
  end.

Definition arb_nf (vs : list validator) : option arb_nf_t := arb_nf_go vs false None None.

(* the validator a normal-form component stands for *)
Definition nf_lower (p : bool * bound) : validator :=
  if fst p then VGreaterOrEqual (snd p) else VGreater (snd p).
Definition nf_upper (p : bool * bound) : validator :=
  if fst p then VLessOrEqual (snd p) else VLess (snd p).

(* ---- constants re-defined here (the originals live in Lemmas files) ------------------------ *)
(* the bit pattern of 1.0 *)
Definition dec_one (is64 : bool) : Z := if is64 then 4607182418800017408 else 1065353216.
(* the largest finite value *)
Definition dec_max_finite (is64 : bool) : Z := if is64 then 9218868437227405311 else 2139095039.
(* xmax = L + 1.0 * |U - L| : the largest value the scaling L + u * |U - L|, u in [0,1], takes *)
Definition dec_xmax (is64 : bool) (L U : Z) : Z :=
  f_add is64 L (f_mul is64 (dec_one is64) (fb_abs is64 (f_sub is64 U L))).

(* ---- the decision, shape by shape ------------------------------------------------------------ *)
Definition arb_float_decide_std (is64 : bool) (d : decl) (vs : list validator) : arb_verdict :=
  let delta := correction_delta is64 in
  match arb_nf vs with
  | None => AVUnknown
  (* no bound: nothing, or finite alone *)
  | Some (_, None, None) => AVTotal
  (* one lower bound *)
  | Some (fin, Some (li, bl), None) =>
      let L := bval d bl in
      if f_is_finite is64 L then
        if li then
          if fin then
            if f_is_finite is64 (f_add is64 (dec_max_finite is64) L) then AVTotal else AVUnknown
          else AVTotal
        else
          if fin then AVUnknown
          else if f_gt is64 (f_add is64 L delta) L then AVTotal else AVPanicsOn []
      else AVUnknown
  (* one upper bound *)
  | Some (fin, None, Some (ui, bu)) =>
      let U := bval d bu in
      if f_is_finite is64 U then
        if ui then
          if fin then
            if f_is_finite is64 (f_add is64 (fb_neg is64 (dec_max_finite is64)) U) then AVTotal else AVUnknown
          else AVTotal
        else
          if fin then AVUnknown
          else if f_lt is64 (f_sub is64 U delta) U then AVTotal else AVPanicsOn []
      else AVUnknown
  (* two bounds, with or without finite *)
  | Some (_, Some (li, bl), Some (ui, bu)) =>
      let L := bval d bl in
      let U := bval d bu in
      if f_is_finite is64 (f_sub is64 U L) then
        match li, ui with
        | true, true => if f_le is64 L U then AVTotal else AVUnknown
        | true, false =>
            if f_le is64 L (f_sub is64 U delta) then
              if f_lt is64 (f_sub is64 (dec_xmax is64 L U) delta) U then AVTotal
              else if f_ge is64 (dec_xmax is64 L U) U then AVPanicsOn (repeat 255 (fsize is64))
              else AVUnknown
            else AVUnknown
        | false, true =>
            if f_lt is64 L U then
              if f_gt is64 (f_add is64 L delta) L then AVTotal else AVPanicsOn []
            else AVUnknown
        | false, false =>
            if f_lt is64 L (f_sub is64 U delta)
               && f_lt is64 (f_sub is64 (dec_xmax is64 L U) delta) U
               && f_gt is64 (f_add is64 L delta) L
               && f_lt is64 (f_add is64 L delta) U
            then AVTotal else AVUnknown
        end
      else AVUnknown
  end.

Definition arb_float_decide (d : decl) : arb_verdict :=
  match d_family d with
  | FFloat is64 =>
      match d_sans d with
      | [] =>
          match d_validation d with
          | None => AVTotal
          | Some (RVStandard vs) => arb_float_decide_std is64 d vs
          | Some (RVCustom _ _) => AVUnknown
          end
      | _ :: _ => AVUnknown
      end
  | _ => AVUnknown
  end.
