(* One executable decision procedure for the derived Arbitrary of float newtypes
   (Sem/ArbFloat.v): from the declaration alone (family, sanitizers, validators, bound values)
   answer
     AVTotal        for EVERY byte string the generator returns a valid value,
     AVPanicsOn bs  the generator panics on the input bs,
     AVUnknown      neither is established.
   Definitions only (extracted and run); soundness is Lemmas/ArbFloatDecideLemmas.v.
   Shapes answered (delta = correction_delta, xmax = L + 1.0 * |U - L|):
     no bound / finite alone                      AVTotal
     [L, ..  L finite                             AVTotal; with finite: iff MAX + L finite (else unknown)
     (L, ..  L finite                             delta absorbed at L -> AVPanicsOn []; else as [L, ..
     .., U]  .., U)                               symmetric (-MAX + U, U - delta < U)
     two bounds, |U - L| finite                   [L,U] (L,U] [L,U) (L,U): see the definition.
   [arb_float_decide_ext] (end of the file) moreover turns the `unknown` of finite + one bound whose
   sum with MAX overflows into AVPanicsOn (little-endian bytes of MAX). *)
From NV Require Import Base.Util Base.IntTy Base.FloatBits Base.Float Base.Expr
     Macro.Surface Macro.Ast Sem.Guard Sem.Value Sem.Eval Sem.Bytes Sem.ArbFloat.
Local Open Scope Z_scope.

Inductive arb_verdict := AVTotal | AVPanicsOn (bs : bytes) | AVUnknown.

(* ---- normal form of a validator list ------------------------------------------------------
   (has finite, lower bound (inclusive?, bound), upper bound (inclusive?, bound)); None when a
   validator occurs twice on the same side / finite occurs twice / anything else occurs *)
Definition arb_nf_t : Type := (bool * option (bool * bound) * option (bool * bound))%type.

Fixpoint arb_nf_go (vs : list validator) (fin : bool) (lo hi : option (bool * bound)) : option arb_nf_t :=
  match vs with
  | [] => Some (fin, lo, hi)
  | VFinite :: r => if fin then None else arb_nf_go r true lo hi
  | VGreater b :: r => match lo with Some _ => None | None => arb_nf_go r fin (Some (false, b)) hi end
  | VGreaterOrEqual b :: r => match lo with Some _ => None | None => arb_nf_go r fin (Some (true, b)) hi end
  | VLess b :: r => match hi with Some _ => None | None => arb_nf_go r fin lo (Some (false, b)) end
  | VLessOrEqual b :: r => match hi with Some _ => None | None => arb_nf_go r fin lo (Some (true, b)) end
  | _ :: _ => None
  end.

Definition arb_nf (vs : list validator) : option arb_nf_t := arb_nf_go vs false None None.

(* the validator a normal-form component stands for *)
Definition nf_lower (p : bool * bound) : validator :=
  if fst p then VGreaterOrEqual (snd p) else VGreater (snd p).
Definition nf_upper (p : bool * bound) : validator :=
  if fst p then VLessOrEqual (snd p) else VLess (snd p).

(* ---- constants re-defined here (the originals live in Lemmas files) ------------------------ *)
(* the bit pattern of 1.0 *)
Definition dec_one (is64 : bool) : Z := if is64 then 4607182418800017408 else 1065353216.
(* the largest finite value *)
Definition dec_max_finite (is64 : bool) : Z := if is64 then 9218868437227405311 else 2139095039.
(* xmax = L + 1.0 * |U - L| : the largest value the scaling L + u * |U - L|, u in [0,1], takes *)
Definition dec_xmax (is64 : bool) (L U : Z) : Z :=
  f_add is64 L (f_mul is64 (dec_one is64) (fb_abs is64 (f_sub is64 U L))).

(* ---- the decision, shape by shape ------------------------------------------------------------ *)
Definition arb_float_decide_std (is64 : bool) (d : decl) (vs : list validator) : arb_verdict :=
  let delta := correction_delta is64 in
  match arb_nf vs with
  | None => AVUnknown
  (* no bound: nothing, or finite alone *)
  | Some (_, None, None) => AVTotal
  (* one lower bound *)
  | Some (fin, Some (li, bl), None) =>
      let L := bval d bl in
      if f_is_finite is64 L then
        if li then
          if fin then
            if f_is_finite is64 (f_add is64 (dec_max_finite is64) L) then AVTotal else AVUnknown
          else AVTotal
        else
          (* exclusive: the delta must be visible at L (else the empty input panics); with finite
             moreover MAX + L must not overflow *)
          if f_gt is64 (f_add is64 L delta) L then
            if fin then
              if f_is_finite is64 (f_add is64 (dec_max_finite is64) L) then AVTotal else AVUnknown
            else AVTotal
          else AVPanicsOn []
      else AVUnknown
  (* one upper bound *)
  | Some (fin, None, Some (ui, bu)) =>
      let U := bval d bu in
      if f_is_finite is64 U then
        if ui then
          if fin then
            if f_is_finite is64 (f_add is64 (fb_neg is64 (dec_max_finite is64)) U) then AVTotal else AVUnknown
          else AVTotal
        else
          if f_lt is64 (f_sub is64 U delta) U then
            if fin then
              if f_is_finite is64 (f_add is64 (fb_neg is64 (dec_max_finite is64)) U) then AVTotal else AVUnknown
            else AVTotal
          else AVPanicsOn []
      else AVUnknown
  (* two bounds, with or without finite *)
  | Some (_, Some (li, bl), Some (ui, bu)) =>
      let L := bval d bl in
      let U := bval d bu in
      if f_is_finite is64 (f_sub is64 U L) then
        match li, ui with
        | true, true => if f_le is64 L U then AVTotal else AVUnknown
        | true, false =>
            (* even the largest scaled value is below U: no correction ever fires *)
            if f_lt is64 (dec_xmax is64 L U) U then AVTotal
            (* the largest overshoot is absorbed by one delta: the corrected value must stay >= L *)
            else if f_lt is64 (f_sub is64 (dec_xmax is64 L U) delta) U then
              if f_le is64 L (f_sub is64 U delta) then AVTotal
              (* the range is narrower than the delta: the corrected xmax falls below L *)
              else if f_ge is64 (dec_xmax is64 L U) U
                      && f_lt is64 (f_sub is64 (dec_xmax is64 L U) delta) L
              then AVPanicsOn (repeat 255 (fsize is64))
              else AVUnknown
            (* it is not: the all-ones input panics *)
            else if f_ge is64 (dec_xmax is64 L U) U then AVPanicsOn (repeat 255 (fsize is64))
            else AVUnknown
        | false, true =>
            if f_lt is64 L U then
              if f_gt is64 (f_add is64 L delta) L then AVTotal else AVPanicsOn []
            else AVUnknown
        | false, false =>
            if f_lt is64 L (f_sub is64 U delta)
               && f_lt is64 (f_sub is64 (dec_xmax is64 L U) delta) U
               && f_gt is64 (f_add is64 L delta) L
               && f_lt is64 (f_add is64 L delta) U
            then AVTotal
            (* the delta is absorbed at L (and L < U): the empty input panics *)
            else if f_lt is64 L U && negb (f_gt is64 (f_add is64 L delta) L) then AVPanicsOn []
            (* the largest overshoot is not absorbed by one delta: the all-ones input panics *)
            else if f_ge is64 (dec_xmax is64 L U) U
                    && negb (f_lt is64 (f_sub is64 (dec_xmax is64 L U) delta) U)
                    && f_gt is64 (dec_xmax is64 L U) L
            then AVPanicsOn (repeat 255 (fsize is64))
            (* the range is narrower than the delta: the corrected xmax falls to L or below *)
            else if f_ge is64 (dec_xmax is64 L U) U
                    && f_gt is64 (dec_xmax is64 L U) L
                    && f_le is64 (f_sub is64 (dec_xmax is64 L U) delta) L
            then AVPanicsOn (repeat 255 (fsize is64))
            else AVUnknown
        end
      else AVUnknown
  end.

Definition arb_float_decide (d : decl) : arb_verdict :=
  match d_family d with
  | FFloat is64 =>
      match d_sans d with
      | [] =>
          match d_validation d with
          | None => AVTotal
          | Some (RVStandard vs) => arb_float_decide_std is64 d vs
          | Some (RVCustom _ _) => AVUnknown
          end
      | _ :: _ => AVUnknown
      end
  | _ => AVUnknown
  end.

(* ---- extension: `finite` beside ONE bound whose sum with the largest finite value overflows --
   [arb_float_decide] answers AVUnknown there; the input made of the little-endian bytes of MAX is
   a panic witness (Lemmas/ArbFloatExcl4.v): the base value is MAX, MAX + L (resp. -MAX + U) is not
   finite and `finite` rejects it.  [arb_float_decide] itself is left as it is (Props/C09.v pins one
   of its AVUnknown answers); [arb_float_decide_ext] refines its AVUnknown answers only. *)
Definition dec_max_bytes (is64 : bool) : bytes :=
  if is64 then [255; 255; 255; 255; 255; 255; 239; 127] else [255; 255; 127; 127].

Definition arb_float_overflow_witness_std (is64 : bool) (d : decl) (vs : list validator) : option bytes :=
  match arb_nf vs with
  | Some (true, Some (_, bl), None) =>
      let L := bval d bl in
      if f_is_finite is64 L && negb (f_is_finite is64 (f_add is64 (dec_max_finite is64) L))
      then Some (dec_max_bytes is64) else None
  | Some (true, None, Some (_, bu)) =>
      let U := bval d bu in
      if f_is_finite is64 U && negb (f_is_finite is64 (f_add is64 (fb_neg is64 (dec_max_finite is64)) U))
      then Some (dec_max_bytes is64) else None
  | _ => None
  end.

Definition arb_float_overflow_witness (d : decl) : option bytes :=
  match d_family d with
  | FFloat is64 =>
      match d_sans d with
      | [] =>
          match d_validation d with
          | Some (RVStandard vs) => arb_float_overflow_witness_std is64 d vs
          | _ => None
          end
      | _ :: _ => None
      end
  | _ => None
  end.

Definition arb_float_decide_ext (d : decl) : arb_verdict :=
  match arb_float_decide d with
  | AVUnknown =>
      match arb_float_overflow_witness d with
      | Some w => AVPanicsOn w
      | None => AVUnknown
      end
  | v => v
  end.
