(* Derived Arbitrary of integer newtypes (integer/gen/traits/arbitrary.rs). *)
From NV Require Import Base.Util Base.IntTy Base.Expr Macro.Surface Macro.Ast
     Sem.Guard Sem.Value Sem.Eval Sem.Bytes.
Local Open Scope Z_scope.

Section WithLib.
  Variable lib : fnlib.

  (* guard_to_boundary: start from T::MIN..=T::MAX; each bound validator OVERWRITES its end
     (greater -> (b) + 1, less -> (b) - 1); None = the spliced arithmetic overflows T, which
     rustc reports at compile time *)
  Fixpoint boundary (d : decl) (t : int_ty) (vs : list validator) (lo hi : Z) : option (Z * Z) :=
    match vs with
    | [] => Some (lo, hi)
    | VGreater b :: r =>
        let m := bval d b + 1 in if in_ty t m then boundary d t r m hi else None
    | VGreaterOrEqual b :: r => boundary d t r (bval d b) hi
    | VLess b :: r =>
        let m := bval d b - 1 in if in_ty t m then boundary d t r lo m else None
    | VLessOrEqual b :: r => boundary d t r lo (bval d b)
    | _ :: r => boundary d t r lo hi
    end.

  Definition arb_boundary (d : decl) : option (Z * Z) :=
    match d_family d with
    | FInt _ t => boundary d t (standard_validators d) (ity_min t) (ity_max t)
    | _ => None
    end.

  (* arbitrary(u): int_in_range((min)..=(max))?, then try_new(..).expect(..) / new(..) *)
  Definition arb_int (d : decl) (bs : bytes) : outcome :=
    match d_family d, arb_boundary d with
    | FInt _ t, Some (lo, hi) =>
        match int_in_range t lo hi bs with
        | None => OPanic
        | Some (x, _) =>
            if has_validation d then
              match d_try_new lib d (VI x) with Ok v => OOk v | Err _ => OPanic end
            else OOk (d_new lib d (VI x))
        end
    | _, _ => ONotAvail
    end.
End WithLib.
