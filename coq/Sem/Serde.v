(* serde glue (common/gen/traits.rs): Serialize = serialize_newtype_struct(name, &inner);
   Deserialize = deserialize_newtype_struct with a visitor that implements only
   visit_newtype_struct: deserialize the inner type, then the canonical constructor.
   Formats and the inner type's own (de)serialisers are parameters. *)
From NV Require Import Base.Util Base.Expr Macro.Surface Macro.Ast Sem.Guard Sem.Value Sem.Eval Sem.Conv.

Section Serde.
  Variable lib : fnlib.
  (* a wire format, abstractly: documents, and how the inner type reads / writes them.
     A newtype-struct wrapper is transparent in the formats under test (JSON, MessagePack);
     for RON the wrapper adds `Name( .. )`, modelled by [wrap]/[unwrap]. *)
  Variable doc : Type.
  Variable de_inner : doc -> option value.
  Variable ser_inner : value -> doc.
  Variable wrap : string -> doc -> doc.
  Variable unwrap : string -> doc -> option doc.

  Definition serialize (d : decl) (stored : value) : doc := wrap (d_name d) (ser_inner stored).

  Definition deserialize (d : decl) (x : doc) : outcome :=
    match unwrap (d_name d) x with
    | None => OParseErr
    | Some inner_doc => op_deserialize lib d (de_inner inner_doc)
    end.

  (* containers deserialize element-wise: Vec<T> / Option<T> / struct field / map values *)
  Fixpoint traverse (f : doc -> outcome) (l : list doc) : option (list value) :=
    match l with
    | [] => Some []
    | x :: r => match f x with
                | OOk v => match traverse f r with Some vs => Some (v :: vs) | None => None end
                | _ => None
                end
    end.
End Serde.
