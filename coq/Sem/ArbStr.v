(* Derived Arbitrary of String newtypes (string/gen/traits/arbitrary.rs). *)
From NV Require Import Base.Util Base.IntTy Base.Expr Macro.Surface Macro.Ast Macro.Parse
     Sem.Guard Sem.Value Sem.Eval Sem.Bytes.
Local Open Scope Z_scope.

Section WithLib.
  Variable lib : fnlib.

  Definition has_trim (d : decl) : bool :=
    existsb (fun s => match s with STrim => true | _ => false end) (d_sans d).

  (* minimal lengths imposed by len_char_min and not_empty (in validator order) *)
  Fixpoint min_lens (d : decl) (vs : list validator) : list Z :=
    match vs with
    | [] => []
    | VLenCharMin b :: r => bval d b :: min_lens d r
    | VNotEmpty :: r => 1 :: min_lens d r
    | _ :: r => min_lens d r
    end.

  Fixpoint first_max (d : decl) (vs : list validator) : option Z :=
    match vs with
    | [] => None
    | VLenCharMax b :: _ => Some (bval d b)
    | _ :: r => first_max d r
    end.

  (* Specification { has_trim, min_len, max_len } : the effective minimum is the largest of
     the declared ones; the maximum defaults to min + 16 *)
  Definition str_spec (d : decl) : Z * Z :=
    let vs := standard_validators d in
    let mn := fold_left Z.max (min_lens d vs) 0 in
    let mx := match first_max d vs with Some m => m | None => mn + 16 end in
    (mn, mx).

  Fixpoint take_chars (n : nat) (bs : bytes) : list N * bytes :=
    match n with
    | O => ([], bs)
    | S n' => let (c, r) := arb_char bs in let (cs, r') := take_chars n' r in (c :: cs, r')
    end.

  (* the refill loop of the trim-aware generator; None = out of fuel *)
  Fixpoint refill (fuel : nat) (target : nat) (out : list N) (bs : bytes) : option (list N) :=
    match fuel with
    | O => None
    | S f =>
        let trimmed := l_trim lib out in
        if Nat.eqb (List.length trimmed) target then Some out
        else if Nat.ltb (List.length trimmed) target then
          let (c, r) := arb_char bs in refill f target (trimmed ++ [c]) r
        else None   (* unreachable!() in the generated code *)
    end.

  Definition arb_str_inner (d : decl) (bs : bytes) : option (option (list N)) :=
    (* outer None = int_in_range panicked; inner None = fuel exhausted *)
    let (mn, mx) := str_spec d in
    match int_in_range usize_ty mn mx bs with
    | None => None
    | Some (t, r) =>
        let target := Z.to_nat t in
        let (cs, r') := take_chars target r in
        if has_trim d then
          Some (refill (List.length r' + target + 1) target cs r')
        else Some (Some cs)
    end.

  Definition arb_str (d : decl) (bs : bytes) : outcome :=
    match d_family d, d_validation d with
    | FStr, Some (RVStandard _) =>
        match arb_str_inner d bs with
        | None => OPanic
        | Some None => OPanic        (* never happens: see C09_str_fuel *)
        | Some (Some s) =>
            match d_try_new lib d (VS s) with Ok v => OOk v | Err _ => OPanic end
        end
    | _, _ => ONotAvail               (* without validation: String::arbitrary, not modelled *)
    end.
End WithLib.
