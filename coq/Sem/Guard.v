(* L2 core: the constructor templates of common/gen/mod.rs (gen_try_new / gen_new), generic in
   the value type [V] and the error type [E].  A sanitizer is a function, a check is the
   emitted `if <negated condition> { return Err(e) }` statement. *)
From NV Require Import Base.Util.

Section Core.
  Context {V E : Type}.

  Definition sanitize (sans : list (V -> V)) (raw : V) : V :=
    fold_left (fun v f => f v) sans raw.

  (* sequential early-return checks, in list order *)
  Fixpoint validate (checks : list (V -> option E)) (v : V) : option E :=
    match checks with
    | [] => None
    | c :: rest => match c v with Some e => Some e | None => validate rest v end
    end.

  (* try_new: sanitize, validate a reference to the sanitized value, wrap last *)
  Definition try_new (sans : list (V -> V)) (checks : list (V -> option E)) (raw : V) : result V E :=
    let v := sanitize sans raw in
    match validate checks v with
    | Some e => Err e
    | None => Ok v
    end.

  (* new (no validators): wrap the sanitizer output *)
  Definition new (sans : list (V -> V)) (raw : V) : V := sanitize sans raw.
End Core.
