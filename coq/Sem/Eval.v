(* L2: run-time semantics of an accepted declaration.  Each validator becomes the statement
   the generator emits for it (string/gen/mod.rs, integer/gen/mod.rs, float/gen/mod.rs,
   any/gen/mod.rs), i.e. the NEGATED comparison followed by an early return. *)
From NV Require Import Base.Util Base.IntTy Base.FloatBits Base.Float Base.Expr
     Macro.Surface Macro.Ast Macro.Parse Sem.Guard Sem.Value.
Local Open Scope string_scope.
Local Open Scope Z_scope.

Section WithLib.
  Variable lib : fnlib.

  (* value denoted by a float expression bound (constants, negation, parentheses) *)
  Fixpoint eval_float (is64 : bool) (en : env) (e : expr) : option Z :=
    match e with
    | ELit l => if l_float l then Some (if is64 then l_f64 l else l_f32 l) else None
    | EConst n => match lookup en n with Some (_, v) => Some v | None => None end
    | ENeg a => do v <- eval_float is64 en a; Some (fb_neg is64 v)
    | EParen a => eval_float is64 en a
    | _ => None
    end.

  (* the value a bound denotes at run time; expression bounds of accepted declarations
     type-check (Validate.rustc_checks), the default 0 is never used for them *)
  Definition bval (d : decl) (b : bound) : Z :=
    match b with
    | BLit v => v
    | BExpr e =>
        match d_family d with
        | FInt tn t => match eval_int tn t (d_env d) e with Some v => v | None => 0 end
        | FStr => match eval_int "usize" usize_ty (d_env d) e with Some v => v | None => 0 end
        | FFloat is64 => match eval_float is64 (d_env d) e with Some v => v | None => 0 end
        | FAny _ => 0
        end
    end.

  Definition sanitizer_fn (d : decl) (s : sanitizer) (x : value) : value :=
    match s, x with
    | STrim, VS v => VS (l_trim lib v)
    | SLowercase, VS v => VS (l_lower lib v)
    | SUppercase, VS v => VS (l_upper lib v)
    | SWith f, _ => l_san lib (fn_id f) x
    | _, _ => x
    end.

  Definition fail (c : bool) (k : vkind) : option verr := if c then Some (EVariant k) else None.

  (* the emitted check: Some e = `return Err(e)` fires *)
  Definition check_of (d : decl) (v : validator) (x : value) : option verr :=
    match d_family d, v, x with
    | FInt _ _, VLess b, VI z => fail (z >=? bval d b) KLess
    | FInt _ _, VLessOrEqual b, VI z => fail (z >? bval d b) KLessOrEqual
    | FInt _ _, VGreater b, VI z => fail (z <=? bval d b) KGreater
    | FInt _ _, VGreaterOrEqual b, VI z => fail (z <? bval d b) KGreaterOrEqual
    | FFloat is64, VLess b, VF z => fail (f_ge is64 z (bval d b)) KLess
    | FFloat is64, VLessOrEqual b, VF z => fail (f_gt is64 z (bval d b)) KLessOrEqual
    | FFloat is64, VGreater b, VF z => fail (f_le is64 z (bval d b)) KGreater
    | FFloat is64, VGreaterOrEqual b, VF z => fail (f_lt is64 z (bval d b)) KGreaterOrEqual
    | FFloat is64, VFinite, VF z => fail (negb (f_is_finite is64 z)) KFinite
    | FStr, VLenCharMax b, VS s => fail (Z.of_nat (List.length s) >? bval d b) KLenCharMax
    | FStr, VLenCharMin b, VS s => fail (Z.of_nat (List.length s) <? bval d b) KLenCharMin
    | FStr, VNotEmpty, VS s => fail (match s with [] => true | _ => false end) KNotEmpty
    | FStr, VRegex r, VS s => fail (negb (l_regex lib r s)) KRegex
    | _, VPredicate f, _ => fail (negb (l_pred lib (fn_id f) x)) KPredicate
    | _, _, _ => None
    end.

  Definition custom_check (f : fnref) (x : value) : option verr :=
    match l_cust lib (fn_id f) x with Some code => Some (ECustom code) | None => None end.

  Definition checks_of (d : decl) : list (value -> option verr) :=
    match d_validation d with
    | None => []
    | Some (RVStandard vs) => map (check_of d) vs
    | Some (RVCustom w _) => [custom_check w]
    end.

  Definition sans_of (d : decl) : list (value -> value) := map (sanitizer_fn d) (d_sans d).

  Definition d_sanitize (d : decl) (raw : value) : value := sanitize (sans_of d) raw.
  Definition d_validate (d : decl) (v : value) : option verr := validate (checks_of d) v.
  Definition d_try_new (d : decl) (raw : value) : result value verr :=
    try_new (sans_of d) (checks_of d) raw.
  Definition d_new (d : decl) (raw : value) : value := new (sans_of d) raw.

  (* the canonical constructor as an outcome: try_new when there is validation, else new *)
  Definition construct (d : decl) (raw : value) : outcome :=
    if has_validation d then
      match d_try_new d raw with Ok v => OOk v | Err e => OErr e end
    else OOk (d_new d raw).
End WithLib.
