(* Comparison traits of the newtype: plain #[derive]s on the single-field tuple struct, i.e.
   the inner type's own comparison; for floats Eq is an empty marker impl and
   Ord::cmp = partial_cmp(..).unwrap_or_else(panic)  (float/gen/traits/mod.rs). *)
From NV Require Import Base.Util Base.FloatBits Base.Float Macro.Ast Sem.Value.
Local Open Scope Z_scope.

Fixpoint lex_cmp {X} (c : X -> X -> comparison) (a b : list X) : comparison :=
  match a, b with
  | [], [] => Eq
  | [], _ :: _ => Lt
  | _ :: _, [] => Gt
  | x :: a', y :: b' => match c x y with Eq => lex_cmp c a' b' | r => r end
  end.

(* partial_cmp of the inner values *)
Definition value_pcmp (fam : family) (a b : value) : option comparison :=
  match fam, a, b with
  | FFloat is64, VF x, VF y => fcmp is64 x y
  | _, VI x, VI y => Some (Z.compare x y)
  | _, VS x, VS y => Some (lex_cmp N.compare x y)
  | _, VL x, VL y => Some (lex_cmp Z.compare x y)
  | _, _, _ => None
  end.

Definition value_eq (fam : family) (a b : value) : bool :=
  match value_pcmp fam a b with Some Eq => true | _ => false end.

Inductive cmp_result := CmpOk (c : comparison) | CmpPanic.

(* Ord::cmp: total for the other families; for floats the unwrap of partial_cmp *)
Definition value_cmp (fam : family) (a b : value) : cmp_result :=
  match value_pcmp fam a b with Some c => CmpOk c | None => CmpPanic end.
