(* L2: the decimal text of integers, as far as the generated code relies on it.
   [parse_int] is `<iN / uN as core::str::FromStr>::from_str` (core/src/num/mod.rs,
   from_str_radix with radix 10): empty text and a lone sign are refused, one leading `+` is
   accepted by every type, one leading `-` by the signed types only, every other character must
   be an ASCII digit, leading zeros are allowed, and a value outside the type is an overflow
   error.  [show_int] is `<iN / uN as Display>::fmt` without formatting flags: the shortest
   decimal numeral, `-` for negative values, no `+`.
   Texts are lists of Unicode scalar values, like every string of the model.  This is std's
   behaviour, modelled and compared with the real `from_str` / `to_string` on every run of C06 /
   C11 / C13; the numerals themselves are Coq's own [Decimal] numerals. *)
From NV Require Import Base.Util Base.IntTy Macro.Surface Macro.Ast Sem.Guard Sem.Value Sem.Eval Sem.Conv.
From Coq Require Import Decimal DecimalZ.
Local Open Scope N_scope.

Definition digit_of_code (c : N) (u : Decimal.uint) : option Decimal.uint :=
  if c =? 48 then Some (D0 u) else if c =? 49 then Some (D1 u) else if c =? 50 then Some (D2 u)
  else if c =? 51 then Some (D3 u) else if c =? 52 then Some (D4 u) else if c =? 53 then Some (D5 u)
  else if c =? 54 then Some (D6 u) else if c =? 55 then Some (D7 u) else if c =? 56 then Some (D8 u)
  else if c =? 57 then Some (D9 u) else None.

Fixpoint uint_of_codes (l : list N) : option Decimal.uint :=
  match l with
  | [] => Some Nil
  | c :: r => do u <- uint_of_codes r; digit_of_code c u
  end.

Fixpoint codes_of_uint (u : Decimal.uint) : list N :=
  match u with
  | Nil => []
  | D0 r => 48 :: codes_of_uint r | D1 r => 49 :: codes_of_uint r | D2 r => 50 :: codes_of_uint r
  | D3 r => 51 :: codes_of_uint r | D4 r => 52 :: codes_of_uint r | D5 r => 53 :: codes_of_uint r
  | D6 r => 54 :: codes_of_uint r | D7 r => 55 :: codes_of_uint r | D8 r => 56 :: codes_of_uint r
  | D9 r => 57 :: codes_of_uint r
  end.

(* the digits after the optional sign: at least one, all ASCII digits, value inside the type *)
Definition parse_mag (t : int_ty) (neg : bool) (ds : list N) : option Z :=
  match ds with
  | [] => None
  | _ =>
      do u <- uint_of_codes ds;
      let z := if neg then (- Z.of_uint u)%Z else Z.of_uint u in
      if in_ty t z then Some z else None
  end.

Definition parse_int (t : int_ty) (s : list N) : option Z :=
  match s with
  | [] => None
  | c :: ds =>
      if c =? 43 then parse_mag t false ds
      else if c =? 45 then (if signed t then parse_mag t true ds else None)
      else parse_mag t false s
  end.

Definition show_int (z : Z) : list N :=
  match Z.to_int z with
  | Decimal.Pos u => codes_of_uint u
  | Decimal.Neg u => 45 :: codes_of_uint u
  end.

Section WithLib.
  Variable lib : fnlib.

  (* FromStr of an integer newtype on the text itself: the inner type's own parser, then the
     emitted body of Conv.op_from_str *)
  Definition op_from_str_text (d : decl) (s : list N) : outcome :=
    match d_family d with
    | FInt _ t => op_from_str lib d (option_map VI (parse_int t s))
    | _ => ONotAvail
    end.

  (* Display of an integer newtype delegates to the inner Display *)
  Definition op_display_int (d : decl) (v : value) : option (list N) :=
    match d_family d, v with
    | FInt _ _, VI z => if has_trait TrDisplay (d_traits d) then Some (show_int z) else None
    | _, _ => None
    end.
End WithLib.
