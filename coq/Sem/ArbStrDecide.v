(* One executable decision procedure for the derived Arbitrary of String newtypes
   (Sem/ArbStr.v): from the declaration alone (family, sanitizers, validators, bound values)
   answer
     SVTotal        for EVERY well-formed byte string the generator returns a valid value,
     SVPanicsOn bs  the generator panics on the (well-formed) input bs,
     SVUnknown      neither is established.
   Definitions only (extracted and run); soundness is Lemmas/ArbStrDecideLemmas.v.

   Case table (family String, standard validation with validators vs, (mn, mx) = str_spec d):
     mx < mn                                                        SVPanicsOn []
         (int_in_range asserts start <= end; whatever the sanitizers and validators)
     sanitizers [] / [trim], vs among len_char_min / len_char_max /
         not_empty, no validator kind twice, 0 <= mn <= mx,
         mx - mn <= 2^64 - 1                                        SVTotal
     an accepted chain of built-ins with lowercase / uppercase
         (the six chains of [str_case_sans_cases]):
       vs among len_char_min / not_empty                            SVTotal
       some len_char_max in vs, 1 <= mx <= 2^64 - 1, mn <= mx       SVPanicsOn (str_case_witness ..)
       mn = mx = 0, vs among len_char_min / len_char_max /
         not_empty, no validator kind twice                         SVTotal (only "" is generated)
     anything else (other families, no / custom validation, `with`
         sanitizers, regex / predicate validators beside plain
         sanitizers, duplicated kinds, bounds beyond usize, ...)     SVUnknown

   The witness: the big-endian bytes that make int_in_range answer its upper end mx, followed
   by mx four-byte groups each decoding to U+00DF (uppercase: -> "SS") resp. U+0130
   (lowercase: -> "i" U+0307).  The generator emits mx characters, neither is white space, the
   case mapping doubles the length, len_char_max rejects, `.expect(..)` panics. *)
From NV Require Import Base.Util Base.IntTy Base.Expr Macro.Surface Macro.Ast Macro.Parse
     Macro.Validate Sem.Guard Sem.Value Sem.Eval Sem.Bytes Sem.ArbStr.
Local Open Scope Z_scope.

Inductive str_verdict := SVTotal | SVPanicsOn (bs : bytes) | SVUnknown.

(* ---- boolean restatements of the hypotheses of the theorems (the originals live in Lemmas
        files) ------------------------------------------------------------------------------- *)

(* validators the generator knows about *)
Definition dec_gen_validator (v : validator) : bool :=
  match v with
  | VLenCharMin _ | VLenCharMax _ | VNotEmpty => true
  | _ => false
  end.

(* validators that impose a minimal length only *)
Definition dec_min_validator (v : validator) : bool :=
  match v with
  | VLenCharMin _ | VNotEmpty => true
  | _ => false
  end.

(* sanitizers: none, or trim alone *)
Definition dec_plain_sans (ss : list sanitizer) : bool :=
  match ss with
  | [] | [STrim] => true
  | _ => false
  end.

Definition dec_is_builtin (s : sanitizer) : bool :=
  match s with STrim | SLowercase | SUppercase => true | SWith _ => false end.

(* the chains of built-ins the macro accepts (no kind twice, not both case sanitizers) *)
Definition dec_accepted_chain (ss : list sanitizer) : bool :=
  forallb dec_is_builtin ss &&
  match ss with
  | [] | [_] => true
  | [STrim; SLowercase] | [SLowercase; STrim] | [STrim; SUppercase] | [SUppercase; STrim] => true
  | _ => false
  end.

Definition dec_has_lower (ss : list sanitizer) : bool :=
  existsb (fun s => match s with SLowercase => true | _ => false end) ss.
Definition dec_has_upper (ss : list sanitizer) : bool :=
  existsb (fun s => match s with SUppercase => true | _ => false end) ss.

(* ---- the panic witness ------------------------------------------------------------------- *)

(* big-endian encoding in n bytes *)
Fixpoint dec_be_bytes (n : nat) (x : Z) : bytes :=
  match n with
  | O => []
  | S n' => (x / 256 ^ Z.of_nat n') :: dec_be_bytes n' (x mod 256 ^ Z.of_nat n')
  end.

(* n four-byte little-endian groups (b0, b1, 0, 0) *)
Fixpoint dec_char_groups (b0 b1 : Z) (n : nat) : bytes :=
  match n with
  | O => []
  | S n' => b0 :: b1 :: 0 :: 0 :: dec_char_groups b0 b1 n'
  end.

(* the bytes on which int_in_range usize mn mx answers mx *)
Definition dec_pick_max (mn mx : Z) : bytes :=
  if mn =? mx then [] else dec_be_bytes (bytes_wanted usize_ty (mx - mn)) (mx - mn).

(* lower = true: U+0130 = 0x0130 (48, 1); lower = false: U+00DF (223, 0) *)
Definition str_case_witness (lower : bool) (mn mx : Z) : bytes :=
  dec_pick_max mn mx ++
  (if lower then dec_char_groups 48 1 (Z.to_nat mx) else dec_char_groups 223 0 (Z.to_nat mx)).

(* ---- the decision -------------------------------------------------------------------------- *)

Definition arb_str_decide_std (d : decl) (vs : list validator) : str_verdict :=
  let (mn, mx) := str_spec d in
  if mx <? mn then SVPanicsOn []
  else if dec_plain_sans (d_sans d) then
    if forallb dec_gen_validator vs
       && negb (has_dup vkind_eqb (map vkind_of vs))
       && (0 <=? mn) && (mn <=? mx) && (mx - mn <=? 2 ^ 64 - 1)
    then SVTotal else SVUnknown
  else if dec_accepted_chain (d_sans d)
          && (dec_has_lower (d_sans d) || dec_has_upper (d_sans d)) then
    if forallb dec_min_validator vs then SVTotal
    else
      match first_max d vs with
      | Some _ =>
          if (1 <=? mx) && (mx <=? 2 ^ 64 - 1) && (0 <=? mn) && (mn <=? mx)
          then SVPanicsOn (str_case_witness (dec_has_lower (d_sans d)) mn mx)
          (* len_char_max = 0: only the empty string is generated, and it stays empty *)
          else if (mn =? 0) && (mx =? 0) && forallb dec_gen_validator vs
                  && negb (has_dup vkind_eqb (map vkind_of vs))
          then SVTotal
          else SVUnknown
      | None => SVUnknown
      end
  else SVUnknown.

Definition arb_str_decide (d : decl) : str_verdict :=
  match d_family d with
  | FStr =>
      match d_validation d with
      | Some (RVStandard vs) => arb_str_decide_std d vs
      | _ => SVUnknown
      end
  | _ => SVUnknown
  end.

(* from the surface declaration: run the macro front end, answer for what it accepts
   (a rejected declaration has no generator at all) *)
Definition arb_str_decide_sd (ft : features) (sd : sdecl) : str_verdict :=
  match macro_verdict ft sd with
  | Accept d => arb_str_decide d
  | Reject _ => SVUnknown
  end.
