(* Run-time values of the four inner-type families, errors and outcomes. *)
From NV Require Import Base.Util Macro.Ast.

Inductive value :=
| VI (z : Z)          (* integer *)
| VF (bits : Z)       (* f32 / f64 bit pattern *)
| VS (s : list N)     (* String as Unicode scalar values *)
| VL (l : list Z).    (* Vec<i32> (the "other type" family) *)

(* a validation error: a variant of the generated enum (named after its validator kind),
   or the value of a user error type returned by a custom `with` validator *)
Inductive verr :=
| EVariant (k : vkind)
| ECustom (code : Z).

Inductive outcome :=
| OOk (v : value)
| OErr (e : verr)
| OParseErr            (* inner FromStr / Deserialize failed *)
| OPanic
| OArbErr              (* arbitrary::Error *)
| ONotAvail.           (* the declaration has no such entry point *)

(* the fixed library of user functions that exists both in Rust (harness/runner/lib.rs) and
   here; theorems quantify over every library *)
Record fnlib := {
  l_san : N -> value -> value;
  l_pred : N -> value -> bool;
  l_cust : N -> value -> option Z;
  l_regex : regexdef -> list N -> bool;
  l_trim : list N -> list N;
  l_lower : list N -> list N;
  l_upper : list N -> list N
}.

Fixpoint list_Z_eqb (a b : list Z) : bool :=
  match a, b with
  | [], [] => true
  | x :: a', y :: b' => Z.eqb x y && list_Z_eqb a' b'
  | _, _ => false
  end.
Fixpoint list_N_eqb' (a b : list N) : bool :=
  match a, b with
  | [], [] => true
  | x :: a', y :: b' => N.eqb x y && list_N_eqb' a' b'
  | _, _ => false
  end.
Definition value_eqb (a b : value) : bool :=
  match a, b with
  | VI x, VI y => Z.eqb x y
  | VF x, VF y => Z.eqb x y
  | VS x, VS y => list_N_eqb' x y
  | VL x, VL y => list_Z_eqb x y
  | _, _ => false
  end.

(* the run-time type discipline rustc enforces: values of a declaration's family *)
Definition typed (fam : family) (v : value) : bool :=
  match fam, v with
  | FInt _ _, VI _ => true
  | FFloat _, VF _ => true
  | FStr, VS _ => true
  | FAny _, _ => true
  | _, _ => false
  end.

(* user sanitizers return a value of the type they receive *)
Definition lib_typed (lib : fnlib) : Prop :=
  forall (id : N) (fam : family) (v : value), typed fam v = true -> typed fam (l_san lib id v) = true.
