(* L2: the MessagePack bytes of integers and strings, as `rmp-serde 1.1` writes and reads them
   (rmp_serde::to_vec / rmp_serde::from_slice on the primitive integer types and on String).

   Writing an integer (rmp::encode::write_uint for the unsigned types, write_sint for the signed
   ones): the shortest of the forms that holds the value.  Non-negative: positive fixint 00..7f,
   cc + 1 byte, cd + 2 bytes, ce + 4 bytes, cf + 8 bytes (write_sint writes a non-negative value
   exactly as write_uint does).  Negative: negative fixint e0..ff down to -32, d0 + 1 byte down
   to -128, d1 + 2 bytes down to -32768, d2 + 4 bytes down to -2^31, d3 + 8 bytes; two's
   complement.  Multi-byte quantities are big-endian.

   Reading an integer (rmp_serde::decode: the marker is read, the value it carries goes to the
   visitor as visit_u8 .. visit_u64 / visit_i8 .. visit_i64, and serde's visitor of the
   requested primitive type converts it, failing when the value does not fit): ANY integer
   marker is accepted whatever the requested type, the VALUE decides.  The 128-bit types are not
   carried by these markers in rmp-serde 1.1: the reader refuses them.

   Writing a string (rmp::encode::write_str): the UTF-8 bytes after a header that carries their
   number: fixstr a0|len below 32, d9 + 1 byte, da + 2 bytes, db + 4 bytes.
   Reading a string: any of the four str headers whatever the length (no minimality check), and
   also the bin headers c4 / c5 / c6 (a byte buffer goes to visit_bytes, which serde's String
   visitor accepts when it is valid UTF-8); the payload must be valid UTF-8.

   A document is the whole input: the announced length must be exactly the number of bytes left,
   an integer must not be followed by anything.  Bytes are [N] below 256; an input holding
   anything else is refused. *)
From NV Require Import Base.Util Base.IntTy Macro.Surface Macro.Ast Sem.Guard Sem.Value Sem.Json
     Sem.Utf8.
Local Open Scope N_scope.

Definition is_byte (b : N) : bool := b <? 256.
Definition all_bytes (l : list N) : bool := forallb is_byte l.

(* ---- big-endian quantities ---- *)

Definition be1 (v : N) : list N := [v mod 256].
Definition be2 (v : N) : list N := [v / 256 mod 256; v mod 256].
Definition be4 (v : N) : list N := be2 (v / 65536 mod 65536) ++ be2 (v mod 65536).
Definition be8 (v : N) : list N := be4 (v / 4294967296 mod 4294967296) ++ be4 (v mod 4294967296).

Definition val2 (a b : N) : N := a * 256 + b.
Definition val4 (a b c d : N) : N := val2 a b * 65536 + val2 c d.
Definition val8 (a b c d e f g h : N) : N := val4 a b c d * 4294967296 + val4 e f g h.

(* two's complement: the signed reading of an unsigned quantity of [2^k] values, [half = 2^(k-1)] *)
Definition to_signed (half : Z) (v : N) : Z :=
  let z := Z.of_N v in if (z <? half)%Z then z else (z - 2 * half)%Z.

(* ---- writing an integer ---- *)

(* 0 <= z < 2^64 *)
Definition mp_write_uint (z : Z) : list N :=
  let n := Z.to_N z in
  if n <? 0x80 then [n]
  else if n <? 0x100 then 0xcc :: be1 n
  else if n <? 0x10000 then 0xcd :: be2 n
  else if n <? 0x100000000 then 0xce :: be4 n
  else 0xcf :: be8 n.

(* -2^63 <= z < 2^64 *)
Definition mp_write_int (z : Z) : list N :=
  if (0 <=? z)%Z then mp_write_uint z
  else if (-32 <=? z)%Z then [Z.to_N (z + 256)]
  else if (-128 <=? z)%Z then 0xd0 :: be1 (Z.to_N (z + 256))
  else if (-32768 <=? z)%Z then 0xd1 :: be2 (Z.to_N (z + 65536))
  else if (-2147483648 <=? z)%Z then 0xd2 :: be4 (Z.to_N (z + 4294967296))
  else 0xd3 :: be8 (Z.to_N (z + 18446744073709551616)).

(* the length of the document that an integer marker opens (0: not an integer marker) *)
Definition mp_int_len (m : N) : nat :=
  if (m <? 0x80) || (0xe0 <=? m) then 1
  else if (m =? 0xcc) || (m =? 0xd0) then 2
  else if (m =? 0xcd) || (m =? 0xd1) then 3
  else if (m =? 0xce) || (m =? 0xd2) then 5
  else if (m =? 0xcf) || (m =? 0xd3) then 9
  else 0.

(* ---- reading an integer ---- *)

(* the value carried by a marker [m] followed by exactly the bytes [r] *)
Definition mp_int_body (m : N) (r : list N) : option Z :=
  if m <? 0x80 then match r with [] => Some (Z.of_N m) | _ => None end
  else if 0xe0 <=? m then match r with [] => Some (Z.of_N m - 256)%Z | _ => None end
  else if m =? 0xcc then match r with [a] => Some (Z.of_N a) | _ => None end
  else if m =? 0xcd then match r with [a; b] => Some (Z.of_N (val2 a b)) | _ => None end
  else if m =? 0xce then match r with [a; b; c; d] => Some (Z.of_N (val4 a b c d)) | _ => None end
  else if m =? 0xcf then
    match r with [a; b; c; d; e; f; g; h] => Some (Z.of_N (val8 a b c d e f g h)) | _ => None end
  else if m =? 0xd0 then match r with [a] => Some (to_signed 128 a) | _ => None end
  else if m =? 0xd1 then match r with [a; b] => Some (to_signed 32768 (val2 a b)) | _ => None end
  else if m =? 0xd2 then
    match r with [a; b; c; d] => Some (to_signed 2147483648 (val4 a b c d)) | _ => None end
  else if m =? 0xd3 then
    match r with
    | [a; b; c; d; e; f; g; h] => Some (to_signed 9223372036854775808 (val8 a b c d e f g h))
    | _ => None
    end
  else None.

(* the integer a whole document denotes, before the requested type is looked at *)
Definition mp_int_value (b : list N) : option Z :=
  match b with
  | [] => None
  | m :: r => mp_int_body m r
  end.

Definition mp_read_int (t : int_ty) (b : list N) : option Z :=
  if all_bytes b && (bits t <=? 64)%Z then
    do z <- mp_int_value b;
    if in_ty t z then Some z else None
  else None.

(* ---- strings ---- *)

(* [len] is the number of BYTES of the payload, below 2^32 *)
Definition mp_str_header (len : N) : list N :=
  if len <? 32 then [0xa0 + len]
  else if len <? 0x100 then 0xd9 :: be1 len
  else if len <? 0x10000 then 0xda :: be2 len
  else 0xdb :: be4 len.

Definition mp_write_str (s : list N) : list N :=
  let p := utf8_encode s in mp_str_header (N.of_nat (List.length p)) ++ p.

(* the announced length and what follows the header: str and bin headers alike *)
Definition mp_str_split (b : list N) : option (N * list N) :=
  match b with
  | [] => None
  | m :: r =>
      if (0xa0 <=? m) && (m <? 0xc0) then Some (m - 0xa0, r)
      else if (m =? 0xd9) || (m =? 0xc4) then
        match r with a :: p => Some (a, p) | _ => None end
      else if (m =? 0xda) || (m =? 0xc5) then
        match r with a :: b :: p => Some (val2 a b, p) | _ => None end
      else if (m =? 0xdb) || (m =? 0xc6) then
        match r with a :: b :: c :: d :: p => Some (val4 a b c d, p) | _ => None end
      else None
  end.

Definition mp_read_str (b : list N) : option (list N) :=
  if all_bytes b then
    do (len, p) <- mp_str_split b;
    if N.of_nat (List.length p) =? len then utf8_decode p else None
  else None.

(* ---- the concrete format for Sem.Serde ---- *)

(* documents are byte lists; a newtype struct is transparent in MessagePack
   (rmp-serde writes serialize_newtype_struct as the inner value, except for the reserved name
   of its extension type) *)
Definition mp_ser_inner (v : value) : list N :=
  match v with
  | VS s => mp_write_str s
  | VI z => mp_write_int z
  | _ => []
  end.

Definition mp_de_inner (fam : family) (b : list N) : option value :=
  match fam with
  | FStr => option_map VS (mp_read_str b)
  | FInt _ ty => option_map VI (mp_read_int ty b)
  | _ => None
  end.

Definition mp_wrap (_ : string) (x : list N) : list N := x.
Definition mp_unwrap (_ : string) (x : list N) : option (list N) := Some x.

(* the values of a family that the format above carries: strings of scalar values whose UTF-8
   form is shorter than 2^32 bytes, and integers of a type of at most 64 bits *)
Definition mp_storable (fam : family) (v : value) : bool :=
  match fam, v with
  | FStr, VS s => forallb scalar s && (N.of_nat (List.length (utf8_encode s)) <? 4294967296)
  | FInt _ ty, VI z => in_ty ty z && (bits ty <=? 64)%Z
  | _, _ => false
  end.
