(* L2: the JSON text of strings and integers, as `serde_json` writes and reads them
   (serde_json::to_string / serde_json::from_str on String and on the primitive integer types).

   Writing a string (serde_json/src/ser.rs, format_escaped_str with the ESCAPE table): a quote,
   the characters, a quote; the quote (U+0022) and the backslash get a backslash, U+0008 / U+000C / U+000A / U+000D /
   U+0009 become \b \f \n \r \t, every other character below U+0020 becomes \u00XX with lowercase
   hex digits, and every other scalar value (U+007F, non-ASCII, astral) is written as it is.

   Reading a string (serde_json/src/read.rs, parse_str / parse_escape): after the opening quote,
   raw characters from U+0020 on other than the quote and the backslash; the escapes \QUOTE \\ \/ \b \f \n \r \t;
   \uXXXX with four hex digits of either case, which is a BMP scalar value, or a high surrogate
   that must be followed by a \uXXXX low surrogate (together an astral scalar value); a lone
   surrogate, a raw control character, an unknown escape and anything after the closing quote
   are errors.

   Integers: written as the shortest decimal numeral (itoa = Display, [Sem.Text.show_int]); read
   with the JSON number grammar restricted to what an integer type accepts: optional `-`, then
   `0` or a nonzero digit followed by digits, nothing else, value inside the type.

   Texts are lists of Unicode scalar values, like every string of the model. *)
From NV Require Import Base.Util Base.IntTy Macro.Surface Macro.Ast Sem.Guard Sem.Value Sem.Eval
     Sem.Conv Sem.Text.
Local Open Scope N_scope.

(* Unicode scalar values: code points that are not surrogates *)
Definition scalar (c : N) : bool := (c <? 0xD800) || ((0xE000 <=? c) && (c <=? 0x10FFFF)).

(* ---- writing a string ---- *)

(* lowercase hex digit of a value below 16 *)
Definition hex_digit (n : N) : N := if n <? 10 then 48 + n else 87 + n.

Definition json_escape_char (c : N) : list N :=
  if c =? 34 then [92; 34]                 (* backslash quote *)
  else if c =? 92 then [92; 92]            (* \\ *)
  else if c =? 8 then [92; 98]             (* \b *)
  else if c =? 12 then [92; 102]           (* \f *)
  else if c =? 10 then [92; 110]           (* \n *)
  else if c =? 13 then [92; 114]           (* \r *)
  else if c =? 9 then [92; 116]            (* \t *)
  else if c <? 32 then [92; 117; 48; 48; hex_digit (c / 16); hex_digit (c mod 16)]
  else [c].

(* the text between the quotes *)
Definition json_escape (s : list N) : list N := flat_map json_escape_char s.

Definition json_write_string (s : list N) : list N := 34 :: json_escape s ++ [34].

(* ---- reading a string ---- *)

Definition hex_val (c : N) : option N :=
  if (48 <=? c) && (c <=? 57) then Some (c - 48)
  else if (97 <=? c) && (c <=? 102) then Some (c - 87)
  else if (65 <=? c) && (c <=? 70) then Some (c - 55)
  else None.

(* four hex digits, most significant first *)
Definition read_hex4 (l : list N) : option (N * list N) :=
  match l with
  | a :: b :: c :: d :: r =>
      do va <- hex_val a; do vb <- hex_val b; do vc <- hex_val c; do vd <- hex_val d;
      Some (va * 4096 + vb * 256 + vc * 16 + vd, r)
  | _ => None
  end.

Definition is_high_surrogate (u : N) : bool := (0xD800 <=? u) && (u <=? 0xDBFF).
Definition is_low_surrogate (u : N) : bool := (0xDC00 <=? u) && (u <=? 0xDFFF).

(* the astral scalar value denoted by a surrogate pair *)
Definition astral_of_pair (hi lo : N) : N := 0x10000 + (hi - 0xD800) * 0x400 + (lo - 0xDC00).

(* what follows `\u` *)
Definition read_unicode (l : list N) : option (N * list N) :=
  do (u, r2) <- read_hex4 l;
  if is_high_surrogate u then
    match r2 with
    | a :: b :: r3 =>
        if (a =? 92) && (b =? 117) then
          do (lo, r4) <- read_hex4 r3;
          if is_low_surrogate lo then Some (astral_of_pair u lo, r4)
          else None
        else None
    | _ => None
    end
  else if is_low_surrogate u then None
  else Some (u, r2).

(* the one-character escapes: the character after the backslash |-> the character denoted *)
Definition read_escape (e : N) : option N :=
  if e =? 34 then Some 34 else if e =? 92 then Some 92 else if e =? 47 then Some 47
  else if e =? 98 then Some 8 else if e =? 102 then Some 12 else if e =? 110 then Some 10
  else if e =? 114 then Some 13 else if e =? 116 then Some 9 else None.

(* one character of the string body (the closing quote is not one): the character and the rest *)
Definition read_one (l : list N) : option (N * list N) :=
  match l with
  | [] => None
  | c :: r =>
      if c =? 92 then
        match r with
        | [] => None
        | e :: r' => if e =? 117 then read_unicode r' else do x <- read_escape e; Some (x, r')
        end
      else if c <? 32 then None
      else if c =? 34 then None
      else Some (c, r)
  end.

(* the body up to the closing quote, which must be the last element.  Every step consumes at
   least one element, so fuel = length of the input + 1 is never exhausted. *)
Fixpoint read_chars (fuel : nat) (l : list N) : option (list N) :=
  match fuel with
  | O => None
  | S f =>
      match l with
      | [] => None
      | c :: r =>
          if c =? 34 then (match r with [] => Some [] | _ :: _ => None end)
          else match read_one l with
               | Some (x, rest) => option_map (cons x) (read_chars f rest)
               | None => None
               end
      end
  end.

Definition json_read_string (t : list N) : option (list N) :=
  match t with
  | [] => None
  | q :: body => if q =? 34 then read_chars (S (List.length body)) body else None
  end.

(* ---- integers ---- *)

Definition json_write_int (z : Z) : list N := show_int z.

(* the digits after the optional `-`: `0` alone or a numeral without leading zero, all ASCII
   digits, value inside the type ([parse_mag] refuses the empty text and non-digits) *)
Definition json_read_mag (t : int_ty) (neg : bool) (ds : list N) : option Z :=
  match ds with
  | [] => None
  | c :: r =>
      if (c =? 48) && (match r with [] => false | _ :: _ => true end) then None
      else parse_mag t neg ds
  end.

(* `-0` is not an integer for serde_json: its number parser turns it into the float -0.0, which
   an integer visitor refuses (found by the correspondence: `from_str::<u8>("-0")` and `::<i8>` are errors,
   `::<i128>` is Ok(0)) *)
Definition is_single_zero (ds : list N) : bool :=
  match ds with [d] => d =? 48 | _ => false end.

Definition json_read_int (t : int_ty) (s : list N) : option Z :=
  match s with
  | [] => None
  | c :: ds => if c =? 45 then
                 (* ... except for i128, which serde_json reads through the digit text itself *)
                 (if is_single_zero ds && negb (signed t && (bits t =? 128)%Z) then None else json_read_mag t true ds)
               else json_read_mag t false s
  end.

(* ---- the concrete format for Sem.Serde ---- *)

(* documents are texts; a newtype struct is transparent in JSON *)
Definition json_ser_inner (v : value) : list N :=
  match v with
  | VS s => json_write_string s
  | VI z => json_write_int z
  | _ => []
  end.

Definition json_de_inner (fam : family) (t : list N) : option value :=
  match fam with
  | FStr => option_map VS (json_read_string t)
  | FInt _ ty => option_map VI (json_read_int ty t)
  | _ => None
  end.

Definition json_wrap (_ : string) (x : list N) : list N := x.
Definition json_unwrap (_ : string) (x : list N) : option (list N) := Some x.

(* the values of a family that the format above carries: strings, and integers of the type *)
Definition json_storable (fam : family) (v : value) : bool :=
  match fam, v with
  | FStr, VS _ => true
  | FInt _ ty, VI z => in_ty ty z
  | _, _ => false
  end.

(* ---- unescaped quotes ---- *)

(* [no_raw_quote false l]: scanning [l] from the left, skipping the element after every
   backslash, meets no quote (34) and does not end on a dangling backslash *)
Fixpoint no_raw_quote (esc : bool) (l : list N) : bool :=
  match l with
  | [] => negb esc
  | c :: r =>
      if esc then no_raw_quote false r
      else if c =? 92 then no_raw_quote true r
      else if c =? 34 then false
      else no_raw_quote false r
  end.

(* the elements strictly between the first and the last *)
Definition interior (t : list N) : list N := removelast (tl t).
