(* Derived Arbitrary of float newtypes (float/gen/traits/arbitrary.rs), statement by
   statement: conditioned base value with the 1000-step byte mangling, scaling of [0,1] into
   two-sided bounds, the corrections of exclusive bounds by a fixed delta. *)
From NV Require Import Base.Util Base.IntTy Base.FloatBits Base.Float Base.Expr
     Macro.Surface Macro.Ast Sem.Guard Sem.Value Sem.Eval Sem.Bytes.
Local Open Scope Z_scope.

Section WithLib.
  Variable lib : fnlib.

  Definition fsize (is64 : bool) : nat := if is64 then 8%nat else 4%nat.

  Inductive base_kind := BKAll | BKNotNaN | BKFinite.

  Definition base_cond (is64 : bool) (k : base_kind) (x : Z) : bool :=
    match k with
    | BKAll => true
    | BKNotNaN => negb (f_is_nan is64 x)
    | BKFinite => f_is_finite is64 x
    end.

  (* big-endian byte list of a bit pattern, and back *)
  Fixpoint be_bytes_of (n : nat) (x : Z) : list Z :=
    match n with
    | O => []
    | S n' => (x / 256 ^ Z.of_nat n') mod 256 :: be_bytes_of n' x
    end.
  Fixpoint be_value (l : list Z) (acc : Z) : Z :=
    match l with [] => acc | b :: r => be_value r (acc * 256 + b) end.

  Fixpoint list_update (l : list Z) (i : nat) (f : Z -> Z) : list Z :=
    match l, i with
    | [], _ => []
    | b :: r, O => f b :: r
    | b :: r, S i' => b :: list_update r i' f
    end.

  (* for i in 0..1000: bytes[i % size] += i % 256; try from_be_bytes then from_ne_bytes *)
  Fixpoint mangle (is64 : bool) (k : base_kind) (steps : nat) (i : nat) (bs : list Z) : option Z :=
    match steps with
    | O => None
    | S s =>
        let idx := Nat.modulo i (fsize is64) in
        let bs' := list_update bs idx (fun b => (b + Z.of_nat (Nat.modulo i 256)) mod 256) in
        let be := be_value bs' 0 in
        if base_cond is64 k be then Some be
        else let ne := le_value bs' in
             if base_cond is64 k ne then Some ne
             else mangle is64 k s (S i) bs'
    end.

  (* 'outer: loop { original = u.arbitrary()?; ... } ; None = out of fuel *)
  Fixpoint base_value (is64 : bool) (k : base_kind) (fuel : nat) (bs : bytes) : option (Z * bytes) :=
    match fuel with
    | O => None
    | S f =>
        let (x, r) := arb_uint (fsize is64) bs in
        if base_cond is64 k x then Some (x, r)
        else match mangle is64 k 1000 0 (be_bytes_of (fsize is64) x) with
             | Some y => Some (y, r)
             | None => base_value is64 k f r
             end
    end.

  Definition correction_delta (is64 : bool) : Z :=
    if is64 then 4391576639459776022 else 906377149.     (* 4e-15 : f64, 0.000_002 : f32 *)

  Definition uint_max (is64 : bool) : Z := if is64 then 2 ^ 64 - 1 else 2 ^ 32 - 1.

  (* (random_int as f / uN::MAX as f) *)
  Definition from0to1 (is64 : bool) (bs : bytes) : Z * bytes :=
    let (n, r) := arb_uint (fsize is64) bs in
    (f_div is64 (f_of_Z is64 n) (f_of_Z is64 (uint_max is64)), r).

  Record fbound := { fb_val : Z; fb_incl : bool }.

  (* compute_boundaries: later validators overwrite earlier ones *)
  Fixpoint fboundaries (d : decl) (vs : list validator) (lo hi : option fbound) : option fbound * option fbound :=
    match vs with
    | [] => (lo, hi)
    | VGreater b :: r => fboundaries d r (Some {| fb_val := bval d b; fb_incl := false |}) hi
    | VGreaterOrEqual b :: r => fboundaries d r (Some {| fb_val := bval d b; fb_incl := true |}) hi
    | VLess b :: r => fboundaries d r lo (Some {| fb_val := bval d b; fb_incl := false |})
    | VLessOrEqual b :: r => fboundaries d r lo (Some {| fb_val := bval d b; fb_incl := true |})
    | _ :: r => fboundaries d r lo hi
    end.

  Definition adjust_lower (is64 : bool) (lo : fbound) (x : Z) : Z :=
    if fb_incl lo then x
    else if f_le is64 x (fb_val lo) then f_add is64 x (correction_delta is64) else x.
  Definition adjust_upper (is64 : bool) (hi : fbound) (x : Z) : Z :=
    if fb_incl hi then (if f_gt is64 x (fb_val hi) then fb_val hi else x)   (* clamp: rounding of the range *)
    else if f_ge is64 x (fb_val hi) then f_sub is64 x (correction_delta is64) else x.

  Definition base_kind_of (vs : list validator) : base_kind :=
    if existsb (fun v => vkind_eqb (vkind_of v) KFinite) vs then BKFinite
    else if existsb (fun v => match v with
                              | VGreater _ | VGreaterOrEqual _ | VLess _ | VLessOrEqual _ => true
                              | _ => false end) vs then BKNotNaN
    else BKAll.

  (* the inner value handed to try_new; None = out of fuel *)
  Definition arb_float_inner (is64 : bool) (d : decl) (vs : list validator) (bs : bytes) : option Z :=
    let k := base_kind_of vs in
    let fuel := (List.length bs + 2)%nat in
    match fboundaries d vs None None with
    | (Some lo, Some hi) =>
        let (u, _) := from0to1 is64 bs in
        let range := fb_abs is64 (f_sub is64 (fb_val hi) (fb_val lo)) in
        let x := f_add is64 (fb_val lo) (f_mul is64 u range) in
        Some (adjust_upper is64 hi (adjust_lower is64 lo x))
    | (Some lo, None) =>
        do p <- base_value is64 k fuel bs;
        let x := f_add is64 (fb_abs is64 (fst p)) (fb_val lo) in
        Some (adjust_lower is64 lo x)
    | (None, Some hi) =>
        do p <- base_value is64 k fuel bs;
        let x := f_add is64 (fb_neg is64 (fb_abs is64 (fst p))) (fb_val hi) in
        Some (adjust_upper is64 hi x)
    | (None, None) =>
        do p <- base_value is64 k fuel bs; Some (fst p)
    end.

  Definition arb_float (d : decl) (bs : bytes) : outcome :=
    match d_family d with
    | FFloat is64 =>
        match d_validation d with
        | None => let (x, _) := arb_uint (fsize is64) bs in OOk (d_new lib d (VF x))
        | Some (RVStandard vs) =>
            match arb_float_inner is64 d vs bs with
            | None => OPanic
            | Some x => match d_try_new lib d (VF x) with Ok v => OOk v | Err _ => OPanic end
            end
        | Some (RVCustom _ _) => ONotAvail
        end
    | _ => ONotAvail
    end.
End WithLib.
