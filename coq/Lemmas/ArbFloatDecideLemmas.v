(* Soundness of the decision procedure Sem/ArbFloatDecide.v:
     D1  arb_float_decide d = AVTotal        -> for every byte string the generator returns a
                                                value and the value is valid (spec_valid);
     D2  arb_float_decide d = AVPanicsOn bs  -> the generator panics on bs;
     D3  examples by vm_compute.
   Every shape is discharged by the theorem of Lemmas/ArbFloatValid.v, ArbFloatExcl.v,
   ArbFloatExcl2.v, ArbFloatExcl3.v for it. *)
From Coq Require Import ZArith Lia List Bool.
From NV Require Import Base.Util Base.IntTy Base.FloatBits Base.Float Base.Expr
     Macro.Surface Macro.Ast Sem.Guard Sem.Value Sem.Eval Sem.Bytes Sem.ArbFloat Sem.ArbFloatDecide
     Spec.GuardSpec
     Lemmas.GuardLemmas Lemmas.ArbFloatLemmas Lemmas.ArbFloatValid Lemmas.ArbFloatExcl
     Lemmas.ArbFloatExcl2 Lemmas.ArbFloatExcl3 Lemmas.ArbFloatExcl4.
Local Open Scope Z_scope.

(* ====================================================================================== *)
(* 0. The locally re-defined constants are the ones of the Lemmas files                   *)
(* ====================================================================================== *)

Lemma dec_one_eq (is64 : bool) : dec_one is64 = f_one is64.
Proof. reflexivity. Qed.
Lemma dec_max_finite_eq (is64 : bool) : dec_max_finite is64 = max_finite is64.
Proof. reflexivity. Qed.
Lemma dec_xmax_eq (is64 : bool) (L U : Z) : dec_xmax is64 L U = f_xmax is64 L U.
Proof. reflexivity. Qed.

(* ====================================================================================== *)
(* 1. The normal form                                                                     *)
(* ====================================================================================== *)

Definition nf_fb (d : decl) (p : option (bool * bound)) : option fbound :=
  match p with
  | Some (i, b) => Some {| fb_val := bval d b; fb_incl := i |}
  | None => None
  end.

Definition nf_cnt (fin : bool) (lo hi : option (bool * bound)) : nat :=
  ((if fin then 1 else 0) + (match lo with Some _ => 1 | None => 0 end)
   + (match hi with Some _ => 1 | None => 0 end))%nat.

(* compute_boundaries agrees with the normal form *)
Lemma arb_nf_go_fboundaries (d : decl) (vs : list validator) :
  forall (fin : bool) (lo hi : option (bool * bound)) (fin' : bool) (lo' hi' : option (bool * bound)),
    arb_nf_go vs fin lo hi = Some (fin', lo', hi') ->
    fboundaries d vs (nf_fb d lo) (nf_fb d hi) = (nf_fb d lo', nf_fb d hi').
Proof.
  induction vs as [|v r IH]; intros fin lo hi fin' lo' hi' H.
  - cbn [arb_nf_go] in H. inversion H; subst. reflexivity.
  - destruct v; cbn [arb_nf_go] in H; try discriminate H.
    + destruct lo as [p|]; [discriminate H|]. apply IH in H. exact H.
    + destruct lo as [p|]; [discriminate H|]. apply IH in H. exact H.
    + destruct hi as [p|]; [discriminate H|]. apply IH in H. exact H.
    + destruct hi as [p|]; [discriminate H|]. apply IH in H. exact H.
    + destruct fin; [discriminate H|]. apply IH in H. exact H.
Qed.

(* what is already in the accumulators stays *)
Lemma arb_nf_go_pres (vs : list validator) :
  forall (fin : bool) (lo hi : option (bool * bound)) (fin' : bool) (lo' hi' : option (bool * bound)),
    arb_nf_go vs fin lo hi = Some (fin', lo', hi') ->
    (fin = true -> fin' = true) /\
    (forall p, lo = Some p -> lo' = Some p) /\
    (forall p, hi = Some p -> hi' = Some p).
Proof.
  induction vs as [|v r IH]; intros fin lo hi fin' lo' hi' H.
  - cbn [arb_nf_go] in H. inversion H; subst. auto.
  - destruct v; cbn [arb_nf_go] in H; try discriminate H.
    + destruct lo as [p|]; [discriminate H|]. apply IH in H. destruct H as (A & B & C).
      repeat split; [exact A | intros p Hp; discriminate Hp | exact C].
    + destruct lo as [p|]; [discriminate H|]. apply IH in H. destruct H as (A & B & C).
      repeat split; [exact A | intros p Hp; discriminate Hp | exact C].
    + destruct hi as [p|]; [discriminate H|]. apply IH in H. destruct H as (A & B & C).
      repeat split; [exact A | exact B | intros p Hp; discriminate Hp].
    + destruct hi as [p|]; [discriminate H|]. apply IH in H. destruct H as (A & B & C).
      repeat split; [exact A | exact B | intros p Hp; discriminate Hp].
    + destruct fin; [discriminate H|]. apply IH in H. destruct H as (A & B & C).
      repeat split; [intros Hp; discriminate Hp | exact B | exact C].
Qed.

(* every element of the list is one of the three the normal form names *)
Lemma arb_nf_go_in (vs : list validator) :
  forall (fin : bool) (lo hi : option (bool * bound)) (fin' : bool) (lo' hi' : option (bool * bound)),
    arb_nf_go vs fin lo hi = Some (fin', lo', hi') ->
    forall v, In v vs ->
      (v = VFinite /\ fin' = true) \/
      (exists p, lo' = Some p /\ v = nf_lower p) \/
      (exists p, hi' = Some p /\ v = nf_upper p).
Proof.
  induction vs as [|v r IH]; intros fin lo hi fin' lo' hi' H w Hw.
  - destruct Hw.
  - destruct v; cbn [arb_nf_go] in H; try discriminate H.
    + destruct lo as [p|]; [discriminate H|]. destruct Hw as [<-|Hw]; [|exact (IH _ _ _ _ _ _ H w Hw)].
      destruct (arb_nf_go_pres _ _ _ _ _ _ _ H) as (_ & B & _).
      right; left. exists (false, b). split; [apply B; reflexivity | reflexivity].
    + destruct lo as [p|]; [discriminate H|]. destruct Hw as [<-|Hw]; [|exact (IH _ _ _ _ _ _ H w Hw)].
      destruct (arb_nf_go_pres _ _ _ _ _ _ _ H) as (_ & B & _).
      right; left. exists (true, b). split; [apply B; reflexivity | reflexivity].
    + destruct hi as [p|]; [discriminate H|]. destruct Hw as [<-|Hw]; [|exact (IH _ _ _ _ _ _ H w Hw)].
      destruct (arb_nf_go_pres _ _ _ _ _ _ _ H) as (_ & _ & C).
      right; right. exists (false, b). split; [apply C; reflexivity | reflexivity].
    + destruct hi as [p|]; [discriminate H|]. destruct Hw as [<-|Hw]; [|exact (IH _ _ _ _ _ _ H w Hw)].
      destruct (arb_nf_go_pres _ _ _ _ _ _ _ H) as (_ & _ & C).
      right; right. exists (true, b). split; [apply C; reflexivity | reflexivity].
    + destruct fin; [discriminate H|]. destruct Hw as [<-|Hw]; [|exact (IH _ _ _ _ _ _ H w Hw)].
      destruct (arb_nf_go_pres _ _ _ _ _ _ _ H) as (A & _ & _).
      left. split; [reflexivity | apply A; reflexivity].
Qed.

(* ... and what the normal form names is in the list (or was in the accumulators) *)
Lemma arb_nf_go_complete (vs : list validator) :
  forall (fin : bool) (lo hi : option (bool * bound)) (fin' : bool) (lo' hi' : option (bool * bound)),
    arb_nf_go vs fin lo hi = Some (fin', lo', hi') ->
    (fin' = true -> fin = true \/ In VFinite vs) /\
    (forall p, lo' = Some p -> lo = Some p \/ In (nf_lower p) vs) /\
    (forall p, hi' = Some p -> hi = Some p \/ In (nf_upper p) vs).
Proof.
  induction vs as [|v r IH]; intros fin lo hi fin' lo' hi' H.
  - cbn [arb_nf_go] in H. inversion H; subst. auto.
  - destruct v; cbn [arb_nf_go] in H; try discriminate H.
    + destruct lo as [p|]; [discriminate H|]. apply IH in H. destruct H as (A & B & C).
      repeat split.
      * intros Hf. destruct (A Hf) as [E|E]; [left; exact E | right; right; exact E].
      * intros p Hp. right. destruct (B p Hp) as [E|E]; [left; inversion E; reflexivity | right; exact E].
      * intros p Hp. destruct (C p Hp) as [E|E]; [left; exact E | right; right; exact E].
    + destruct lo as [p|]; [discriminate H|]. apply IH in H. destruct H as (A & B & C).
      repeat split.
      * intros Hf. destruct (A Hf) as [E|E]; [left; exact E | right; right; exact E].
      * intros p Hp. right. destruct (B p Hp) as [E|E]; [left; inversion E; reflexivity | right; exact E].
      * intros p Hp. destruct (C p Hp) as [E|E]; [left; exact E | right; right; exact E].
    + destruct hi as [p|]; [discriminate H|]. apply IH in H. destruct H as (A & B & C).
      repeat split.
      * intros Hf. destruct (A Hf) as [E|E]; [left; exact E | right; right; exact E].
      * intros p Hp. destruct (B p Hp) as [E|E]; [left; exact E | right; right; exact E].
      * intros p Hp. right. destruct (C p Hp) as [E|E]; [left; inversion E; reflexivity | right; exact E].
    + destruct hi as [p|]; [discriminate H|]. apply IH in H. destruct H as (A & B & C).
      repeat split.
      * intros Hf. destruct (A Hf) as [E|E]; [left; exact E | right; right; exact E].
      * intros p Hp. destruct (B p Hp) as [E|E]; [left; exact E | right; right; exact E].
      * intros p Hp. right. destruct (C p Hp) as [E|E]; [left; inversion E; reflexivity | right; exact E].
    + destruct fin; [discriminate H|]. apply IH in H. destruct H as (A & B & C).
      repeat split.
      * intros Hf. right. left. reflexivity.
      * intros p Hp. destruct (B p Hp) as [E|E]; [left; exact E | right; right; exact E].
      * intros p Hp. destruct (C p Hp) as [E|E]; [left; exact E | right; right; exact E].
Qed.

(* nothing else is in the list: its length is the number of components *)
Lemma arb_nf_go_length (vs : list validator) :
  forall (fin : bool) (lo hi : option (bool * bound)) (fin' : bool) (lo' hi' : option (bool * bound)),
    arb_nf_go vs fin lo hi = Some (fin', lo', hi') ->
    (List.length vs + nf_cnt fin lo hi = nf_cnt fin' lo' hi')%nat.
Proof.
  induction vs as [|v r IH]; intros fin lo hi fin' lo' hi' H.
  - cbn [arb_nf_go] in H. inversion H; subst. reflexivity.
  - destruct v; cbn [arb_nf_go] in H; try discriminate H.
    + destruct lo as [p|]; [discriminate H|]. apply IH in H. revert H.
      unfold nf_cnt. cbn [List.length]. destruct fin, hi; lia.
    + destruct lo as [p|]; [discriminate H|]. apply IH in H. revert H.
      unfold nf_cnt. cbn [List.length]. destruct fin, hi; lia.
    + destruct hi as [p|]; [discriminate H|]. apply IH in H. revert H.
      unfold nf_cnt. cbn [List.length]. destruct fin, lo; lia.
    + destruct hi as [p|]; [discriminate H|]. apply IH in H. revert H.
      unfold nf_cnt. cbn [List.length]. destruct fin, lo; lia.
    + destruct fin; [discriminate H|]. apply IH in H. revert H.
      unfold nf_cnt. cbn [List.length]. destruct lo, hi; lia.
Qed.

(* --- the facts about [arb_nf] the soundness proofs use --------------------------------- *)

Lemma arb_nf_fboundaries (d : decl) (vs : list validator) (fin : bool) (lo hi : option (bool * bound)) :
  arb_nf vs = Some (fin, lo, hi) -> fboundaries d vs None None = (nf_fb d lo, nf_fb d hi).
Proof. intros H. exact (arb_nf_go_fboundaries d vs false None None fin lo hi H). Qed.

Lemma arb_nf_finite_iff (vs : list validator) (fin : bool) (lo hi : option (bool * bound)) :
  arb_nf vs = Some (fin, lo, hi) -> (In VFinite vs <-> fin = true).
Proof.
  intros H. split.
  - intros Hin. destruct (arb_nf_go_in vs _ _ _ _ _ _ H VFinite Hin) as [[_ E]|[(p & _ & E)|(p & _ & E)]].
    + exact E.
    + destruct p as [[|] b]; discriminate E.
    + destruct p as [[|] b]; discriminate E.
  - intros Hf. destruct (arb_nf_go_complete vs _ _ _ _ _ _ H) as (A & _ & _).
    destruct (A Hf) as [E|E]; [discriminate E | exact E].
Qed.

Lemma arb_nf_in (vs : list validator) (fin : bool) (lo hi : option (bool * bound)) :
  arb_nf vs = Some (fin, lo, hi) ->
  forall v, In v vs ->
    (v = VFinite /\ fin = true) \/
    (exists p, lo = Some p /\ v = nf_lower p) \/
    (exists p, hi = Some p /\ v = nf_upper p).
Proof. intros H. exact (arb_nf_go_in vs false None None fin lo hi H). Qed.

Lemma arb_nf_lower_in (vs : list validator) (fin : bool) (p : bool * bound) (hi : option (bool * bound)) :
  arb_nf vs = Some (fin, Some p, hi) -> In (nf_lower p) vs.
Proof.
  intros H. destruct (arb_nf_go_complete vs _ _ _ _ _ _ H) as (_ & B & _).
  destruct (B p eq_refl) as [E|E]; [discriminate E | exact E].
Qed.

Lemma arb_nf_upper_in (vs : list validator) (fin : bool) (lo : option (bool * bound)) (p : bool * bound) :
  arb_nf vs = Some (fin, lo, Some p) -> In (nf_upper p) vs.
Proof.
  intros H. destruct (arb_nf_go_complete vs _ _ _ _ _ _ H) as (_ & _ & C).
  destruct (C p eq_refl) as [E|E]; [discriminate E | exact E].
Qed.

Lemma arb_nf_length (vs : list validator) (fin : bool) (lo hi : option (bool * bound)) :
  arb_nf vs = Some (fin, lo, hi) -> List.length vs = nf_cnt fin lo hi.
Proof.
  intros H. pose proof (arb_nf_go_length vs false None None fin lo hi H) as HL.
  unfold nf_cnt in HL at 1. cbn in HL. lia.
Qed.

(* the two-sided shapes: membership in the form the C09 theorems ask for *)
Lemma arb_nf_two_in (vs : list validator) (fin li ui : bool) (bl bu : bound) :
  arb_nf vs = Some (fin, Some (li, bl), Some (ui, bu)) ->
  forall v, In v vs -> v = VFinite \/ v = nf_lower (li, bl) \/ v = nf_upper (ui, bu).
Proof.
  intros H v Hin. destruct (arb_nf_in vs _ _ _ H v Hin) as [[E _]|[(p & Hp & E)|(p & Hp & E)]].
  - left; exact E.
  - right; left. inversion Hp; subst p. exact E.
  - right; right. inversion Hp; subst p. exact E.
Qed.

(* the one-sided and empty shapes: the list itself *)
Lemma arb_nf_shape_nil (vs : list validator) : arb_nf vs = Some (false, None, None) -> vs = [].
Proof.
  intros H. pose proof (arb_nf_length vs _ _ _ H) as HL. cbn in HL.
  destruct vs; [reflexivity | discriminate HL].
Qed.

Lemma arb_nf_shape_one (vs : list validator) (fin : bool) (lo hi : option (bool * bound)) :
  arb_nf vs = Some (fin, lo, hi) -> nf_cnt fin lo hi = 1%nat -> exists v, vs = [v].
Proof.
  intros H Hc. pose proof (arb_nf_length vs _ _ _ H) as HL. rewrite Hc in HL.
  destruct vs as [|v [|w r]]; try discriminate HL. exists v. reflexivity.
Qed.

Lemma arb_nf_shape_two (vs : list validator) (fin : bool) (lo hi : option (bool * bound)) :
  arb_nf vs = Some (fin, lo, hi) -> nf_cnt fin lo hi = 2%nat -> exists v w, vs = [v; w].
Proof.
  intros H Hc. pose proof (arb_nf_length vs _ _ _ H) as HL. rewrite Hc in HL.
  destruct vs as [|v [|w [|u r]]]; try discriminate HL. exists v, w. reflexivity.
Qed.

Lemma arb_nf_shape_finite (vs : list validator) : arb_nf vs = Some (true, None, None) -> vs = [VFinite].
Proof.
  intros H. destruct (arb_nf_shape_one vs _ _ _ H eq_refl) as (v & ->).
  destruct v; cbn in H; try discriminate H. reflexivity.
Qed.

Lemma arb_nf_shape_lower (vs : list validator) (p : bool * bound) :
  arb_nf vs = Some (false, Some p, None) -> vs = [nf_lower p].
Proof.
  intros H. destruct (arb_nf_shape_one vs _ _ _ H eq_refl) as (v & ->).
  destruct v; cbn in H; try discriminate H; inversion H; reflexivity.
Qed.

Lemma arb_nf_shape_upper (vs : list validator) (p : bool * bound) :
  arb_nf vs = Some (false, None, Some p) -> vs = [nf_upper p].
Proof.
  intros H. destruct (arb_nf_shape_one vs _ _ _ H eq_refl) as (v & ->).
  destruct v; cbn in H; try discriminate H; inversion H; reflexivity.
Qed.

Lemma arb_nf_shape_finite_lower (vs : list validator) (p : bool * bound) :
  arb_nf vs = Some (true, Some p, None) -> vs = [VFinite; nf_lower p] \/ vs = [nf_lower p; VFinite].
Proof.
  intros H. destruct (arb_nf_shape_two vs _ _ _ H eq_refl) as (v & w & ->).
  destruct v, w; cbn in H; try discriminate H; inversion H; auto.
Qed.

Lemma arb_nf_shape_finite_upper (vs : list validator) (p : bool * bound) :
  arb_nf vs = Some (true, None, Some p) -> vs = [VFinite; nf_upper p] \/ vs = [nf_upper p; VFinite].
Proof.
  intros H. destruct (arb_nf_shape_two vs _ _ _ H eq_refl) as (v & w & ->).
  destruct v, w; cbn in H; try discriminate H; inversion H; auto.
Qed.

(* ====================================================================================== *)
(* 2. Validity (Spec/GuardSpec.v) from the conclusions of the shape theorems               *)
(* ====================================================================================== *)

Section Valid.
  Variable lib : fnlib.

  Lemma spec_valid_of_holds (d : decl) (vs : list validator) (v : value) :
    d_validation d = Some (RVStandard vs) ->
    (forall w, In w vs -> holds lib d w v = true) -> spec_valid lib d v = true.
  Proof. intros Hv H. unfold spec_valid. rewrite Hv. apply forallb_forall. exact H. Qed.

  Lemma holds_finite (d : decl) (is64 : bool) (x : Z) :
    d_family d = FFloat is64 -> holds lib d VFinite (VF x) = f_is_finite is64 x.
  Proof. intros Hf. unfold holds. rewrite Hf. reflexivity. Qed.
  Lemma holds_ge (d : decl) (is64 : bool) (b : bound) (x : Z) :
    d_family d = FFloat is64 -> holds lib d (VGreaterOrEqual b) (VF x) = f_ge is64 x (bval d b).
  Proof. intros Hf. unfold holds. rewrite Hf. reflexivity. Qed.
  Lemma holds_gt (d : decl) (is64 : bool) (b : bound) (x : Z) :
    d_family d = FFloat is64 -> holds lib d (VGreater b) (VF x) = f_gt is64 x (bval d b).
  Proof. intros Hf. unfold holds. rewrite Hf. reflexivity. Qed.
  Lemma holds_le (d : decl) (is64 : bool) (b : bound) (x : Z) :
    d_family d = FFloat is64 -> holds lib d (VLessOrEqual b) (VF x) = f_le is64 x (bval d b).
  Proof. intros Hf. unfold holds. rewrite Hf. reflexivity. Qed.
  Lemma holds_lt (d : decl) (is64 : bool) (b : bound) (x : Z) :
    d_family d = FFloat is64 -> holds lib d (VLess b) (VF x) = f_lt is64 x (bval d b).
  Proof. intros Hf. unfold holds. rewrite Hf. reflexivity. Qed.

  (* a list all of whose elements are among three validators that hold *)
  Lemma spec_valid_three (d : decl) (vs : list validator) (x : Z) (a b c : validator) :
    d_validation d = Some (RVStandard vs) ->
    (forall v, In v vs -> v = a \/ v = b \/ v = c) ->
    holds lib d a (VF x) = true -> holds lib d b (VF x) = true -> holds lib d c (VF x) = true ->
    spec_valid lib d (VF x) = true.
  Proof.
    intros Hv Hin Ha Hb Hc. apply (spec_valid_of_holds d vs _ Hv).
    intros w Hw. destruct (Hin w Hw) as [->|[->| ->]]; assumption.
  Qed.

  (* --- no bound at all ------------------------------------------------------------------ *)
  Lemma decide_total_empty (d : decl) (is64 : bool) (bs : bytes) :
    d_family d = FFloat is64 -> d_sans d = [] -> d_validation d = Some (RVStandard []) ->
    exists v, arb_float lib d bs = OOk v /\ spec_valid lib d v = true.
  Proof.
    intros Hf Hs Hv.
    destruct (arb_float_inner is64 d [] bs) as [x|] eqn:Hi.
    - exists (VF x). split.
      + apply (arb_float_ok_of_checks lib d is64 [] bs x Hf Hs Hv Hi). intros v [].
      + apply (spec_valid_of_holds d [] _ Hv). intros w [].
    - exfalso. exact (arb_float_inner_some is64 d [] bs Hi).
  Qed.

  (* ====================================================================================== *)
  (* 3. D1 for standard validation                                                          *)
  (* ====================================================================================== *)

  Lemma decide_std_total_sound (d : decl) (is64 : bool) (vs : list validator) (bs : bytes) :
    d_family d = FFloat is64 -> d_sans d = [] -> d_validation d = Some (RVStandard vs) ->
    arb_float_decide_std is64 d vs = AVTotal -> bytes_ok bs = true ->
    exists v, arb_float lib d bs = OOk v /\ spec_valid lib d v = true.
  Proof.
    intros Hf Hs Hv H Hb. unfold arb_float_decide_std in H.
    destruct (arb_nf vs) as [[[fin lo] hi]|] eqn:Hnf; [|discriminate H].
    destruct lo as [[li bl]|], hi as [[ui bu]|]; cbv beta iota zeta in H.
    - (* two bounds *)
      pose proof (arb_nf_two_in vs _ _ _ _ _ Hnf) as Hin.
      pose proof (arb_nf_fboundaries d vs _ _ _ Hnf) as Hfb. cbn [nf_fb] in Hfb.
      destruct (f_is_finite is64 (f_sub is64 (bval d bu) (bval d bl))) eqn:Hr; [|discriminate H].
      destruct li, ui; cbn [nf_lower nf_upper fst snd] in Hin.
      + (* [L, U] *)
        destruct (f_le is64 (bval d bl) (bval d bu)) eqn:Hle; [|discriminate H].
        destruct (arb_float_two_incl_finite_ok lib d is64 vs bl bu bs Hf Hs Hv Hin Hfb Hb Hle Hr)
          as (x & Hx & H1 & H2 & H3).
        exists (VF x). split; [exact Hx|].
        apply (spec_valid_three d vs x _ _ _ Hv Hin).
        * rewrite (holds_finite d is64 x Hf). exact H3.
        * rewrite (holds_ge d is64 bl x Hf), f_ge_le_swap. exact H1.
        * rewrite (holds_le d is64 bu x Hf). exact H2.
      + (* [L, U) *)
        rewrite dec_xmax_eq in H.
        assert (Hex : exists x, arb_float lib d bs = OOk (VF x) /\
                  f_le is64 (bval d bl) x = true /\ f_lt is64 x (bval d bu) = true /\ f_is_finite is64 x = true).
        { destruct (f_lt is64 (f_xmax is64 (bval d bl) (bval d bu)) (bval d bu)) eqn:Hc0.
          - exact (arb_float_incl_excl_no_overshoot_ok lib d is64 vs bl bu bs Hf Hs Hv Hin Hfb Hb Hr Hc0).
          - destruct (f_lt is64 (f_sub is64 (f_xmax is64 (bval d bl) (bval d bu)) (correction_delta is64))
                           (bval d bu)) eqn:Hc2.
            2:{ destruct (f_ge is64 (f_xmax is64 (bval d bl) (bval d bu)) (bval d bu)); discriminate H. }
            destruct (f_le is64 (bval d bl) (f_sub is64 (bval d bu) (correction_delta is64))) eqn:Hc1.
            2:{ match type of H with (if ?c then _ else _) = _ => destruct c; discriminate H end. }
            exact (arb_float_incl_excl_ok lib d is64 vs bl bu bs Hf Hs Hv Hin Hfb Hb Hr Hc1 Hc2). }
        destruct Hex as (x & Hx & H1 & H2 & H3).
        exists (VF x). split; [exact Hx|].
        apply (spec_valid_three d vs x _ _ _ Hv Hin).
        * rewrite (holds_finite d is64 x Hf). exact H3.
        * rewrite (holds_ge d is64 bl x Hf), f_ge_le_swap. exact H1.
        * rewrite (holds_lt d is64 bu x Hf). exact H2.
      + (* (L, U] *)
        destruct (f_lt is64 (bval d bl) (bval d bu)) eqn:Hc1; [|discriminate H].
        destruct (f_gt is64 (f_add is64 (bval d bl) (correction_delta is64)) (bval d bl)) eqn:Hc2;
          [|discriminate H].
        destruct (arb_float_excl_incl_ok lib d is64 vs bl bu bs Hf Hs Hv Hin Hfb Hb Hr Hc1 Hc2)
          as (x & Hx & H1 & H2 & H3).
        exists (VF x). split; [exact Hx|].
        apply (spec_valid_three d vs x _ _ _ Hv Hin).
        * rewrite (holds_finite d is64 x Hf). exact H3.
        * rewrite (holds_gt d is64 bl x Hf), f_gt_lt_swap. exact H1.
        * rewrite (holds_le d is64 bu x Hf). exact H2.
      + (* (L, U) *)
        rewrite dec_xmax_eq in H.
        match type of H with (if ?c then _ else _) = _ => destruct c eqn:Hc end.
        2:{ repeat match type of H with (if ?c then _ else _) = _ => destruct c end; discriminate H. }
        apply andb_true_iff in Hc. destruct Hc as [Hc Hc4].
        apply andb_true_iff in Hc. destruct Hc as [Hc Hc3].
        apply andb_true_iff in Hc. destruct Hc as [Hc1 Hc2].
        destruct (arb_float_excl_excl_ok lib d is64 vs bl bu bs Hf Hs Hv Hin Hfb Hb Hr Hc1 Hc2 Hc3 Hc4)
          as (x & Hx & H1 & H2 & H3).
        exists (VF x). split; [exact Hx|].
        apply (spec_valid_three d vs x _ _ _ Hv Hin).
        * rewrite (holds_finite d is64 x Hf). exact H3.
        * rewrite (holds_gt d is64 bl x Hf), f_gt_lt_swap. exact H1.
        * rewrite (holds_lt d is64 bu x Hf). exact H2.
    - (* one lower bound *)
      destruct (f_is_finite is64 (bval d bl)) eqn:HL; [|discriminate H].
      destruct li.
      + destruct fin.
        * rewrite dec_max_finite_eq in H.
          destruct (f_is_finite is64 (f_add is64 (max_finite is64) (bval d bl))) eqn:Hov; [|discriminate H].
          pose proof (arb_nf_shape_finite_lower vs _ Hnf) as Hsh. cbn [nf_lower fst snd] in Hsh.
          destruct (arb_float_finite_lower_incl_ok lib d is64 vs bl bs Hf Hs Hv Hsh HL Hov)
            as (x & Hx & H1 & H2).
          exists (VF x). split; [exact Hx|].
          apply (spec_valid_of_holds d vs _ Hv). intros w Hw.
          assert (Hw' : w = VFinite \/ w = VGreaterOrEqual bl).
          { destruct Hsh as [-> | ->]; cbn [In] in Hw; intuition auto. }
          destruct Hw' as [-> | ->].
          -- rewrite (holds_finite d is64 x Hf). exact H1.
          -- rewrite (holds_ge d is64 bl x Hf). exact H2.
        * pose proof (arb_nf_shape_lower vs _ Hnf) as Hsh. cbn [nf_lower fst snd] in Hsh. subst vs.
          destruct (arb_float_lower_incl_ok lib d is64 bl bs Hf Hs Hv HL) as (x & Hx & H1).
          exists (VF x). split; [exact Hx|].
          apply (spec_valid_of_holds d _ _ Hv). intros w [<-|[]].
          rewrite (holds_ge d is64 bl x Hf). exact H1.
      + destruct (f_gt is64 (f_add is64 (bval d bl) (correction_delta is64)) (bval d bl)) eqn:Hc;
          [|discriminate H].
        destruct fin.
        * rewrite dec_max_finite_eq in H.
          destruct (f_is_finite is64 (f_add is64 (max_finite is64) (bval d bl))) eqn:Hov; [|discriminate H].
          pose proof (arb_nf_shape_finite_lower vs _ Hnf) as Hsh. cbn [nf_lower fst snd] in Hsh.
          destruct (arb_float_finite_lower_excl_ok lib d is64 vs bl bs Hf Hs Hv Hsh HL Hc Hov)
            as (x & Hx & H1 & H2).
          exists (VF x). split; [exact Hx|].
          apply (spec_valid_of_holds d vs _ Hv). intros w Hw.
          assert (Hw' : w = VFinite \/ w = VGreater bl).
          { destruct Hsh as [-> | ->]; cbn [In] in Hw; intuition auto. }
          destruct Hw' as [-> | ->].
          -- rewrite (holds_finite d is64 x Hf). exact H1.
          -- rewrite (holds_gt d is64 bl x Hf). exact H2.
        * pose proof (arb_nf_shape_lower vs _ Hnf) as Hsh. cbn [nf_lower fst snd] in Hsh. subst vs.
          destruct (arb_float_lower_excl_ok lib d is64 bl bs Hf Hs Hv HL Hc) as (x & Hx & H1).
          exists (VF x). split; [exact Hx|].
          apply (spec_valid_of_holds d _ _ Hv). intros w [<-|[]].
          rewrite (holds_gt d is64 bl x Hf). exact H1.
    - (* one upper bound *)
      destruct (f_is_finite is64 (bval d bu)) eqn:HU; [|discriminate H].
      destruct ui.
      + destruct fin.
        * rewrite dec_max_finite_eq in H.
          destruct (f_is_finite is64 (f_add is64 (fb_neg is64 (max_finite is64)) (bval d bu))) eqn:Hov;
            [|discriminate H].
          pose proof (arb_nf_shape_finite_upper vs _ Hnf) as Hsh. cbn [nf_upper fst snd] in Hsh.
          destruct (arb_float_finite_upper_incl_ok lib d is64 vs bu bs Hf Hs Hv Hsh HU Hov)
            as (x & Hx & H1 & H2).
          exists (VF x). split; [exact Hx|].
          apply (spec_valid_of_holds d vs _ Hv). intros w Hw.
          assert (Hw' : w = VFinite \/ w = VLessOrEqual bu).
          { destruct Hsh as [-> | ->]; cbn [In] in Hw; intuition auto. }
          destruct Hw' as [-> | ->].
          -- rewrite (holds_finite d is64 x Hf). exact H1.
          -- rewrite (holds_le d is64 bu x Hf). exact H2.
        * pose proof (arb_nf_shape_upper vs _ Hnf) as Hsh. cbn [nf_upper fst snd] in Hsh. subst vs.
          destruct (arb_float_upper_incl_ok lib d is64 bu bs Hf Hs Hv HU) as (x & Hx & H1).
          exists (VF x). split; [exact Hx|].
          apply (spec_valid_of_holds d _ _ Hv). intros w [<-|[]].
          rewrite (holds_le d is64 bu x Hf). exact H1.
      + destruct (f_lt is64 (f_sub is64 (bval d bu) (correction_delta is64)) (bval d bu)) eqn:Hc;
          [|discriminate H].
        destruct fin.
        * rewrite dec_max_finite_eq in H.
          destruct (f_is_finite is64 (f_add is64 (fb_neg is64 (max_finite is64)) (bval d bu))) eqn:Hov;
            [|discriminate H].
          pose proof (arb_nf_shape_finite_upper vs _ Hnf) as Hsh. cbn [nf_upper fst snd] in Hsh.
          destruct (arb_float_finite_upper_excl_ok lib d is64 vs bu bs Hf Hs Hv Hsh HU Hc Hov)
            as (x & Hx & H1 & H2).
          exists (VF x). split; [exact Hx|].
          apply (spec_valid_of_holds d vs _ Hv). intros w Hw.
          assert (Hw' : w = VFinite \/ w = VLess bu).
          { destruct Hsh as [-> | ->]; cbn [In] in Hw; intuition auto. }
          destruct Hw' as [-> | ->].
          -- rewrite (holds_finite d is64 x Hf). exact H1.
          -- rewrite (holds_lt d is64 bu x Hf). exact H2.
        * pose proof (arb_nf_shape_upper vs _ Hnf) as Hsh. cbn [nf_upper fst snd] in Hsh. subst vs.
          destruct (arb_float_upper_excl_ok lib d is64 bu bs Hf Hs Hv HU Hc) as (x & Hx & H1).
          exists (VF x). split; [exact Hx|].
          apply (spec_valid_of_holds d _ _ Hv). intros w [<-|[]].
          rewrite (holds_lt d is64 bu x Hf). exact H1.
    - (* no bound *)
      destruct fin.
      + pose proof (arb_nf_shape_finite vs Hnf) as Hsh. subst vs.
        destruct (arb_float_finite_ok lib d is64 bs Hf Hs Hv) as (x & Hx & H1).
        exists (VF x). split; [exact Hx|].
        apply (spec_valid_of_holds d _ _ Hv). intros w [<-|[]].
        rewrite (holds_finite d is64 x Hf). exact H1.
      + pose proof (arb_nf_shape_nil vs Hnf) as Hsh. subst vs.
        exact (decide_total_empty d is64 bs Hf Hs Hv).
  Qed.

  (* ====================================================================================== *)
  (* 4. D2 for standard validation                                                          *)
  (* ====================================================================================== *)

  Lemma decide_std_panics_sound (d : decl) (is64 : bool) (vs : list validator) (bs : bytes) :
    d_family d = FFloat is64 -> d_sans d = [] -> d_validation d = Some (RVStandard vs) ->
    arb_float_decide_std is64 d vs = AVPanicsOn bs ->
    arb_float lib d bs = OPanic.
  Proof.
    intros Hf Hs Hv H. unfold arb_float_decide_std in H.
    destruct (arb_nf vs) as [[[fin lo] hi]|] eqn:Hnf; [|discriminate H].
    destruct lo as [[li bl]|], hi as [[ui bu]|]; cbv beta iota zeta in H.
    - (* two bounds *)
      pose proof (arb_nf_fboundaries d vs _ _ _ Hnf) as Hfb. cbn [nf_fb] in Hfb.
      destruct (f_is_finite is64 (f_sub is64 (bval d bu) (bval d bl))) eqn:Hr; [|discriminate H].
      destruct li, ui.
      + destruct (f_le is64 (bval d bl) (bval d bu)); discriminate H.
      + (* [L, U): the all-ones input *)
        rewrite dec_xmax_eq in H.
        destruct (f_lt is64 (f_xmax is64 (bval d bl) (bval d bu)) (bval d bu)); [discriminate H|].
        destruct (f_lt is64 (f_sub is64 (f_xmax is64 (bval d bl) (bval d bu)) (correction_delta is64))
                        (bval d bu)) eqn:Hc2.
        { destruct (f_le is64 (bval d bl) (f_sub is64 (bval d bu) (correction_delta is64))); [discriminate H|].
          match type of H with (if ?c then _ else _) = _ => destruct c eqn:Hc; [|discriminate H] end.
          inversion H; subst bs.
          apply andb_true_iff in Hc. destruct Hc as [Hc3 Hc4].
          pose proof (arb_nf_lower_in vs _ _ _ Hnf) as Hin. cbn [nf_lower fst snd] in Hin.
          exact (arb_float_incl_excl_overcorrect_panic_ones lib d is64 vs bl (bval d bu)
                   Hf Hs Hv Hin Hfb Hc3 Hc4). }
        destruct (f_ge is64 (f_xmax is64 (bval d bl) (bval d bu)) (bval d bu)) eqn:Hc3; [|discriminate H].
        inversion H; subst bs.
        pose proof (arb_nf_upper_in vs _ _ _ Hnf) as Hin. cbn [nf_upper fst snd] in Hin.
        exact (arb_float_incl_excl_overshoot_panic_ones lib d is64 vs bu (bval d bl)
                 Hf Hs Hv Hin Hfb Hr Hc3 Hc2).
      + (* (L, U]: the empty input *)
        destruct (f_lt is64 (bval d bl) (bval d bu)) eqn:Hc1; [|discriminate H].
        destruct (f_gt is64 (f_add is64 (bval d bl) (correction_delta is64)) (bval d bl)) eqn:Hc2;
          [discriminate H|].
        inversion H; subst bs.
        pose proof (arb_nf_lower_in vs _ _ _ Hnf) as Hin. cbn [nf_lower fst snd] in Hin.
        exact (arb_float_excl_incl_absorbed_panic lib d is64 vs bl (bval d bu) []
                 Hf Hs Hv Hin Hfb Hr Hc1 Hc2 (arb_uint_nil_fst is64)).
      + (* (L, U): the empty input or the all-ones input *)
        rewrite dec_xmax_eq in H.
        match type of H with (if ?c then _ else _) = _ => destruct c; [discriminate H|] end.
        match type of H with (if ?c then _ else _) = _ => destruct c eqn:Hc end.
        * inversion H; subst bs.
          apply andb_true_iff in Hc. destruct Hc as [Hc1 Hc2]. apply negb_true_iff in Hc2.
          pose proof (arb_nf_lower_in vs _ _ _ Hnf) as Hin. cbn [nf_lower fst snd] in Hin.
          exact (arb_float_excl_excl_absorbed_panic lib d is64 vs bl (bval d bu) []
                   Hf Hs Hv Hin Hfb Hr Hc1 Hc2 (arb_uint_nil_fst is64)).
        * clear Hc.
          match type of H with (if ?c then _ else _) = _ => destruct c eqn:Hc end.
          -- inversion H; subst bs.
             apply andb_true_iff in Hc. destruct Hc as [Hc Hc3].
             apply andb_true_iff in Hc. destruct Hc as [Hc1 Hc2]. apply negb_true_iff in Hc2.
             pose proof (arb_nf_upper_in vs _ _ _ Hnf) as Hin. cbn [nf_upper fst snd] in Hin.
             exact (arb_float_excl_excl_overshoot_panic_ones lib d is64 vs bu (bval d bl)
                      Hf Hs Hv Hin Hfb Hr Hc1 Hc2 Hc3).
          -- clear Hc.
             match type of H with (if ?c then _ else _) = _ => destruct c eqn:Hc; [|discriminate H] end.
             inversion H; subst bs.
             apply andb_true_iff in Hc. destruct Hc as [Hc Hc3].
             apply andb_true_iff in Hc. destruct Hc as [Hc1 Hc2].
             pose proof (arb_nf_lower_in vs _ _ _ Hnf) as Hin. cbn [nf_lower fst snd] in Hin.
             exact (arb_float_excl_excl_overcorrect_panic_ones lib d is64 vs bl (bval d bu)
                      Hf Hs Hv Hin Hfb Hc1 Hc2 Hc3).
    - (* one lower bound *)
      pose proof (arb_nf_fboundaries d vs _ _ _ Hnf) as Hfb. cbn [nf_fb] in Hfb.
      destruct (f_is_finite is64 (bval d bl)) eqn:HL; [|discriminate H].
      destruct li.
      + destruct fin; [|discriminate H].
        match type of H with (if ?c then _ else _) = _ => destruct c; discriminate H end.
      + destruct (f_gt is64 (f_add is64 (bval d bl) (correction_delta is64)) (bval d bl)) eqn:Hc.
        { destruct fin; [|discriminate H].
          match type of H with (if ?c then _ else _) = _ => destruct c; discriminate H end. }
        inversion H; subst bs.
        pose proof (arb_nf_lower_in vs _ _ _ Hnf) as Hin. cbn [nf_lower fst snd] in Hin.
        exact (arb_float_lower_excl_absorbed_panic_in lib d is64 vs bl [] Hf Hs Hv Hin Hfb HL Hc
                 (arb_uint_nil_fst is64)).
    - (* one upper bound *)
      pose proof (arb_nf_fboundaries d vs _ _ _ Hnf) as Hfb. cbn [nf_fb] in Hfb.
      destruct (f_is_finite is64 (bval d bu)) eqn:HU; [|discriminate H].
      destruct ui.
      + destruct fin; [|discriminate H].
        match type of H with (if ?c then _ else _) = _ => destruct c; discriminate H end.
      + destruct (f_lt is64 (f_sub is64 (bval d bu) (correction_delta is64)) (bval d bu)) eqn:Hc.
        { destruct fin; [|discriminate H].
          match type of H with (if ?c then _ else _) = _ => destruct c; discriminate H end. }
        inversion H; subst bs.
        pose proof (arb_nf_upper_in vs _ _ _ Hnf) as Hin. cbn [nf_upper fst snd] in Hin.
        exact (arb_float_upper_excl_absorbed_panic_in lib d is64 vs bu [] Hf Hs Hv Hin Hfb HU Hc
                 (arb_uint_nil_fst is64)).
    - discriminate H.
  Qed.
End Valid.

(* ====================================================================================== *)
(* 5. D1, D2                                                                              *)
(* ====================================================================================== *)

(* D1: the answer AVTotal is sound: for every byte string (of bytes) the generator returns a
   value and the value satisfies every declared validator *)
Theorem arb_float_decide_total_sound :
  forall (lib : fnlib) (d : decl) (bs : bytes),
    arb_float_decide d = AVTotal -> bytes_ok bs = true ->
    exists v, arb_float lib d bs = OOk v /\ spec_valid lib d v = true.
Proof.
  intros lib d bs H Hb. unfold arb_float_decide in H.
  destruct (d_family d) as [| tn t | is64 | tyname] eqn:Hf; try discriminate H.
  destruct (d_sans d) as [|s ss] eqn:Hs; [|discriminate H].
  destruct (d_validation d) as [[vs|w e]|] eqn:Hv; [| discriminate H |].
  - exact (decide_std_total_sound lib d is64 vs bs Hf Hs Hv H Hb).
  - destruct (arb_float_no_validation_ok lib d is64 bs Hf Hv) as (v & Hx).
    exists v. split; [exact Hx|]. unfold spec_valid. rewrite Hv. reflexivity.
Qed.
Print Assumptions arb_float_decide_total_sound.

(* with validation the value is moreover the float handed to try_new, unchanged *)
Theorem arb_float_decide_total_sound_float :
  forall (lib : fnlib) (d : decl) (bs : bytes),
    arb_float_decide d = AVTotal -> d_validation d <> None -> bytes_ok bs = true ->
    exists x, arb_float lib d bs = OOk (VF x) /\ spec_valid lib d (VF x) = true /\
              d_try_new lib d (VF x) = Ok (VF x).
Proof.
  intros lib d bs H Hn Hb.
  destruct (arb_float_decide_total_sound lib d bs H Hb) as (v & Hx & Hsv).
  unfold arb_float_decide in H.
  destruct (d_family d) as [| tn t | is64 | tyname] eqn:Hf; try discriminate H.
  destruct (d_sans d) as [|s ss] eqn:Hs; [|discriminate H].
  destruct (d_validation d) as [[vs|w e]|] eqn:Hv; [| discriminate H | exfalso; apply Hn; reflexivity].
  revert Hx. unfold arb_float. rewrite Hf, Hv.
  destruct (arb_float_inner is64 d vs bs) as [x|]; [|discriminate].
  destruct (d_try_new lib d (VF x)) as [v'|e] eqn:Ht; [|discriminate].
  intros Hx. inversion Hx; subst v'. exists x.
  assert (Hvx : v = VF x).
  { revert Ht. unfold d_try_new, try_new, sans_of. rewrite Hs. cbn [map sanitize fold_left].
    destruct (validate (checks_of lib d) (VF x)); [discriminate|]. intros Ht. inversion Ht. reflexivity. }
  subst v. repeat split; [exact Hsv | exact Ht].
Qed.
Print Assumptions arb_float_decide_total_sound_float.

(* D2: the answer AVPanicsOn bs is sound *)
Theorem arb_float_decide_panics_sound :
  forall (lib : fnlib) (d : decl) (bs : bytes),
    arb_float_decide d = AVPanicsOn bs -> arb_float lib d bs = OPanic.
Proof.
  intros lib d bs H. unfold arb_float_decide in H.
  destruct (d_family d) as [| tn t | is64 | tyname] eqn:Hf; try discriminate H.
  destruct (d_sans d) as [|s ss] eqn:Hs; [|discriminate H].
  destruct (d_validation d) as [[vs|w e]|] eqn:Hv; try discriminate H.
  exact (decide_std_panics_sound lib d is64 vs bs Hf Hs Hv H).
Qed.
Print Assumptions arb_float_decide_panics_sound.

(* the witness inputs are byte strings *)
Theorem arb_float_decide_panics_bytes_ok :
  forall (d : decl) (bs : bytes), arb_float_decide d = AVPanicsOn bs -> bytes_ok bs = true.
Proof.
  intros d bs H. unfold arb_float_decide in H.
  destruct (d_family d) as [| tn t | is64 | tyname]; try discriminate H.
  destruct (d_sans d) as [|s ss]; [|discriminate H].
  destruct (d_validation d) as [[vs|w e]|]; try discriminate H.
  unfold arb_float_decide_std in H.
  destruct (arb_nf vs) as [[[fin [[li bl]|]] [[ui bu]|]]|]; cbv beta iota zeta in H;
    repeat match type of H with
           | (if ?c then _ else _) = _ => destruct c
           | match ?c with true => _ | false => _ end = _ => destruct c
           end;
    try discriminate H; inversion H; try reflexivity; apply bytes_ok_ones.
Qed.

(* ====================================================================================== *)
(* 6. D3: examples                                                                        *)
(* ====================================================================================== *)

Definition dec_ex (fam : family) (ss : list sanitizer) (vs : list validator) : decl :=
  {| d_family := fam; d_name := "T"; d_vis := "pub"; d_generics := []; d_sans := ss;
     d_validation := Some (RVStandard vs); d_new_unchecked := false; d_const_fn := false;
     d_default := None; d_traits := [TrArbitrary]; d_env := [] |}.

(* f64: greater_or_equal = 0.0, less = 1.0 *)
Example decide_f64_unit_interval :
  arb_float_decide (dec_ex (FFloat true) [] [VGreaterOrEqual (BLit 0); VLess (BLit 4607182418800017408)])
  = AVTotal.
Proof. vm_compute. reflexivity. Qed.

(* f32: finite, greater = 0.5, less_or_equal = 9.5 *)
Example decide_f32_finite_excl_incl :
  arb_float_decide (dec_ex (FFloat false) [] [VFinite; VGreater (BLit 1056964608); VLessOrEqual (BLit 1092091904)])
  = AVTotal.
Proof. vm_compute. reflexivity. Qed.

(* f32: greater_or_equal = 64.0, less = 65.0: 65.0 - 0.000002 rounds back to 65.0 *)
Example decide_f32_overshoot :
  arb_float_decide (dec_ex (FFloat false) [] [VGreaterOrEqual (BLit 1115684864); VLess (BLit 1115815936)])
  = AVPanicsOn [255; 255; 255; 255].
Proof. vm_compute. reflexivity. Qed.

(* f32: greater = 64.0: 64.0 + 0.000002 rounds back to 64.0 *)
Example decide_f32_absorbed :
  arb_float_decide (dec_ex (FFloat false) [] [VGreater (BLit 1115684864)]) = AVPanicsOn [].
Proof. vm_compute. reflexivity. Qed.

(* f32: finite, less_or_equal = -3.0e38: -max + -3.0e38 overflows *)
Example decide_f32_one_sided_overflow :
  arb_float_decide (dec_ex (FFloat false) [] [VFinite; VLessOrEqual (BLit 4284688930)]) = AVUnknown.
Proof. vm_compute. reflexivity. Qed.

(* f64: finite, greater = 0.5 (both orders): the delta is visible at 0.5 and MAX + 0.5 is finite *)
Example decide_f64_finite_excl_lower :
  arb_float_decide (dec_ex (FFloat true) [] [VFinite; VGreater (BLit 4602678819172646912)]) = AVTotal /\
  arb_float_decide (dec_ex (FFloat true) [] [VGreater (BLit 4602678819172646912); VFinite]) = AVTotal.
Proof. vm_compute. split; reflexivity. Qed.

(* f64: less = 0.5, finite *)
Example decide_f64_finite_excl_upper :
  arb_float_decide (dec_ex (FFloat true) [] [VLess (BLit 4602678819172646912); VFinite]) = AVTotal.
Proof. vm_compute. reflexivity. Qed.

(* f32: finite, greater = 64.0: the delta is absorbed at 64.0 *)
Example decide_f32_finite_absorbed :
  arb_float_decide (dec_ex (FFloat false) [] [VFinite; VGreater (BLit 1115684864)]) = AVPanicsOn [].
Proof. vm_compute. reflexivity. Qed.

(* f32: finite, less = 128.0: 128.0 - 0.000002 rounds back to 128.0 *)
Example decide_f32_finite_absorbed_upper :
  arb_float_decide (dec_ex (FFloat false) [] [VFinite; VLess (BLit 1124073472)]) = AVPanicsOn [].
Proof. vm_compute. reflexivity. Qed.

(* f32: greater = 64.0, less = 65.0: the delta is absorbed at 64.0 *)
Example decide_f32_open_absorbed :
  arb_float_decide (dec_ex (FFloat false) [] [VGreater (BLit 1115684864); VLess (BLit 1115815936)])
  = AVPanicsOn [].
Proof. vm_compute. reflexivity. Qed.

(* f32: finite, greater = 63.5, less = 65.0: the delta is visible at 63.5 but xmax = 65.0 and
   65.0 - 0.000002 rounds back to 65.0 *)
Example decide_f32_open_overshoot :
  arb_float_decide (dec_ex (FFloat false) [] [VFinite; VGreater (BLit 1115553792); VLess (BLit 1115815936)])
  = AVPanicsOn [255; 255; 255; 255].
Proof. vm_compute. reflexivity. Qed.

(* f32: [1e-40, 1e-39) and (1e-40, 1e-39) (subnormal bounds): the range is narrower than the
   delta, the corrected xmax = 1e-39 - 0.000002 is negative *)
Example decide_f32_narrow :
  arb_float_decide (dec_ex (FFloat false) [] [VGreaterOrEqual (BLit 71362); VLess (BLit 713624)])
  = AVPanicsOn [255; 255; 255; 255] /\
  arb_float_decide (dec_ex (FFloat false) [] [VGreater (BLit 71362); VLess (BLit 713624)])
  = AVPanicsOn [255; 255; 255; 255].
Proof. vm_compute. split; reflexivity. Qed.

(* the verdicts above, read through D1 / D2 *)
Example decide_f64_unit_interval_valid (lib : fnlib) (bs : bytes) : bytes_ok bs = true ->
  let d := dec_ex (FFloat true) [] [VGreaterOrEqual (BLit 0); VLess (BLit 4607182418800017408)] in
  exists v, arb_float lib d bs = OOk v /\ spec_valid lib d v = true.
Proof. intros Hb d. apply arb_float_decide_total_sound; [exact decide_f64_unit_interval | exact Hb]. Qed.

Example decide_f32_overshoot_panics (lib : fnlib) :
  let d := dec_ex (FFloat false) [] [VGreaterOrEqual (BLit 1115684864); VLess (BLit 1115815936)] in
  arb_float lib d [255; 255; 255; 255] = OPanic.
Proof. intros d. apply arb_float_decide_panics_sound. exact decide_f32_overshoot. Qed.

Example decide_f64_finite_excl_lower_valid (lib : fnlib) (bs : bytes) : bytes_ok bs = true ->
  let d := dec_ex (FFloat true) [] [VFinite; VGreater (BLit 4602678819172646912)] in
  exists v, arb_float lib d bs = OOk v /\ spec_valid lib d v = true.
Proof.
  intros Hb d. apply arb_float_decide_total_sound; [exact (proj1 decide_f64_finite_excl_lower) | exact Hb].
Qed.

Example decide_f32_open_absorbed_panics (lib : fnlib) :
  let d := dec_ex (FFloat false) [] [VGreater (BLit 1115684864); VLess (BLit 1115815936)] in
  arb_float lib d [] = OPanic.
Proof. intros d. apply arb_float_decide_panics_sound. exact decide_f32_open_absorbed. Qed.

(* ====================================================================================== *)
(* 7. The extension [arb_float_decide_ext]: overflow witnesses (Lemmas/ArbFloatExcl4.v)    *)
(* ====================================================================================== *)

Lemma dec_max_bytes_eq (is64 : bool) : dec_max_bytes is64 = max_finite_bytes is64.
Proof. reflexivity. Qed.

Lemma overflow_witness_std_sound (lib : fnlib) (d : decl) (is64 : bool) (vs : list validator) (w : bytes) :
  d_family d = FFloat is64 -> d_sans d = [] -> d_validation d = Some (RVStandard vs) ->
  arb_float_overflow_witness_std is64 d vs = Some w ->
  arb_float lib d w = OPanic /\ bytes_ok w = true.
Proof.
  intros Hf Hs Hv H. unfold arb_float_overflow_witness_std in H.
  destruct (arb_nf vs) as [[[fin lo] hi]|] eqn:Hnf; [|discriminate H].
  destruct fin; [|discriminate H].
  pose proof (proj2 (arb_nf_finite_iff vs _ _ _ Hnf) eq_refl) as Hin.
  pose proof (arb_nf_fboundaries d vs _ _ _ Hnf) as Hfb.
  destruct lo as [[li bl]|], hi as [[ui bu]|]; try discriminate H; cbv beta iota zeta in H;
    cbn [nf_fb] in Hfb; rewrite dec_max_finite_eq, dec_max_bytes_eq in H.
  - match type of H with (if ?c then _ else _) = _ => destruct c eqn:Hc; [|discriminate H] end.
    inversion H; subst w. apply andb_true_iff in Hc. destruct Hc as [HL HM]. apply negb_true_iff in HM.
    split; [|exact (bytes_ok_max_finite is64)].
    exact (arb_float_finite_lower_overflow_panic_in lib d is64 vs _ _ _ Hf Hs Hv Hin Hfb HM
             (arb_uint_max_finite is64)).
  - match type of H with (if ?c then _ else _) = _ => destruct c eqn:Hc; [|discriminate H] end.
    inversion H; subst w. apply andb_true_iff in Hc. destruct Hc as [HU HM]. apply negb_true_iff in HM.
    split; [|exact (bytes_ok_max_finite is64)].
    exact (arb_float_finite_upper_overflow_panic_in lib d is64 vs _ _ _ Hf Hs Hv Hin Hfb HU HM
             (arb_uint_max_finite is64)).
Qed.

Lemma overflow_witness_sound (lib : fnlib) (d : decl) (w : bytes) :
  arb_float_overflow_witness d = Some w -> arb_float lib d w = OPanic /\ bytes_ok w = true.
Proof.
  intros H. unfold arb_float_overflow_witness in H.
  destruct (d_family d) as [| tn t | is64 | tyname] eqn:Hf; try discriminate H.
  destruct (d_sans d) as [|s ss] eqn:Hs; [|discriminate H].
  destruct (d_validation d) as [[vs|x e]|] eqn:Hv; try discriminate H.
  exact (overflow_witness_std_sound lib d is64 vs w Hf Hs Hv H).
Qed.

Lemma overflow_witness_bytes_ok (d : decl) (w : bytes) :
  arb_float_overflow_witness d = Some w -> bytes_ok w = true.
Proof.
  intros H. unfold arb_float_overflow_witness in H.
  destruct (d_family d) as [| tn t | is64 | tyname]; try discriminate H.
  destruct (d_sans d) as [|s ss]; [|discriminate H].
  destruct (d_validation d) as [[vs|x e]|]; try discriminate H.
  unfold arb_float_overflow_witness_std in H.
  destruct (arb_nf vs) as [[[[|] [[li bl]|]] [[ui bu]|]]|]; try discriminate H; cbv beta iota zeta in H;
    match type of H with (if ?c then _ else _) = _ => destruct c; [|discriminate H] end;
    inversion H; rewrite dec_max_bytes_eq; apply bytes_ok_max_finite.
Qed.

(* the extension changes AVUnknown answers only *)
Lemma arb_float_decide_ext_refines (d : decl) :
  arb_float_decide d <> AVUnknown -> arb_float_decide_ext d = arb_float_decide d.
Proof. unfold arb_float_decide_ext. destruct (arb_float_decide d); congruence. Qed.

Lemma arb_float_decide_ext_total (d : decl) :
  arb_float_decide_ext d = AVTotal -> arb_float_decide d = AVTotal.
Proof.
  unfold arb_float_decide_ext. destruct (arb_float_decide d); try congruence.
  destruct (arb_float_overflow_witness d); discriminate.
Qed.

(* D1, D2 and the byte-string property for the extended procedure: same statements *)
Theorem arb_float_decide_ext_total_sound :
  forall (lib : fnlib) (d : decl) (bs : bytes),
    arb_float_decide_ext d = AVTotal -> bytes_ok bs = true ->
    exists v, arb_float lib d bs = OOk v /\ spec_valid lib d v = true.
Proof.
  intros lib d bs H Hb.
  exact (arb_float_decide_total_sound lib d bs (arb_float_decide_ext_total d H) Hb).
Qed.
Print Assumptions arb_float_decide_ext_total_sound.

Theorem arb_float_decide_ext_panics_sound :
  forall (lib : fnlib) (d : decl) (bs : bytes),
    arb_float_decide_ext d = AVPanicsOn bs -> arb_float lib d bs = OPanic.
Proof.
  intros lib d bs H. unfold arb_float_decide_ext in H.
  destruct (arb_float_decide d) as [|bs'|] eqn:E; [discriminate H | |].
  - inversion H; subst bs'. exact (arb_float_decide_panics_sound lib d bs E).
  - destruct (arb_float_overflow_witness d) as [w|] eqn:W; [|discriminate H].
    inversion H; subst w. exact (proj1 (overflow_witness_sound lib d bs W)).
Qed.
Print Assumptions arb_float_decide_ext_panics_sound.

Theorem arb_float_decide_ext_panics_bytes_ok :
  forall (d : decl) (bs : bytes), arb_float_decide_ext d = AVPanicsOn bs -> bytes_ok bs = true.
Proof.
  intros d bs H. unfold arb_float_decide_ext in H.
  destruct (arb_float_decide d) as [|bs'|] eqn:E; [discriminate H | |].
  - inversion H; subst bs'. exact (arb_float_decide_panics_bytes_ok d bs E).
  - destruct (arb_float_overflow_witness d) as [w|] eqn:W; [|discriminate H].
    inversion H; subst w.
    exact (overflow_witness_bytes_ok d bs W).
Qed.

(* f32: finite, less_or_equal = -3.0e38: -MAX + -3.0e38 overflows; the bytes of MAX panic *)
Example decide_ext_f32_upper_overflow :
  arb_float_decide_ext (dec_ex (FFloat false) [] [VFinite; VLessOrEqual (BLit 4284688930)])
  = AVPanicsOn [255; 255; 127; 127].
Proof. vm_compute. reflexivity. Qed.

Example decide_ext_f32_upper_overflow_panics (lib : fnlib) :
  let d := dec_ex (FFloat false) [] [VFinite; VLessOrEqual (BLit 4284688930)] in
  arb_float lib d [255; 255; 127; 127] = OPanic.
Proof. intros d. apply arb_float_decide_ext_panics_sound. exact decide_ext_f32_upper_overflow. Qed.

(* f32: greater_or_equal = 3.0e38, finite; f64: finite, greater_or_equal = MAX; f64: less_or_equal = -MAX,
   finite.  (With an EXCLUSIVE bound an overflowing sum means a bound so large that the delta is absorbed
   at it: [arb_float_decide] already answers AVPanicsOn [] there.) *)
Example decide_ext_overflow_others :
  arb_float_decide_ext (dec_ex (FFloat false) [] [VGreaterOrEqual (BLit 2137205282); VFinite])
  = AVPanicsOn [255; 255; 127; 127] /\
  arb_float_decide_ext (dec_ex (FFloat true) [] [VFinite; VGreaterOrEqual (BLit 9218868437227405311)])
  = AVPanicsOn [255; 255; 255; 255; 255; 255; 239; 127] /\
  arb_float_decide_ext (dec_ex (FFloat true) [] [VLessOrEqual (BLit 18442240474082181119); VFinite])
  = AVPanicsOn [255; 255; 255; 255; 255; 255; 239; 127].
Proof. vm_compute. repeat split; reflexivity. Qed.

(* the answers of [arb_float_decide] that are not AVUnknown are kept *)
Example decide_ext_keeps :
  arb_float_decide_ext (dec_ex (FFloat true) [] [VGreaterOrEqual (BLit 0); VLess (BLit 4607182418800017408)])
  = AVTotal /\
  arb_float_decide_ext (dec_ex (FFloat false) [] [VFinite; VGreater (BLit 1115684864)]) = AVPanicsOn [].
Proof. vm_compute. split; reflexivity. Qed.

(* the same case run on the concrete library of the runner: the verdict, and the generator itself *)
From NV Require Run.Runner.
Example decide_ext_f32_upper_overflow_the_lib :
  let d := dec_ex (FFloat false) [] [VFinite; VLessOrEqual (BLit 4284688930)] in
  arb_float_decide_ext d = AVPanicsOn [255; 255; 127; 127] /\
  arb_float (Run.Runner.the_lib d) d [255; 255; 127; 127] = OPanic.
Proof. vm_compute. split; reflexivity. Qed.
