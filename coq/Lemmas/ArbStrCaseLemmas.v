(* The positive counterpart of the recorded defect class str_case_sanitizer_with_len_char_max
   (Props/C09.v, C09_str_case_refuted): the derived Arbitrary of a String newtype whose
   sanitizers are ANY chain of built-ins the macro accepts -- in particular the chains with
   `lowercase` or `uppercase`, with or without `trim`, in either order -- and whose validators
   are among `not_empty` and `len_char_min` (no `len_char_max`, no regex, no predicate) returns
   a valid value for every byte string.

   Why it holds.  The generator picks a target length t >= the effective minimum and returns a
   string s whose (trimmed, when `trim` is declared) length is t.  The constructor then applies
   the declared chain.  Two facts about the Unicode model make the result at least as long:

   (a) a case mapping never shortens: every code point maps to one or more code points, the
       Final_Sigma rule maps one code point to one code point
       ([u_lower_length_ge], [u_upper_length_ge]);
   (b) a case mapping commutes with trim ([u_trim_lower_comm], [u_trim_upper_comm]): white
       space is left alone by the case mappings, no image of a non-white-space code point
       contains white space at its edges (table facts of UnicodeLemmas.v; in fact no image
       contains white space at all, [lower_table_no_ws_output] / [upper_table_no_ws_output]),
       and the only context-sensitive rule, Final_Sigma, cannot see white space because white
       space is neither Cased nor Case_Ignorable ([ws_not_ignorable], [ws_not_cased]).

   So every accepted chain has the normal form  case o trim  ([builtin_chain_normal_form]),
   whatever the written order, and  length (case (trim s)) >= length (trim s) = t >= minimum.
   All accepted orders are covered; there is nothing to refute. *)
From Coq Require Import Lia ZifyNat ZifyBool.
From NV Require Import Base.Util Base.IntTy Base.Expr Macro.Surface Macro.Ast Macro.Parse
     Macro.Validate Sem.Guard Sem.Value Sem.Eval Sem.Bytes Sem.ArbStr Spec.GuardSpec
     Lemmas.GuardLemmas Lemmas.DeclLemmas Lemmas.BytesLemmas Lemmas.ArbStrLemmas
     Lemmas.CanonLemmas Lemmas.MacroLemmas Run.Runner.
From NV Require Import Unicode.UnicodeData Unicode.UStr Lemmas.UnicodeLemmas.

(* ------------------------------------------------------------------ *)
(* (a) case mappings never shorten                                     *)

Section CtxLen.
  Variable f : list N -> N -> list N -> list N.
  Hypothesis f_ne : forall rb c r, f rb c r <> [].

  Lemma ctx_map_length_ge : forall s rb, (List.length s <= List.length (ctx_map f rb s))%nat.
  Proof.
    induction s as [|c s IH]; intros rb; cbn [ctx_map List.length]; [lia|].
    rewrite app_length. specialize (IH (c :: rb)).
    pose proof (f_ne rb c s) as Hne. destruct (f rb c s) as [|a l]; [congruence|].
    cbn [List.length]. lia.
  Qed.
End CtxLen.

(* one code point: one or more code points (the tables have no empty image, a code point
   outside the tables maps to itself) *)
Lemma lower1_length (c : N) : (1 <= List.length (lower1 c))%nat.
Proof.
  pose proof (proj1 (lower1_edge c)) as H. destruct (lower1 c); [congruence | cbn [List.length]; lia].
Qed.

Lemma upper1_length (c : N) : (1 <= List.length (upper1 c))%nat.
Proof.
  pose proof (proj1 (upper1_edge c)) as H. destruct (upper1 c); [congruence | cbn [List.length]; lia].
Qed.

(* Final_Sigma: exactly one code point *)
Lemma lower_img_sigma_length (rb r : list N) : List.length (lower_img rb SIGMA r) = 1%nat.
Proof. unfold lower_img. rewrite N.eqb_refl. reflexivity. Qed.

Theorem u_lower_length_ge (s : list N) : (List.length s <= List.length (u_lower s))%nat.
Proof. unfold u_lower. apply ctx_map_length_ge. exact lower_img_ne. Qed.

Theorem u_upper_length_ge (s : list N) : (List.length s <= List.length (u_upper s))%nat.
Proof. rewrite (u_upper_ctx s []). apply ctx_map_length_ge. exact upper_img_ne. Qed.

(* ... and lengthen at most threefold (ß -> SS, ΐ -> three code points) *)
Lemma lower_table_img_le3 :
  forallb (fun e => Nat.leb (List.length (snd e)) 3) lower_table = true.
Proof. vm_compute. reflexivity. Qed.

Lemma upper_table_img_le3 :
  forallb (fun e => Nat.leb (List.length (snd e)) 3) upper_table = true.
Proof. vm_compute. reflexivity. Qed.

Lemma lower1_length_le (c : N) : (List.length (lower1 c) <= 3)%nat.
Proof.
  destruct (lower1_spec c) as [E | (v & Hin & E)]; rewrite E; [cbn [List.length]; lia|].
  pose proof lower_table_img_le3 as T. rewrite forallb_forall in T. specialize (T _ Hin).
  cbn [snd] in T. apply Nat.leb_le in T. exact T.
Qed.

Lemma upper1_length_le (c : N) : (List.length (upper1 c) <= 3)%nat.
Proof.
  destruct (upper1_spec c) as [E | (v & Hin & E)]; rewrite E; [cbn [List.length]; lia|].
  pose proof upper_table_img_le3 as T. rewrite forallb_forall in T. specialize (T _ Hin).
  cbn [snd] in T. apply Nat.leb_le in T. exact T.
Qed.

Lemma ctx_map_length_le (f : list N -> N -> list N -> list N) (k : nat) :
  (forall rb c r, List.length (f rb c r) <= k)%nat ->
  forall s rb, (List.length (ctx_map f rb s) <= k * List.length s)%nat.
Proof.
  intros Hf. induction s as [|c s IH]; intros rb; cbn [ctx_map List.length]; [lia|].
  rewrite app_length. specialize (IH (c :: rb)). specialize (Hf rb c s). lia.
Qed.

Theorem u_lower_length_le (s : list N) : (List.length (u_lower s) <= 3 * List.length s)%nat.
Proof.
  unfold u_lower. apply ctx_map_length_le. intros rb c r. unfold lower_img.
  destruct (N.eqb c SIGMA); [cbn [List.length]; lia | apply lower1_length_le].
Qed.

Theorem u_upper_length_le (s : list N) : (List.length (u_upper s) <= 3 * List.length s)%nat.
Proof.
  rewrite (u_upper_ctx s []). apply ctx_map_length_le. intros rb c r. apply upper1_length_le.
Qed.

(* the bound 2 fails: the lengthening that the defect class exploits *)
Example u_upper_lengthens : u_upper [223%N] = [83%N; 83%N] /\ u_upper [912%N] = [921%N; 776%N; 769%N].
Proof. vm_compute. split; reflexivity. Qed.

(* ------------------------------------------------------------------ *)
(* white space at the two ends of a string                             *)

Definition all_ws (s : list N) : Prop := Forall (fun c => u_is_ws c = true) s.

Lemma all_ws_rev (s : list N) : all_ws s -> all_ws (rev s).
Proof. apply Forall_rev'. Qed.

Lemma drop_ws_split : forall s, exists p, s = p ++ drop_ws s /\ all_ws p.
Proof.
  induction s as [|c s (p & IH & Hp)]; cbn [drop_ws].
  - exists []. split; [reflexivity | constructor].
  - destruct (u_is_ws c) eqn:E.
    + exists (c :: p). split; [cbn [app]; f_equal; exact IH | constructor; assumption].
    + exists []. split; [reflexivity | constructor].
Qed.

(* s = white space ++ trim s ++ white space *)
Lemma u_trim_split (s : list N) :
  exists p q, s = p ++ u_trim s ++ q /\ all_ws p /\ all_ws q.
Proof.
  destruct (drop_ws_split s) as (p & Hp & Hpw).
  destruct (drop_ws_split (rev (drop_ws s))) as (q' & Hq & Hqw).
  exists p, (rev q'). split; [|split; [exact Hpw | apply all_ws_rev; exact Hqw]].
  unfold u_trim, u_trim_start, u_trim_end.
  assert (E : rev (drop_ws (rev (drop_ws s))) ++ rev q' = drop_ws s).
  { rewrite <- rev_app_distr, <- Hq. apply rev_involutive. }
  rewrite E. exact Hp.
Qed.

Lemma drop_ws_app_ws (p x : list N) : all_ws p -> drop_ws (p ++ x) = drop_ws x.
Proof.
  induction 1 as [|c p Hc Hp IH]; [reflexivity|].
  cbn [app drop_ws]. rewrite Hc. exact IH.
Qed.

Lemma drop_ws_all_ws (q : list N) : all_ws q -> drop_ws q = [].
Proof.
  induction 1 as [|c q Hc Hq IH]; [reflexivity|]. cbn [drop_ws]. rewrite Hc. exact IH.
Qed.

(* a trimmed string between two runs of white space is what trim returns *)
Lemma u_trim_sandwich (p m q : list N) :
  all_ws p -> all_ws q -> trimmed m -> u_trim (p ++ m ++ q) = m.
Proof.
  intros Hp Hq [H1 H2]. unfold u_trim, u_trim_start, u_trim_end.
  rewrite (drop_ws_app_ws p _ Hp).
  destruct m as [|a m].
  - cbn [app]. rewrite (drop_ws_all_ws q Hq). reflexivity.
  - assert (Hh : hd_ok ((a :: m) ++ q)) by exact H1.
    rewrite (drop_ws_id _ Hh). rewrite rev_app_distr.
    rewrite (drop_ws_app_ws (rev q) _ (all_ws_rev q Hq)).
    rewrite (drop_ws_id _ H2). apply rev_involutive.
Qed.

(* ------------------------------------------------------------------ *)
(* (b) context-sensitive mappings that cannot see white space commute
       with trim                                                       *)

Section WsFrame.
  Variable f : list N -> N -> list N -> list N.
  (* white space is left alone ... *)
  Hypothesis f_ws : forall rb c r, u_is_ws c = true -> f rb c r = [c].
  (* ... and white space at the far ends of the two contexts is invisible *)
  Hypothesis f_ins : forall rb w c r w',
    all_ws w -> all_ws w' -> f (rb ++ w) c (r ++ w') = f rb c r.

  Lemma ctx_map_all_ws (w : list N) (rb : list N) : all_ws w -> ctx_map f rb w = w.
  Proof. intros H. exact (ctx_map_fix f (fun c => u_is_ws c = true) f_ws w rb H). Qed.

  Lemma ctx_map_frame_r : forall m rb w w',
    all_ws w -> all_ws w' -> ctx_map f (rb ++ w) (m ++ w') = ctx_map f rb m ++ w'.
  Proof.
    induction m as [|c m IH]; intros rb w w' Hw Hw'.
    - cbn [app ctx_map]. apply ctx_map_all_ws. exact Hw'.
    - cbn [app ctx_map]. rewrite (f_ins rb w c m w' Hw Hw').
      change (c :: rb ++ w) with ((c :: rb) ++ w). rewrite (IH (c :: rb) w w' Hw Hw').
      rewrite app_assoc. reflexivity.
  Qed.

  Lemma ctx_map_frame_l : forall p rb x,
    all_ws p -> ctx_map f rb (p ++ x) = p ++ ctx_map f (rev p ++ rb) x.
  Proof.
    induction p as [|c p IH]; intros rb x Hp; [reflexivity|].
    inversion Hp as [|c' p' Hc Hp']; subst.
    cbn [app ctx_map]. rewrite (f_ws rb c (p ++ x) Hc). rewrite (IH (c :: rb) x Hp').
    cbn [rev app]. rewrite <- app_assoc. reflexivity.
  Qed.

  (* the mapping acts on the part between the white space only *)
  Lemma ctx_map_frame (p m q : list N) :
    all_ws p -> all_ws q -> ctx_map f [] (p ++ m ++ q) = p ++ ctx_map f [] m ++ q.
  Proof.
    intros Hp Hq. rewrite (ctx_map_frame_l p [] (m ++ q) Hp). rewrite app_nil_r.
    change (rev p) with ([] ++ rev p).
    rewrite (ctx_map_frame_r m [] (rev p) q (all_ws_rev p Hp) Hq). reflexivity.
  Qed.

  Hypothesis f_ne : forall rb c r, f rb c r <> [].
  Hypothesis f_edge : forall rb c r, u_is_ws c = false -> trimmed (f rb c r).

  Theorem trim_ctx_map_comm (s : list N) :
    u_trim (ctx_map f [] s) = ctx_map f [] (u_trim s).
  Proof.
    destruct (u_trim_split s) as (p & q & Hs & Hp & Hq).
    rewrite Hs at 1. rewrite (ctx_map_frame p (u_trim s) q Hp Hq).
    apply (u_trim_sandwich p _ q Hp Hq).
    apply (ctx_map_trimmed f f_ne f_edge). apply u_trim_trimmed.
  Qed.
End WsFrame.

(* ------------------------------------------------------------------ *)
(* table facts: white space and the case mappings                      *)

(* no image in the case tables contains a white-space code point (stronger than the edge
   condition [lower_table_edges] / [upper_table_edges] that the proofs below use), and no key
   is white space ([lower_table_no_ws_key] / [upper_table_no_ws_key]): the case mappings neither
   create nor destroy white space *)
Lemma lower_table_no_ws_output :
  forallb (fun e => forallb (fun c => negb (u_is_ws c)) (snd e)) lower_table = true.
Proof. vm_compute. reflexivity. Qed.

Lemma upper_table_no_ws_output :
  forallb (fun e => forallb (fun c => negb (u_is_ws c)) (snd e)) upper_table = true.
Proof. vm_compute. reflexivity. Qed.

Lemma lower1_no_ws (c : N) :
  u_is_ws c = false -> Forall (fun x => u_is_ws x = false) (lower1 c).
Proof.
  intros Hc. destruct (lower1_spec c) as [E | (v & Hin & E)]; rewrite E.
  - constructor; [exact Hc | constructor].
  - pose proof lower_table_no_ws_output as T. rewrite forallb_forall in T. specialize (T _ Hin).
    cbn [snd] in T. rewrite forallb_forall in T. apply Forall_forall. intros x Hx.
    apply negb_true_iff. exact (T x Hx).
Qed.

Lemma upper1_no_ws (c : N) :
  u_is_ws c = false -> Forall (fun x => u_is_ws x = false) (upper1 c).
Proof.
  intros Hc. destruct (upper1_spec c) as [E | (v & Hin & E)]; rewrite E.
  - constructor; [exact Hc | constructor].
  - pose proof upper_table_no_ws_output as T. rewrite forallb_forall in T. specialize (T _ Hin).
    cbn [snd] in T. rewrite forallb_forall in T. apply Forall_forall. intros x Hx.
    apply negb_true_iff. exact (T x Hx).
Qed.

(* two range lists without a common code point *)
Definition ranges_disjointb (a b : list (N * N)) : bool :=
  forallb (fun r => forallb (fun r' => N.ltb (snd r) (fst r') || N.ltb (snd r') (fst r)) b) a.

Lemma ranges_disjoint_ok (a b : list (N * N)) (c : N) :
  ranges_disjointb a b = true -> in_ranges a c = true -> in_ranges b c = false.
Proof.
  intros Hd Ha. unfold in_ranges in *. apply existsb_exists in Ha. destruct Ha as (r & Hr & Hin).
  destruct (existsb (UStr.in_range c) b) eqn:Hb; [|reflexivity]. exfalso.
  apply existsb_exists in Hb. destruct Hb as (r' & Hr' & Hin').
  unfold ranges_disjointb in Hd. rewrite forallb_forall in Hd. specialize (Hd r Hr).
  rewrite forallb_forall in Hd. specialize (Hd r' Hr').
  unfold UStr.in_range in Hin, Hin'.
  apply andb_true_iff in Hin. apply andb_true_iff in Hin'.
  destruct Hin as [A B], Hin' as [A' B'].
  apply N.leb_le in A, B, A', B'. apply orb_true_iff in Hd.
  destruct Hd as [Hd|Hd]; apply N.ltb_lt in Hd; lia.
Qed.

Lemma ws_ignorable_disjoint : ranges_disjointb ws_ranges ignorable_ranges = true.
Proof. vm_compute. reflexivity. Qed.

Lemma ws_cased_disjoint : ranges_disjointb ws_ranges cased_ranges = true.
Proof. vm_compute. reflexivity. Qed.

(* White_Space is disjoint from Case_Ignorable and from Cased *)
Lemma ws_not_ignorable (c : N) : u_is_ws c = true -> u_case_ignorable c = false.
Proof.
  rewrite u_is_ws_spec, u_case_ignorable_spec. apply ranges_disjoint_ok. exact ws_ignorable_disjoint.
Qed.

Lemma ws_not_cased (c : N) : u_is_ws c = true -> u_cased c = false.
Proof.
  rewrite u_is_ws_spec, u_cased_spec. apply ranges_disjoint_ok. exact ws_cased_disjoint.
Qed.

(* the scan of the Final_Sigma rule answers `false` when it reaches white space, exactly as
   when it reaches the end of the string *)
Lemma itc_app_ws : forall x w, all_ws w -> ignorable_then_cased (x ++ w) = ignorable_then_cased x.
Proof.
  induction x as [|c x IH]; intros w Hw.
  - cbn [app]. destruct Hw as [|c w Hc Hw]; [reflexivity|].
    cbn [ignorable_then_cased]. rewrite (ws_not_ignorable c Hc). exact (ws_not_cased c Hc).
  - cbn [app ignorable_then_cased]. destruct (u_case_ignorable c); [apply IH; exact Hw | reflexivity].
Qed.

Lemma lower_img_ws (rb : list N) (c : N) (r : list N) : u_is_ws c = true -> lower_img rb c r = [c].
Proof.
  intros Hc. unfold lower_img. destruct (N.eqb_spec c SIGMA) as [E|_].
  - exfalso. subst c. destruct sigma_facts as (_ & _ & _ & _ & _ & Hs). congruence.
  - apply ws_lower1_fixed. exact Hc.
Qed.

Lemma lower_img_ins (rb w : list N) (c : N) (r w' : list N) :
  all_ws w -> all_ws w' -> lower_img (rb ++ w) c (r ++ w') = lower_img rb c r.
Proof.
  intros Hw Hw'. unfold lower_img, is_word_final.
  rewrite (itc_app_ws rb w Hw), (itc_app_ws r w' Hw'). reflexivity.
Qed.

Lemma upper_img_ws (rb : list N) (c : N) (r : list N) : u_is_ws c = true -> upper_img rb c r = [c].
Proof. intros Hc. unfold upper_img. apply ws_upper1_fixed. exact Hc. Qed.

(* to_lowercase / to_uppercase act between the leading and the trailing white space *)
Theorem u_lower_frame (p m q : list N) :
  all_ws p -> all_ws q -> u_lower (p ++ m ++ q) = p ++ u_lower m ++ q.
Proof. unfold u_lower. apply ctx_map_frame; [exact lower_img_ws | exact lower_img_ins]. Qed.

Theorem u_upper_frame (p m q : list N) :
  all_ws p -> all_ws q -> u_upper (p ++ m ++ q) = p ++ u_upper m ++ q.
Proof.
  intros Hp Hq. rewrite (u_upper_ctx (p ++ m ++ q) []), (u_upper_ctx m []).
  apply ctx_map_frame; [exact upper_img_ws | reflexivity | exact Hp | exact Hq].
Qed.

(* trim and the case mappings commute *)
Theorem u_trim_lower_comm (s : list N) : u_trim (u_lower s) = u_lower (u_trim s).
Proof.
  unfold u_lower.
  apply (trim_ctx_map_comm lower_img lower_img_ws lower_img_ins lower_img_ne lower_img_edge).
Qed.

Theorem u_trim_upper_comm (s : list N) : u_trim (u_upper s) = u_upper (u_trim s).
Proof.
  rewrite (u_upper_ctx s []), (u_upper_ctx (u_trim s) []).
  apply (trim_ctx_map_comm upper_img upper_img_ws); [reflexivity | exact upper_img_ne | exact upper_img_edge].
Qed.

(* the lengths the generator cares about *)
Corollary trim_lower_length_ge (s : list N) :
  (List.length (u_trim s) <= List.length (u_trim (u_lower s)))%nat.
Proof. rewrite u_trim_lower_comm. apply u_lower_length_ge. Qed.

Corollary trim_upper_length_ge (s : list N) :
  (List.length (u_trim s) <= List.length (u_trim (u_upper s)))%nat.
Proof. rewrite u_trim_upper_comm. apply u_upper_length_ge. Qed.


(* ------------------------------------------------------------------ *)
(* normal form of the accepted chains of built-in sanitizers           *)

Definition has_lower (ss : list sanitizer) : bool :=
  existsb (fun s => match s with SLowercase => true | _ => false end) ss.
Definition has_upper (ss : list sanitizer) : bool :=
  existsb (fun s => match s with SUppercase => true | _ => false end) ss.

(* the case mapping a chain declares (an accepted chain never declares both) *)
Definition case_fn (ss : list sanitizer) : list N -> list N :=
  if has_lower ss then u_lower else if has_upper ss then u_upper else (fun s => s).

Lemma case_fn_length_ge (ss : list sanitizer) (t : list N) :
  (List.length t <= List.length (case_fn ss t))%nat.
Proof.
  unfold case_fn. destruct (has_lower ss); [apply u_lower_length_ge|].
  destruct (has_upper ss); [apply u_upper_length_ge | lia].
Qed.

Lemma case_fn_length_le (ss : list sanitizer) (t : list N) :
  (List.length (case_fn ss t) <= 3 * List.length t)%nat.
Proof.
  unfold case_fn. destruct (has_lower ss); [apply u_lower_length_le|].
  destruct (has_upper ss); [apply u_upper_length_le | lia].
Qed.

(* the declarations of this file: an accepted chain that really has a case sanitizer *)
Definition str_case_sans (ss : list sanitizer) : bool :=
  accepted_builtin_chain ss && (has_lower ss || has_upper ss).

(* validators that impose a minimal length only *)
Definition str_min_validator (v : validator) : bool :=
  match v with
  | VLenCharMin _ | VNotEmpty => true
  | _ => false
  end.

Local Open Scope Z_scope.

Lemma first_max_min_only (d : decl) (vs : list validator) :
  forallb str_min_validator vs = true -> first_max d vs = None.
Proof.
  induction vs as [|v vs IH]; intros H; [reflexivity|].
  cbn [forallb] in H. apply andb_true_iff in H. destruct H as [H1 H2].
  destruct v; try discriminate H1; cbn [first_max]; exact (IH H2).
Qed.

(* without len_char_max the generator's range is [mn, mn + 16] *)
Lemma str_spec_min_only (d : decl) (vs : list validator) :
  d_validation d = Some (RVStandard vs) -> forallb str_min_validator vs = true ->
  str_spec d = (fold_left Z.max (min_lens d vs) 0, fold_left Z.max (min_lens d vs) 0 + 16).
Proof.
  intros Hv Hk. rewrite (str_spec_eq d vs Hv), (first_max_min_only d vs Hk). reflexivity.
Qed.

Section WithLib.
  Variable lib : fnlib.
  Hypothesis Hlib : unicode_lib lib.

  (* Every accepted chain of built-ins computes  case (trim s) , whatever the written order:
     [trim; lowercase] by definition, [lowercase; trim] because trim and the case mappings
     commute. *)
  Theorem builtin_chain_normal_form (d : decl) (s : list N) :
    accepted_builtin_chain (d_sans d) = true ->
    spec_sanitize lib d (VS s) =
    VS (case_fn (d_sans d) (if has_trim d then u_trim s else s)).
  Proof.
    destruct Hlib as (Ht & Hl & Hu). intros Hc. unfold spec_sanitize, has_trim.
    destruct (d_sans d) as [|a [|b [|c r]]]; cbn in Hc; try discriminate Hc.
    - reflexivity.
    - destruct a; try discriminate Hc; cbn; rewrite ?Ht, ?Hl, ?Hu; reflexivity.
    - destruct a, b; try discriminate Hc; cbn; rewrite ?Ht, ?Hl, ?Hu; try reflexivity; f_equal.
      + apply u_trim_lower_comm.
      + apply u_trim_upper_comm.
    - exfalso. unfold accepted_builtin_chain in Hc.
      destruct a, b; cbn in Hc; try discriminate Hc; rewrite Bool.andb_false_r in Hc; discriminate Hc.
  Qed.

  (* a string at least as long as the effective minimum satisfies not_empty / len_char_min *)
  Lemma str_min_valid (d : decl) (vs : list validator) (x : list N) :
    d_family d = FStr -> d_validation d = Some (RVStandard vs) ->
    forallb str_min_validator vs = true ->
    fold_left Z.max (min_lens d vs) 0 <= Z.of_nat (List.length x) ->
    spec_valid lib d (VS x) = true.
  Proof.
    intros Hf Hv Hk Hlen. unfold spec_valid. rewrite Hv.
    apply forallb_forall. intros v Hin.
    rewrite forallb_forall in Hk. specialize (Hk v Hin).
    unfold holds. rewrite Hf. destruct v as [b|b|b|b|f| |b|b| |rx]; try discriminate Hk.
    - (* len_char_min *)
      pose proof (fold_max_ge_in _ 0 _ (min_lens_min d vs b Hin)) as Hge.
      rewrite Z.geb_leb. apply Z.leb_le. lia.
    - (* not_empty *)
      pose proof (fold_max_ge_in _ 0 _ (min_lens_not_empty d vs Hin)) as Hge.
      destruct x as [|c x]; [cbn [List.length] in Hlen; lia | reflexivity].
  Qed.

  (* The generator, the value it returns and its length: s is the string the generator hands
     to try_new, t the declared (trimmed) part of it whose length is the target the generator
     drew from [mn, mn + 16]. *)
  Theorem arb_str_builtin_min_value (d : decl) (vs : list validator) (bs : bytes) :
    d_family d = FStr -> d_validation d = Some (RVStandard vs) ->
    forallb str_min_validator vs = true ->
    accepted_builtin_chain (d_sans d) = true ->
    bytes_ok bs = true ->
    exists s,
      let mn := fold_left Z.max (min_lens d vs) 0 in
      let t := if has_trim d then u_trim s else s in
      let x := case_fn (d_sans d) t in
      arb_str_inner lib d bs = Some (Some s) /\
      mn <= Z.of_nat (List.length t) <= mn + 16 /\
      Z.of_nat (List.length t) <= Z.of_nat (List.length x) <= 3 * Z.of_nat (List.length t) /\
      arb_str lib d bs = OOk (VS x) /\
      spec_valid lib d (VS x) = true.
  Proof.
    intros Hf Hv Hk Hsn Hb.
    pose proof (str_spec_min_only d vs Hv Hk) as Hs.
    set (mn := fold_left Z.max (min_lens d vs) 0) in *.
    assert (Hmn : 0 <= mn) by (apply (str_spec_min_nonneg d mn (mn + 16) Hs)).
    assert (Hm : 0 <= mn <= mn + 16) by lia.
    assert (Hdl : mn + 16 - mn <= 2 ^ 64 - 1) by (replace (mn + 16 - mn) with 16 by lia; lia).
    destruct (arb_str_inner_total lib (proj1 Hlib) d mn (mn + 16) bs Hs Hm Hdl Hb) as (s & Hi & Hlen).
    exists s. cbv zeta.
    set (t := if has_trim d then u_trim s else s) in *.
    set (x := case_fn (d_sans d) t).
    pose proof (case_fn_length_ge (d_sans d) t) as Hge. fold x in Hge.
    pose proof (case_fn_length_le (d_sans d) t) as Hle. fold x in Hle.
    pose proof (builtin_chain_normal_form d s Hsn) as Hsan. fold t in Hsan. fold x in Hsan.
    assert (Hvalid : spec_valid lib d (VS x) = true).
    { apply (str_min_valid d vs x Hf Hv Hk). fold mn. lia. }
    assert (Hc : comparable d (spec_sanitize lib d (VS s)) = true)
      by (unfold comparable; rewrite Hf; reflexivity).
    assert (Ht : d_try_new lib d (VS s) = Ok (VS x)).
    { apply (try_new_ok_iff_spec lib d (VS s) (VS x) Hc). rewrite Hsan.
      split; [reflexivity | exact Hvalid]. }
    split; [exact Hi|]. split; [exact Hlen|]. split; [lia|]. split; [|exact Hvalid].
    unfold arb_str. rewrite Hf, Hv, Hi, Ht. reflexivity.
  Qed.

  (* C09 for strings with ANY accepted chain of built-in sanitizers and minimal lengths only:
     same shape as [arb_str_valid]; the range hypotheses of that theorem are not needed
     because the range is [mn, mn + 16], and neither is the absence of duplicated kinds *)
  Theorem arb_str_builtin_min_valid (d : decl) (vs : list validator) (bs : bytes) :
    d_family d = FStr -> d_validation d = Some (RVStandard vs) ->
    forallb str_min_validator vs = true ->
    accepted_builtin_chain (d_sans d) = true ->
    bytes_ok bs = true ->
    exists v, arb_str lib d bs = OOk v /\ spec_valid lib d v = true.
  Proof.
    intros Hf Hv Hk Hsn Hb.
    destruct (arb_str_builtin_min_value d vs bs Hf Hv Hk Hsn Hb) as (s & H).
    cbv zeta in H. destruct H as (_ & _ & _ & Ha & Hvalid). eauto.
  Qed.

  (* the theorem asked for: the chain contains lowercase or uppercase *)
  Theorem arb_str_case_valid (d : decl) (vs : list validator) (bs : bytes) :
    d_family d = FStr -> d_validation d = Some (RVStandard vs) ->
    forallb str_min_validator vs = true ->
    str_case_sans (d_sans d) = true ->
    bytes_ok bs = true ->
    exists v, arb_str lib d bs = OOk v /\ spec_valid lib d v = true.
  Proof.
    intros Hf Hv Hk Hsn Hb. unfold str_case_sans in Hsn. apply andb_true_iff in Hsn.
    exact (arb_str_builtin_min_valid d vs bs Hf Hv Hk (proj1 Hsn) Hb).
  Qed.
End WithLib.


(* ------------------------------------------------------------------ *)
(* the chains covered: exactly these six have a case sanitizer          *)

Lemma str_case_sans_cases (ss : list sanitizer) :
  str_case_sans ss = true <->
  ss = [SLowercase] \/ ss = [SUppercase] \/
  ss = [STrim; SLowercase] \/ ss = [SLowercase; STrim] \/
  ss = [STrim; SUppercase] \/ ss = [SUppercase; STrim].
Proof.
  split.
  - unfold str_case_sans, accepted_builtin_chain. intros H.
    destruct ss as [|a [|b [|c r]]].
    + discriminate H.
    + destruct a; try discriminate H; auto.
    + destruct a, b; try discriminate H; auto 10.
    + exfalso. destruct a, b; cbn in H; try discriminate H;
        rewrite ?Bool.andb_false_r in H; cbn in H; discriminate H.
  - intros [->|[->|[->|[->|[->| ->]]]]]; reflexivity.
Qed.

(* ------------------------------------------------------------------ *)
(* [accepted_builtin_chain] is what the macro's own checks leave over: a String declaration
   with derive(Arbitrary) and validation that the macro accepts has no `with` sanitizer
   (gen:arbitrary_with_sanitizer), no sanitizer kind twice (validate:duplicate_sanitizer) and
   not both case sanitizers (validate:lowercase_and_uppercase)                              *)

Lemma accepted_chain_of_checks (ss : list sanitizer) :
  forallb is_builtin ss = true ->
  has_dup skind_eqb (map skind_of ss) = false ->
  existsb (skind_eqb KLowercase) (map skind_of ss) && existsb (skind_eqb KUppercase) (map skind_of ss) = false ->
  accepted_builtin_chain ss = true.
Proof.
  intros Hb Hd Hlu. unfold accepted_builtin_chain. rewrite Hb. cbn [andb].
  destruct ss as [|a [|b [|c r]]]; try reflexivity.
  - destruct a; reflexivity.
  - destruct a, b; cbn in Hb, Hd, Hlu; try discriminate; reflexivity.
  - exfalso. destruct a, b, c; cbn in Hb, Hd, Hlu; rewrite ?Bool.orb_true_r in Hd; discriminate.
Qed.

Lemma no_with_all_builtin (ss : list sanitizer) :
  existsb (fun s => skind_eqb (skind_of s) KWith) ss = false -> forallb is_builtin ss = true.
Proof.
  induction ss as [|a ss IH]; [reflexivity|]. cbn [existsb forallb]. intros H.
  apply Bool.orb_false_iff in H. destruct H as [H1 H2]. rewrite (IH H2).
  destruct a; try reflexivity. discriminate H1.
Qed.

Theorem macro_accepted_builtin_chain (ft : features) (sd : sdecl) (d : decl) (rv : raw_validation) :
  macro_verdict ft sd = Accept d -> d_family d = FStr -> d_validation d = Some rv ->
  has_trait TrArbitrary (d_traits d) = true ->
  accepted_builtin_chain (d_sans d) = true.
Proof.
  intros H Hf Hv Ha.
  destruct (MacroLemmas.macro_verdict_inv _ _ _ H)
    as (fam & p & ts & _ & _ & Hg & _ & Hc & Hfam & Hps & Hpv & Hts & _).
  rewrite Hps. apply accepted_chain_of_checks.
  - (* no `with` sanitizer *)
    apply no_with_all_builtin.
    unfold gen_checks in Hc.
    apply MacroLemmas.vbind_accept in Hc. destruct Hc as ([] & _ & Hc).
    apply MacroLemmas.vbind_accept in Hc. destruct Hc as ([] & _ & Hc).
    rewrite <- Hts, Ha in Hc. rewrite <- Hfam, Hf in Hc.
    apply MacroLemmas.vbind_accept in Hc. destruct Hc as ([] & _ & Hc).
    apply MacroLemmas.vbind_accept in Hc. destruct Hc as ([] & _ & Hc).
    apply MacroLemmas.vbind_accept in Hc. destruct Hc as ([] & _ & Hc).
    apply MacroLemmas.guardv_accept in Hc.
    unfold p_has_validation in Hc. rewrite <- Hpv, Hv in Hc. exact Hc.
  - unfold validate_guard in Hg. apply MacroLemmas.vbind_accept in Hg. destruct Hg as ([] & Hs & _).
    unfold validate_sanitizers in Hs. apply MacroLemmas.vbind_accept in Hs. destruct Hs as ([] & Hd & _).
    apply MacroLemmas.guardv_accept in Hd. exact Hd.
  - unfold validate_guard in Hg. apply MacroLemmas.vbind_accept in Hg. destruct Hg as ([] & Hs & _).
    unfold validate_sanitizers in Hs. apply MacroLemmas.vbind_accept in Hs. destruct Hs as ([] & _ & Hlu).
    apply MacroLemmas.guardv_accept in Hlu. exact Hlu.
Qed.

(* C09 for every String declaration the macro accepts with derive(Arbitrary) whose validators
   are minimal lengths: whatever built-in sanitizers it declares, in whatever order *)
Theorem macro_accepted_arb_str_min_valid (lib : fnlib) (ft : features) (sd : sdecl) (d : decl)
        (vs : list validator) (bs : bytes) :
  unicode_lib lib ->
  macro_verdict ft sd = Accept d -> d_family d = FStr -> d_validation d = Some (RVStandard vs) ->
  has_trait TrArbitrary (d_traits d) = true ->
  forallb str_min_validator vs = true ->
  bytes_ok bs = true ->
  exists v, arb_str lib d bs = OOk v /\ spec_valid lib d v = true.
Proof.
  intros Hlib H Hf Hv Ha Hk Hb.
  apply (arb_str_builtin_min_valid lib Hlib d vs bs Hf Hv Hk); [|exact Hb].
  exact (macro_accepted_builtin_chain ft sd d _ H Hf Hv Ha).
Qed.

(* ------------------------------------------------------------------ *)
(* the hypotheses are met, and the generator really produces strings that the case mapping
   lengthens: sanitize(trim, uppercase) / sanitize(uppercase, trim),
   validate(not_empty, len_char_min = 2); byte 0 picks the target length 2, the code points
   are U+00DF and U+0020 -- the trailing space is trimmed away by the refill loop, which then
   draws U+0000 from the exhausted input; the constructor stores "SS\0" *)
Definition case_ex_decl (ss : list sanitizer) (vs : list validator) : decl :=
  {| d_family := FStr; d_name := "T"%string; d_vis := "pub"%string; d_generics := []; d_sans := ss;
     d_validation := Some (RVStandard vs); d_new_unchecked := false; d_const_fn := false;
     d_default := None; d_traits := [TrArbitrary]; d_env := [] |}.

Example arb_str_case_nonvacuous :
  let vs := [VNotEmpty; VLenCharMin (BLit 2)] in
  let d1 := case_ex_decl [STrim; SUppercase] vs in
  let d2 := case_ex_decl [SUppercase; STrim] vs in
  let bs := [0; 223; 0; 0; 0; 32; 0; 0; 0] in
  str_case_sans (d_sans d1) = true /\ str_case_sans (d_sans d2) = true /\
  forallb str_min_validator vs = true /\ bytes_ok bs = true /\
  arb_str (the_lib d1) d1 bs = OOk (VS [83; 83; 0]%N) /\
  arb_str (the_lib d2) d2 bs = OOk (VS [83; 83; 0]%N).
Proof. vm_compute. repeat split; reflexivity. Qed.

(* Final_Sigma under trim: "ΑΣ " lower-cased ends in a final sigma whether the trailing
   space is removed before or after *)
Example final_sigma_trim :
  u_trim (u_lower [913; 931; 32]%N) = [945; 962]%N /\ u_lower (u_trim [913; 931; 32]%N) = [945; 962]%N.
Proof. vm_compute. split; reflexivity. Qed.

(* `no len_char_max` cannot be dropped, for either case sanitizer and with or without trim:
   to_lowercase lengthens too (U+0130 -> U+0069 U+0307).  The uppercase instance is the recorded
   witness C09_str_case_refuted. *)
Example arb_str_case_max_panics :
  let mx := [VLenCharMax (BLit 1)] in
  u_lower [304%N] = [105; 775]%N /\
  arb_str (the_lib (case_ex_decl [SLowercase] mx)) (case_ex_decl [SLowercase] mx) [1; 48; 1; 0; 0] = OPanic /\
  arb_str (the_lib (case_ex_decl [STrim; SLowercase] mx)) (case_ex_decl [STrim; SLowercase] mx) [1; 48; 1; 0; 0] = OPanic /\
  arb_str (the_lib (case_ex_decl [SLowercase; STrim] mx)) (case_ex_decl [SLowercase; STrim] mx) [1; 48; 1; 0; 0] = OPanic /\
  arb_str (the_lib (case_ex_decl [SUppercase; STrim] mx)) (case_ex_decl [SUppercase; STrim] mx) [1; 223; 0; 0; 0] = OPanic.
Proof. vm_compute. repeat split; reflexivity. Qed.
