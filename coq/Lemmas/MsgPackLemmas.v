(* MessagePack bytes of integers and strings (Sem.MsgPack) over UTF-8 (Sem.Utf8): reading what
   was written gives the value back, the readers return only values of the requested type /
   strings of scalar values, strict UTF-8 decoding is injective, the written integer is in one
   of the five forms its first byte announces, and the abstract round trip of
   Lemmas.SerdeLemmas instantiated with this format. *)
From NV Require Import Base.Util Base.IntTy Base.Expr Macro.Surface Macro.Ast Sem.Guard Sem.Value
     Sem.Eval Sem.Conv Sem.Json Sem.Utf8 Sem.MsgPack Sem.Serde Spec.GuardSpec Lemmas.ConvLemmas Lemmas.CanonLemmas Lemmas.SerdeLemmas.
Require Import Lia ZArith NArith ZifyBool ZifyN.
Ltac Zify.zify_post_hook ::= Z.div_mod_to_equations.
Local Open Scope N_scope.

(* ------------------------------------------------------------------ UTF-8 *)
Notation is_scalar := (fun c : N => scalar c = true).

Lemma scalar_iff (c : N) : scalar c = true <-> c < 0xD800 \/ (0xE000 <= c /\ c <= 0x10FFFF).
Proof. unfold scalar. rewrite orb_true_iff, andb_true_iff, N.ltb_lt, !N.leb_le. reflexivity. Qed.

(* decide the comparisons met in the goal, closing the impossible branches by arithmetic *)
Ltac split_if :=
  match goal with
  | |- context [N.ltb ?a ?b] => destruct (N.ltb_spec a b); try lia
  | |- context [N.leb ?a ?b] => destruct (N.leb_spec a b); try lia
  | |- context [N.eqb ?a ?b] => destruct (N.eqb_spec a b); try lia
  end.

Lemma utf8_encode_char_shape (c : N) : exists x r, utf8_encode_char c = x :: r.
Proof. unfold utf8_encode_char. repeat split_if; eexists; eexists; reflexivity. Qed.

Lemma utf8_decode_one_encode (c : N) (rest : list N) :
  scalar c = true -> utf8_decode_one (utf8_encode_char c ++ rest) = Some (c, rest).
Proof.
  intros Hs. apply scalar_iff in Hs. unfold utf8_encode_char.
  destruct (N.ltb_spec c 0x80) as [H1|H1].
  { cbn [List.app utf8_decode_one]. destruct (N.ltb_spec c 0x80); [reflexivity|lia]. }
  destruct (N.ltb_spec c 0x800) as [H2|H2].
  { cbn [List.app utf8_decode_one]. unfold utf8_cont. cbv zeta.
    repeat split_if. cbn [andb]. f_equal. f_equal. lia. }
  destruct (N.ltb_spec c 0x10000) as [H3|H3].
  { cbn [List.app utf8_decode_one]. unfold utf8_cont, is_surrogate. cbv zeta.
    repeat split_if. all: cbn [andb orb]; try (f_equal; f_equal; lia). }
  cbn [List.app utf8_decode_one]. unfold utf8_cont. cbv zeta.
    repeat split_if. all: cbn [andb orb]; try (f_equal; f_equal; lia). 
Qed.

Lemma utf8_encode_cons (c : N) (s : list N) :
  utf8_encode (c :: s) = utf8_encode_char c ++ utf8_encode s.
Proof. reflexivity. Qed.

Lemma utf8_decode_fuel_step (f : nat) (c : N) (rest : list N) :
  scalar c = true ->
  utf8_decode_fuel (S f) (utf8_encode_char c ++ rest) = option_map (cons c) (utf8_decode_fuel f rest).
Proof.
  intros Hs. destruct (utf8_encode_char_shape c) as (x & r & E).
  pose proof (utf8_decode_one_encode c rest Hs) as R. rewrite E in *. cbn [List.app] in *.
  cbn [utf8_decode_fuel]. rewrite R. reflexivity.
Qed.

Lemma utf8_decode_fuel_encode (s : list N) :
  Forall is_scalar s ->
  forall fuel : nat, (List.length (utf8_encode s) <= fuel)%nat ->
                     utf8_decode_fuel fuel (utf8_encode s) = Some s.
Proof.
  induction s as [|c s IH]; intros Hs fuel Hf.
  - destruct fuel; reflexivity.
  - rewrite utf8_encode_cons in *. rewrite app_length in Hf.
    destruct (utf8_encode_char_shape c) as (x & r & E).
    assert (Hlen : (1 <= List.length (utf8_encode_char c))%nat) by (rewrite E; cbn [List.length]; lia).
    destruct fuel as [|f]; [lia|].
    rewrite (utf8_decode_fuel_step f c _ (Forall_inv Hs)), (IH (Forall_inv_tail Hs)) by lia.
    reflexivity.
Qed.

(* (U1) *)
Theorem utf8_decode_encode (s : list N) :
  Forall (fun c => scalar c = true) s -> utf8_decode (utf8_encode s) = Some s.
Proof. intros Hs. unfold utf8_decode. apply utf8_decode_fuel_encode; [exact Hs | lia]. Qed.

(* what one step of the decoder returns: a scalar value, whose encoding is what was consumed *)
Lemma utf8_decode_one_sound (l : list N) (c : N) (rest : list N) :
  utf8_decode_one l = Some (c, rest) -> scalar c = true /\ l = utf8_encode_char c ++ rest.
Proof.
  unfold utf8_decode_one. destruct l as [|b0 r]; [discriminate|].
  destruct (N.ltb_spec b0 0x80) as [H1|H1].
  { intros H. injection H as <- <-. split; [apply scalar_iff; lia|].
    unfold utf8_encode_char. destruct (N.ltb_spec b0 0x80); [reflexivity|lia]. }
  destruct (N.ltb_spec b0 0xC0) as [H2|H2]; [discriminate|].
  destruct (N.ltb_spec b0 0xE0) as [H3|H3].
  { destruct r as [|b1 r1]; [discriminate|]. unfold utf8_cont.
    destruct (N.leb_spec 0x80 b1) as [C1|C1]; [|discriminate].
    destruct (N.ltb_spec b1 0xC0) as [C2|C2]; [|discriminate]. cbn [andb]. cbv zeta.
    destruct (N.ltb_spec ((b0 - 0xC0) * 64 + (b1 - 0x80)) 0x80) as [O|O]; [discriminate|].
    intros H. injection H as <- <-. split; [apply scalar_iff; lia|].
    unfold utf8_encode_char. repeat split_if. cbn [List.app]. f_equal; [lia|]. f_equal. lia. }
  destruct (N.ltb_spec b0 0xF0) as [H4|H4].
  { destruct r as [|b1 [|b2 r2]]; try discriminate. unfold utf8_cont, is_surrogate.
    destruct (N.leb_spec 0x80 b1) as [C1|C1]; [|discriminate].
    destruct (N.ltb_spec b1 0xC0) as [C2|C2]; [|discriminate].
    destruct (N.leb_spec 0x80 b2) as [C3|C3]; [|discriminate].
    destruct (N.ltb_spec b2 0xC0) as [C4|C4]; [|discriminate]. cbn [andb]. cbv zeta.
    set (c' := (b0 - 0xE0) * 4096 + (b1 - 0x80) * 64 + (b2 - 0x80)).
    assert (Ec : c' = (b0 - 0xE0) * 4096 + (b1 - 0x80) * 64 + (b2 - 0x80)) by reflexivity.
    clearbody c'.
    destruct (N.ltb_spec c' 0x800) as [O|O]; [discriminate|].
    destruct (N.leb_spec 0xD800 c') as [S1|S1]; [destruct (N.ltb_spec c' 0xE000) as [S2|S2]; [discriminate|]|];
      cbn [andb orb]; intros H; injection H as <- <-.
    all: split; [apply scalar_iff; lia|].
    all: unfold utf8_encode_char; repeat split_if; cbn [List.app]; f_equal; [lia|]; f_equal; [lia|]; f_equal; lia. }
  destruct (N.ltb_spec b0 0xF8) as [H5|H5]; [|discriminate].
  destruct r as [|b1 [|b2 [|b3 r3]]]; try discriminate. unfold utf8_cont.
  destruct (N.leb_spec 0x80 b1) as [C1|C1]; [|discriminate].
  destruct (N.ltb_spec b1 0xC0) as [C2|C2]; [|discriminate].
  destruct (N.leb_spec 0x80 b2) as [C3|C3]; [|discriminate].
  destruct (N.ltb_spec b2 0xC0) as [C4|C4]; [|discriminate].
  destruct (N.leb_spec 0x80 b3) as [C5|C5]; [|discriminate].
  destruct (N.ltb_spec b3 0xC0) as [C6|C6]; [|discriminate]. cbn [andb]. cbv zeta.
  set (c' := (b0 - 0xF0) * 262144 + (b1 - 0x80) * 4096 + (b2 - 0x80) * 64 + (b3 - 0x80)).
  assert (Ec : c' = (b0 - 0xF0) * 262144 + (b1 - 0x80) * 4096 + (b2 - 0x80) * 64 + (b3 - 0x80)) by reflexivity.
  clearbody c'.
  destruct (N.ltb_spec c' 0x10000) as [O|O]; [discriminate|].
  destruct (N.ltb_spec 0x10FFFF c') as [O2|O2]; [discriminate|]. cbn [orb].
  intros H; injection H as <- <-.
  split; [apply scalar_iff; lia|].
  unfold utf8_encode_char; repeat split_if; cbn [List.app]; f_equal; [lia|]; f_equal; [lia|]; f_equal; [lia|]; f_equal; lia.
Qed.

Lemma utf8_decode_fuel_sound (fuel : nat) :
  forall (l s : list N), utf8_decode_fuel fuel l = Some s -> Forall is_scalar s /\ utf8_encode s = l.
Proof.
  induction fuel as [|f IH]; intros l s.
  - destruct l as [|b r]; [|discriminate]. intros H. injection H as <-. split; [constructor|reflexivity].
  - destruct l as [|b r]; [intros H; injection H as <-; split; [constructor|reflexivity]|].
    cbn [utf8_decode_fuel].
    destruct (utf8_decode_one (b :: r)) as [[c rest]|] eqn:E; [|discriminate].
    destruct (utf8_decode_fuel f rest) as [s'|] eqn:E2; [|discriminate]. cbn [option_map].
    intros H. injection H as <-. destruct (utf8_decode_one_sound _ _ _ E) as [Hc Hl].
    destruct (IH rest s' E2) as [Hs' He]. split; [constructor; assumption|].
    rewrite utf8_encode_cons, He. symmetry. exact Hl.
Qed.

(* (U2) *)
Theorem utf8_decode_scalar (b s : list N) :
  utf8_decode b = Some s -> Forall (fun c => scalar c = true) s.
Proof. intros H. exact (proj1 (utf8_decode_fuel_sound _ b s H)). Qed.

(* (U3) *)
Theorem utf8_encode_decode (b s : list N) : utf8_decode b = Some s -> utf8_encode s = b.
Proof. intros H. exact (proj2 (utf8_decode_fuel_sound _ b s H)). Qed.

Corollary utf8_decode_injective (b1 b2 s : list N) :
  utf8_decode b1 = Some s -> utf8_decode b2 = Some s -> b1 = b2.
Proof. intros H1 H2. rewrite <- (utf8_encode_decode _ _ H1). exact (utf8_encode_decode _ _ H2). Qed.

Lemma utf8_encode_char_bytes (c : N) : scalar c = true -> Forall (fun b => b < 256) (utf8_encode_char c).
Proof.
  intros Hs. apply scalar_iff in Hs. unfold utf8_encode_char.
  repeat split_if; repeat constructor; lia.
Qed.

Lemma utf8_encode_bytes (s : list N) :
  Forall (fun c => scalar c = true) s -> Forall (fun b => b < 256) (utf8_encode s).
Proof.
  induction s as [|c s IH]; intros Hs; [constructor|].
  rewrite utf8_encode_cons. apply Forall_app. split.
  - exact (utf8_encode_char_bytes c (Forall_inv Hs)).
  - exact (IH (Forall_inv_tail Hs)).
Qed.

(* ------------------------------------------------------------------ big-endian quantities *)

Lemma val2_be2 (v : N) : v < 65536 -> val2 (v / 256 mod 256) (v mod 256) = v.
Proof. intros H. unfold val2. lia. Qed.

Lemma val4_be4 (v : N) :
  v < 4294967296 ->
  val4 ((v / 65536 mod 65536) / 256 mod 256) ((v / 65536 mod 65536) mod 256)
       ((v mod 65536) / 256 mod 256) ((v mod 65536) mod 256) = v.
Proof.
  intros H. unfold val4.
  assert (H1 : v / 65536 mod 65536 < 65536) by (apply N.mod_lt; discriminate).
  assert (H2 : v mod 65536 < 65536) by (apply N.mod_lt; discriminate).
  rewrite (val2_be2 _ H1), (val2_be2 _ H2). lia.
Qed.

Lemma be1_eq (v : N) : be1 v = [v mod 256].
Proof. reflexivity. Qed.
Lemma be2_eq (v : N) : be2 v = [v / 256 mod 256; v mod 256].
Proof. reflexivity. Qed.
Lemma be4_eq (v : N) :
  be4 v = [(v / 65536 mod 65536) / 256 mod 256; (v / 65536 mod 65536) mod 256;
           (v mod 65536) / 256 mod 256; (v mod 65536) mod 256].
Proof. reflexivity. Qed.

(* the eight bytes, named through the two halves *)
Lemma be8_eq (v : N) :
  exists a b c d e f g h,
    be8 v = [a; b; c; d; e; f; g; h] /\
    be4 (v / 4294967296 mod 4294967296) = [a; b; c; d] /\ be4 (v mod 4294967296) = [e; f; g; h].
Proof. do 8 eexists. split; [reflexivity|]. split; reflexivity. Qed.

Lemma val4_of_be4 (v a b c d : N) : v < 4294967296 -> be4 v = [a; b; c; d] -> val4 a b c d = v.
Proof.
  intros Hv E. rewrite be4_eq in E. injection E as <- <- <- <-. exact (val4_be4 v Hv).
Qed.

Lemma val8_of_be8 (v a b c d e f g h : N) :
  v < 18446744073709551616 -> be8 v = [a; b; c; d; e; f; g; h] -> val8 a b c d e f g h = v.
Proof.
  intros Hv E. destruct (be8_eq v) as (a' & b' & c' & d' & e' & f' & g' & h' & E8 & Ehi & Elo).
  rewrite E8 in E. injection E as <- <- <- <- <- <- <- <-.
  unfold val8.
  assert (H1 : v / 4294967296 mod 4294967296 < 4294967296) by (apply N.mod_lt; discriminate).
  assert (H2 : v mod 4294967296 < 4294967296) by (apply N.mod_lt; discriminate).
  rewrite (val4_of_be4 _ _ _ _ _ H1 Ehi), (val4_of_be4 _ _ _ _ _ H2 Elo). lia.
Qed.

Lemma byte_mod (v : N) : v mod 256 < 256.
Proof. apply N.mod_lt. discriminate. Qed.

Lemma be1_bytes (v : N) : Forall (fun b => b < 256) (be1 v).
Proof. repeat constructor; apply byte_mod. Qed.
Lemma be2_bytes (v : N) : Forall (fun b => b < 256) (be2 v).
Proof. repeat constructor; apply byte_mod. Qed.
Lemma be4_bytes (v : N) : Forall (fun b => b < 256) (be4 v).
Proof. unfold be4. apply Forall_app. split; apply be2_bytes. Qed.
Lemma be8_bytes (v : N) : Forall (fun b => b < 256) (be8 v).
Proof. unfold be8. apply Forall_app. split; apply be4_bytes. Qed.

Lemma all_bytes_iff (l : list N) : all_bytes l = true <-> Forall (fun b => b < 256) l.
Proof.
  unfold all_bytes. rewrite forallb_forall, Forall_forall. unfold is_byte.
  split; intros H x Hx; apply N.ltb_lt; apply H; exact Hx.
Qed.

(* ------------------------------------------------------------------ integers *)

(* what the reader does after each multi-byte marker *)
Lemma body_cc r : mp_int_body 0xcc r = match r with [a] => Some (Z.of_N a) | _ => None end.
Proof. reflexivity. Qed.
Lemma body_cd r : mp_int_body 0xcd r = match r with [a; b] => Some (Z.of_N (val2 a b)) | _ => None end.
Proof. reflexivity. Qed.
Lemma body_ce r :
  mp_int_body 0xce r = match r with [a; b; c; d] => Some (Z.of_N (val4 a b c d)) | _ => None end.
Proof. reflexivity. Qed.
Lemma body_cf r :
  mp_int_body 0xcf r
  = match r with [a; b; c; d; e; f; g; h] => Some (Z.of_N (val8 a b c d e f g h)) | _ => None end.
Proof. reflexivity. Qed.
Lemma body_d0 r : mp_int_body 0xd0 r = match r with [a] => Some (to_signed 128 a) | _ => None end.
Proof. reflexivity. Qed.
Lemma body_d1 r :
  mp_int_body 0xd1 r = match r with [a; b] => Some (to_signed 32768 (val2 a b)) | _ => None end.
Proof. reflexivity. Qed.
Lemma body_d2 r :
  mp_int_body 0xd2 r
  = match r with [a; b; c; d] => Some (to_signed 2147483648 (val4 a b c d)) | _ => None end.
Proof. reflexivity. Qed.
Lemma body_d3 r :
  mp_int_body 0xd3 r
  = match r with
    | [a; b; c; d; e; f; g; h] => Some (to_signed 9223372036854775808 (val8 a b c d e f g h))
    | _ => None
    end.
Proof. reflexivity. Qed.

Lemma to_signed_neg (half full : Z) (z : Z) :
  (- half <= z < 0)%Z -> full = (2 * half)%Z -> to_signed half (Z.to_N (z + full)) = z.
Proof.
  intros H ->. unfold to_signed. cbv zeta. rewrite Z2N.id by lia.
  destruct (Z.ltb_spec (z + 2 * half) half); lia.
Qed.

(* the value read back, before the requested type is looked at *)
Lemma mp_int_value_write (z : Z) :
  (- 9223372036854775808 <= z < 18446744073709551616)%Z -> mp_int_value (mp_write_int z) = Some z.
Proof.
  intros Hz. unfold mp_write_int.
  destruct (Z.leb_spec 0 z) as [Hp|Hn].
  - unfold mp_write_uint. cbv zeta.
    assert (En : Z.of_N (Z.to_N z) = z) by (apply Z2N.id; exact Hp).
    assert (Hn : Z.to_N z < 18446744073709551616) by lia.
    revert En Hn. generalize (Z.to_N z) as n. intros n En Hn.
    destruct (N.ltb_spec n 0x80) as [H1|H1].
    { cbn [mp_int_value]. unfold mp_int_body. destruct (N.ltb_spec n 0x80); [|lia]. rewrite En. reflexivity. }
    destruct (N.ltb_spec n 0x100) as [H2|H2].
    { cbn [mp_int_value]. rewrite body_cc, be1_eq. f_equal. lia. }
    destruct (N.ltb_spec n 0x10000) as [H3|H3].
    { cbn [mp_int_value]. rewrite body_cd, be2_eq, (val2_be2 n H3), En. reflexivity. }
    destruct (N.ltb_spec n 0x100000000) as [H4|H4].
    { cbn [mp_int_value]. rewrite body_ce, be4_eq, (val4_be4 n H4), En. reflexivity. }
    cbn [mp_int_value]. rewrite body_cf.
    destruct (be8_eq n) as (a & b & c & d & e & f & g & h & E8 & _).
    rewrite E8, (val8_of_be8 n _ _ _ _ _ _ _ _ Hn E8), En. reflexivity.
  - destruct (Z.leb_spec (-32) z) as [H1|H1].
    { cbn [mp_int_value]. unfold mp_int_body.
      destruct (N.ltb_spec (Z.to_N (z + 256)) 0x80); [lia|].
      destruct (N.leb_spec 0xe0 (Z.to_N (z + 256))); [|lia]. f_equal. lia. }
    destruct (Z.leb_spec (-128) z) as [H2|H2].
    { cbn [mp_int_value]. rewrite body_d0, be1_eq.
      rewrite N.mod_small by lia. rewrite (to_signed_neg 128 256 z) by lia. reflexivity. }
    destruct (Z.leb_spec (-32768) z) as [H3|H3].
    { cbn [mp_int_value]. rewrite body_d1, be2_eq, val2_be2 by lia.
      rewrite (to_signed_neg 32768 65536 z) by lia. reflexivity. }
    destruct (Z.leb_spec (-2147483648) z) as [H4|H4].
    { cbn [mp_int_value]. rewrite body_d2, be4_eq, val4_be4 by lia.
      rewrite (to_signed_neg 2147483648 4294967296 z) by lia. reflexivity. }
    cbn [mp_int_value]. rewrite body_d3.
    destruct (be8_eq (Z.to_N (z + 18446744073709551616))) as (a & b & c & d & e & f & g & h & E8 & _).
    assert (Hv : Z.to_N (z + 18446744073709551616) < 18446744073709551616) by lia.
    rewrite E8, (val8_of_be8 _ _ _ _ _ _ _ _ _ Hv E8).
    rewrite (to_signed_neg 9223372036854775808 18446744073709551616 z) by lia. reflexivity.
Qed.

(* (M4) the written integer: one of the five forms, the one its first byte announces; bytes *)
Theorem mp_write_int_wf (z : Z) :
  exists m r, mp_write_int z = m :: r /\
              List.length (m :: r) = mp_int_len m /\
              In (List.length (m :: r)) [1; 2; 3; 5; 9]%nat /\
              Forall (fun b => b < 256) (m :: r).
Proof.
  unfold mp_write_int.
  destruct (Z.leb_spec 0 z) as [Hp|Hn].
  - unfold mp_write_uint. cbv zeta. generalize (Z.to_N z) as n. intros n.
    destruct (N.ltb_spec n 0x80) as [H1|H1].
    { exists n, []. split; [reflexivity|]. split.
      - unfold mp_int_len. destruct (N.ltb_spec n 0x80); [reflexivity|lia].
      - split; [cbn; tauto|]. repeat constructor. lia. }
    destruct (N.ltb_spec n 0x100) as [H2|H2].
    { eexists; eexists. split; [reflexivity|]. split; [reflexivity|]. split; [cbn; tauto|].
      constructor; [reflexivity|apply be1_bytes]. }
    destruct (N.ltb_spec n 0x10000) as [H3|H3].
    { eexists; eexists. split; [reflexivity|]. split; [reflexivity|]. split; [cbn; tauto|].
      constructor; [reflexivity|apply be2_bytes]. }
    destruct (N.ltb_spec n 0x100000000) as [H4|H4].
    { eexists; eexists. split; [reflexivity|]. split; [reflexivity|]. split; [cbn; tauto|].
      constructor; [reflexivity|apply be4_bytes]. }
    eexists; eexists. split; [reflexivity|]. split; [reflexivity|]. split; [cbn; tauto|].
    constructor; [reflexivity|apply be8_bytes].
  - destruct (Z.leb_spec (-32) z) as [H1|H1].
    { eexists; eexists. split; [reflexivity|]. split.
      - unfold mp_int_len. destruct (N.ltb_spec (Z.to_N (z + 256)) 0x80); [reflexivity|].
        destruct (N.leb_spec 0xe0 (Z.to_N (z + 256))); [reflexivity|lia].
      - split; [cbn; tauto|]. repeat constructor. lia. }
    destruct (Z.leb_spec (-128) z) as [H2|H2].
    { eexists; eexists. split; [reflexivity|]. split; [reflexivity|]. split; [cbn; tauto|].
      constructor; [reflexivity|apply be1_bytes]. }
    destruct (Z.leb_spec (-32768) z) as [H3|H3].
    { eexists; eexists. split; [reflexivity|]. split; [reflexivity|]. split; [cbn; tauto|].
      constructor; [reflexivity|apply be2_bytes]. }
    destruct (Z.leb_spec (-2147483648) z) as [H4|H4].
    { eexists; eexists. split; [reflexivity|]. split; [reflexivity|]. split; [cbn; tauto|].
      constructor; [reflexivity|apply be4_bytes]. }
    eexists; eexists. split; [reflexivity|]. split; [reflexivity|]. split; [cbn; tauto|].
    constructor; [reflexivity|apply be8_bytes].
Qed.

Corollary mp_write_int_bytes (z : Z) : all_bytes (mp_write_int z) = true.
Proof.
  destruct (mp_write_int_wf z) as (m & r & E & _ & _ & Hb). rewrite E. apply all_bytes_iff. exact Hb.
Qed.

(* a type of at most 64 bits holds only values that write_sint / write_uint take *)
Lemma in_ty_64 (t : int_ty) (z : Z) :
  in_ty t z = true -> (bits t <= 64)%Z -> (- 9223372036854775808 <= z < 18446744073709551616)%Z.
Proof.
  unfold in_ty, in_range, ity_min, ity_max. rewrite andb_true_iff, !Z.leb_le. intros [Hlo Hhi] Hb.
  pose proof (Z.pow_le_mono_r 2 (bits t) 64 ltac:(lia) Hb) as P1.
  pose proof (Z.pow_le_mono_r 2 (bits t - 1) 63 ltac:(lia) ltac:(lia)) as P2.
  change (2 ^ 64)%Z with 18446744073709551616%Z in P1.
  change (2 ^ 63)%Z with 9223372036854775808%Z in P2.
  destruct (signed t); lia.
Qed.

(* (M1) from_slice(to_vec(z)) = Ok(z) for every z of a type of at most 64 bits *)
Theorem mp_read_write_int (t : int_ty) (z : Z) :
  in_ty t z = true -> (bits t <= 64)%Z -> mp_read_int t (mp_write_int z) = Some z.
Proof.
  intros Hin Hb. unfold mp_read_int. rewrite mp_write_int_bytes.
  destruct (Z.leb_spec (bits t) 64) as [_|Hbad]; [|lia]. cbn [andb].
  rewrite (mp_int_value_write z (in_ty_64 t z Hin Hb)). cbn [obind]. rewrite Hin. reflexivity.
Qed.

(* (M2) the reader never yields a value outside the type *)
Theorem mp_read_int_sound (t : int_ty) (b : list N) (z : Z) :
  mp_read_int t b = Some z -> in_ty t z = true.
Proof.
  unfold mp_read_int. destruct (all_bytes b && (bits t <=? 64)%Z); [|discriminate].
  destruct (mp_int_value b) as [v|]; [|discriminate]. cbn [obind].
  destruct (in_ty t v) eqn:E; [|discriminate]. intros H. injection H as <-. exact E.
Qed.

(* ------------------------------------------------------------------ strings *)

Lemma split_d9 r : mp_str_split (0xd9 :: r) = match r with a :: p => Some (a, p) | _ => None end.
Proof. reflexivity. Qed.
Lemma split_da r :
  mp_str_split (0xda :: r) = match r with a :: b :: p => Some (val2 a b, p) | _ => None end.
Proof. reflexivity. Qed.
Lemma split_db r :
  mp_str_split (0xdb :: r)
  = match r with a :: b :: c :: d :: p => Some (val4 a b c d, p) | _ => None end.
Proof. reflexivity. Qed.

Lemma mp_str_split_header (len : N) (p : list N) :
  len < 4294967296 -> mp_str_split (mp_str_header len ++ p) = Some (len, p).
Proof.
  intros Hlen. unfold mp_str_header.
  destruct (N.ltb_spec len 32) as [H1|H1].
  { cbn [List.app mp_str_split].
    destruct (N.leb_spec 0xa0 (0xa0 + len)); [|lia].
    destruct (N.ltb_spec (0xa0 + len) 0xc0); [|lia]. cbn [andb]. f_equal. f_equal. lia. }
  destruct (N.ltb_spec len 0x100) as [H2|H2].
  { rewrite be1_eq. cbn [List.app]. rewrite split_d9. f_equal. f_equal. lia. }
  destruct (N.ltb_spec len 0x10000) as [H3|H3].
  { rewrite be2_eq. cbn [List.app]. rewrite split_da, (val2_be2 len H3). reflexivity. }
  rewrite be4_eq. cbn [List.app]. rewrite split_db, (val4_be4 len Hlen). reflexivity.
Qed.

Lemma mp_str_header_bytes (len : N) : Forall (fun b => b < 256) (mp_str_header len).
Proof.
  unfold mp_str_header.
  destruct (N.ltb_spec len 32) as [H1|H1]; [repeat constructor; lia|].
  destruct (N.ltb_spec len 0x100) as [H2|H2]; [constructor; [reflexivity|apply be1_bytes]|].
  destruct (N.ltb_spec len 0x10000) as [H3|H3]; [constructor; [reflexivity|apply be2_bytes]|].
  constructor; [reflexivity|apply be4_bytes].
Qed.

(* the written string is a list of bytes *)
Theorem mp_write_str_bytes (s : list N) :
  Forall (fun c => scalar c = true) s -> Forall (fun b => b < 256) (mp_write_str s).
Proof.
  intros Hs. unfold mp_write_str. cbv zeta. apply Forall_app. split.
  - apply mp_str_header_bytes.
  - exact (utf8_encode_bytes s Hs).
Qed.

(* (M3) from_slice(to_vec(s)) = Ok(s) for every string whose UTF-8 form is shorter than 2^32 bytes *)
Theorem mp_read_write_str (s : list N) :
  Forall (fun c => scalar c = true) s ->
  N.of_nat (List.length (utf8_encode s)) < 4294967296 ->
  mp_read_str (mp_write_str s) = Some s.
Proof.
  intros Hs Hlen. unfold mp_read_str.
  rewrite (proj2 (all_bytes_iff _) (mp_write_str_bytes s Hs)).
  unfold mp_write_str. cbv zeta. rewrite (mp_str_split_header _ _ Hlen). cbn [obind].
  rewrite N.eqb_refl. exact (utf8_decode_encode s Hs).
Qed.

(* the reader returns strings of scalar values only, and the payload it read is their UTF-8 form *)
Theorem mp_read_str_sound (b s : list N) :
  mp_read_str b = Some s ->
  Forall (fun c => scalar c = true) s /\
  exists len, mp_str_split b = Some (len, utf8_encode s) /\ len = N.of_nat (List.length (utf8_encode s)).
Proof.
  unfold mp_read_str. destruct (all_bytes b); [|discriminate].
  destruct (mp_str_split b) as [[len p]|]; [|discriminate]. cbn [obind].
  destruct (N.eqb_spec (N.of_nat (List.length p)) len) as [E|E]; [|discriminate].
  intros H. split; [exact (utf8_decode_scalar p s H)|].
  rewrite (utf8_encode_decode p s H). exists len. split; [reflexivity|]. symmetry. exact E.
Qed.

(* ------------------------------------------------------------------ minimality *)

(* the number of bytes write_sint / write_uint spend on a value *)
Definition mp_min_len (z : Z) : nat :=
  if ((-32 <=? z) && (z <? 128))%Z then 1
  else if ((-128 <=? z) && (z <? 256))%Z then 2
  else if ((-32768 <=? z) && (z <? 65536))%Z then 3
  else if ((-2147483648 <=? z) && (z <? 4294967296))%Z then 5
  else 9.

Lemma mp_write_int_length (z : Z) : List.length (mp_write_int z) = mp_min_len z.
Proof.
  unfold mp_write_int, mp_min_len.
  destruct (Z.leb_spec 0 z) as [Hp|Hn].
  - unfold mp_write_uint. cbv zeta.
    destruct (N.ltb_spec (Z.to_N z) 0x80) as [H1|H1];
      [|destruct (N.ltb_spec (Z.to_N z) 0x100) as [H2|H2];
        [|destruct (N.ltb_spec (Z.to_N z) 0x10000) as [H3|H3];
          [|destruct (N.ltb_spec (Z.to_N z) 0x100000000) as [H4|H4]]]];
      cbn [List.length be1 be2 be4 be8 List.app];
      destruct (Z.leb_spec (-32) z); destruct (Z.ltb_spec z 128); try lia; cbn [andb];
      destruct (Z.leb_spec (-128) z); destruct (Z.ltb_spec z 256); try lia; cbn [andb];
      destruct (Z.leb_spec (-32768) z); destruct (Z.ltb_spec z 65536); try lia; cbn [andb];
      destruct (Z.leb_spec (-2147483648) z); destruct (Z.ltb_spec z 4294967296); try lia; cbn [andb];
      reflexivity.
  - destruct (Z.leb_spec (-32) z) as [H1|H1].
    { destruct (Z.ltb_spec z 128); [reflexivity|lia]. }
    cbn [andb].
    destruct (Z.leb_spec (-128) z) as [H2|H2].
    { destruct (Z.ltb_spec z 256); [reflexivity|lia]. }
    cbn [andb].
    destruct (Z.leb_spec (-32768) z) as [H3|H3].
    { destruct (Z.ltb_spec z 65536); [reflexivity|lia]. }
    cbn [andb].
    destruct (Z.leb_spec (-2147483648) z) as [H4|H4].
    { destruct (Z.ltb_spec z 4294967296); [reflexivity|lia]. }
    reflexivity.
Qed.

Lemma mp_min_len_le (z : Z) :
  ((-32 <= z < 128)%Z -> mp_min_len z = 1%nat) /\
  ((-128 <= z < 256)%Z -> (mp_min_len z <= 2)%nat) /\
  ((-32768 <= z < 65536)%Z -> (mp_min_len z <= 3)%nat) /\
  ((-2147483648 <= z < 4294967296)%Z -> (mp_min_len z <= 5)%nat) /\
  (mp_min_len z <= 9)%nat.
Proof.
  unfold mp_min_len.
  destruct (Z.leb_spec (-32) z); destruct (Z.ltb_spec z 128); cbn [andb];
    destruct (Z.leb_spec (-128) z); destruct (Z.ltb_spec z 256); cbn [andb];
    destruct (Z.leb_spec (-32768) z); destruct (Z.ltb_spec z 65536); cbn [andb];
    destruct (Z.leb_spec (-2147483648) z); destruct (Z.ltb_spec z 4294967296); cbn [andb];
    repeat split; intros; lia.
Qed.

Lemma to_signed_range (half : Z) (v : N) :
  (0 < half)%Z -> (Z.of_N v < 2 * half)%Z -> (- half <= to_signed half v < half)%Z.
Proof. intros Hh Hv. unfold to_signed. cbv zeta. destruct (Z.ltb_spec (Z.of_N v) half); lia. Qed.

Lemma val2_bound (a b : N) : a < 256 -> b < 256 -> val2 a b < 65536.
Proof. unfold val2. lia. Qed.
Lemma val4_bound (a b c d : N) : a < 256 -> b < 256 -> c < 256 -> d < 256 -> val4 a b c d < 4294967296.
Proof.
  intros Ha Hb Hc Hd. unfold val4.
  pose proof (val2_bound a b Ha Hb). pose proof (val2_bound c d Hc Hd). lia.
Qed.

Lemma bytes_inv (a : N) (r : list N) :
  Forall (fun b => b < 256) (a :: r) -> a < 256 /\ Forall (fun b => b < 256) r.
Proof. intros H. split; [exact (Forall_inv H) | exact (Forall_inv_tail H)]. Qed.

Ltac bytes_split H :=
  repeat (let Hx := fresh "Hbyte" in apply bytes_inv in H; destruct H as [Hx H]).

(* (M4, minimality) no document that denotes [z] is shorter than the one written *)
Theorem mp_write_int_minimal (b : list N) (z : Z) :
  all_bytes b = true -> mp_int_value b = Some z ->
  (List.length (mp_write_int z) <= List.length b)%nat.
Proof.
  intros Hb Hv. rewrite mp_write_int_length.
  destruct (mp_min_len_le z) as (L1 & L2 & L3 & L5 & L9).
  destruct b as [|m r]; [discriminate|]. apply all_bytes_iff in Hb.
  cbn [mp_int_value] in Hv. unfold mp_int_body in Hv.
  apply bytes_inv in Hb. destruct Hb as [Hm Hb].
  destruct (N.ltb_spec m 0x80) as [M1|M1].
  { destruct r; [|discriminate]. injection Hv as <-. rewrite L1 by lia. cbn [List.length]. lia. }
  destruct (N.leb_spec 0xe0 m) as [M2|M2].
  { destruct r; [|discriminate]. injection Hv as <-. rewrite L1 by lia. cbn [List.length]. lia. }
  destruct (N.eqb_spec m 0xcc) as [->|_].
  { destruct r as [|a [|? ?]]; try discriminate. injection Hv as <-. bytes_split Hb. cbn [List.length]. lia. }
  destruct (N.eqb_spec m 0xcd) as [->|_].
  { destruct r as [|a [|b' [|? ?]]]; try discriminate. injection Hv as <-. bytes_split Hb.
    pose proof (val2_bound a b'). cbn [List.length]. lia. }
  destruct (N.eqb_spec m 0xce) as [->|_].
  { destruct r as [|a [|b' [|c [|d [|? ?]]]]]; try discriminate. injection Hv as <-. bytes_split Hb.
    pose proof (val4_bound a b' c d). cbn [List.length]. lia. }
  destruct (N.eqb_spec m 0xcf) as [->|_].
  { destruct r as [|a [|b' [|c [|d [|e [|f [|g [|h [|? ?]]]]]]]]]; try discriminate.
    cbn [List.length]. lia. }
  destruct (N.eqb_spec m 0xd0) as [->|_].
  { destruct r as [|a [|? ?]]; try discriminate. injection Hv as <-. bytes_split Hb. pose proof (to_signed_range 128 a). cbn [List.length]. lia. }
  destruct (N.eqb_spec m 0xd1) as [->|_].
  { destruct r as [|a [|b' [|? ?]]]; try discriminate. injection Hv as <-. bytes_split Hb.
    pose proof (val2_bound a b'). pose proof (to_signed_range 32768 (val2 a b')).
    cbn [List.length]. lia. }
  destruct (N.eqb_spec m 0xd2) as [->|_].
  { destruct r as [|a [|b' [|c [|d [|? ?]]]]]; try discriminate. injection Hv as <-. bytes_split Hb.
    pose proof (val4_bound a b' c d). pose proof (to_signed_range 2147483648 (val4 a b' c d)).
    cbn [List.length]. lia. }
  destruct (N.eqb_spec m 0xd3) as [->|_]; [|discriminate].
  destruct r as [|a [|b' [|c [|d [|e [|f [|g [|h [|? ?]]]]]]]]]; try discriminate.
  cbn [List.length]. lia.
Qed.

(* every document that reads as an integer has the length its first byte announces *)
Theorem mp_int_value_length (b : list N) (z : Z) :
  mp_int_value b = Some z -> exists m r, b = m :: r /\ List.length b = mp_int_len m.
Proof.
  destruct b as [|m r]; [discriminate|]. cbn [mp_int_value]. unfold mp_int_body, mp_int_len.
  intros Hv. exists m, r. split; [reflexivity|].
  destruct (N.ltb_spec m 0x80) as [M1|M1]; [destruct r; [reflexivity|discriminate]|].
  destruct (N.leb_spec 0xe0 m) as [M2|M2]; [destruct r; [reflexivity|discriminate]|]. cbn [orb].
  destruct (N.eqb_spec m 0xcc) as [->|_];
    [destruct r as [|a [|? ?]]; try discriminate; reflexivity|].
  destruct (N.eqb_spec m 0xcd) as [->|_];
    [destruct r as [|a [|b' [|? ?]]]; try discriminate; reflexivity|].
  destruct (N.eqb_spec m 0xce) as [->|_];
    [destruct r as [|a [|b' [|c [|d [|? ?]]]]]; try discriminate; reflexivity|].
  destruct (N.eqb_spec m 0xcf) as [->|_];
    [destruct r as [|a [|b' [|c [|d [|e [|f [|g [|h [|? ?]]]]]]]]]; try discriminate; reflexivity|].
  destruct (N.eqb_spec m 0xd0) as [->|_];
    [destruct r as [|a [|? ?]]; try discriminate; reflexivity|].
  destruct (N.eqb_spec m 0xd1) as [->|_];
    [destruct r as [|a [|b' [|? ?]]]; try discriminate; reflexivity|].
  destruct (N.eqb_spec m 0xd2) as [->|_];
    [destruct r as [|a [|b' [|c [|d [|? ?]]]]]; try discriminate; reflexivity|].
  destruct (N.eqb_spec m 0xd3) as [->|_]; [|discriminate].
  destruct r as [|a [|b' [|c [|d [|e [|f [|g [|h [|? ?]]]]]]]]]; try discriminate; reflexivity.
Qed.

(* ------------------------------------------------------------------ strings: every header *)

(* the headers the reader takes for a payload of [len] bytes: the str forms wide enough for the
   length (minimal or not) and the bin forms *)
Definition mp_str_header_ok (len : N) (h : list N) : Prop :=
  (len < 32 /\ h = [0xa0 + len]) \/
  (len < 256 /\ (h = [0xd9; len] \/ h = [0xc4; len])) \/
  (len < 65536 /\ (h = 0xda :: be2 len \/ h = 0xc5 :: be2 len)) \/
  (len < 4294967296 /\ (h = 0xdb :: be4 len \/ h = 0xc6 :: be4 len)).

Lemma mp_str_split_any (len : N) (h p : list N) :
  mp_str_header_ok len h ->
  mp_str_split (h ++ p) = Some (len, p) /\ Forall (fun b => b < 256) h.
Proof.
  intros [[H ->]|[[H [->| ->]]|[[H [->| ->]]|[H [->| ->]]]]].
  - split; [|repeat constructor; lia]. cbn [List.app mp_str_split].
    destruct (N.leb_spec 0xa0 (0xa0 + len)); [|lia].
    destruct (N.ltb_spec (0xa0 + len) 0xc0); [|lia]. cbn [andb]. f_equal. f_equal. lia.
  - split; [reflexivity|repeat constructor; lia].
  - split; [reflexivity|repeat constructor; lia].
  - split; [|constructor; [reflexivity|apply be2_bytes]].
    rewrite be2_eq. cbn [List.app]. rewrite split_da, (val2_be2 len H). reflexivity.
  - split; [|constructor; [reflexivity|apply be2_bytes]].
    rewrite be2_eq. cbn [List.app]. change (mp_str_split (0xc5 :: ?r)) with (mp_str_split (0xda :: r)).
    rewrite split_da, (val2_be2 len H). reflexivity.
  - split; [|constructor; [reflexivity|apply be4_bytes]].
    rewrite be4_eq. cbn [List.app]. rewrite split_db, (val4_be4 len H). reflexivity.
  - split; [|constructor; [reflexivity|apply be4_bytes]].
    rewrite be4_eq. cbn [List.app]. change (mp_str_split (0xc6 :: ?r)) with (mp_str_split (0xdb :: r)).
    rewrite split_db, (val4_be4 len H). reflexivity.
Qed.

(* the reader takes the UTF-8 bytes of a string behind any of these headers: a non-minimal str
   header, or a byte buffer *)
Theorem mp_read_str_any_header (s h : list N) :
  Forall (fun c => scalar c = true) s ->
  mp_str_header_ok (N.of_nat (List.length (utf8_encode s))) h ->
  mp_read_str (h ++ utf8_encode s) = Some s.
Proof.
  intros Hs Hh. destruct (mp_str_split_any _ h (utf8_encode s) Hh) as [Hsplit Hb].
  unfold mp_read_str.
  assert (Hall : all_bytes (h ++ utf8_encode s) = true).
  { apply all_bytes_iff. apply Forall_app. split; [exact Hb | exact (utf8_encode_bytes s Hs)]. }
  rewrite Hall, Hsplit. cbn [obind]. rewrite N.eqb_refl. exact (utf8_decode_encode s Hs).
Qed.

(* ------------------------------------------------------------------ the format of Sem.Serde *)

Lemma mp_unwrap_wrap (n : string) (x : list N) : mp_unwrap n (mp_wrap n x) = Some x.
Proof. reflexivity. Qed.

(* the hypothesis [de_inner (ser_inner v) = Some v] of the abstract round trip, for MessagePack *)
Theorem mp_inner_roundtrip (fam : family) (v : value) :
  mp_storable fam v = true -> mp_de_inner fam (mp_ser_inner v) = Some v.
Proof.
  unfold mp_storable, mp_de_inner, mp_ser_inner.
  destruct fam as [|tn t|is64|tyname]; destruct v as [z|bits|s|l]; try discriminate.
  - rewrite andb_true_iff, N.ltb_lt, forallb_forall. intros [Hs Hlen].
    rewrite (mp_read_write_str s (proj2 (Forall_forall _ s) Hs) Hlen). reflexivity.
  - rewrite andb_true_iff, Z.leb_le. intros [Hin Hb].
    rewrite (mp_read_write_int t z Hin Hb). reflexivity.
Qed.

Section MsgPackSerde.
  Variable lib : fnlib.

  Notation mp_deser d := (deserialize lib (list N) (mp_de_inner (d_family d)) mp_unwrap d).
  Notation mp_ser d := (serialize (list N) mp_ser_inner mp_wrap d).

  (* (M6) C10 with the concrete MessagePack bytes: Lemmas.SerdeLemmas.roundtrip without its
     hypothesis on the inner value's own round trip *)
  Theorem mp_roundtrip (d : decl) (raw v : value) :
    has_trait TrDeserialize (d_traits d) = true ->
    idempotent_on lib d -> comparable d (spec_sanitize lib d raw) = true ->
    construct lib d raw = OOk v ->
    mp_storable (d_family d) v = true ->
    mp_deser d (mp_ser d v) = OOk v.
  Proof.
    intros Ht Hid Hc Hob Hst.
    apply (roundtrip lib (list N) (mp_de_inner (d_family d)) mp_ser_inner mp_wrap mp_unwrap
                     mp_unwrap_wrap d raw v Ht Hid Hc Hob).
    apply mp_inner_roundtrip. exact Hst.
  Qed.

  (* String newtypes *)
  Corollary mp_roundtrip_string (d : decl) (raw : value) (s : list N) :
    d_family d = FStr ->
    has_trait TrDeserialize (d_traits d) = true ->
    idempotent_on lib d -> comparable d (spec_sanitize lib d raw) = true ->
    construct lib d raw = OOk (VS s) ->
    Forall (fun c => scalar c = true) s -> N.of_nat (List.length (utf8_encode s)) < 4294967296 ->
    mp_deser d (mp_ser d (VS s)) = OOk (VS s).
  Proof.
    intros Hf Ht Hid Hc Hob Hs Hlen. apply (mp_roundtrip d raw (VS s) Ht Hid Hc Hob).
    rewrite Hf. unfold mp_storable. rewrite andb_true_iff, N.ltb_lt, forallb_forall.
    split; [exact (proj1 (Forall_forall _ s) Hs) | exact Hlen].
  Qed.

  (* integer newtypes of at most 64 bits *)
  Corollary mp_roundtrip_int (d : decl) (tn : string) (t : int_ty) (raw : value) (z : Z) :
    d_family d = FInt tn t ->
    has_trait TrDeserialize (d_traits d) = true ->
    idempotent_on lib d -> comparable d (spec_sanitize lib d raw) = true ->
    construct lib d raw = OOk (VI z) -> in_ty t z = true -> (bits t <= 64)%Z ->
    mp_deser d (mp_ser d (VI z)) = OOk (VI z).
  Proof.
    intros Hf Ht Hid Hc Hob Hin Hb. apply (mp_roundtrip d raw (VI z) Ht Hid Hc Hob).
    rewrite Hf. unfold mp_storable. rewrite andb_true_iff, Z.leb_le. split; [exact Hin | exact Hb].
  Qed.

  (* the written document of a newtype is the inner value's own MessagePack form *)
  Theorem mp_serialize_transparent (d : decl) (v : value) : mp_ser d v = mp_ser_inner v.
  Proof. reflexivity. Qed.
End MsgPackSerde.

(* ------------------------------------------------------------------ examples (M5) *)

Definition mp_u8 : int_ty := {| signed := false; bits := 8 |}.
Definition mp_i8 : int_ty := {| signed := true; bits := 8 |}.
Definition mp_i64 : int_ty := {| signed := true; bits := 64 |}.
Definition mp_u64 : int_ty := {| signed := false; bits := 64 |}.
Definition mp_i128 : int_ty := {| signed := true; bits := 128 |}.

Example ex_mp_5 : mp_write_int 5 = [5].
Proof. vm_compute. reflexivity. Qed.
Example ex_mp_200 : mp_write_int 200 = [0xcc; 200].
Proof. vm_compute. reflexivity. Qed.
Example ex_mp_m5 : mp_write_int (-5) = [0xfb].
Proof. vm_compute. reflexivity. Qed.
Example ex_mp_m33 : mp_write_int (-33) = [0xd0; 0xdf].
Proof. vm_compute. reflexivity. Qed.
Example ex_mp_256 : mp_write_int 256 = [0xcd; 1; 0].
Proof. vm_compute. reflexivity. Qed.
Example ex_mp_65536 : mp_write_int 65536 = [0xce; 0; 1; 0; 0].
Proof. vm_compute. reflexivity. Qed.
Example ex_mp_i64_min :
  mp_write_int (-9223372036854775808) = [0xd3; 0x80; 0; 0; 0; 0; 0; 0; 0].
Proof. vm_compute. reflexivity. Qed.
Example ex_mp_u64_max :
  mp_write_int 18446744073709551615 = [0xcf; 255; 255; 255; 255; 255; 255; 255; 255].
Proof. vm_compute. reflexivity. Qed.
Example ex_mp_m2p31m1 :
  mp_write_int (-2147483649) = [0xd3; 255; 255; 255; 255; 127; 255; 255; 255].
Proof. vm_compute. reflexivity. Qed.

(* "aB", "ß" (U+00DF) *)
Example ex_mp_str_aB : mp_write_str [0x61; 0x42] = [0xa2; 0x61; 0x42].
Proof. vm_compute. reflexivity. Qed.
Example ex_mp_str_sharp_s : mp_write_str [223] = [0xa2; 0xc3; 0x9f].
Proof. vm_compute. reflexivity. Qed.

(* a bin 8 buffer read as a string: valid UTF-8 is accepted, anything else refused *)
Example ex_mp_read_bin : mp_read_str [0xc4; 2; 0xc3; 0x9f] = Some [223].
Proof. vm_compute. reflexivity. Qed.
Example ex_mp_read_bin_invalid : mp_read_str [0xc4; 2; 0xff; 0xfe] = None.
Proof. vm_compute. reflexivity. Qed.
(* a non-minimal header (str 16 for two bytes), a length that is not the number of bytes left *)
Example ex_mp_read_str16 : mp_read_str [0xda; 0; 2; 0xc3; 0x9f] = Some [223].
Proof. vm_compute. reflexivity. Qed.
Example ex_mp_read_short : mp_read_str [0xa3; 0x61; 0x42] = None.
Proof. vm_compute. reflexivity. Qed.
Example ex_mp_read_trailing : mp_read_str [0xa1; 0x61; 0x42] = None.
Proof. vm_compute. reflexivity. Qed.

(* the value decides, not the marker *)
Example ex_mp_read_cc_i8 : mp_read_int mp_i8 [0xcc; 200] = None.
Proof. vm_compute. reflexivity. Qed.
Example ex_mp_read_cc_u8 : mp_read_int mp_u8 [0xcc; 200] = Some 200%Z.
Proof. vm_compute. reflexivity. Qed.
Example ex_mp_read_nonminimal : mp_read_int mp_i8 [0xd0; 0xfb] = Some (-5)%Z.
Proof. vm_compute. reflexivity. Qed.
Example ex_mp_read_neg_u8 : mp_read_int mp_u8 [0xd0; 0xfb] = None.
Proof. vm_compute. reflexivity. Qed.
Example ex_mp_read_d3_u8 : mp_read_int mp_u8 [0xd3; 0; 0; 0; 0; 0; 0; 0; 7] = Some 7%Z.
Proof. vm_compute. reflexivity. Qed.
Example ex_mp_read_trailing_int : mp_read_int mp_u8 [5; 0] = None.
Proof. vm_compute. reflexivity. Qed.
Example ex_mp_read_i128 : mp_read_int mp_i128 [5] = None.
Proof. vm_compute. reflexivity. Qed.

(* UTF-8: U+007F U+0080 U+07FF U+0800 U+FFFF U+10000 U+10FFFF *)
Example ex_utf8_boundaries :
  utf8_encode [0x7f; 0x80; 0x7ff; 0x800; 0xffff; 0x10000; 0x10ffff]
  = [0x7f; 0xc2; 0x80; 0xdf; 0xbf; 0xe0; 0xa0; 0x80; 0xef; 0xbf; 0xbf; 0xf0; 0x90; 0x80; 0x80;
     0xf4; 0x8f; 0xbf; 0xbf].
Proof. vm_compute. reflexivity. Qed.
(* overlong forms, a surrogate, above U+10FFFF, a stray continuation byte, a truncated sequence *)
Example ex_utf8_overlong2 : utf8_decode [0xc0; 0x80] = None.
Proof. vm_compute. reflexivity. Qed.
Example ex_utf8_overlong3 : utf8_decode [0xe0; 0x9f; 0xbf] = None.
Proof. vm_compute. reflexivity. Qed.
Example ex_utf8_overlong4 : utf8_decode [0xf0; 0x8f; 0xbf; 0xbf] = None.
Proof. vm_compute. reflexivity. Qed.
Example ex_utf8_surrogate : utf8_decode [0xed; 0xa0; 0x80] = None.
Proof. vm_compute. reflexivity. Qed.
Example ex_utf8_too_large : utf8_decode [0xf4; 0x90; 0x80; 0x80] = None.
Proof. vm_compute. reflexivity. Qed.
Example ex_utf8_stray : utf8_decode [0x61; 0x80] = None.
Proof. vm_compute. reflexivity. Qed.
Example ex_utf8_truncated : utf8_decode [0xe2; 0x82] = None.
Proof. vm_compute. reflexivity. Qed.
Example ex_utf8_edges : utf8_decode [0xed; 0x9f; 0xbf; 0xee; 0x80; 0x80] = Some [0xd7ff; 0xe000].
Proof. vm_compute. reflexivity. Qed.

Print Assumptions utf8_decode_encode.
Print Assumptions utf8_encode_decode.
Print Assumptions mp_read_write_int.
Print Assumptions mp_read_write_str.
Print Assumptions mp_write_int_minimal.
Print Assumptions mp_inner_roundtrip.
