(* Order-theoretic facts about IEEE-754 comparison on bit patterns ([fcmp] of Base/Float.v).
   Everything is proved on [SpecFloat.SFcompare] by case analysis on the constructors and
   lexicographic reasoning on (exponent, mantissa); no real numbers are involved in the proofs.
   The generic lemmas (levels 0 and 1) are closed under the global context.  The bit-pattern
   theorems (level 2) report the four standard-library axioms of the real-number development
   only because Flocq's own [b32_of_bits]/[b64_of_bits] (which occur in the STATEMENTS through
   [fcmp]) depend on them. *)
From Coq Require Import ZArith Lia List Bool.
From NV Require Import Base.Util Base.FloatBits Base.Float.
From Flocq Require Import Core IEEE754.BinarySingleNaN IEEE754.Binary IEEE754.Bits.
From Coq Require Import Floats.SpecFloat.
Local Open Scope Z_scope.

(* ------------------------------------------------------------------ *)
(* Level 0: spec_float                                                 *)
(* ------------------------------------------------------------------ *)

Definition sf_is_nan (a : spec_float) : bool :=
  match a with S754_nan => true | _ => false end.

Lemma SFcompare_none_iff : forall a b,
  SFcompare a b = None <-> sf_is_nan a = true \/ sf_is_nan b = true.
Proof.
  intros [sa|sa| |sa ma ea] [sb|sb| |sb mb eb]; simpl; split; intros H;
    try reflexivity; try discriminate H; try (now left); try (now right);
    destruct H as [H|H]; discriminate H.
Qed.

Lemma SFcompare_refl : forall a, sf_is_nan a = false -> SFcompare a a = Some Eq.
Proof.
  intros [sa|sa| |sa ma ea]; simpl; intros H; try discriminate; try reflexivity.
  - now destruct sa.
  - rewrite Z.compare_refl.
    change (Pos.compare_cont Eq ma ma) with (Pos.compare ma ma).
    rewrite Pos.compare_refl. now destruct sa.
Qed.

Lemma SFcompare_swap : forall a b,
  SFcompare b a = match SFcompare a b with Some c => Some (CompOpp c) | None => None end.
Proof.
  intros [sa|[|]| |[|] ma ea] [sb|[|]| |[|] mb eb]; simpl; try reflexivity.
  - rewrite (Z.compare_antisym ea eb). destruct (ea ?= eb); simpl; try reflexivity.
    change (Pos.compare_cont Eq mb ma) with (Pos.compare mb ma).
    change (Pos.compare_cont Eq ma mb) with (Pos.compare ma mb).
    now rewrite (Pos.compare_antisym ma mb).
  - rewrite (Z.compare_antisym ea eb). destruct (ea ?= eb); simpl; try reflexivity.
    change (Pos.compare_cont Eq mb ma) with (Pos.compare mb ma).
    change (Pos.compare_cont Eq ma mb) with (Pos.compare ma mb).
    now rewrite (Pos.compare_antisym ma mb).
Qed.

(* lexicographic comparison of magnitudes (exponent first, then mantissa) *)
Definition magcmp (e1 : Z) (m1 : positive) (e2 : Z) (m2 : positive) : comparison :=
  match e1 ?= e2 with Eq => Pos.compare m1 m2 | Lt => Lt | Gt => Gt end.

Lemma magcmp_Lt : forall e1 m1 e2 m2,
  magcmp e1 m1 e2 m2 = Lt <-> (e1 < e2 \/ (e1 = e2 /\ (m1 < m2)%positive)).
Proof.
  intros. unfold magcmp.
  destruct (Z.compare_spec e1 e2); destruct (Pos.compare_spec m1 m2);
    split; intros; try discriminate; try reflexivity; try lia.
Qed.

Lemma magcmp_Eq : forall e1 m1 e2 m2,
  magcmp e1 m1 e2 m2 = Eq <-> (e1 = e2 /\ m1 = m2).
Proof.
  intros. unfold magcmp.
  destruct (Z.compare_spec e1 e2); destruct (Pos.compare_spec m1 m2);
    split; intros; try discriminate; try reflexivity; try lia.
Qed.

Lemma magcmp_Gt : forall e1 m1 e2 m2,
  magcmp e1 m1 e2 m2 = Gt <-> (e2 < e1 \/ (e1 = e2 /\ (m2 < m1)%positive)).
Proof.
  intros. unfold magcmp.
  destruct (Z.compare_spec e1 e2); destruct (Pos.compare_spec m1 m2);
    split; intros; try discriminate; try reflexivity; try lia.
Qed.

(* the master transitivity statement on magnitudes *)
Lemma magcmp_trans : forall e1 m1 e2 m2 e3 m3 c1 c2,
  magcmp e1 m1 e2 m2 = c1 -> magcmp e2 m2 e3 m3 = c2 -> c1 <> Gt -> c2 <> Gt ->
  magcmp e1 m1 e3 m3 = match c1 with Eq => c2 | _ => Lt end.
Proof.
  intros e1 m1 e2 m2 e3 m3 c1 c2 H1 H2 N1 N2.
  destruct c1; [ | | congruence ].
  - apply magcmp_Eq in H1. destruct H1 as [-> ->]. exact H2.
  - apply magcmp_Lt in H1. apply magcmp_Lt.
    destruct c2; [ | | congruence ].
    + apply magcmp_Eq in H2. destruct H2 as [<- <-]. exact H1.
    + apply magcmp_Lt in H2. lia.
Qed.

Lemma magcmp_trans_opp : forall e1 m1 e2 m2 e3 m3 c1 c2,
  CompOpp (magcmp e1 m1 e2 m2) = c1 -> CompOpp (magcmp e2 m2 e3 m3) = c2 ->
  c1 <> Gt -> c2 <> Gt ->
  CompOpp (magcmp e1 m1 e3 m3) = match c1 with Eq => c2 | _ => Lt end.
Proof.
  intros e1 m1 e2 m2 e3 m3 c1 c2 H1 H2 N1 N2.
  destruct c1; [ | | congruence ].
  - destruct (magcmp e1 m1 e2 m2) eqn:E; try discriminate.
    apply magcmp_Eq in E. destruct E as [-> ->]. exact H2.
  - destruct (magcmp e1 m1 e2 m2) eqn:E1; try discriminate.
    apply magcmp_Gt in E1.
    assert (magcmp e1 m1 e3 m3 = Gt) as ->; [ | reflexivity ].
    apply magcmp_Gt.
    destruct c2; [ | | congruence ].
    + destruct (magcmp e2 m2 e3 m3) eqn:E2; try discriminate.
      apply magcmp_Eq in E2. destruct E2 as [<- <-]. exact E1.
    + destruct (magcmp e2 m2 e3 m3) eqn:E2; try discriminate.
      apply magcmp_Gt in E2. lia.
Qed.

Lemma SFcompare_finite_unfold : forall s1 m1 e1 s2 m2 e2,
  SFcompare (S754_finite s1 m1 e1) (S754_finite s2 m2 e2) =
  Some (if s1 then if s2 then CompOpp (magcmp e1 m1 e2 m2) else Lt
        else if s2 then Gt else magcmp e1 m1 e2 m2).
Proof.
  intros. unfold magcmp. simpl.
  change (Pos.compare_cont Eq m1 m2) with (Pos.compare m1 m2).
  destruct s1, s2; try reflexivity.
  now destruct (e1 ?= e2).
Qed.

(* If a <= b and b <= c (neither step is Gt) then a ? c is determined:
   Eq;c2 -> c2, Lt;_ -> Lt.  This single statement yields le/lt/eq transitivity
   and the Eq/Lt compatibility lemmas. *)
Lemma SFcompare_trans : forall a b c c1 c2,
  SFcompare a b = Some c1 -> SFcompare b c = Some c2 -> c1 <> Gt -> c2 <> Gt ->
  SFcompare a c = Some (match c1 with Eq => c2 | _ => Lt end).
Proof.
  intros [sa|sa| |sa ma ea] [sb|sb| |sb mb eb] [sc|sc| |sc mc ec] c1 c2;
    try (simpl; discriminate);
    rewrite ?SFcompare_finite_unfold;
    try (destruct sa); try (destruct sb); try (destruct sc);
    try (intros H1 H2 N1 N2; simpl in *; destruct c1, c2;
         first [ congruence | reflexivity ]).
  - (* all negative finite *)
    intros H1 H2 N1 N2. injection H1 as H1. injection H2 as H2.
    f_equal. eapply magcmp_trans_opp; eauto.
  - (* all positive finite *)
    intros H1 H2 N1 N2. injection H1 as H1. injection H2 as H2.
    f_equal. eapply magcmp_trans; eauto.
Qed.

(* ------------------------------------------------------------------ *)
(* Level 1: Flocq binary_float at any format                           *)
(* ------------------------------------------------------------------ *)

Section Generic.
Variables prec emax : Z.
Notation bf := (Binary.binary_float prec emax).

Definition sf_of (x : bf) : spec_float := BinarySingleNaN.B2SF (B2BSN prec emax x).

Lemma Bcompare_sf : forall x y : bf,
  Bcompare prec emax x y = SFcompare (sf_of x) (sf_of y).
Proof. reflexivity. Qed.

Lemma is_nan_sf : forall x : bf, is_nan prec emax x = sf_is_nan (sf_of x).
Proof. now intros [ | | | ]. Qed.

Lemma is_finite_not_nan : forall x : bf,
  is_finite prec emax x = true -> is_nan prec emax x = false.
Proof. now intros [ | | | ]. Qed.

Lemma Bcompare_none_iff : forall x y : bf,
  Bcompare prec emax x y = None <-> is_nan prec emax x = true \/ is_nan prec emax y = true.
Proof. intros. rewrite Bcompare_sf, !is_nan_sf. apply SFcompare_none_iff. Qed.

Lemma Bcompare_refl : forall x : bf,
  is_nan prec emax x = false -> Bcompare prec emax x x = Some Eq.
Proof. intros x. rewrite Bcompare_sf, is_nan_sf. apply SFcompare_refl. Qed.

Lemma Bcompare_trans : forall (x y z : bf) c1 c2,
  Bcompare prec emax x y = Some c1 -> Bcompare prec emax y z = Some c2 ->
  c1 <> Gt -> c2 <> Gt ->
  Bcompare prec emax x z = Some (match c1 with Eq => c2 | _ => Lt end).
Proof. intros x y z c1 c2. rewrite !Bcompare_sf. apply SFcompare_trans. Qed.

End Generic.

(* ------------------------------------------------------------------ *)
(* Level 2: bit patterns                                               *)
(* ------------------------------------------------------------------ *)

Theorem fcmp_none_iff : forall is64 x y,
  fcmp is64 x y = None <-> f_is_nan is64 x = true \/ f_is_nan is64 y = true.
Proof.
  intros [|] x y; unfold fcmp, f_is_nan, b64_compare, b32_compare; apply Bcompare_none_iff.
Qed.

Theorem finite_not_nan : forall is64 x,
  f_is_finite is64 x = true -> f_is_nan is64 x = false.
Proof.
  intros [|] x; unfold f_is_finite, f_is_nan; apply is_finite_not_nan.
Qed.

Theorem fcmp_refl : forall is64 x,
  f_is_nan is64 x = false -> fcmp is64 x x = Some Eq.
Proof.
  intros [|] x; unfold fcmp, f_is_nan, b64_compare, b32_compare; apply Bcompare_refl.
Qed.

Theorem fcmp_total : forall is64 x y,
  f_is_nan is64 x = false -> f_is_nan is64 y = false -> exists c, fcmp is64 x y = Some c.
Proof.
  intros is64 x y Hx Hy.
  destruct (fcmp is64 x y) as [c|] eqn:E.
  - now exists c.
  - apply fcmp_none_iff in E. destruct E as [E|E]; congruence.
Qed.

Theorem fcmp_antisym : forall is64 x y c,
  fcmp is64 x y = Some c -> fcmp is64 y x = Some (CompOpp c).
Proof.
  intros [|] x y c; unfold fcmp, b64_compare, b32_compare; intros H;
    rewrite Bcompare_swap, H; reflexivity.
Qed.

(* master transitivity on fcmp *)
Theorem fcmp_trans : forall is64 x y z c1 c2,
  fcmp is64 x y = Some c1 -> fcmp is64 y z = Some c2 -> c1 <> Gt -> c2 <> Gt ->
  fcmp is64 x z = Some (match c1 with Eq => c2 | _ => Lt end).
Proof.
  intros [|] x y z c1 c2; unfold fcmp, b64_compare, b32_compare; apply Bcompare_trans.
Qed.

Theorem fcmp_trans_lt : forall is64 x y z,
  fcmp is64 x y = Some Lt -> fcmp is64 y z = Some Lt -> fcmp is64 x z = Some Lt.
Proof.
  intros is64 x y z H1 H2.
  apply (fcmp_trans is64 x y z Lt Lt H1 H2); discriminate.
Qed.

Theorem fcmp_trans_gt : forall is64 x y z,
  fcmp is64 x y = Some Gt -> fcmp is64 y z = Some Gt -> fcmp is64 x z = Some Gt.
Proof.
  intros is64 x y z H1 H2.
  apply fcmp_antisym in H1. apply fcmp_antisym in H2. simpl in *.
  apply (fcmp_antisym is64 z x Lt).
  now apply fcmp_trans_lt with y.
Qed.

(* characterisations of the boolean relations *)
Lemma f_le_iff : forall is64 x y,
  f_le is64 x y = true <-> exists c, fcmp is64 x y = Some c /\ c <> Gt.
Proof.
  intros. unfold f_le. destruct (fcmp is64 x y) as [[| |]|]; split; intros H;
    try discriminate; try reflexivity;
    try (eexists; split; [reflexivity|discriminate]);
    destruct H as [c [H N]]; congruence.
Qed.

Lemma f_lt_iff : forall is64 x y, f_lt is64 x y = true <-> fcmp is64 x y = Some Lt.
Proof.
  intros. unfold f_lt. destruct (fcmp is64 x y) as [[| |]|]; split; intros H;
    try discriminate; reflexivity.
Qed.

Lemma f_eq_iff : forall is64 x y, f_eq is64 x y = true <-> fcmp is64 x y = Some Eq.
Proof.
  intros. unfold f_eq. destruct (fcmp is64 x y) as [[| |]|]; split; intros H;
    try discriminate; reflexivity.
Qed.

Lemma f_le_not_nan : forall is64 x y,
  f_le is64 x y = true -> f_is_nan is64 x = false /\ f_is_nan is64 y = false.
Proof.
  intros is64 x y H. apply f_le_iff in H. destruct H as [c [H _]].
  destruct (f_is_nan is64 x) eqn:Ex; [ | destruct (f_is_nan is64 y) eqn:Ey ]; try easy.
  - assert (fcmp is64 x y = None) by (apply fcmp_none_iff; now left). congruence.
  - assert (fcmp is64 x y = None) by (apply fcmp_none_iff; now right). congruence.
Qed.

(* No non-NaN hypotheses are needed: they follow from f_le = true. *)
Theorem fcmp_le_trans : forall is64 x y z,
  f_le is64 x y = true -> f_le is64 y z = true -> f_le is64 x z = true.
Proof.
  intros is64 x y z H1 H2.
  apply f_le_iff in H1. apply f_le_iff in H2.
  destruct H1 as [c1 [H1 N1]]. destruct H2 as [c2 [H2 N2]].
  apply f_le_iff. eexists. split.
  - exact (fcmp_trans is64 x y z c1 c2 H1 H2 N1 N2).
  - destruct c1; try discriminate; assumption.
Qed.

Theorem fcmp_lt_trans : forall is64 x y z,
  f_lt is64 x y = true -> f_lt is64 y z = true -> f_lt is64 x z = true.
Proof.
  intros is64 x y z H1 H2. apply f_lt_iff in H1. apply f_lt_iff in H2.
  apply f_lt_iff. now apply fcmp_trans_lt with y.
Qed.

Theorem fcmp_eq_trans : forall is64 x y z,
  f_eq is64 x y = true -> f_eq is64 y z = true -> f_eq is64 x z = true.
Proof.
  intros is64 x y z H1 H2. apply f_eq_iff in H1. apply f_eq_iff in H2.
  apply f_eq_iff.
  apply (fcmp_trans is64 x y z Eq Eq H1 H2); discriminate.
Qed.

Theorem fcmp_eq_lt_compat : forall is64 x y z,
  (f_eq is64 x y = true -> f_lt is64 y z = true -> f_lt is64 x z = true) /\
  (f_lt is64 x y = true -> f_eq is64 y z = true -> f_lt is64 x z = true).
Proof.
  intros is64 x y z. split; intros H1 H2.
  - apply f_eq_iff in H1. apply f_lt_iff in H2. apply f_lt_iff.
    apply (fcmp_trans is64 x y z Eq Lt H1 H2); discriminate.
  - apply f_lt_iff in H1. apply f_eq_iff in H2. apply f_lt_iff.
    apply (fcmp_trans is64 x y z Lt Eq H1 H2); discriminate.
Qed.

(* mixed le/lt transitivity, used by sort-style reasoning *)
Theorem fcmp_le_lt_trans : forall is64 x y z,
  (f_le is64 x y = true -> f_lt is64 y z = true -> f_lt is64 x z = true) /\
  (f_lt is64 x y = true -> f_le is64 y z = true -> f_lt is64 x z = true).
Proof.
  intros is64 x y z. split; intros H1 H2.
  - apply f_le_iff in H1. destruct H1 as [c1 [H1 N1]].
    apply f_lt_iff in H2. apply f_lt_iff.
    rewrite (fcmp_trans is64 x y z c1 Lt H1 H2 N1); [ | discriminate ].
    now destruct c1.
  - apply f_lt_iff in H1.
    apply f_le_iff in H2. destruct H2 as [c2 [H2 N2]]. apply f_lt_iff.
    rewrite (fcmp_trans is64 x y z Lt c2 H1 H2); [ reflexivity | discriminate | exact N2 ].
Qed.

Theorem f_le_total : forall is64 x y,
  f_is_nan is64 x = false -> f_is_nan is64 y = false ->
  f_le is64 x y = true \/ f_le is64 y x = true.
Proof.
  intros is64 x y Hx Hy.
  destruct (fcmp_total is64 x y Hx Hy) as [c H].
  pose proof (fcmp_antisym is64 x y c H) as H'.
  unfold f_le. rewrite H, H'. destruct c; simpl; auto.
Qed.

(* strict order is the complement of the reversed non-strict order on non-NaN values *)
Theorem f_lt_negb_le : forall is64 x y,
  f_is_nan is64 x = false -> f_is_nan is64 y = false ->
  f_lt is64 x y = negb (f_le is64 y x).
Proof.
  intros is64 x y Hx Hy.
  destruct (fcmp_total is64 x y Hx Hy) as [c H].
  pose proof (fcmp_antisym is64 x y c H) as H'.
  unfold f_lt, f_le. rewrite H, H'. now destruct c.
Qed.

(* ------------------------------------------------------------------ *)
(* Derived Ord facts: cmp = partial_cmp().unwrap_or_else(panic)        *)
(* ------------------------------------------------------------------ *)

Definition ord_cmp (is64 : bool) (x y : Z) : option comparison := fcmp is64 x y.
(* [None] models the panic. *)

Theorem cmp_never_panics : forall is64 x y,
  f_is_finite is64 x = true -> f_is_finite is64 y = true -> ord_cmp is64 x y <> None.
Proof.
  intros is64 x y Hx Hy. unfold ord_cmp.
  destruct (fcmp_total is64 x y (finite_not_nan _ _ Hx) (finite_not_nan _ _ Hy)) as [c H].
  congruence.
Qed.

Theorem eq_refl_finite : forall is64 x,
  f_is_finite is64 x = true -> f_eq is64 x x = true.
Proof.
  intros is64 x Hx. apply f_eq_iff. apply fcmp_refl. now apply finite_not_nan.
Qed.

(* What slice::sort needs of Ord on the elements of the slice: on any list of finite
   values, [<=] is reflexive, total and transitive (a total preorder), [cmp] never panics,
   is antisymmetric in the CompOpp sense, and [<] is exactly "not >=". *)
Definition f_le_rel (is64 : bool) (x y : Z) : Prop := f_le is64 x y = true.

Theorem sort_safe : forall is64 (l : list Z),
  Forall (fun x => f_is_finite is64 x = true) l ->
  (forall a, In a l -> f_le_rel is64 a a) /\
  (forall a b, In a l -> In b l -> f_le_rel is64 a b \/ f_le_rel is64 b a) /\
  (forall a b c, In a l -> In b l -> In c l ->
     f_le_rel is64 a b -> f_le_rel is64 b c -> f_le_rel is64 a c) /\
  (forall a b, In a l -> In b l -> ord_cmp is64 a b <> None) /\
  (forall a b, In a l -> In b l ->
     exists c, ord_cmp is64 a b = Some c /\ ord_cmp is64 b a = Some (CompOpp c)) /\
  (forall a b, In a l -> In b l -> f_lt is64 a b = negb (f_le is64 b a)).
Proof.
  intros is64 l HF. rewrite Forall_forall in HF.
  assert (HN : forall a, In a l -> f_is_nan is64 a = false)
    by (intros a Ha; apply finite_not_nan; now apply HF).
  unfold f_le_rel. repeat split.
  - intros a Ha. unfold f_le. now rewrite (fcmp_refl is64 a (HN a Ha)).
  - intros a b Ha Hb. apply f_le_total; now apply HN.
  - intros a b c _ _ _. apply fcmp_le_trans.
  - intros a b Ha Hb. apply cmp_never_panics; now apply HF.
  - intros a b Ha Hb. unfold ord_cmp.
    destruct (fcmp_total is64 a b (HN a Ha) (HN b Hb)) as [c H].
    exists c. split; [exact H | now apply fcmp_antisym].
  - intros a b Ha Hb. apply f_lt_negb_le; now apply HN.
Qed.

(* ------------------------------------------------------------------ *)
(* Concrete checks                                                     *)
(* ------------------------------------------------------------------ *)

(* f32: +0.0 = 0, -0.0 = 2147483648, 1.0 = 1065353216, 2.0 = 1073741824,
        NaN = 2143289344, +inf = 2139095040, -inf = 4286578688, -1.0 = 3212836864
   f64: 1.0 = 4607182418800017408, 2.0 = 4611686018427387904,
        NaN = 9221120237041090560, -0.0 = 9223372036854775808 *)
Example fcmp_concrete :
  fcmp false 0 2147483648 = Some Eq /\
  fcmp false 2147483648 0 = Some Eq /\
  fcmp false 1065353216 1073741824 = Some Lt /\
  fcmp false 1073741824 1065353216 = Some Gt /\
  fcmp false 3212836864 0 = Some Lt /\
  fcmp false 2143289344 0 = None /\
  fcmp false 0 2143289344 = None /\
  fcmp false 2143289344 2143289344 = None /\
  fcmp false 4286578688 2139095040 = Some Lt /\
  fcmp false 2139095040 2139095040 = Some Eq /\
  fcmp false 1073741824 2139095040 = Some Lt /\
  f_is_nan false 2143289344 = true /\
  f_is_finite false 2139095040 = false /\
  f_is_finite false 1065353216 = true /\
  fcmp true 0 9223372036854775808 = Some Eq /\
  fcmp true 4607182418800017408 4611686018427387904 = Some Lt /\
  fcmp true 9221120237041090560 4607182418800017408 = None /\
  f_le false 0 2147483648 = true /\
  f_lt false 0 2147483648 = false /\
  f_eq false 2143289344 2143289344 = false.
Proof. vm_compute. repeat split. Qed.
