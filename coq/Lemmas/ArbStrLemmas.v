(* The derived Arbitrary of String newtypes (Sem/ArbStr.v): the refill loop of the trim-aware
   generator terminates within the fuel the model gives it, the generator is total, and for
   the declarations it handles (len_char_min / len_char_max / not_empty, sanitizers [] or
   [trim]) every generated value is valid.  The theorems behind the string part of C09. *)
From Coq Require Import Lia ZifyNat ZifyBool.
From NV Require Import Base.Util Base.IntTy Base.Expr Macro.Surface Macro.Ast Macro.Parse
     Macro.Validate Sem.Guard Sem.Value Sem.Eval Sem.Bytes Sem.ArbStr Spec.GuardSpec
     Lemmas.GuardLemmas Lemmas.DeclLemmas Lemmas.BytesLemmas.
From NV Require Import Unicode.UStr Lemmas.UnicodeLemmas.
Local Open Scope Z_scope.

(* ------------------------------------------------------------------ *)
(* Unstructured: consumption of bytes by arb_char                      *)

Lemma take_pad_length (n : nat) : forall (bs : bytes) (l : list Z) (r : bytes),
  take_pad n bs = (l, r) ->
  (List.length r <= List.length bs)%nat /\
  (bs <> [] -> n <> O -> (List.length r < List.length bs)%nat).
Proof.
  induction n as [|n IH]; intros bs l r H; cbn [take_pad] in H.
  - injection H as _ Hr. subst r. split; [lia | congruence].
  - destruct bs as [|b bs].
    + destruct (take_pad n []) as [l' r'] eqn:E. injection H as _ Hr. subst r.
      destruct (IH _ _ _ E) as [H1 _]. split; [exact H1 | congruence].
    + destruct (take_pad n bs) as [l' r'] eqn:E. injection H as _ Hr. subst r.
      destruct (IH _ _ _ E) as [H1 _]. cbn [List.length]. split; intros; lia.
Qed.

(* arb_char never lengthens the input and strictly shortens a non-empty one *)
Lemma arb_char_length (bs : bytes) (c : N) (r : bytes) :
  arb_char bs = (c, r) ->
  (List.length r <= List.length bs)%nat /\ (bs <> [] -> (List.length r < List.length bs)%nat).
Proof.
  unfold arb_char, arb_uint. destruct (take_pad 4 bs) as [l r0] eqn:E. intros H.
  injection H as _ Hr. subst r0.
  destruct (take_pad_length _ _ _ _ E) as [H1 H2].
  split; [exact H1 | intros Hne; apply H2; [exact Hne | discriminate]].
Qed.

(* exhausted input: code point 0 *)
Lemma arb_char_nil : arb_char [] = (0%N, []).
Proof. vm_compute. reflexivity. Qed.

Lemma ws_zero : u_is_ws 0%N = false.
Proof. vm_compute. reflexivity. Qed.

Lemma take_chars_length (n : nat) : forall (bs : bytes) (cs : list N) (r : bytes),
  take_chars n bs = (cs, r) -> List.length cs = n.
Proof.
  induction n as [|n IH]; intros bs cs r H; cbn [take_chars] in H.
  - injection H as Hc _. subst cs. reflexivity.
  - destruct (arb_char bs) as [c r0]. destruct (take_chars n r0) as [cs' r'] eqn:E.
    injection H as Hc _. subst cs. cbn [List.length]. f_equal. exact (IH _ _ _ E).
Qed.

(* ------------------------------------------------------------------ *)
(* trim: lengths, and the effect of appending one character            *)

Lemma drop_ws_length (s : list N) : (List.length (drop_ws s) <= List.length s)%nat.
Proof.
  destruct (drop_ws_suffix s) as [p Hp].
  apply (f_equal (@List.length N)) in Hp. rewrite app_length in Hp. lia.
Qed.

Lemma u_trim_length (s : list N) : (List.length (u_trim s) <= List.length s)%nat.
Proof.
  unfold u_trim, u_trim_start, u_trim_end. rewrite rev_length.
  pose proof (drop_ws_length (rev (drop_ws s))) as H1. rewrite rev_length in H1.
  pose proof (drop_ws_length s) as H2. lia.
Qed.

Lemma drop_ws_cons_ws (c : N) (s : list N) : u_is_ws c = true -> drop_ws (c :: s) = drop_ws s.
Proof. intros H. cbn [drop_ws]. rewrite H. reflexivity. Qed.

Lemma trimmed_snoc_nonws (t : list N) (c : N) :
  trimmed t -> u_is_ws c = false -> trimmed (t ++ [c]).
Proof.
  intros [H1 H2] Hc. split.
  - destruct t as [|a t]; [exact Hc | exact H1].
  - rewrite rev_app_distr. exact Hc.
Qed.

(* a non-white-space character lengthens a trimmed string by exactly one *)
Lemma u_trim_snoc_nonws (t : list N) (c : N) :
  trimmed t -> u_is_ws c = false -> u_trim (t ++ [c]) = t ++ [c].
Proof. intros Ht Hc. apply u_trim_fix, trimmed_snoc_nonws; assumption. Qed.

(* a white-space character appended to a trimmed string is trimmed away again *)
Lemma u_trim_snoc_ws (t : list N) (c : N) :
  trimmed t -> u_is_ws c = true -> u_trim (t ++ [c]) = t.
Proof.
  intros [H1 H2] Hc. unfold u_trim, u_trim_start, u_trim_end.
  destruct t as [|a t].
  - change ([] ++ [c]) with [c]. rewrite (drop_ws_cons_ws c [] Hc). reflexivity.
  - rewrite (drop_ws_id ((a :: t) ++ [c]) H1). rewrite rev_app_distr.
    change (rev [c] ++ rev (a :: t)) with (c :: rev (a :: t)).
    rewrite (drop_ws_cons_ws c _ Hc). rewrite (drop_ws_id _ H2). apply rev_involutive.
Qed.

Lemma u_trim_snoc_length (out : list N) (c : N) :
  List.length (u_trim (u_trim out ++ [c])) =
  if u_is_ws c then List.length (u_trim out) else S (List.length (u_trim out)).
Proof.
  destruct (u_is_ws c) eqn:Hc.
  - rewrite (u_trim_snoc_ws _ _ (u_trim_trimmed out) Hc). reflexivity.
  - rewrite (u_trim_snoc_nonws _ _ (u_trim_trimmed out) Hc). rewrite app_length. cbn [List.length]. lia.
Qed.

(* ------------------------------------------------------------------ *)
(* max of the declared minimal lengths, first declared maximal length  *)

Lemma fold_max_ge_acc (l : list Z) : forall a, a <= fold_left Z.max l a.
Proof.
  induction l as [|x l IH]; intros a; cbn [fold_left]; [lia|].
  specialize (IH (Z.max a x)). lia.
Qed.

Lemma fold_max_ge_in (l : list Z) : forall a x, In x l -> x <= fold_left Z.max l a.
Proof.
  induction l as [|y l IH]; intros a x Hin; cbn [fold_left]; [destruct Hin|].
  destruct Hin as [->|Hin].
  - pose proof (fold_max_ge_acc l (Z.max a x)). lia.
  - apply IH. exact Hin.
Qed.

Lemma min_lens_min (d : decl) (vs : list validator) (b : bound) :
  In (VLenCharMin b) vs -> In (bval d b) (min_lens d vs).
Proof.
  induction vs as [|v vs IH]; intros Hin; [destruct Hin|].
  destruct Hin as [->|Hin].
  - cbn [min_lens]. left. reflexivity.
  - specialize (IH Hin). destruct v; cbn [min_lens]; try exact IH; right; exact IH.
Qed.

Lemma min_lens_not_empty (d : decl) (vs : list validator) :
  In VNotEmpty vs -> In 1 (min_lens d vs).
Proof.
  induction vs as [|v vs IH]; intros Hin; [destruct Hin|].
  destruct Hin as [->|Hin].
  - cbn [min_lens]. left. reflexivity.
  - specialize (IH Hin). destruct v; cbn [min_lens]; try exact IH; right; exact IH.
Qed.

Lemma existsb_kind_in (v : validator) (vs : list validator) :
  In v vs -> existsb (vkind_eqb (vkind_of v)) (map vkind_of vs) = true.
Proof.
  intros Hin. apply existsb_exists. exists (vkind_of v). split.
  - apply in_map. exact Hin.
  - destruct v; reflexivity.
Qed.

(* without duplicated validator kinds the one len_char_max is the one the generator uses *)
Lemma first_max_unique (d : decl) (vs : list validator) (b : bound) :
  has_dup vkind_eqb (map vkind_of vs) = false ->
  In (VLenCharMax b) vs -> first_max d vs = Some (bval d b).
Proof.
  induction vs as [|v vs IH]; intros Hd Hin; [destruct Hin|].
  cbn [map has_dup] in Hd. apply orb_false_iff in Hd. destruct Hd as [Hd1 Hd2].
  destruct Hin as [->|Hin]; [reflexivity|].
  specialize (IH Hd2 Hin).
  destruct v; cbn [first_max]; try exact IH.
  exfalso. pose proof (existsb_kind_in _ _ Hin) as He.
  cbn [vkind_of] in He, Hd1. rewrite He in Hd1. discriminate Hd1.
Qed.

Lemma str_spec_eq (d : decl) (vs : list validator) :
  d_validation d = Some (RVStandard vs) ->
  str_spec d =
  (fold_left Z.max (min_lens d vs) 0,
   match first_max d vs with
   | Some m => m
   | None => fold_left Z.max (min_lens d vs) 0 + 16
   end).
Proof. intros Hv. unfold str_spec, standard_validators. rewrite Hv. reflexivity. Qed.

(* the effective minimum is never negative (so [0 <= mn] below is always dischargeable) *)
Lemma str_spec_min_nonneg (d : decl) (mn mx : Z) : str_spec d = (mn, mx) -> 0 <= mn.
Proof.
  unfold str_spec. intros H. injection H as Hmn _. subst mn. apply fold_max_ge_acc.
Qed.

(* the declarations the string generator handles *)
Definition str_gen_validator (v : validator) : bool :=
  match v with
  | VLenCharMin _ | VLenCharMax _ | VNotEmpty => true
  | _ => false
  end.

Definition str_gen_sans (ss : list sanitizer) : bool :=
  match ss with
  | [] | [STrim] => true
  | _ => false
  end.

Lemma wf_bits_usize : wf_bits usize_ty.
Proof. exists 8. split; [lia | reflexivity]. Qed.

Section WithLib.
  Variable lib : fnlib.
  Hypothesis Htrim : l_trim lib = UStr.u_trim.

  (* -------------------------------------------------------------- *)
  (* the refill loop                                                  *)

  (* more fuel never changes an answer *)
  Lemma refill_mono : forall (f f' target : nat) (out : list N) (bs : bytes) (s : list N),
    (f <= f')%nat -> refill lib f target out bs = Some s -> refill lib f' target out bs = Some s.
  Proof.
    induction f as [|f IH]; intros f' target out bs s Hle H; [discriminate H|].
    destruct f' as [|f']; [lia|]. cbn [refill] in H |- *.
    destruct (Nat.eqb (List.length (l_trim lib out)) target); [exact H|].
    destruct (Nat.ltb (List.length (l_trim lib out)) target); [|discriminate H].
    destruct (arb_char bs) as [c r]. apply (IH f'); [lia | exact H].
  Qed.

  (* measure: remaining bytes + missing characters *)
  Lemma refill_terminates_fuel : forall (n target : nat) (out : list N) (bs : bytes),
    (List.length bs + (target - List.length (u_trim out)) < n)%nat ->
    (List.length (u_trim out) <= target)%nat ->
    exists s, refill lib n target out bs = Some s /\ List.length (u_trim s) = target.
  Proof.
    induction n as [|n IH]; intros target out bs Hn Hle; [lia|].
    cbn [refill]. rewrite Htrim.
    destruct (Nat.eqb (List.length (u_trim out)) target) eqn:E1.
    - exists out. split; [reflexivity | apply Nat.eqb_eq; exact E1].
    - apply Nat.eqb_neq in E1.
      assert (E2 : Nat.ltb (List.length (u_trim out)) target = true) by (apply Nat.ltb_lt; lia).
      rewrite E2.
      destruct (arb_char bs) as [c r] eqn:Ec.
      destruct (arb_char_length _ _ _ Ec) as [Hr1 Hr2].
      pose proof (u_trim_snoc_length out c) as Hsn.
      destruct (u_is_ws c) eqn:Hc.
      + assert (Hne : bs <> []).
        { intros ->. rewrite arb_char_nil in Ec. injection Ec as Hc0 _. subst c.
          rewrite ws_zero in Hc. discriminate Hc. }
        specialize (Hr2 Hne). apply IH; rewrite Hsn; lia.
      + apply IH; rewrite Hsn; lia.
  Qed.

  (* the byte list need not even be well formed *)
  Lemma refill_terminates_gen (target : nat) (out : list N) (bs : bytes) :
    (List.length (u_trim out) <= target)%nat ->
    exists s,
      refill lib (List.length bs + (target - List.length (u_trim out)) + 1) target out bs = Some s /\
      List.length (u_trim s) = target.
  Proof. intros Hle. apply refill_terminates_fuel; [lia | exact Hle]. Qed.

  Theorem refill_terminates (target : nat) (out : list N) (bs : bytes) :
    bytes_ok bs = true -> (List.length (u_trim out) <= target)%nat ->
    exists s,
      refill lib (List.length bs + (target - List.length (u_trim out)) + 1) target out bs = Some s /\
      List.length (u_trim s) = target.
  Proof. intros _. apply refill_terminates_gen. Qed.

  (* the fuel the model really uses (arb_str_inner): via monotonicity *)
  Corollary refill_model_fuel (target : nat) (out : list N) (bs : bytes) :
    (List.length (u_trim out) <= target)%nat ->
    exists s, refill lib (List.length bs + target + 1) target out bs = Some s /\
              List.length (u_trim s) = target.
  Proof.
    intros Hle. destruct (refill_terminates_gen target out bs Hle) as (s & Hr & Hl).
    exists s. split; [|exact Hl].
    refine (refill_mono _ _ _ _ _ _ _ Hr). lia.
  Qed.

  (* -------------------------------------------------------------- *)
  (* the generator up to the call of try_new                          *)

  Theorem arb_str_inner_total (d : decl) (mn mx : Z) (bs : bytes) :
    str_spec d = (mn, mx) -> 0 <= mn <= mx -> mx - mn <= 2 ^ 64 - 1 -> bytes_ok bs = true ->
    exists s, arb_str_inner lib d bs = Some (Some s) /\
              mn <= Z.of_nat (List.length (if has_trim d then u_trim s else s)) <= mx.
  Proof.
    intros Hs Hm Hd Hb. unfold arb_str_inner. rewrite Hs.
    destruct (int_in_range_in_bounds usize_ty mn mx bs wf_bits_usize Hb (proj2 Hm) Hd)
      as (t & r & Hi & Ht).
    rewrite Hi. destruct (take_chars (Z.to_nat t) r) as [cs r'] eqn:Etc.
    pose proof (take_chars_length _ _ _ _ Etc) as Hl.
    destruct (has_trim d).
    - assert (Hle : (List.length (u_trim cs) <= Z.to_nat t)%nat)
        by (pose proof (u_trim_length cs); lia).
      destruct (refill_model_fuel (Z.to_nat t) cs r' Hle) as (s & Hr & Hlen).
      exists s. rewrite Hr. split; [reflexivity | lia].
    - exists cs. split; [reflexivity | lia].
  Qed.

  (* -------------------------------------------------------------- *)
  (* validity of the generated value                                  *)

  Lemma str_gen_sanitize (d : decl) (s : list N) :
    str_gen_sans (d_sans d) = true ->
    spec_sanitize lib d (VS s) = VS (if has_trim d then u_trim s else s).
  Proof.
    intros H. unfold spec_sanitize, has_trim.
    destruct (d_sans d) as [|[| | |f] [|s2 r]]; simpl in H; try discriminate H.
    - reflexivity.
    - cbn [fold_left sanitizer_fn existsb orb]. rewrite Htrim. reflexivity.
  Qed.

  Lemma str_len_valid (d : decl) (vs : list validator) (mn mx : Z) (x : list N) :
    d_family d = FStr -> d_validation d = Some (RVStandard vs) ->
    forallb str_gen_validator vs = true ->
    has_dup vkind_eqb (map vkind_of vs) = false ->
    str_spec d = (mn, mx) -> mn <= Z.of_nat (List.length x) <= mx ->
    spec_valid lib d (VS x) = true.
  Proof.
    intros Hf Hv Hk Hd Hs Hlen. unfold spec_valid. rewrite Hv.
    rewrite (str_spec_eq d vs Hv) in Hs. injection Hs as Hmn Hmx.
    apply forallb_forall. intros v Hin.
    rewrite forallb_forall in Hk. specialize (Hk v Hin).
    unfold holds. rewrite Hf. destruct v as [b|b|b|b|f| |b|b| |rx]; try discriminate Hk.
    - (* len_char_min *)
      pose proof (fold_max_ge_in _ 0 _ (min_lens_min d vs b Hin)) as Hge.
      rewrite Z.geb_leb. apply Z.leb_le. lia.
    - (* len_char_max *)
      rewrite (first_max_unique d vs b Hd Hin) in Hmx. apply Z.leb_le. lia.
    - (* not_empty *)
      pose proof (fold_max_ge_in _ 0 _ (min_lens_not_empty d vs Hin)) as Hge.
      destruct x as [|c x]; [cbn [List.length] in Hlen; lia | reflexivity].
  Qed.

  (* C09 for strings *)
  Theorem arb_str_valid (d : decl) (vs : list validator) (mn mx : Z) (bs : bytes) :
    d_family d = FStr -> d_validation d = Some (RVStandard vs) ->
    forallb str_gen_validator vs = true ->
    str_gen_sans (d_sans d) = true ->
    has_dup vkind_eqb (map vkind_of vs) = false ->
    str_spec d = (mn, mx) -> 0 <= mn <= mx -> mx - mn <= 2 ^ 64 - 1 ->
    bytes_ok bs = true ->
    exists v, arb_str lib d bs = OOk v /\ spec_valid lib d v = true.
  Proof.
    intros Hf Hv Hk Hsn Hd Hs Hm Hdl Hb.
    destruct (arb_str_inner_total d mn mx bs Hs Hm Hdl Hb) as (s & Hi & Hlen).
    pose proof (str_gen_sanitize d s Hsn) as Hsan.
    set (x := if has_trim d then u_trim s else s) in Hlen, Hsan.
    pose proof (str_len_valid d vs mn mx x Hf Hv Hk Hd Hs Hlen) as Hvalid.
    assert (Hc : comparable d (spec_sanitize lib d (VS s)) = true)
      by (unfold comparable; rewrite Hf; reflexivity).
    assert (Ht : d_try_new lib d (VS s) = Ok (VS x)).
    { apply (try_new_ok_iff_spec lib d (VS s) (VS x) Hc). rewrite Hsan.
      split; [reflexivity | exact Hvalid]. }
    exists (VS x). split; [|exact Hvalid].
    unfold arb_str. rewrite Hf, Hv, Hi, Ht. reflexivity.
  Qed.
End WithLib.


(* ------------------------------------------------------------------ *)
(* Why [has_dup ... = false] is needed: with two len_char_max validators the generator uses
   the first one only.  len_char_max = 10, len_char_max = 3, input byte 5: target length 5,
   five characters U+0000 (input exhausted), try_new rejects, the generated code panics. *)
Definition dup_max_decl : decl :=
  {| d_family := FStr; d_name := "T"%string; d_vis := "pub"%string; d_generics := []; d_sans := [];
     d_validation := Some (RVStandard [VLenCharMax (BLit 10); VLenCharMax (BLit 3)]);
     d_new_unchecked := false; d_const_fn := false; d_default := None;
     d_traits := [TrArbitrary]; d_env := [] |}.

Example arb_str_dup_max_panics (lib : fnlib) :
  str_spec dup_max_decl = (0, 10) /\ arb_str lib dup_max_decl [5] = OPanic.
Proof. split; vm_compute; reflexivity. Qed.
