(* C11: stored values are canonical. *)
From NV Require Import Base.Util Base.Expr Macro.Surface Macro.Ast Sem.Guard Sem.Value Sem.Eval
     Sem.Conv Spec.GuardSpec Lemmas.GuardLemmas Lemmas.DeclLemmas Lemmas.ConvLemmas.
From NV.Unicode Require UnicodeData UStr.
From NV Require Lemmas.UnicodeLemmas.

Section Decl.
  Variable lib : fnlib.

  Definition idempotent_on (d : decl) : Prop :=
    forall x, spec_sanitize lib d (spec_sanitize lib d x) = spec_sanitize lib d x.

  (* an obtainable value re-enters the constructor unchanged *)
  Theorem reenter (d : decl) (raw v : value) :
    idempotent_on d ->
    comparable d (spec_sanitize lib d raw) = true ->
    construct lib d raw = OOk v -> construct lib d v = OOk v.
  Proof.
    intros Hid Hc H.
    destruct (construct_ok_valid lib d raw v Hc H) as [Hv Hvalid].
    assert (Hfix : spec_sanitize lib d v = v) by (rewrite Hv; apply Hid).
    unfold construct in *. destruct (has_validation d) eqn:Hhv.
    - assert (Ht : d_try_new lib d v = Ok v).
      { apply try_new_ok_iff_spec; rewrite Hfix.
        - rewrite Hv. exact Hc.
        - split; [reflexivity | exact Hvalid]. }
      rewrite Ht. reflexivity.
    - rewrite new_is_sanitize, Hfix. reflexivity.
  Qed.

  (* any chain of into_inner -> try_new / TryFrom / string FromStr / Deserialize steps (each
     one is the canonical constructor applied to the current inner value) stays on v *)
  Fixpoint chain (d : decl) (n : nat) (v : value) : outcome :=
    match n with
    | O => OOk v
    | S n' => match construct lib d v with OOk v' => chain d n' v' | o => o end
    end.

  Theorem chain_stays (d : decl) (raw v : value) (n : nat) :
    idempotent_on d -> comparable d (spec_sanitize lib d raw) = true ->
    construct lib d raw = OOk v -> chain d n v = OOk v.
  Proof.
    intros Hid Hc H. pose proof (reenter d raw v Hid Hc H) as Hr.
    induction n as [|n IH]; cbn; [reflexivity|]. rewrite Hr. exact IH.
  Qed.

  (* a single custom sanitizer declared idempotent *)
  Theorem custom_idempotent (d : decl) (f : fnref) :
    d_sans d = [SWith f] ->
    (forall x, l_san lib (fn_id f) (l_san lib (fn_id f) x) = l_san lib (fn_id f) x) ->
    idempotent_on d.
  Proof. intros Hs Hf x. unfold spec_sanitize. rewrite Hs. cbn. apply Hf. Qed.

  Theorem no_sanitizer_idempotent (d : decl) : d_sans d = [] -> idempotent_on d.
  Proof. intros Hs x. unfold spec_sanitize. rewrite Hs. reflexivity. Qed.
End Decl.

(* built-in string sanitizers with the Unicode semantics of the model *)
Definition unicode_lib (lib : fnlib) : Prop :=
  l_trim lib = UStr.u_trim /\ l_lower lib = UStr.u_lower /\ l_upper lib = UStr.u_upper.

Definition is_builtin (s : sanitizer) : bool :=
  match s with STrim | SLowercase | SUppercase => true | SWith _ => false end.

(* the chains the macro accepts: no kind twice, not lowercase together with uppercase *)
Definition accepted_builtin_chain (ss : list sanitizer) : bool :=
  forallb is_builtin ss &&
  match ss with
  | [] | [_] => true
  | [STrim; SLowercase] | [SLowercase; STrim] | [STrim; SUppercase] | [SUppercase; STrim] => true
  | _ => false
  end.

Theorem builtin_chain_idempotent (lib : fnlib) (d : decl) :
  unicode_lib lib -> accepted_builtin_chain (d_sans d) = true ->
  forall s, spec_sanitize lib d (spec_sanitize lib d (VS s)) = spec_sanitize lib d (VS s).
Proof.
  intros (Ht & Hl & Hu) Hc s. unfold spec_sanitize.
  destruct (d_sans d) as [|a [|b [|c r]]]; cbn in Hc; try discriminate.
  - reflexivity.
  - destruct a; try discriminate; cbn; rewrite ?Ht, ?Hl, ?Hu; f_equal.
    + apply UnicodeLemmas.u_trim_idem.
    + apply UnicodeLemmas.u_lower_idem.
    + apply UnicodeLemmas.u_upper_idem.
  - destruct a, b; try discriminate; cbn; rewrite ?Ht, ?Hl, ?Hu; f_equal.
    + apply UnicodeLemmas.trim_lower_chain_idem.
    + apply UnicodeLemmas.trim_upper_chain_idem.
    + apply UnicodeLemmas.lower_trim_chain_idem.
    + apply UnicodeLemmas.upper_trim_chain_idem.
  - exfalso. unfold accepted_builtin_chain in Hc.
    destruct a, b; cbn in Hc; try discriminate; rewrite Bool.andb_false_r in Hc; discriminate.
Qed.
