(* Characterisation of the recorded finding float_nan_passes_bounds (C01 / C07): what the
   constructor of a float declaration returns on a NaN.  The four bound validators emit the
   NEGATED comparison (`if val >= bound { return Err(..) }` for `less`), an IEEE comparison with
   a NaN operand is false, so a bound check never fires on a NaN: bound validators are
   transparent.  Only `finite` and a rejecting `predicate` stop a NaN, and the error reported is
   the variant of the first of those in the written order. *)
From NV Require Import Base.Util Base.FloatBits Base.Float Base.Expr
     Macro.Surface Macro.Ast Sem.Guard Sem.Value Sem.Eval Spec.GuardSpec
     Lemmas.GuardLemmas Lemmas.DeclLemmas Lemmas.FloatLemmas Run.Runner.
Local Open Scope Z_scope.

(* an ordered comparison with a NaN on the left is false, whatever the right operand is
   (another NaN included) *)
Lemma nan_cmp_false (is64 : bool) (x y : Z) :
  f_is_nan is64 x = true ->
  f_lt is64 x y = false /\ f_le is64 x y = false /\ f_gt is64 x y = false /\ f_ge is64 x y = false.
Proof.
  intros Hn. assert (Hc : fcmp is64 x y = None) by (apply fcmp_none_iff; left; exact Hn).
  unfold f_lt, f_le, f_gt, f_ge. rewrite Hc. repeat split; reflexivity.
Qed.

Section Decl.
  Variable lib : fnlib.

  (* the validators that can stop a NaN: `finite` always does, a predicate when the user
     function rejects the value; everything else is skipped *)
  Fixpoint first_nan_violation (vs : list validator) (x : value) : option vkind :=
    match vs with
    | [] => None
    | VFinite :: _ => Some KFinite
    | VPredicate f :: r =>
        if l_pred lib (fn_id f) x then first_nan_violation r x else Some KPredicate
    | _ :: r => first_nan_violation r x
    end.

  (* the emitted check of ONE validator on a NaN *)
  Lemma check_of_nan (d : decl) (is64 : bool) (v : validator) (x : Z) :
    d_family d = FFloat is64 -> f_is_nan is64 x = true ->
    check_of lib d v (VF x) =
    match v with
    | VFinite => Some (EVariant KFinite)
    | VPredicate f => if l_pred lib (fn_id f) (VF x) then None else Some (EVariant KPredicate)
    | _ => None
    end.
  Proof.
    intros Hf Hn. unfold check_of. rewrite Hf.
    destruct v as [b|b|b|b|f| |b|b| |rx]; try reflexivity.
    - destruct (nan_cmp_false is64 x (bval d b) Hn) as (_ & H & _ & _). rewrite H. reflexivity.
    - destruct (nan_cmp_false is64 x (bval d b) Hn) as (H & _ & _ & _). rewrite H. reflexivity.
    - destruct (nan_cmp_false is64 x (bval d b) Hn) as (_ & _ & _ & H). rewrite H. reflexivity.
    - destruct (nan_cmp_false is64 x (bval d b) Hn) as (_ & _ & H & _). rewrite H. reflexivity.
    - destruct (l_pred lib (fn_id f) (VF x)); reflexivity.
    - rewrite (nan_not_finite is64 x Hn). reflexivity.
  Qed.

  Lemma validate_nan (d : decl) (is64 : bool) (vs : list validator) (x : Z) :
    d_family d = FFloat is64 -> f_is_nan is64 x = true ->
    validate (map (check_of lib d) vs) (VF x) = option_map EVariant (first_nan_violation vs (VF x)).
  Proof.
    intros Hf Hn. induction vs as [|v vs IH]; [reflexivity|].
    cbn [map validate]. rewrite (check_of_nan d is64 v x Hf Hn).
    destruct v as [b|b|b|b|f| |b|b| |rx]; cbn [first_nan_violation]; try exact IH.
    - destruct (l_pred lib (fn_id f) (VF x)); [exact IH | reflexivity].
    - reflexivity.
  Qed.

  (* the characterisation, with sanitizers: whatever the declared sanitizers return, if it is
     a NaN the bound validators play no role *)
  Theorem try_new_nan_gen (d : decl) (is64 : bool) (vs : list validator) (raw : value) (x : Z) :
    d_family d = FFloat is64 -> d_validation d = Some (RVStandard vs) ->
    spec_sanitize lib d raw = VF x -> f_is_nan is64 x = true ->
    d_try_new lib d raw =
    match first_nan_violation vs (VF x) with
    | None => Ok (VF x)
    | Some k => Err (EVariant k)
    end.
  Proof.
    intros Hf Hv Hs Hn. unfold d_try_new, try_new.
    fold (d_sanitize lib d raw). rewrite d_sanitize_spec, Hs.
    unfold checks_of. rewrite Hv. rewrite (validate_nan d is64 vs x Hf Hn).
    destruct (first_nan_violation vs (VF x)); reflexivity.
  Qed.

  (* the statement asked for: no sanitizers *)
  Theorem try_new_nan (d : decl) (is64 : bool) (vs : list validator) (x : Z) :
    d_family d = FFloat is64 -> d_sans d = [] -> d_validation d = Some (RVStandard vs) ->
    f_is_nan is64 x = true ->
    d_try_new lib d (VF x) =
    match first_nan_violation vs (VF x) with
    | None => Ok (VF x)
    | Some k => Err (EVariant k)
    end.
  Proof.
    intros Hf Hsn Hv Hn. apply (try_new_nan_gen d is64 vs (VF x) x Hf Hv); [|exact Hn].
    unfold spec_sanitize. rewrite Hsn. reflexivity.
  Qed.

  (* ---------------------------------------------------------------- *)
  (* reading [first_nan_violation]                                     *)

  Definition stops_nan (x : value) (v : validator) : bool :=
    match v with
    | VFinite => true
    | VPredicate f => negb (l_pred lib (fn_id f) x)
    | _ => false
    end.

  Lemma first_nan_violation_none (vs : list validator) (x : value) :
    first_nan_violation vs x = None <-> existsb (stops_nan x) vs = false.
  Proof.
    induction vs as [|v vs IH]; [split; reflexivity|].
    cbn [first_nan_violation existsb].
    destruct v as [b|b|b|b|f| |b|b| |rx]; cbn [stops_nan orb]; try exact IH.
    - destruct (l_pred lib (fn_id f) x); cbn [negb orb]; [exact IH | split; discriminate].
    - split; discriminate.
  Qed.

  Lemma first_nan_violation_some (vs : list validator) (x : value) (k : vkind) :
    first_nan_violation vs x = Some k ->
    exists pre v post, vs = pre ++ v :: post /\ vkind_of v = k /\ stops_nan x v = true /\
                       Forall (fun v' => stops_nan x v' = false) pre.
  Proof.
    induction vs as [|v vs IH]; [discriminate|]. intros H.
    assert (Hskip : stops_nan x v = false -> first_nan_violation vs x = Some k ->
                    exists pre v0 post, v :: vs = pre ++ v0 :: post /\ vkind_of v0 = k /\
                                        stops_nan x v0 = true /\
                                        Forall (fun v' => stops_nan x v' = false) pre).
    { intros Hv H'. destruct (IH H') as (pre & v0 & post & -> & Hk & Hst & Hpre).
      exists (v :: pre), v0, post. repeat split; auto. }
    destruct v as [b|b|b|b|f| |b|b| |rx]; cbn [first_nan_violation] in H;
      try (apply Hskip; [reflexivity | exact H]).
    - destruct (l_pred lib (fn_id f) x) eqn:Hp.
      + apply Hskip; [cbn [stops_nan]; rewrite Hp; reflexivity | exact H].
      + injection H as <-. exists [], (VPredicate f), vs. cbn [stops_nan]. rewrite Hp.
        repeat split; auto.
    - injection H as <-. exists [], VFinite, vs. repeat split; auto.
  Qed.

  (* the MEANING of the rules on a NaN (Spec/GuardSpec.v): a NaN stands in no relation to a
     bound, is not finite, and satisfies a predicate iff the user function says so *)
  Definition is_bound (v : validator) : bool :=
    match bound_of v with Some _ => true | None => false end.

  Lemma holds_nan (d : decl) (is64 : bool) (v : validator) (x : Z) :
    d_family d = FFloat is64 -> f_is_nan is64 x = true ->
    holds lib d v (VF x) = negb (is_bound v) && negb (stops_nan (VF x) v).
  Proof.
    intros Hf Hn. unfold holds, is_bound. rewrite Hf.
    destruct v as [b|b|b|b|f| |b|b| |rx]; cbn [bound_of stops_nan negb andb]; try reflexivity.
    - destruct (nan_cmp_false is64 x (bval d b) Hn) as (_ & _ & H & _). exact H.
    - destruct (nan_cmp_false is64 x (bval d b) Hn) as (_ & _ & _ & H). exact H.
    - destruct (nan_cmp_false is64 x (bval d b) Hn) as (H & _ & _ & _). exact H.
    - destruct (nan_cmp_false is64 x (bval d b) Hn) as (_ & H & _ & _). exact H.
    - rewrite Bool.negb_involutive. reflexivity.
    - exact (nan_not_finite is64 x Hn).
  Qed.

  (* the finding as an equivalence: the constructor returns a NaN that violates the declared
     rules exactly when nothing stops the NaN and some bound is declared *)
  Theorem nan_accepted_invalid_iff (d : decl) (is64 : bool) (vs : list validator) (x : Z) :
    d_family d = FFloat is64 -> d_sans d = [] -> d_validation d = Some (RVStandard vs) ->
    f_is_nan is64 x = true ->
    (d_try_new lib d (VF x) = Ok (VF x) /\ spec_valid lib d (VF x) = false) <->
    (existsb (stops_nan (VF x)) vs = false /\ existsb is_bound vs = true).
  Proof.
    intros Hf Hsn Hv Hn. rewrite (try_new_nan d is64 vs x Hf Hsn Hv Hn).
    unfold spec_valid. rewrite Hv.
    assert (Hval : existsb (stops_nan (VF x)) vs = false ->
                   forallb (fun v => holds lib d v (VF x)) vs = negb (existsb is_bound vs)).
    { clear Hv. induction vs as [|v vs IH]; [reflexivity|]. cbn [existsb forallb]. intros H.
      apply Bool.orb_false_iff in H. destruct H as [H1 H2].
      rewrite (holds_nan d is64 v x Hf Hn), H1, (IH H2).
      destruct (is_bound v), (existsb is_bound vs); reflexivity. }
    destruct (first_nan_violation vs (VF x)) as [k|] eqn:Hfv.
    - split.
      + intros [H _]. discriminate H.
      + intros [H _]. apply first_nan_violation_none in H. congruence.
    - apply first_nan_violation_none in Hfv. rewrite (Hval Hfv). split.
      + intros [_ H]. split; [exact Hfv|]. apply Bool.negb_false_iff. exact H.
      + intros [_ H]. split; [reflexivity|]. rewrite H. reflexivity.
  Qed.

  (* bounds only: every NaN is accepted *)
  Corollary bounds_only_accept_nan (d : decl) (is64 : bool) (vs : list validator) (x : Z) :
    d_family d = FFloat is64 -> d_sans d = [] -> d_validation d = Some (RVStandard vs) ->
    forallb is_bound vs = true -> f_is_nan is64 x = true ->
    d_try_new lib d (VF x) = Ok (VF x).
  Proof.
    intros Hf Hsn Hv Hb Hn. rewrite (try_new_nan d is64 vs x Hf Hsn Hv Hn).
    assert (H : first_nan_violation vs (VF x) = None).
    { apply first_nan_violation_none. clear Hv. induction vs as [|v vs IH]; [reflexivity|].
      cbn [forallb] in Hb. apply Bool.andb_true_iff in Hb. destruct Hb as [H1 H2].
      cbn [existsb]. rewrite (IH H2). destruct v; try discriminate H1; reflexivity. }
    rewrite H. reflexivity.
  Qed.
End Decl.


(* ------------------------------------------------------------------ *)
(* Examples on f32; 2143289344 = 0x7FC00000 is the canonical quiet NaN,
   0 = 0.0, 1092616192 = 10.0                                          *)

Definition nan_ex_decl (vs : list validator) : decl :=
  {| d_family := FFloat false; d_name := "T"%string; d_vis := "pub"%string; d_generics := [];
     d_sans := []; d_validation := Some (RVStandard vs); d_new_unchecked := false;
     d_const_fn := false; d_default := None; d_traits := []; d_env := [] |}.

Example nan_is_nan : f_is_nan false 2143289344 = true.
Proof. vm_compute. reflexivity. Qed.

(* greater = 0.0, finite, less = 10.0: the NaN passes `greater`, `finite` reports *)
Example nan_reports_finite :
  let vs := [VGreater (BLit 0); VFinite; VLess (BLit 1092616192)] in
  let d := nan_ex_decl vs in
  first_nan_violation (the_lib d) vs (VF 2143289344) = Some KFinite /\
  d_try_new (the_lib d) d (VF 2143289344) = Err (EVariant KFinite).
Proof. vm_compute. split; reflexivity. Qed.

(* greater = 0.0, less = 10.0: the NaN is accepted although it satisfies neither bound *)
Example nan_passes_bounds :
  let vs := [VGreater (BLit 0); VLess (BLit 1092616192)] in
  let d := nan_ex_decl vs in
  first_nan_violation (the_lib d) vs (VF 2143289344) = None /\
  d_try_new (the_lib d) d (VF 2143289344) = Ok (VF 2143289344) /\
  spec_valid (the_lib d) d (VF 2143289344) = false.
Proof. vm_compute. repeat split; reflexivity. Qed.

(* a NaN bound changes nothing: less = NaN accepts a NaN as well *)
Example nan_bound_nan_value :
  let vs := [VLess (BLit 2143289344)] in
  let d := nan_ex_decl vs in
  d_try_new (the_lib d) d (VF 2143289344) = Ok (VF 2143289344).
Proof. vm_compute. reflexivity. Qed.

(* predicates are consulted in the written order: library predicate 1 is
   `|x| x.is_sign_positive()`; 4290772992 = 0xFFC00000 is the quiet NaN with the sign bit set.
   The negative NaN is stopped by the predicate, the positive one passes it and is stopped by
   `finite`; without `finite` the positive NaN is accepted. *)
Example nan_predicate_order :
  let p := VPredicate {| fn_id := 1; fn_form := FPath |} in
  let vs := [VGreater (BLit 0); p; VFinite] in
  let d := nan_ex_decl vs in
  let d' := nan_ex_decl [VGreater (BLit 0); p] in
  f_is_nan false 4290772992 = true /\
  d_try_new (the_lib d) d (VF 4290772992) = Err (EVariant KPredicate) /\
  d_try_new (the_lib d) d (VF 2143289344) = Err (EVariant KFinite) /\
  d_try_new (the_lib d') d' (VF 2143289344) = Ok (VF 2143289344) /\
  d_try_new (the_lib d') d' (VF 4290772992) = Err (EVariant KPredicate).
Proof. vm_compute. repeat split; reflexivity. Qed.
