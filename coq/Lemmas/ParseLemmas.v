(* C02: the parser keeps every written rule, in order, with the value its bound denotes. *)
From NV Require Import Base.Util Base.IntTy Base.FloatBits Base.Float Base.Expr
     Macro.Surface Macro.Ast Macro.Parse Macro.Validate Sem.Value Sem.Eval Lemmas.MacroLemmas.
Local Open Scope string_scope.

Lemma leading_lit_whole (e : expr) (n : bool) (l : lit) :
  leading_lit e = Some (n, l, true) -> (e = ELit l /\ n = false) \/ (e = ENeg (ELit l) /\ n = true).
Proof.
  destruct e; cbn; try discriminate.
  - intros H. injection H as <- <-. auto.
  - destruct e; try discriminate. intros H. injection H as <- <-. auto.
  - destruct (leading_lit e1) as [[[n' l'] w]|]; discriminate.
Qed.

(* a literal bound is stored as exactly the number the expression denotes; any other bound is
   kept verbatim as an expression (and then denotes whatever rustc evaluates it to) *)
Theorem parse_bound_int_faithful (tn : string) (t : int_ty) (en : env) (e : expr) (b : bound) (v : Z) :
  parse_bound_int t e = Accept b -> eval_int tn t en e = Some v ->
  match b with BLit x => x = v | BExpr e' => e' = e end.
Proof.
  unfold parse_bound_int. destruct (leading_lit e) as [[[n l] whole]|] eqn:Hl.
  - destruct (int_from_str t n l) as [x|] eqn:Hs.
    + destruct whole; [|discriminate]. intros H. injection H as <-. intros He.
      apply leading_lit_whole in Hl. unfold int_from_str in Hs.
      destruct (l_float l) eqn:Hf; [discriminate|].
      destruct (l_suffix l) eqn:Hsu; [discriminate|].
      destruct (l_radix l); [discriminate|].
      destruct Hl as [[-> ->]|[-> ->]]; cbn in *.
      * rewrite Hf in He. unfold suffix_ok in He. rewrite Hsu in He. cbn in He.
        destruct (in_ty t (l_int l)); [|discriminate]. congruence.
      * rewrite Hf in He. unfold suffix_ok in He. rewrite Hsu in He.
        destruct (signed t); cbn in *; [|discriminate].
        destruct (in_ty t (- l_int l)); [|discriminate]. congruence.
    + intros H. injection H as <-. reflexivity.
  - intros H. injection H as <-. reflexivity.
Qed.

(* at run time the enforced bound is the denoted value *)
Theorem enforced_bound_is_denoted (d : decl) (tn : string) (t : int_ty) (e : expr) (b : bound) (v : Z) :
  d_family d = FInt tn t ->
  parse_bound_int t e = Accept b -> eval_int tn t (d_env d) e = Some v -> bval d b = v.
Proof.
  intros Hf Hp He. pose proof (parse_bound_int_faithful tn t (d_env d) e b v Hp He) as H.
  unfold bval. destruct b as [x|e']; [exact H|]. subst e'. rewrite Hf, He. reflexivity.
Qed.

(* no rule is dropped or reordered inside validate(..) *)
Fixpoint std_of (l : list vattr) : list validator :=
  match l with
  | [] => []
  | VAStd v :: r => v :: std_of r
  | _ :: r => std_of r
  end.

Lemma collect_vattrs_keeps (l : list vattr) : forall acc w e vs w' e',
  collect_vattrs l acc w e = Accept (vs, w', e') -> vs = (rev acc ++ std_of l)%list.
Proof.
  induction l as [|a l IH]; intros acc w e vs w' e' H; cbn in H.
  - injection H as <- _ _. cbn. rewrite app_nil_r. reflexivity.
  - destruct a as [v|f|p].
    + apply IH in H. rewrite H. cbn. rewrite <- app_assoc. reflexivity.
    + destruct w; [discriminate|]. apply IH in H. exact H.
    + destruct e; [discriminate|]. apply IH in H. exact H.
Qed.

Theorem parse_validation_keeps_all (ft : features) (fam : family) (ts : list tok) (vs : list validator) :
  parse_validation ft fam ts = Accept (RVStandard vs) ->
  exists attrs, parse_terminated (parse_validate_attr ft fam) ts = Accept attrs /\ vs = std_of attrs.
Proof.
  unfold parse_validation. intros H.
  apply vbind_accept in H. destruct H as (attrs & Ha & H).
  apply vbind_accept in H. destruct H as ([[vs' w] e] & Hc & H).
  exists attrs. split; [exact Ha|].
  apply collect_vattrs_keeps in Hc. cbn in Hc. subst vs'.
  destruct (std_of attrs) as [|v r]; destruct w, e; try discriminate; injection H as <-; reflexivity.
Qed.

(* a repeated sanitize / validate / derive / default block is refused, never merged or replaced *)
Lemma parse_blocks_dup_validate (ft : features) (fam : family) (ts : list tok) (rest : list (list tok)) (sn : seen) (p : parsed) :
  sn_val sn = true -> parse_blocks ft fam ([TId "validate"; TG ts] :: rest) sn p = Reject "parse:duplicate_block".
Proof. intros H. cbn. rewrite H. reflexivity. Qed.

Lemma parse_blocks_dup_sanitize (ft : features) (fam : family) (ts : list tok) (rest : list (list tok)) (sn : seen) (p : parsed) :
  sn_san sn = true -> parse_blocks ft fam ([TId "sanitize"; TG ts] :: rest) sn p = Reject "parse:duplicate_block".
Proof. intros H. cbn. rewrite H. reflexivity. Qed.
