From NV Require Import Base.Util Base.Expr Macro.Surface Macro.Ast Sem.Guard Sem.Value Sem.Eval
     Sem.Conv Sem.Serde Spec.GuardSpec Lemmas.ConvLemmas Lemmas.CanonLemmas.

Section Serde.
  Variable lib : fnlib.
  Variable doc : Type.
  Variable de_inner : doc -> option value.
  Variable ser_inner : value -> doc.
  Variable wrap : string -> doc -> doc.
  Variable unwrap : string -> doc -> option doc.
  Hypothesis unwrap_wrap : forall n x, unwrap n (wrap n x) = Some x.

  Notation deser := (deserialize lib doc de_inner unwrap).
  Notation ser := (serialize doc ser_inner wrap).

  (* C04: a deserialized value is one the constructor returns for the carried inner value *)
  Theorem deserialize_sound (d : decl) (x : doc) (v : value) :
    deser d x = OOk v ->
    exists inner_doc raw, unwrap (d_name d) x = Some inner_doc /\ de_inner inner_doc = Some raw /\
                          construct lib d raw = OOk v.
  Proof.
    unfold deserialize. destruct (unwrap (d_name d) x) as [i|]; [|discriminate].
    intros H. apply deserialize_sound in H. destruct H as (raw & Hr & Hc). eauto.
  Qed.

  Theorem deserialize_complete (d : decl) (x inner_doc : doc) (raw : value) :
    has_trait TrDeserialize (d_traits d) = true ->
    unwrap (d_name d) x = Some inner_doc -> de_inner inner_doc = Some raw ->
    deser d x = construct lib d raw.
  Proof.
    intros Ht Hu Hd. unfold deserialize. rewrite Hu, Hd. apply deserialize_complete. exact Ht.
  Qed.

  Theorem deserialize_fails_with_inner (d : decl) (x inner_doc : doc) :
    has_trait TrDeserialize (d_traits d) = true ->
    unwrap (d_name d) x = Some inner_doc -> de_inner inner_doc = None -> deser d x = OParseErr.
  Proof. intros Ht Hu Hd. unfold deserialize, op_deserialize. rewrite Hu, Hd, Ht. reflexivity. Qed.

  (* nested positions: every element of a successfully deserialized container is constructor-made *)
  Theorem traverse_sound (d : decl) (l : list doc) (vs : list value) :
    traverse doc (deser d) l = Some vs ->
    Forall2 (fun x v => exists inner_doc raw, unwrap (d_name d) x = Some inner_doc /\
                                              de_inner inner_doc = Some raw /\ construct lib d raw = OOk v) l vs.
  Proof.
    revert vs. induction l as [|x l IH]; intros vs H; cbn in H.
    - injection H as <-. constructor.
    - destruct (deser d x) eqn:E; try discriminate.
      destruct (traverse doc (deser d) l) as [ws|] eqn:Et; [|discriminate].
      injection H as <-. constructor; [apply deserialize_sound; exact E | apply IH; reflexivity].
  Qed.

  (* C10: serialization is the wrapper around the inner value's own encoding *)
  Theorem serialize_transparent (d : decl) (v : value) :
    unwrap (d_name d) (ser d v) = Some (ser_inner v).
  Proof. unfold serialize. apply unwrap_wrap. Qed.

  (* C10: an obtainable value whose inner value round-trips survives the round trip *)
  Theorem roundtrip (d : decl) (raw v : value) :
    has_trait TrDeserialize (d_traits d) = true ->
    idempotent_on lib d -> comparable d (spec_sanitize lib d raw) = true ->
    construct lib d raw = OOk v ->
    de_inner (ser_inner v) = Some v ->
    deser d (ser d v) = OOk v.
  Proof.
    intros Ht Hid Hc Hob Hrt. unfold deserialize, serialize. rewrite unwrap_wrap, Hrt.
    rewrite ConvLemmas.deserialize_complete by exact Ht.
    eapply reenter; eauto.
  Qed.
End Serde.
