(* Decimal text of integers: printing then parsing is the identity on every value of the type,
   the parser never yields a value outside the type, and the consequences for FromStr / Display
   of integer newtypes. *)
From NV Require Import Base.Util Base.IntTy Base.Expr Macro.Surface Macro.Ast Sem.Guard Sem.Value
     Sem.Eval Sem.Conv Sem.Text Spec.GuardSpec Lemmas.ConvLemmas Lemmas.CanonLemmas.
From Coq Require Import Decimal DecimalZ DecimalPos.

Lemma uint_of_codes_of_uint (u : Decimal.uint) : uint_of_codes (codes_of_uint u) = Some u.
Proof. induction u as [|r IH|r IH|r IH|r IH|r IH|r IH|r IH|r IH|r IH|r IH]; cbn [codes_of_uint uint_of_codes]; [reflexivity| | | | | | | | | |]; rewrite IH; reflexivity. Qed.

Lemma codes_of_uint_nonnil (u : Decimal.uint) : u <> Nil -> codes_of_uint u <> [].
Proof. destruct u; [congruence| | | | | | | | | |]; intros _; discriminate. Qed.

(* the first character of a numeral is a digit: neither `+` nor `-` *)
Lemma codes_of_uint_head (u : Decimal.uint) (c : N) (r : list N) :
  codes_of_uint u = c :: r -> (c =? 43)%N = false /\ (c =? 45)%N = false.
Proof. destruct u; cbn [codes_of_uint]; intros H; [discriminate| | | | | | | | | |]; injection H as <- _; split; reflexivity. Qed.

Lemma parse_mag_codes (t : int_ty) (neg : bool) (u : Decimal.uint) :
  u <> Nil ->
  parse_mag t neg (codes_of_uint u) =
    (let z := if neg then (- Z.of_uint u)%Z else Z.of_uint u in if in_ty t z then Some z else None).
Proof.
  intros Hn. unfold parse_mag. pose proof (codes_of_uint_nonnil u Hn) as Hne.
  destruct (codes_of_uint u) eqn:E; [congruence|]. rewrite <- E, uint_of_codes_of_uint. reflexivity.
Qed.

Lemma of_uint_pos (p : positive) : Z.of_uint (Pos.to_uint p) = Z.pos p.
Proof. unfold Z.of_uint. rewrite DecimalPos.Unsigned.of_to. reflexivity. Qed.

(* from_str(to_string(z)) = Ok(z) for every z of the type *)
Theorem parse_show_int (t : int_ty) (z : Z) : in_ty t z = true -> parse_int t (show_int z) = Some z.
Proof.
  intros Hin. unfold show_int. destruct z as [|p|p]; cbn [Z.to_int].
  - cbn. rewrite Hin. reflexivity.
  - pose proof (DecimalPos.Unsigned.to_uint_nonnil p) as Hn.
    unfold parse_int. destruct (codes_of_uint (Pos.to_uint p)) as [|c r] eqn:E.
    + exfalso. exact (codes_of_uint_nonnil _ Hn E).
    + destruct (codes_of_uint_head _ _ _ E) as [H1 H2]. rewrite H1, H2, <- E, (parse_mag_codes t false _ Hn).
      cbv zeta. rewrite of_uint_pos, Hin. reflexivity.
  - pose proof (DecimalPos.Unsigned.to_uint_nonnil p) as Hn.
    unfold parse_int. change ((45 =? 43)%N) with false. change ((45 =? 45)%N) with true. cbv iota.
    assert (Hs : signed t = true).
    { unfold in_ty, in_range, ity_min in Hin. destruct (signed t); [reflexivity|].
      apply andb_prop in Hin. destruct Hin as [Hlo _]. apply Z.leb_le in Hlo. lia. }
    rewrite Hs, (parse_mag_codes t true _ Hn). cbv zeta. rewrite of_uint_pos.
    change (- Z.pos p)%Z with (Z.neg p). rewrite Hin. reflexivity.
Qed.

Lemma parse_mag_sound (t : int_ty) (neg : bool) (ds : list N) (z : Z) :
  parse_mag t neg ds = Some z -> in_ty t z = true.
Proof.
  unfold parse_mag. destruct ds as [|c r]; [discriminate|].
  destruct (uint_of_codes (c :: r)) as [u|]; [|discriminate]. cbn [obind].
  destruct (in_ty t (if neg then (- Z.of_uint u)%Z else Z.of_uint u)) eqn:E; [|discriminate].
  intros H. injection H as <-. exact E.
Qed.

(* the parser never yields a value outside the type (overflow is an error, never a wrap) *)
Theorem parse_int_sound (t : int_ty) (s : list N) (z : Z) : parse_int t s = Some z -> in_ty t z = true.
Proof.
  unfold parse_int. destruct s as [|c ds]; [discriminate|].
  destruct (c =? 43)%N; [apply parse_mag_sound|].
  destruct (c =? 45)%N; [destruct (signed t); [apply parse_mag_sound | discriminate]|].
  apply parse_mag_sound.
Qed.

(* every accepted text consists of an optional sign followed by ASCII digits only *)
Lemma uint_of_codes_digits (l : list N) (u : Decimal.uint) :
  uint_of_codes l = Some u -> Forall (fun c => (48 <=? c)%N && (c <=? 57)%N = true) l.
Proof.
  revert u. induction l as [|c r IH]; intros u H; [constructor|].
  cbn [uint_of_codes] in H. destruct (uint_of_codes r) as [u'|] eqn:E; [|discriminate]. cbn [obind] in H.
  constructor; [|exact (IH u' eq_refl)].
  unfold digit_of_code in H.
  repeat match type of H with
         | (if (c =? ?k)%N then _ else _) = _ =>
             destruct (N.eqb_spec c k) as [->|_]; [reflexivity|]
         end.
  discriminate.
Qed.

Theorem parse_int_shape (t : int_ty) (s : list N) (z : Z) :
  parse_int t s = Some z ->
  exists sign ds, s = sign ++ ds /\ ds <> [] /\
                  (sign = [] \/ sign = [43%N] \/ (sign = [45%N] /\ signed t = true)) /\
                  Forall (fun c => (48 <=? c)%N && (c <=? 57)%N = true) ds.
Proof.
  assert (M : forall neg ds, parse_mag t neg ds = Some z ->
                             ds <> [] /\ Forall (fun c => (48 <=? c)%N && (c <=? 57)%N = true) ds).
  { intros neg ds. unfold parse_mag. destruct ds as [|c r]; [discriminate|].
    destruct (uint_of_codes (c :: r)) as [u|] eqn:E; [|discriminate]. intros _.
    split; [discriminate | exact (uint_of_codes_digits _ _ E)]. }
  unfold parse_int. destruct s as [|c ds]; [discriminate|].
  destruct (N.eqb_spec c 43) as [->|_].
  { intros H. destruct (M _ _ H) as [Hn Hd]. exists [43%N], ds. repeat split; auto. }
  destruct (N.eqb_spec c 45) as [->|_].
  { destruct (signed t) eqn:Hs; [|discriminate]. intros H. destruct (M _ _ H) as [Hn Hd].
    exists [45%N], ds. repeat split; auto. }
  intros H. destruct (M _ _ H) as [Hn Hd]. exists [], (c :: ds). repeat split; auto.
Qed.

Section Decl.
  Variable lib : fnlib.

  (* C06 on the text itself: Parse error exactly when the inner type's parser refuses the text *)
  Theorem from_str_text_parse_err_iff (d : decl) (tn : string) (t : int_ty) (s : list N) :
    d_family d = FInt tn t -> has_trait TrFromStr (d_traits d) = true ->
    (op_from_str_text lib d s = OParseErr <-> parse_int t s = None).
  Proof.
    intros Hf Ht. unfold op_from_str_text. rewrite Hf.
    assert (Hf' : d_family d <> FStr) by (rewrite Hf; discriminate).
    rewrite (from_str_parse_err_iff lib d _ Hf' Ht).
    destruct (parse_int t s); cbn [option_map]; split; congruence.
  Qed.

  Theorem from_str_text_is_constructor (d : decl) (tn : string) (t : int_ty) (s : list N) (z : Z) :
    d_family d = FInt tn t -> has_trait TrFromStr (d_traits d) = true -> parse_int t s = Some z ->
    op_from_str_text lib d s = construct lib d (VI z) /\ in_ty t z = true.
  Proof.
    intros Hf Ht Hp. unfold op_from_str_text. rewrite Hf, Hp. cbn [option_map]. split.
    - apply from_str_is_constructor; [rewrite Hf; discriminate | exact Ht].
    - exact (parse_int_sound t s z Hp).
  Qed.

  (* C11: Display -> FromStr stays on the same value *)
  Theorem display_from_str_int (d : decl) (tn : string) (t : int_ty) (raw : value) (z : Z) :
    d_family d = FInt tn t -> has_trait TrFromStr (d_traits d) = true ->
    idempotent_on lib d -> construct lib d raw = OOk (VI z) -> in_ty t z = true ->
    op_from_str_text lib d (show_int z) = OOk (VI z).
  Proof.
    intros Hf Ht Hid Hc Hin.
    destruct (from_str_text_is_constructor d tn t (show_int z) z Hf Ht (parse_show_int t z Hin)) as [-> _].
    apply (reenter lib d raw (VI z) Hid); [|exact Hc].
    unfold comparable. rewrite Hf. reflexivity.
  Qed.
End Decl.
