(* Unstructured::int_in_range: always inside the range, and onto the range. *)
From NV Require Import Base.Util Base.IntTy Sem.Bytes.
From Coq Require Import Zify ZifyBool.
Local Open Scope Z_scope.

Lemma pow256_pos (n : nat) : 0 < 256 ^ Z.of_nat n.
Proof. apply Z.pow_pos_nonneg; lia. Qed.

Lemma pow256_S (n : nat) : 256 ^ Z.of_nat (S n) = 256 * 256 ^ Z.of_nat n.
Proof. rewrite Nat2Z.inj_succ, Z.pow_succ_r by lia. reflexivity. Qed.

Lemma bytes_ok_cons (b : Z) (bs : bytes) :
  bytes_ok (b :: bs) = true -> 0 <= b < 256 /\ bytes_ok bs = true.
Proof. unfold bytes_ok. cbn [forallb]. unfold byte_ok at 1. intros H. split; lia. Qed.

Lemma take_be_bound (n : nat) : forall (bs : bytes) (acc a : Z) (r : bytes),
  bytes_ok bs = true -> 0 <= acc -> take_be n bs acc = (a, r) ->
  0 <= a < (acc + 1) * 256 ^ Z.of_nat n.
Proof.
  induction n as [|n IH]; intros bs acc a r Hb Ha H; cbn [take_be] in H.
  - injection H as <- <-. cbn. lia.
  - pose proof (pow256_pos n) as Hp. rewrite pow256_S.
    destruct bs as [|b bs].
    + injection H as <- <-. nia.
    + apply bytes_ok_cons in Hb. destruct Hb as [Hb Hbs].
      specialize (IH bs (acc * 256 + b) a r Hbs ltac:(lia) H). nia.
Qed.

Definition wf_bits (t : int_ty) : Prop := exists k, 0 < k /\ bits t = 8 * k.

Lemma bytes_wanted_full (t : int_ty) :
  wf_bits t -> bytes_wanted t (2 ^ bits t - 1) = Z.to_nat (bits t / 8).
Proof.
  intros (k & Hk & Hb). unfold bytes_wanted.
  assert (Hl : Z.log2 (2 ^ bits t - 1) = bits t - 1).
  { replace (2 ^ bits t - 1) with (Z.pred (2 ^ bits t)) by lia.
    rewrite Z.log2_pred_pow2 by lia. lia. }
  rewrite Hl, Hb. replace (8 * k - 1) with (7 + (k - 1) * 8) by lia.
  rewrite Z.div_add by lia. replace (8 * k) with (k * 8) by lia. rewrite Z.div_mul by lia.
  cbn. apply Nat.min_l. lia.
Qed.

Lemma pow2_bits (t : int_ty) : wf_bits t -> 2 ^ bits t = 256 ^ Z.of_nat (Z.to_nat (bits t / 8)).
Proof.
  intros (k & Hk & Hb). rewrite Hb. replace (8 * k) with (k * 8) by lia.
  rewrite Z.div_mul by lia. rewrite Z2Nat.id by lia.
  replace 256 with (2 ^ 8) by reflexivity. rewrite <- Z.pow_mul_r by lia. f_equal. lia.
Qed.

(* the result always lies in [lo, hi] *)
Theorem int_in_range_in_bounds (t : int_ty) (lo hi : Z) (bs : bytes) :
  wf_bits t -> bytes_ok bs = true -> lo <= hi -> hi - lo <= 2 ^ bits t - 1 ->
  exists x r, int_in_range t lo hi bs = Some (x, r) /\ lo <= x <= hi.
Proof.
  intros Hw Hb Hle Hd. unfold int_in_range.
  destruct (hi <? lo) eqn:E1; [lia|].
  destruct (lo =? hi) eqn:E2; [exists lo, bs; split; [reflexivity|lia]|].
  destruct (take_be (bytes_wanted t (hi - lo)) bs 0) as [acc rest] eqn:Ht.
  pose proof (take_be_bound _ _ _ _ _ Hb (Z.le_refl 0) Ht) as Hacc.
  destruct (hi - lo =? 2 ^ bits t - 1) eqn:E3.
  - assert (Hdl : hi - lo = 2 ^ bits t - 1) by lia. rewrite Hdl, bytes_wanted_full in Hacc by exact Hw.
    rewrite <- pow2_bits in Hacc by exact Hw.
    exists (lo + acc), rest. split; [reflexivity|lia].
  - exists (lo + acc mod (hi - lo + 1)), rest. split; [reflexivity|].
    pose proof (Z.mod_pos_bound acc (hi - lo + 1) ltac:(lia)). lia.
Qed.

(* big-endian encoding in n bytes *)
Fixpoint be_bytes (n : nat) (x : Z) : bytes :=
  match n with
  | O => []
  | S n' => (x / 256 ^ Z.of_nat n') :: be_bytes n' (x mod 256 ^ Z.of_nat n')
  end.

Lemma be_bytes_ok (n : nat) : forall x, 0 <= x < 256 ^ Z.of_nat n -> bytes_ok (be_bytes n x) = true.
Proof.
  induction n as [|n IH]; intros x Hx; [reflexivity|].
  cbn [be_bytes]. unfold bytes_ok. cbn [forallb]. fold (bytes_ok (be_bytes n (x mod 256 ^ Z.of_nat n))).
  pose proof (pow256_pos n) as Hp. rewrite pow256_S in Hx.
  rewrite IH by (apply Z.mod_pos_bound; lia).
  unfold byte_ok.
  assert (0 <= x / 256 ^ Z.of_nat n) by (apply Z.div_pos; lia).
  assert (x / 256 ^ Z.of_nat n < 256) by (apply Z.div_lt_upper_bound; lia).
  lia.
Qed.

Lemma take_be_be_bytes (n : nat) : forall (x acc : Z) (rest : bytes),
  0 <= x < 256 ^ Z.of_nat n ->
  take_be n (be_bytes n x ++ rest) acc = (acc * 256 ^ Z.of_nat n + x, rest).
Proof.
  induction n as [|n IH]; intros x acc rest Hx.
  - cbn in *. f_equal. lia.
  - cbn [be_bytes take_be app]. pose proof (pow256_pos n) as Hp.
    rewrite IH by (apply Z.mod_pos_bound; lia). f_equal.
    rewrite pow256_S. pose proof (Z.div_mod x (256 ^ Z.of_nat n) ltac:(lia)). nia.
Qed.

Lemma log2_lt_pow256 (d : Z) : 0 < d -> d < 256 ^ Z.of_nat (Z.to_nat (Z.log2 d / 8 + 1)).
Proof.
  intros Hd. pose proof (Z.log2_nonneg d) as Hl.
  assert (Hq : 0 <= Z.log2 d / 8) by (apply Z.div_pos; lia).
  rewrite Z2Nat.id by lia.
  replace 256 with (2 ^ 8) by reflexivity. rewrite <- Z.pow_mul_r by lia.
  pose proof (Z.log2_spec d Hd) as [_ Hs].
  eapply Z.lt_le_trans; [exact Hs|]. apply Z.pow_le_mono_r; [lia|].
  pose proof (Z.div_mod (Z.log2 d) 8 ltac:(lia)). pose proof (Z.mod_pos_bound (Z.log2 d) 8 ltac:(lia)). lia.
Qed.

(* every value of the range is produced by some byte input *)
Theorem int_in_range_surjective (t : int_ty) (lo hi v : Z) :
  wf_bits t -> lo <= v <= hi -> hi - lo <= 2 ^ bits t - 1 ->
  exists bs, bytes_ok bs = true /\ exists r, int_in_range t lo hi bs = Some (v, r).
Proof.
  intros Hw Hv Hd. unfold int_in_range.
  destruct (hi <? lo) eqn:E1; [lia|].
  destruct (lo =? hi) eqn:E2.
  - exists []. split; [reflexivity|]. exists []. f_equal. f_equal. lia.
  - set (delta := hi - lo). set (n := bytes_wanted t delta).
    assert (Hoff : 0 <= v - lo < 256 ^ Z.of_nat n).
    { split; [lia|]. unfold n, bytes_wanted.
      destruct (Nat.min_spec (Z.to_nat (bits t / 8)) (Z.to_nat (Z.log2 delta / 8 + 1))) as [[_ ->]|[_ ->]].
      - rewrite <- pow2_bits by exact Hw. unfold delta in *. lia.
      - pose proof (log2_lt_pow256 delta ltac:(unfold delta; lia)). unfold delta in *. lia. }
    exists (be_bytes n (v - lo)). split; [apply be_bytes_ok; exact Hoff|].
    rewrite <- (app_nil_r (be_bytes n (v - lo))). rewrite take_be_be_bytes by exact Hoff.
    exists []. f_equal. f_equal.
    destruct (delta =? 2 ^ bits t - 1); [lia|].
    rewrite Z.mod_small by (unfold delta; lia). lia.
Qed.
