From NV Require Import Base.Util Base.IntTy Base.FloatBits Base.Float Base.Expr
     Macro.Surface Macro.Ast Sem.Guard Sem.Value Sem.Eval Spec.GuardSpec.
Local Open Scope Z_scope.

Section Generic.
  Context {V E : Type}.

  Lemma validate_none_iff (cs : list (V -> option E)) (v : V) :
    validate cs v = None <-> Forall (fun c => c v = None) cs.
  Proof.
    induction cs as [|c cs IH]; cbn [validate].
    - split; intros; [constructor | reflexivity].
    - destruct (c v) eqn:Hc.
      + split; [discriminate|]. intros H. inversion H as [|? ? Hc' ?]; subst. congruence.
      + rewrite IH. split.
        * intros H. constructor; assumption.
        * intros H. inversion H; assumption.
  Qed.

  Lemma validate_some_first (cs : list (V -> option E)) (v : V) (e : E) :
    validate cs v = Some e ->
    exists pre c post, cs = pre ++ c :: post /\ c v = Some e /\ Forall (fun c' => c' v = None) pre.
  Proof.
    induction cs as [|c cs IH]; cbn [validate]; [discriminate|].
    destruct (c v) eqn:Hc.
    - intros H. injection H as ->. exists [], c, cs. repeat split; [assumption | constructor].
    - intros H. destruct (IH H) as (pre & c' & post & -> & Hc' & Hpre).
      exists (c :: pre), c', post. repeat split; [assumption | constructor; assumption].
  Qed.

  Lemma try_new_ok_iff (sans : list (V -> V)) (cs : list (V -> option E)) (raw v : V) :
    try_new sans cs raw = Ok v <-> v = sanitize sans raw /\ validate cs (sanitize sans raw) = None.
  Proof.
    unfold try_new. destruct (validate cs (sanitize sans raw)) eqn:Hv.
    - split; [discriminate | intros [_ H]; discriminate].
    - split.
      + intros H. injection H as <-. split; reflexivity.
      + intros [-> _]. reflexivity.
  Qed.

  Lemma try_new_err_iff (sans : list (V -> V)) (cs : list (V -> option E)) (raw : V) (e : E) :
    try_new sans cs raw = Err e <-> validate cs (sanitize sans raw) = Some e.
  Proof.
    unfold try_new. destruct (validate cs (sanitize sans raw)) eqn:Hv.
    - split; intros H; injection H as ->; reflexivity.
    - split; discriminate.
  Qed.

  Lemma validate_map_ext {S} (f g : S -> V -> option E) (l : list S) (x : V) :
    (forall s, f s x = g s x) -> validate (map f l) x = validate (map g l) x.
  Proof.
    intros H. induction l as [|s l IH]; cbn [map validate]; [reflexivity|].
    rewrite H, IH. reflexivity.
  Qed.

  Lemma sanitize_map {S} (f : S -> V -> V) (l : list S) (raw : V) :
    sanitize (map f l) raw = fold_left (fun x s => f s x) l raw.
  Proof.
    unfold sanitize. revert raw. induction l as [|s l IH]; intros raw; cbn; [reflexivity|apply IH].
  Qed.
End Generic.

Section Decl.
  Variable lib : fnlib.

  Lemma fail_none (c : bool) (k : vkind) : fail c k = None <-> c = false.
  Proof. unfold fail. destruct c; split; congruence. Qed.

  Lemma fail_some (c : bool) (k : vkind) (e : verr) : fail c k = Some e -> e = EVariant k /\ c = true.
  Proof. unfold fail. destruct c; [intros H; injection H as <-; auto | discriminate]. Qed.

  (* float comparisons: the emitted negated test is the complement of the meaning exactly
     when the comparison is defined *)
  Lemma f_cmp_defined_complements is64 x y :
    fcmp is64 x y <> None ->
    f_ge is64 x y = negb (f_lt is64 x y) /\ f_gt is64 x y = negb (f_le is64 x y) /\
    f_le is64 x y = negb (f_gt is64 x y) /\ f_lt is64 x y = negb (f_ge is64 x y).
  Proof.
    unfold f_ge, f_lt, f_gt, f_le. destruct (fcmp is64 x y) as [[| |]|]; intros H; try congruence; auto.
  Qed.

  (* the emitted check passes exactly when the rule holds *)
  Lemma check_of_none_iff (d : decl) (v : validator) (x : value) :
    (forall is64 z b, d_family d = FFloat is64 -> x = VF z -> bound_of v = Some b ->
                      fcmp is64 z (bval d b) <> None) ->
    check_of lib d v x = None <-> holds lib d v x = true.
  Proof.
    intros Hcmp. unfold check_of, holds.
    destruct (d_family d) as [|tn t|is64|ty] eqn:Hf; destruct v; destruct x;
      try (split; reflexivity || auto; fail);
      rewrite ?fail_none;
      try (rewrite negb_false_iff; reflexivity);
      try (specialize (Hcmp is64 _ _ eq_refl eq_refl eq_refl);
           destruct (f_cmp_defined_complements is64 _ _ Hcmp) as (H1 & H2 & H3 & H4)).
    all: try (rewrite ?Z.geb_leb, ?Z.gtb_ltb, ?Z.leb_gt, ?Z.leb_le, ?Z.ltb_lt, ?Z.ltb_ge, ?Z.leb_gt; lia).
    all: try (rewrite ?H1, ?H2, ?H3, ?H4, ?negb_false_iff, ?negb_true_iff; try reflexivity;
              destruct (f_lt is64 bits (bval d b)), (f_le is64 bits (bval d b)),
                       (f_gt is64 bits (bval d b)), (f_ge is64 bits (bval d b)); cbn in *; intuition congruence).
    all: try (destruct s; split; congruence).
  Qed.
End Decl.
