(* Facts about IEEE comparisons (Flocq's Bcompare) used by the float instances of C01/C07/C12. *)
From NV Require Import Base.Util Base.FloatBits Base.Float
     Macro.Surface Macro.Ast Sem.Guard Sem.Value Sem.Eval Spec.GuardSpec
     Lemmas.GuardLemmas Lemmas.DeclLemmas.
From Flocq Require Import Core IEEE754.BinarySingleNaN IEEE754.Binary IEEE754.Bits.
Local Open Scope Z_scope.

Lemma Bcompare_none_iff prec emax (x y : binary_float prec emax) :
  Bcompare prec emax x y = None <-> is_nan prec emax x = true \/ is_nan prec emax y = true.
Proof.
  unfold Bcompare. destruct x as [sx|sx|sx px Hx|sx mx ex Hx], y as [sy|sy|sy py Hy|sy my ey Hy];
    cbn; split; intros H; try discriminate; try (destruct H; discriminate); auto.
  all: try (destruct sx, sy; discriminate).
  all: try (destruct sx; discriminate).
  all: try (destruct sy; discriminate).
  all: try (destruct sx, sy; try discriminate; destruct (Z.compare ex ey); try discriminate;
            destruct (Pos.compare_cont Eq mx my); discriminate).
Qed.

Lemma fcmp_none_iff is64 x y :
  fcmp is64 x y = None <-> f_is_nan is64 x = true \/ f_is_nan is64 y = true.
Proof.
  unfold fcmp, f_is_nan, b64_compare, b32_compare. destruct is64; apply Bcompare_none_iff.
Qed.

Lemma nan_not_finite is64 x : f_is_nan is64 x = true -> f_is_finite is64 x = false.
Proof.
  unfold f_is_nan, f_is_finite. destruct is64.
  - destruct (b64_of_bits x); cbn; congruence.
  - destruct (b32_of_bits x); cbn; congruence.
Qed.

Section Decl.
  Variable lib : fnlib.

  (* every bound of the declaration denotes a number *)
  Definition bounds_not_nan (d : decl) : bool :=
    match d_family d with
    | FFloat is64 =>
        forallb (fun v => match bound_of v with
                          | Some b => negb (f_is_nan is64 (bval d b))
                          | None => true end) (standard_validators d)
    | _ => true
    end.

  Lemma comparable_of_not_nan (d : decl) (x : value) :
    bounds_not_nan d = true ->
    (forall is64 z, d_family d = FFloat is64 -> x = VF z -> f_is_nan is64 z = false) ->
    comparable d x = true.
  Proof.
    intros Hb Hx. unfold comparable, bounds_not_nan in *.
    destruct (d_family d) as [| | is64|] eqn:Hf; try reflexivity.
    destruct x as [|z| |]; try reflexivity.
    specialize (Hx is64 z eq_refl eq_refl).
    rewrite forallb_forall in *. intros v Hin. specialize (Hb v Hin).
    destruct (bound_of v) as [b|]; [|reflexivity].
    destruct (fcmp is64 z (bval d b)) eqn:Hc; [reflexivity|].
    apply fcmp_none_iff in Hc. rewrite negb_true_iff in Hb. destruct Hc; congruence.
  Qed.

  (* with `finite` among the validators a NaN is rejected, so the constructor is exact on
     every input, NaN payloads and infinities included *)
  Lemma finite_rejects_nan (d : decl) (vs : list validator) (is64 : bool) (z : Z) :
    d_family d = FFloat is64 -> In VFinite vs -> f_is_nan is64 z = true ->
    validate (map (check_of lib d) vs) (VF z) <> None /\
    forallb (fun v => holds lib d v (VF z)) vs = false.
  Proof.
    intros Hf Hin Hn. split.
    - rewrite validate_none_iff, Forall_map, Forall_forall. intros H. specialize (H _ Hin).
      unfold check_of in H. rewrite Hf in H. rewrite (nan_not_finite _ _ Hn) in H. discriminate.
    - destruct (forallb (fun v => holds lib d v (VF z)) vs) eqn:Ha; [|reflexivity].
      rewrite forallb_forall in Ha. specialize (Ha _ Hin). unfold holds in Ha. rewrite Hf in Ha.
      rewrite (nan_not_finite _ _ Hn) in Ha. discriminate.
  Qed.

  Theorem try_new_ok_iff_spec_finite (d : decl) (vs : list validator) (raw v : value) :
    d_validation d = Some (RVStandard vs) -> In VFinite vs -> bounds_not_nan d = true ->
    d_try_new lib d raw = Ok v <->
    v = spec_sanitize lib d raw /\ spec_valid lib d (spec_sanitize lib d raw) = true.
  Proof.
    intros Hv Hin Hb.
    destruct (d_family d) as [| |is64|] eqn:Hf;
      try (apply try_new_ok_iff_spec; unfold comparable; rewrite Hf; reflexivity).
    destruct (spec_sanitize lib d raw) as [zi|z|s|l] eqn:Hs;
      try (rewrite <- Hs; apply try_new_ok_iff_spec; rewrite Hs; unfold comparable; rewrite Hf; reflexivity).
    destruct (f_is_nan is64 z) eqn:Hn.
    - destruct (finite_rejects_nan d vs is64 z Hf Hin Hn) as [H1 H2].
      unfold d_try_new. rewrite try_new_ok_iff. fold (d_sanitize lib d raw).
      rewrite d_sanitize_spec, Hs. unfold checks_of, spec_valid. rewrite Hv. cbv beta iota. rewrite H2.
      split; intros [_ H]; [contradiction | discriminate].
    - rewrite <- Hs. apply try_new_ok_iff_spec. rewrite Hs. apply comparable_of_not_nan; [exact Hb|].
      intros is64' z' Hf' Hz. rewrite Hf in Hf'. injection Hf' as <-. injection Hz as <-. exact Hn.
  Qed.
End Decl.
