(* The rule book of Spec/Reference.v against the model of the macro (Macro/Parse.v,
   Macro/Validate.v).

   A. [macro_sound_wrt_book]: whatever [full_verdict] accepts, the book accepts too, except the
      one recorded class "0:literal_bounds", which is characterised exactly ([recorded_class]):
      an integer / float declaration whose two EXCLUSIVE bounds are literals that leave no
      value in between (integers: less = greater + 1; floats: greater < less are adjacent).
   B. [book_complete_outside_recorded]: whatever the book accepts and [extra_ok] (the side
      conditions outside of the book's scope) accepts, [full_verdict] accepts.

   Both hold for every feature set, every surface declaration, all four families, floats
   included; the only hypotheses are the two parse equations naming [fam] and [p]. *)
From NV Require Import Base.Util Base.IntTy Base.FloatBits Base.Float Base.Expr
     Macro.Surface Macro.Ast Macro.Parse Macro.Validate Spec.Reference
     Lemmas.MacroLemmas Lemmas.FloatOrder Lemmas.ParseLemmas.
From Flocq Require Core IEEE754.BinarySingleNaN IEEE754.Binary IEEE754.Bits.
From Coq Require Reals Lra.
From Coq Require Import Lia.

(* ====================================================================================== *)
(* 0. floats: the successor is not below, literals are not NaN                              *)
(* ====================================================================================== *)

(* Reals and Flocq are imported inside this module only: they redefine [bound], [family], ... *)
Module RefFloat.
Import Coq.Reals.Reals Coq.micromega.Lra.
Import Flocq.Core.Core Flocq.IEEE754.BinarySingleNaN Flocq.IEEE754.Binary Flocq.IEEE754.Bits.

Section SuccGeneric.
Variables prec emax : Z.
Context (Hprec : FLX.Prec_gt_0 prec) (Hmax : BinarySingleNaN.Prec_lt_emax prec emax).

Lemma BSN_succ_not_lt (y : BinarySingleNaN.binary_float prec emax) :
  BinarySingleNaN.Bcompare (BinarySingleNaN.Bsucc y) y <> Some Lt.
Proof.
  destruct (BinarySingleNaN.is_finite y) eqn:Fy.
  - pose proof (BinarySingleNaN.Bsucc_correct _ _ _ _ y Fy) as H.
    destruct (Rlt_bool _ _).
    + destruct H as (HR & HF & _).
      rewrite BinarySingleNaN.Bcompare_correct by assumption. rewrite HR.
      intros E. injection E as E. apply Rcompare_Lt_inv in E.
      pose proof (succ_ge_id radix2 (SpecFloat.fexp prec emax) (BinarySingleNaN.B2R y)). lra.
    + destruct (BinarySingleNaN.Bsucc y) as [s|[|]| |s m e B]; try discriminate.
      destruct y as [s|s| |s m e B]; try discriminate; cbn; discriminate.
  - destruct y as [s|[|]| |s m e B]; try discriminate; cbn; try discriminate.
Qed.
End SuccGeneric.

Lemma B_succ_not_lt prec emax (Hp : FLX.Prec_gt_0 prec) (Hm : BinarySingleNaN.Prec_lt_emax prec emax)
  (y : Binary.binary_float prec emax) :
  Binary.Bcompare prec emax (Binary.Bsucc prec emax Hp Hm y) y <> Some Lt.
Proof.
  unfold Binary.Bcompare, Binary.Bsucc. rewrite B2BSN_lift. apply BSN_succ_not_lt; assumption.
Qed.

Lemma f_succ_not_lt (is64 : bool) (x : Z) : f_lt is64 (f_succ is64 x) x = false.
Proof.
  unfold f_lt, fcmp, f_succ. destruct is64.
  - unfold b64_of_bits at 1, bits_of_b64. rewrite binary_float_of_bits_of_binary_float.
    unfold b64_compare, b64_succ.
    match goal with |- context[Binary.Bcompare ?p ?e (Binary.Bsucc _ _ ?hp ?hm ?y) _] =>
      pose proof (B_succ_not_lt p e hp hm y) as H end.
    destruct (Binary.Bcompare _ _ _ _) as [[| |]|]; congruence.
  - unfold b32_of_bits at 1, bits_of_b32. rewrite binary_float_of_bits_of_binary_float.
    unfold b32_compare, b32_succ.
    match goal with |- context[Binary.Bcompare ?p ?e (Binary.Bsucc _ _ ?hp ?hm ?y) _] =>
      pose proof (B_succ_not_lt p e hp hm y) as H end.
    destruct (Binary.Bcompare _ _ _ _) as [[| |]|]; congruence.
Qed.

(* the book's "a float strictly in between" implies every pairwise test of the macro *)
Lemma f_succ_lt_cmp (is64 : bool) (x y : Z) :
  f_lt is64 (f_succ is64 x) y = true -> f_ge is64 x y = false /\ f_gt is64 x y = false.
Proof.
  intros H. pose proof (f_succ_not_lt is64 x) as Hn.
  assert (Hle : f_le is64 y x = false).
  { destruct (f_le is64 y x) eqn:E; [|reflexivity].
    destruct (fcmp_le_lt_trans is64 (f_succ is64 x) y x) as [_ T]. rewrite (T H E) in Hn. discriminate. }
  unfold f_le in Hle. unfold f_ge, f_gt.
  destruct (fcmp is64 x y) as [c|] eqn:E; [|split; reflexivity].
  apply fcmp_antisym in E. rewrite E in Hle. destruct c; cbn in *; try discriminate; split; reflexivity.
Qed.

Lemma fb_finite_not_nan (is64 : bool) (x : Z) : fb_is_finite is64 x = true -> f_is_nan is64 x = false.
Proof.
  unfold fb_is_finite, fb_exp, f_is_nan. destruct is64; cbn [f_manw f_expw]; intros H;
    [unfold b64_of_bits | unfold b32_of_bits]; unfold binary_float_of_bits; rewrite is_nan_FF2B;
    unfold binary_float_of_bits_aux, split_bits.
  - pose proof (Z.mod_pos_bound x (2 ^ 52) ltac:(reflexivity)) as Hm.
    set (m := (x mod 2 ^ 52)%Z) in *. set (e := ((x / 2 ^ 52) mod 2 ^ 11)%Z) in *.
    rewrite Bool.negb_true_iff in H. apply Z.eqb_neq in H.
    destruct (Zeq_bool e (2 ^ 11 - 1)) eqn:E2; [apply Zeq_bool_eq in E2; contradiction|].
    destruct (Zeq_bool e 0).
    + destruct m; try reflexivity. lia.
    + destruct (m + 2 ^ 52)%Z eqn:E; try reflexivity; lia.
  - pose proof (Z.mod_pos_bound x (2 ^ 23) ltac:(reflexivity)) as Hm.
    set (m := (x mod 2 ^ 23)%Z) in *. set (e := ((x / 2 ^ 23) mod 2 ^ 8)%Z) in *.
    rewrite Bool.negb_true_iff in H. apply Z.eqb_neq in H.
    destruct (Zeq_bool e (2 ^ 8 - 1)) eqn:E2; [apply Zeq_bool_eq in E2; contradiction|].
    destruct (Zeq_bool e 0).
    + destruct m; try reflexivity. lia.
    + destruct (m + 2 ^ 23)%Z eqn:E; try reflexivity; lia.
Qed.

(* on non-NaN values the macro's negative tests are the book's positive ones *)
Lemma f_ge_false_lt (is64 : bool) (x y : Z) :
  f_is_nan is64 x = false -> f_is_nan is64 y = false -> f_ge is64 x y = false -> f_lt is64 x y = true.
Proof.
  intros Hx Hy. destruct (fcmp_total is64 x y Hx Hy) as [c H]. unfold f_ge, f_lt. rewrite H.
  destruct c; congruence.
Qed.
Lemma f_gt_false_le (is64 : bool) (x y : Z) :
  f_is_nan is64 x = false -> f_is_nan is64 y = false -> f_gt is64 x y = false -> f_le is64 x y = true.
Proof.
  intros Hx Hy. destruct (fcmp_total is64 x y Hx Hy) as [c H]. unfold f_gt, f_le. rewrite H.
  destruct c; congruence.
Qed.
Lemma f_lt_ge_gt (is64 : bool) (x y : Z) :
  f_lt is64 x y = true -> f_ge is64 x y = false /\ f_gt is64 x y = false.
Proof. unfold f_lt, f_ge, f_gt. destruct (fcmp is64 x y) as [[]|]; try discriminate. auto. Qed.
Lemma f_le_gt (is64 : bool) (x y : Z) : f_le is64 x y = true -> f_gt is64 x y = false.
Proof. unfold f_le, f_gt. destruct (fcmp is64 x y) as [[]|]; try discriminate; auto. Qed.

End RefFloat.
Import RefFloat.

Local Open Scope string_scope.
Local Open Scope list_scope.

(* ====================================================================================== *)
(* 1. verdict plumbing                                                                     *)
(* ====================================================================================== *)

Lemma guardv_iff (b : bool) (c : string) : guardv b c = Accept tt <-> b = false.
Proof. unfold guardv. destruct b; split; congruence. Qed.

Lemma vbind_guardv (b : bool) (c : string) {Y} (k : unit -> verdict Y) (y : Y) :
  vbind (guardv b c) k = Accept y <-> b = false /\ k tt = Accept y.
Proof. unfold guardv. destruct b; cbn; split; [intros; discriminate | intros [? _]; discriminate | auto | intros [_ ?]; assumption]. Qed.

Lemma vbind_unit {Y} (m : verdict unit) (k : unit -> verdict Y) (y : Y) :
  vbind m k = Accept y <-> m = Accept tt /\ k tt = Accept y.
Proof.
  destruct m as [[]|c]; cbn; split; try (intros; discriminate); auto.
  - intros [_ ?]; assumption.
  - intros [? _]; discriminate.
Qed.

Lemma vmap_all {X Y} (f : X -> verdict Y) (l : list X) :
  (forall x, In x l -> exists y, f x = Accept y) -> exists ys, vmap f l = Accept ys.
Proof.
  induction l as [|a l IH]; intros H; [eexists; reflexivity|]. cbn.
  destruct (H a (or_introl eq_refl)) as (y & ->). destruct IH as (ys & ->); [intros; apply H; right; assumption|].
  cbn. eexists; reflexivity.
Qed.

Lemma vmap_out {X Y} (f : X -> verdict Y) (l : list X) (ys : list Y) :
  vmap f l = Accept ys -> forall y, In y ys -> exists x, In x l /\ f x = Accept y.
Proof.
  revert ys. induction l as [|a l IH]; intros ys H y Hin; cbn in H.
  - injection H as <-. contradiction.
  - apply vbind_accept in H. destruct H as (b & Hb & H).
    apply vbind_accept in H. destruct H as (bs & Hbs & H). injection H as <-.
    destruct Hin as [<-|Hin]; [exists a; split; [left; reflexivity|assumption]|].
    destruct (IH _ Hbs _ Hin) as (x & Hx & Hf). exists x; split; [right|]; assumption.
Qed.

Lemma existsb_ext' {X} (f g : X -> bool) (l : list X) : (forall x, f x = g x) -> existsb f l = existsb g l.
Proof. intros H. induction l as [|a l IH]; cbn; [reflexivity|]. rewrite H, IH. reflexivity. Qed.

Lemma existsb_false_forall {X} (f : X -> bool) (l : list X) :
  existsb f l = false <-> forall x, In x l -> f x = false.
Proof.
  induction l as [|a l IH]; cbn; [split; [intros _ x []|reflexivity]|].
  rewrite orb_false_iff, IH. split.
  - intros [Ha H] x [<-|Hx]; auto.
  - intros H; split; [apply H; left; reflexivity | intros x Hx; apply H; right; assumption].
Qed.

(* ====================================================================================== *)
(* 2. "each once" is "no duplicate"                                                        *)
(* ====================================================================================== *)

Section EachOnce.
Context {K : Type} (eqb : K -> K -> bool).
Hypothesis eqb_refl : forall a, eqb a a = true.
Hypothesis eqb_eq : forall a b, eqb a b = true -> a = b.

Lemma count_zero (k : K) (l : list K) : count_occ_b eqb k l = O <-> existsb (eqb k) l = false.
Proof.
  induction l as [|a l IH]; cbn; [split; reflexivity|].
  destruct (eqb k a); cbn; [split; discriminate | exact IH].
Qed.

Lemma eqb_sym_false (a b : K) : eqb a b = false -> eqb b a = false.
Proof.
  intros H. destruct (eqb b a) eqn:E; [|reflexivity]. apply eqb_eq in E. subst. rewrite eqb_refl in H. discriminate.
Qed.

Lemma each_once_cons (k : K) (r : list K) :
  each_once eqb (k :: r) = negb (existsb (eqb k) r) && each_once eqb r.
Proof.
  unfold each_once. cbn [forallb count_occ_b]. rewrite eqb_refl.
  destruct (existsb (eqb k) r) eqn:E.
  - cbn [negb andb]. replace (Nat.eqb (1 + count_occ_b eqb k r) 1) with false; [reflexivity|].
    symmetry. apply Nat.eqb_neq. intros H. assert (Hz : count_occ_b eqb k r = O) by lia.
    apply count_zero in Hz. congruence.
  - cbn [negb andb]. apply count_zero in E. rewrite E. cbn [Nat.add Nat.eqb].
    apply count_zero in E. rewrite existsb_false_forall in E.
    clear -E eqb_refl eqb_eq. 
    assert (H : forall l, (forall x, In x l -> In x r) ->
              forallb (fun x => Nat.eqb ((if eqb x k then 1 else 0) + count_occ_b eqb x r) 1) l =
              forallb (fun x => Nat.eqb (count_occ_b eqb x r) 1) l).
    { induction l as [|a l IH]; intros Hs; [reflexivity|]. cbn [forallb].
      rewrite (eqb_sym_false k a (E a (Hs a (or_introl eq_refl)))). cbn [Nat.add].
      rewrite IH; [reflexivity|]. intros x Hx. apply Hs. right. assumption. }
    apply H. auto.
Qed.

Lemma each_once_no_dup (l : list K) : each_once eqb l = negb (has_dup eqb l).
Proof.
  induction l as [|k r IH]; [reflexivity|].
  rewrite each_once_cons, IH. cbn [has_dup]. rewrite negb_orb. reflexivity.
Qed.
End EachOnce.

Lemma vkind_eqb_refl (a : vkind) : vkind_eqb a a = true. Proof. destruct a; reflexivity. Qed.
Lemma vkind_eqb_eq (a b : vkind) : vkind_eqb a b = true -> a = b. Proof. destruct a, b; cbn; congruence. Qed.
Lemma skind_eqb_refl (a : skind) : skind_eqb a a = true. Proof. destruct a; reflexivity. Qed.
Lemma skind_eqb_eq (a b : skind) : skind_eqb a b = true -> a = b. Proof. destruct a, b; cbn; congruence. Qed.

Lemma each_once_vkind (l : list vkind) : each_once vkind_eqb l = negb (has_dup vkind_eqb l).
Proof. apply each_once_no_dup; [exact vkind_eqb_refl | exact vkind_eqb_eq]. Qed.
Lemma each_once_skind (l : list skind) : each_once skind_eqb l = negb (has_dup skind_eqb l).
Proof. apply each_once_no_dup; [exact skind_eqb_refl | exact skind_eqb_eq]. Qed.

(* ====================================================================================== *)
(* 3. what the parser can produce: validators admissible for the family, finite literals  *)
(* ====================================================================================== *)

Definition bound_wf (fam : family) (b : bound) : bool :=
  match fam, b with FFloat is64, BLit v => fb_is_finite is64 v | _, _ => true end.

Definition validator_wf (fam : family) (v : validator) : bool :=
  match v with
  | VGreater b | VGreaterOrEqual b | VLess b | VLessOrEqual b => is_numeric fam && bound_wf fam b
  | VPredicate _ => true
  | VFinite => is_float fam
  | VLenCharMin _ | VLenCharMax _ | VNotEmpty | VRegex _ => is_str fam
  end.

Definition std_validators (p : parsed) : list validator :=
  match p_validation p with Some (RVStandard vs) => vs | _ => [] end.

Lemma parse_bound_wf (fam : family) (e : expr) (b : bound) :
  parse_bound fam e = Accept b -> bound_wf fam b = true.
Proof.
  destruct fam as [|tn t|is64|ty]; cbn; try (intros _; destruct b; reflexivity).
  unfold parse_bound_float. destruct (leading_lit e) as [[[neg l] whole]|]; [|intros H; injection H as <-; reflexivity].
  destruct (float_from_str is64 neg l) as [v|]; [|intros H; injection H as <-; reflexivity].
  destruct whole; [|discriminate]. destruct (fb_is_finite is64 v) eqn:E; [|discriminate].
  intros H; injection H as <-. exact E.
Qed.

Lemma parse_validate_attr_wf (ft : features) (fam : family) (seg : list tok) (v : validator) :
  parse_validate_attr ft fam seg = Accept (VAStd v) -> validator_wf fam v = true.
Proof.
  intros H. unfold parse_validate_attr in H.
  destruct seg as [|[k| | | | | | |] [|[| | | | | | |] [|[| | | |s|e|f|pa] [|]]]]; try discriminate.
  - (* [TId k] *)
    destruct (String.eqb k "finite" && is_float fam) eqn:E1.
    { injection H as <-. apply andb_true_iff in E1. exact (proj2 E1). }
    destruct (String.eqb k "not_empty" && is_str fam) eqn:E2; [|discriminate].
    injection H as <-. apply andb_true_iff in E2. exact (proj2 E2).
  - (* k = "..." *)
    destruct (String.eqb k "regex" && is_str fam) eqn:E; [|discriminate].
    destruct (ft_regex ft); [|discriminate]. injection H as <-. apply andb_true_iff in E. exact (proj2 E).
  - (* k = expr *)
    repeat match type of H with
           | (if ?c then _ else _) = _ => let E := fresh "E" in destruct c eqn:E
           end; try discriminate;
      apply vbind_accept in H; destruct H as (b & Hb & H); injection H as <-;
      match goal with E' : _ && _ = true |- _ => apply andb_true_iff in E'; destruct E' as [En _] end;
      cbn [validator_wf]; try rewrite En; try (rewrite (parse_bound_wf _ _ _ Hb); reflexivity); try exact En; try reflexivity.
  - (* k = fn *)
    destruct (String.eqb k "predicate"); [injection H as <-; reflexivity|].
    destruct (String.eqb k "with"); discriminate.
  - (* k = path *)
    destruct (String.eqb k "regex" && is_str fam) eqn:E.
    { destruct (ft_regex ft); [|discriminate]. injection H as <-. apply andb_true_iff in E. exact (proj2 E). }
    destruct (String.eqb k "error"); discriminate.
Qed.

Lemma std_of_In (l : list vattr) (v : validator) : In v (std_of l) -> In (VAStd v) l.
Proof.
  induction l as [|a l IH]; [contradiction|]. destruct a; cbn; intros H; auto.
  destruct H as [->|H]; auto.
Qed.

Lemma parse_validation_wf (ft : features) (fam : family) (ts : list tok) (vs : list validator) :
  parse_validation ft fam ts = Accept (RVStandard vs) -> forallb (validator_wf fam) vs = true.
Proof.
  intros H. apply parse_validation_keeps_all in H. destruct H as (attrs & Ha & ->).
  apply forallb_forall. intros v Hv. apply std_of_In in Hv.
  destruct (vmap_out _ _ _ Ha _ Hv) as (seg & _ & Hs). eapply parse_validate_attr_wf; eassumption.
Qed.

Definition validation_wf (fam : family) (ov : option raw_validation) : Prop :=
  forall vs, ov = Some (RVStandard vs) -> forallb (validator_wf fam) vs = true.

Lemma parse_blocks_wf (ft : features) (fam : family) (segs : list (list tok)) :
  forall sn p p', validation_wf fam (p_validation p) ->
                  parse_blocks ft fam segs sn p = Accept p' -> validation_wf fam (p_validation p').
Proof.
  induction segs as [|seg rest IH]; intros sn p p' Hwf H; cbn [parse_blocks] in H.
  - injection H as <-. exact Hwf.
  - destruct seg as [|[k| | | | | | |] [|[| | |ts| | | |] [|[| | | | |e| |] [|]]]]; try discriminate.
    + (* [TId k] *)
      destruct (String.eqb k "const_fn"); [eapply IH; [|exact H]; exact Hwf|].
      destruct (String.eqb k "new_unchecked").
      { destruct (ft_new_unchecked ft); [|discriminate]. eapply IH; [|exact H]; exact Hwf. }
      destruct (_ || _); discriminate.
    + (* [TId k; TEq; TExpr e] *)
      destruct (String.eqb k "default"); [|discriminate].
      destruct (sn_def sn); [discriminate|]. eapply IH; [|exact H]; exact Hwf.
    + (* [TId k; TG ts] *)
      destruct (String.eqb k "sanitize").
      { destruct (sn_san sn); [discriminate|]. apply vbind_accept in H. destruct H as (ss & _ & H).
        eapply IH; [|exact H]; exact Hwf. }
      destruct (String.eqb k "validate").
      { destruct (sn_val sn); [discriminate|]. apply vbind_accept in H. destruct H as (v & Hv & H).
        eapply IH; [|exact H]. cbn. intros vs E. injection E as ->. eapply parse_validation_wf; eassumption. }
      destruct (String.eqb k "derive"); [|discriminate].
      destruct (sn_der sn); [discriminate|]. apply vbind_accept in H. destruct H as (ds & _ & H).
      eapply IH; [|exact H]; exact Hwf.
Qed.

(* every standard validator of a parsed attribute is admissible for the family *)
Theorem parse_attrs_wf (ft : features) (fam : family) (ts : list tok) (p : parsed) :
  parse_attrs ft fam ts = Accept p -> forallb (validator_wf fam) (std_validators p) = true.
Proof.
  unfold parse_attrs. intros H. apply parse_blocks_wf in H; [|intros vs E; discriminate].
  unfold std_validators. destruct (p_validation p) as [[vs|w e]|]; [apply H|..]; reflexivity.
Qed.

(* ====================================================================================== *)
(* 4. literal bounds: the macro's first-literal-of-a-kind against the book's lists         *)
(* ====================================================================================== *)

Definition olist {X} (o : option X) : list X := match o with Some x => [x] | None => [] end.

Definition lit1 (k : vkind) (v : validator) : list Z :=
  match v, k with
  | VGreater (BLit x), KGreater | VGreaterOrEqual (BLit x), KGreaterOrEqual
  | VLess (BLit x), KLess | VLessOrEqual (BLit x), KLessOrEqual
  | VLenCharMin (BLit x), KLenCharMin | VLenCharMax (BLit x), KLenCharMax => [x]
  | _, _ => []
  end.

Lemma lits_cons (k : vkind) (v : validator) (r : list validator) : lits k (v :: r) = lit1 k v ++ lits k r.
Proof. reflexivity. Qed.

Lemma lit_of_cons (k : vkind) (v : validator) (r : list validator) :
  lit_of k (v :: r) = match lit1 k v with x :: _ => Some x | [] => lit_of k r end.
Proof. destruct v as [[]|[]|[]|[]| | |[]|[]| |], k; reflexivity. Qed.

Lemma lit1_some (k : vkind) (v : validator) (x : Z) (l : list Z) :
  lit1 k v = x :: l -> l = [] /\ vkind_of v = k.
Proof. destruct v as [[]|[]|[]|[]| | |[]|[]| |], k; cbn; intros H; try discriminate; injection H as _ <-; auto. Qed.

Lemma lits_nil (k : vkind) (vs : list validator) :
  existsb (vkind_eqb k) (map vkind_of vs) = false -> lits k vs = [].
Proof.
  induction vs as [|v r IH]; [reflexivity|]. cbn [map existsb]. rewrite orb_false_iff. intros [Hk Hr].
  rewrite lits_cons, (IH Hr). destruct (lit1 k v) eqn:E; [reflexivity|].
  apply lit1_some in E. destruct E as [_ <-]. rewrite vkind_eqb_refl in Hk. discriminate.
Qed.

Lemma lits_lit_of (k : vkind) (vs : list validator) :
  has_dup vkind_eqb (map vkind_of vs) = false -> lits k vs = olist (lit_of k vs).
Proof.
  induction vs as [|v r IH]; [reflexivity|]. cbn [map has_dup]. rewrite orb_false_iff. intros [Hk Hr].
  rewrite lits_cons, lit_of_cons. destruct (lit1 k v) eqn:E; [exact (IH Hr)|].
  apply lit1_some in E. destruct E as [-> <-]. rewrite (lits_nil _ _ Hk). reflexivity.
Qed.

Lemma lit_of_float_finite (is64 : bool) (k : vkind) (vs : list validator) (x : Z) :
  forallb (validator_wf (FFloat is64)) vs = true -> lit_of k vs = Some x -> fb_is_finite is64 x = true.
Proof.
  induction vs as [|v r IH]; [discriminate|]. cbn [forallb]. rewrite andb_true_iff. intros [Hv Hr].
  rewrite lit_of_cons. destruct (lit1 k v) eqn:E; [exact (IH Hr)|]. intros H; injection H as ->.
  destruct v as [[]|[]|[]|[]| | |[]|[]| |], k; cbn in E, Hv; try discriminate; injection E as -> _; exact Hv.
Qed.

Lemma lit_of_In (k : vkind) (vs : list validator) (x : Z) :
  lit_of k vs = Some x -> exists v, In v vs /\ lit1 k v = [x].
Proof.
  induction vs as [|v r IH]; [discriminate|]. rewrite lit_of_cons. destruct (lit1 k v) eqn:E.
  - intros H. destruct (IH H) as (w & Hw & Hl). exists w. split; [right|]; assumption.
  - intros H; injection H as ->. exists v. split; [left; reflexivity|].
    destruct (lit1_some _ _ _ _ E) as [-> _]. exact E.
Qed.

Lemma side_ge1 (k : vkind) (ks : list vkind) (vs : list validator) (x : Z) :
  existsb (vkind_eqb k) ks = true -> lit_of k vs = Some x -> (1 <= side_count ks vs)%nat.
Proof.
  intros Hk. induction vs as [|v r IH]; [discriminate|]. rewrite lit_of_cons.
  unfold side_count in *. cbn [filter]. destruct (lit1 k v) eqn:E.
  - intros H. specialize (IH H). destruct (existsb (vkind_eqb (vkind_of v)) ks); cbn [List.length]; lia.
  - intros _. apply lit1_some in E. destruct E as [_ <-]. rewrite Hk. cbn [List.length]. lia.
Qed.

Lemma both_side_count (k1 k2 : vkind) (ks : list vkind) (vs : list validator) :
  k1 <> k2 -> existsb (vkind_eqb k1) ks = true -> existsb (vkind_eqb k2) ks = true ->
  both (lit_of k1 vs) (lit_of k2 vs) = true -> (2 <= side_count ks vs)%nat.
Proof.
  intros Hne H1 H2. induction vs as [|v r IH]; [discriminate|]. rewrite !lit_of_cons.
  destruct (lit1 k1 v) eqn:E1; destruct (lit1 k2 v) eqn:E2.
  - intros H. specialize (IH H). unfold side_count in *. cbn [filter]. destruct (existsb (vkind_eqb (vkind_of v)) ks); cbn [List.length]; lia.
  - apply lit1_some in E2. destruct E2 as [_ <-]. intros H.
    destruct (lit_of k1 r) as [x|] eqn:E; [|discriminate].
    pose proof (side_ge1 k1 ks r x H1 E). unfold side_count in *. cbn [filter]. rewrite H2. cbn [List.length]. lia.
  - apply lit1_some in E1. destruct E1 as [_ <-]. intros H.
    destruct (lit_of k2 r) as [x|] eqn:E; [|discriminate].
    pose proof (side_ge1 k2 ks r x H2 E). unfold side_count in *. cbn [filter]. rewrite H1. cbn [List.length]. lia.
  - apply lit1_some in E1. apply lit1_some in E2. destruct E1 as [_ <-]. destruct E2 as [_ <-]. congruence.
Qed.

Lemma numeric_bounds_iff (ge gt : Z -> Z -> bool) (vs : list validator) :
  validate_numeric_bounds ge gt vs = Accept tt <->
  both (lit_of KGreater vs) (lit_of KGreaterOrEqual vs) = false /\
  both (lit_of KLess vs) (lit_of KLessOrEqual vs) = false /\
  rel2 ge (lit_of KGreater vs) (lit_of KLess vs) = false /\
  rel2 ge (lit_of KGreater vs) (lit_of KLessOrEqual vs) = false /\
  rel2 ge (lit_of KGreaterOrEqual vs) (lit_of KLess vs) = false /\
  rel2 gt (orelse (lit_of KGreater vs) (lit_of KGreaterOrEqual vs))
          (orelse (lit_of KLess vs) (lit_of KLessOrEqual vs)) = false.
Proof. unfold validate_numeric_bounds. rewrite !vbind_guardv, guardv_iff. reflexivity. Qed.

Lemma geb_false (a b : Z) : Z.geb a b = false <-> (a < b)%Z.
Proof. rewrite Z.geb_leb. apply Z.leb_gt. Qed.
Lemma gtb_false (a b : Z) : Z.gtb a b = false <-> (a <= b)%Z.
Proof. rewrite Z.gtb_ltb. apply Z.ltb_ge. Qed.

(* the one recorded class: both exclusive bounds are literals with nothing in between *)
Definition recorded_class (fam : family) (vs : list validator) : Prop :=
  exists g l, lit_of KGreater vs = Some g /\ lit_of KLess vs = Some l /\
    match fam with
    | FInt _ _ => l = (g + 1)%Z
    | FFloat is64 => f_lt is64 g l = true /\ f_lt is64 (f_succ is64 g) l = false
    | _ => False
    end.

Ltac zb :=
  repeat match goal with
         | H : Z.geb _ _ = false |- _ => apply geb_false in H
         | H : Z.gtb _ _ = false |- _ => apply gtb_false in H
         | H : Z.leb _ _ = true |- _ => apply Z.leb_le in H
         | H : _ && true = true |- _ => rewrite andb_true_r in H
         | |- context[_ && true] => rewrite andb_true_r
         | |- Z.leb _ _ = true => apply Z.leb_le
         | |- Z.geb _ _ = false => apply geb_false
         | |- Z.gtb _ _ = false => apply gtb_false
         end.

(* A, literal bounds: what the macro lets through is what the book lets through, or the class *)
Lemma accepted_literal_bounds (fam : family) (vs : list validator) :
  forallb (validator_wf fam) vs = true ->
  validate_validators fam vs = Accept tt ->
  ref_literal_bounds_ok fam vs = true \/ recorded_class fam vs.
Proof.
  intros Hwf H. unfold validate_validators in H. apply vbind_guardv in H. destruct H as [Hd H].
  unfold ref_literal_bounds_ok, recorded_class. destruct fam as [|tn t|is64|ty].
  - rewrite !(lits_lit_of _ _ Hd). apply vbind_guardv in H. destruct H as [Hm _]. left.
    destruct (lit_of KLenCharMin vs), (lit_of KLenCharMax vs); cbn [rel2 olist forallb] in *; try reflexivity.
    zb. lia.
  - rewrite !(lits_lit_of _ _ Hd). apply numeric_bounds_iff in H. destruct H as (B1 & B2 & R1 & R2 & R3 & R4).
    destruct (lit_of KGreater vs) as [g|], (lit_of KGreaterOrEqual vs) as [ge|],
             (lit_of KLess vs) as [l|], (lit_of KLessOrEqual vs) as [le|];
      cbn [both rel2 orelse] in *; try discriminate; cbn [olist map app forallb andb];
      try (left; reflexivity); try (left; zb; lia).
    destruct (Z.eq_dec l (g + 1)) as [->|Hn]; [right; eauto|left; zb; lia].
  - rewrite !(lits_lit_of _ _ Hd). apply numeric_bounds_iff in H. destruct H as (B1 & B2 & R1 & R2 & R3 & R4).
    pose proof (fun k x E => fb_finite_not_nan is64 x (lit_of_float_finite is64 k vs x Hwf E)) as Hnn.
    destruct (lit_of KGreater vs) as [g|] eqn:Eg, (lit_of KGreaterOrEqual vs) as [ge|] eqn:Ege,
             (lit_of KLess vs) as [l|] eqn:El, (lit_of KLessOrEqual vs) as [le|] eqn:Ele;
      cbn [both rel2 orelse] in *; try discriminate; cbn [olist map app forallb andb];
      try (left; reflexivity);
      repeat match goal with E : lit_of ?k vs = Some ?x |- _ => pose proof (Hnn k x E); clear E end.
    all: try (left; rewrite ?andb_true_r;
              first [apply f_ge_false_lt; assumption | apply f_gt_false_le; assumption]).
    assert (Hlt : f_lt is64 g l = true) by (apply f_ge_false_lt; assumption).
    destruct (f_lt is64 (f_succ is64 g) l) eqn:Es; [left; reflexivity|right; eauto 6].
  - left. reflexivity.
Qed.

(* the regex oracle of the model itself: a literal is valid iff the library says so *)
Definition regex_oracle (s : list N) : bool :=
  match regex_valid regex_lib s with Some true => true | _ => false end.

Lemma regexes_iff (vs : list validator) :
  validate_regexes vs = Accept tt <->
  forallb (fun v => match v with VRegex (RLit s) => regex_oracle s | _ => true end) vs = true.
Proof.
  unfold validate_regexes. rewrite guardv_iff.
  induction vs as [|v r IH]; cbn [existsb forallb]; [split; reflexivity|].
  rewrite orb_false_iff, andb_true_iff, IH.
  assert (Hv : (match v with
                | VRegex (RLit s) => match regex_valid regex_lib s with Some true => false | _ => true end
                | _ => false end) = false <->
               (match v with VRegex (RLit s) => regex_oracle s | _ => true end) = true).
  { destruct v as [ | | | | | | | | |[s|pth]]; try (split; reflexivity).
    unfold regex_oracle. destruct (regex_valid regex_lib s) as [[]|]; split; congruence. }
  rewrite Hv. reflexivity.
Qed.

(* B, validators: the book's validator rules imply the macro's *)
Lemma book_validators_accepted (fam : family) (vs : list validator) :
  ref_validators_ok fam vs regex_oracle = true -> validate_validators fam vs = Accept tt.
Proof.
  unfold ref_validators_ok. rewrite !andb_true_iff. intros ((((Heo & Hs1) & Hs2) & Hlb) & Hre).
  rewrite each_once_vkind, negb_true_iff in Heo. apply Nat.leb_le in Hs1. apply Nat.leb_le in Hs2.
  unfold validate_validators. rewrite vbind_guardv. split; [exact Heo|].
  unfold ref_literal_bounds_ok in Hlb.
  assert (B1 : both (lit_of KGreater vs) (lit_of KGreaterOrEqual vs) = false).
  { destruct (both (lit_of KGreater vs) (lit_of KGreaterOrEqual vs)) eqn:E; [|reflexivity].
    apply (both_side_count _ _ [KGreater; KGreaterOrEqual]) in E; [lia|discriminate|reflexivity|reflexivity]. }
  assert (B2 : both (lit_of KLess vs) (lit_of KLessOrEqual vs) = false).
  { destruct (both (lit_of KLess vs) (lit_of KLessOrEqual vs)) eqn:E; [|reflexivity].
    apply (both_side_count _ _ [KLess; KLessOrEqual]) in E; [lia|discriminate|reflexivity|reflexivity]. }
  destruct fam as [|tn t|is64|ty].
  - rewrite !(lits_lit_of _ _ Heo) in Hlb. rewrite vbind_guardv. split; [|apply regexes_iff; exact Hre].
    destruct (lit_of KLenCharMin vs), (lit_of KLenCharMax vs); cbn [rel2 olist forallb] in *; try reflexivity.
    zb. lia.
  - rewrite !(lits_lit_of _ _ Heo) in Hlb. apply numeric_bounds_iff.
    split; [exact B1|]. split; [exact B2|].
    destruct (lit_of KGreater vs) as [g|], (lit_of KGreaterOrEqual vs) as [ge|],
             (lit_of KLess vs) as [l|], (lit_of KLessOrEqual vs) as [le|];
      cbn [both rel2 orelse] in *; try discriminate; cbn [olist map app forallb andb] in Hlb;
      repeat split; try reflexivity; zb; lia.
  - rewrite !(lits_lit_of _ _ Heo) in Hlb. apply numeric_bounds_iff.
    split; [exact B1|]. split; [exact B2|].
    destruct (lit_of KGreater vs) as [g|], (lit_of KGreaterOrEqual vs) as [ge|],
             (lit_of KLess vs) as [l|], (lit_of KLessOrEqual vs) as [le|];
      cbn [both rel2 orelse] in *; try discriminate; cbn [olist map app forallb andb] in Hlb;
      rewrite ?andb_true_r in Hlb;
      repeat split; try reflexivity;
      first [ apply (f_succ_lt_cmp is64 _ _ Hlb) | apply (f_lt_ge_gt is64 _ _ Hlb) | apply (f_le_gt is64 _ _ Hlb) ].
  - reflexivity.
Qed.

(* ====================================================================================== *)
(* 5. item, sanitizers, sides, Default, Arbitrary                                         *)
(* ====================================================================================== *)

Lemma parse_meta_item_ok (it : item) (fam : family) : parse_meta it = Accept fam -> ref_item_ok it = true.
Proof.
  unfold parse_meta, ref_item_ok.
  destruct (forallb attr_supported (it_attrs it)) eqn:E1; cbn [negb]; [|discriminate].
  destruct (existsb (String.eqb "derive") (it_attrs it)) eqn:E2; [discriminate|].
  destruct (String.eqb (it_kind it) "tuple"); cbn [negb]; [|discriminate].
  destruct (it_fields it) as [|f r]; [discriminate|].
  destruct (String.eqb (f_vis f) ""); cbn [negb]; [|discriminate]. intros _. cbn [andb].
  apply forallb_forall. intros a Ha. rewrite forallb_forall in E1. rewrite existsb_false_forall in E2.
  specialize (E1 a Ha). specialize (E2 a Ha). unfold attr_supported in E1. apply orb_true_iff in E1.
  destruct E1 as [E|E]; apply String.eqb_eq in E; subst a; [reflexivity|]. cbn in E2. discriminate.
Qed.

Lemma sanitizers_iff (fam : family) (ss : list sanitizer) :
  validate_sanitizers fam ss = Accept tt <-> ref_sanitizers_ok ss = true.
Proof.
  unfold validate_sanitizers, ref_sanitizers_ok.
  rewrite vbind_guardv, guardv_iff, andb_true_iff, each_once_skind, !negb_true_iff. reflexivity.
Qed.

Lemma count_kinds_side (ks : list vkind) (p : parsed) : count_kinds ks p = side_count ks (std_validators p).
Proof. unfold count_kinds, std_validators, side_count. destruct (p_validation p) as [[vs|w e]|]; reflexivity. Qed.

Lemma side_count_zero (fam : family) (ks : list vkind) (vs : list validator) :
  (forall v, validator_wf fam v = true -> existsb (vkind_eqb (vkind_of v)) ks = false) ->
  forallb (validator_wf fam) vs = true -> side_count ks vs = O.
Proof.
  intros Hk. induction vs as [|v r IH]; [reflexivity|]. cbn [forallb]. rewrite andb_true_iff. intros [Hv Hr].
  unfold side_count in *. cbn [filter]. rewrite (Hk v Hv). exact (IH Hr).
Qed.

Lemma sides_nonnumeric (fam : family) (vs : list validator) :
  is_numeric fam = false -> forallb (validator_wf fam) vs = true ->
  side_count [KGreater; KGreaterOrEqual] vs = O /\ side_count [KLess; KLessOrEqual] vs = O.
Proof.
  intros Hn Hwf. split; (eapply side_count_zero; [|exact Hwf]); intros v Hv;
    destruct v; cbn in Hv |- *; try reflexivity; rewrite Hn in Hv; discriminate.
Qed.

(* the first guard of gen_checks is the book's "one bound per side" *)
Lemma sides_iff (fam : family) (p : parsed) :
  forallb (validator_wf fam) (std_validators p) = true ->
  (is_numeric fam && (Nat.ltb 1 (count_kinds [KGreater; KGreaterOrEqual] p) ||
                      Nat.ltb 1 (count_kinds [KLess; KLessOrEqual] p)) = false <->
   Nat.leb (side_count [KGreater; KGreaterOrEqual] (std_validators p)) 1 &&
   Nat.leb (side_count [KLess; KLessOrEqual] (std_validators p)) 1 = true).
Proof.
  intros Hwf. rewrite !count_kinds_side. destruct (is_numeric fam) eqn:Hn; cbn [andb].
  - rewrite orb_false_iff, andb_true_iff, !Nat.ltb_ge, !Nat.leb_le. reflexivity.
  - destruct (sides_nonnumeric _ _ Hn Hwf) as [-> ->]. split; reflexivity.
Qed.

Definition arbitrary_checks (fam : family) (p : parsed) : verdict unit :=
  match fam with
  | FInt _ _ =>
      let! _ := guardv (is_custom p) "gen:arbitrary_custom" in
      guardv (has_vkind KPredicate p) "gen:arbitrary_predicate"
  | FFloat _ =>
      let! _ := guardv (is_custom p) "gen:arbitrary_custom" in
      let! _ := guardv (has_vkind KPredicate p) "gen:arbitrary_predicate" in
      guardv (p_has_validation p && has_with_sanitizer p) "gen:arbitrary_with_sanitizer"
  | FStr =>
      let! _ := guardv (is_custom p) "gen:arbitrary_custom" in
      let! _ := guardv (has_vkind KPredicate p) "gen:arbitrary_predicate" in
      let! _ := guardv (has_vkind KRegex p) "gen:arbitrary_regex" in
      guardv (p_has_validation p && has_with_sanitizer p) "gen:arbitrary_with_sanitizer"
  | FAny _ => guardv (p_has_validation p) "gen:arbitrary_any_validation"
  end.

Lemma pred_or_regex (vs : list validator) :
  existsb (fun v => match v with VPredicate _ | VRegex _ => true | _ => false end) vs =
  existsb (fun v => vkind_eqb (vkind_of v) KPredicate) vs || existsb (fun v => vkind_eqb (vkind_of v) KRegex) vs.
Proof.
  induction vs as [|v r IH]; [reflexivity|]. cbn [existsb]. rewrite IH.
  destruct v; cbn; try reflexivity;
    destruct (existsb (fun v => vkind_eqb (vkind_of v) KPredicate) r); reflexivity.
Qed.

Lemma no_regex_nonstr (fam : family) (vs : list validator) :
  is_str fam = false -> forallb (validator_wf fam) vs = true ->
  existsb (fun v => vkind_eqb (vkind_of v) KRegex) vs = false.
Proof.
  intros Hs. induction vs as [|v r IH]; [reflexivity|]. cbn [forallb existsb]. rewrite andb_true_iff. intros [Hv Hr].
  rewrite (IH Hr). destruct v; cbn in Hv |- *; try reflexivity. congruence.
Qed.

Lemma with_sanitizer_eq (ss : list sanitizer) :
  existsb (fun s => match s with SWith _ => true | _ => false end) ss =
  existsb (fun s => skind_eqb (skind_of s) KWith) ss.
Proof. apply existsb_ext'. intros s. destruct s; reflexivity. Qed.

Lemma arbitrary_iff (fam : family) (p : parsed) :
  forallb (validator_wf fam) (std_validators p) = true ->
  (arbitrary_checks fam p = Accept tt <-> ref_arbitrary_ok fam p = true).
Proof.
  unfold arbitrary_checks, ref_arbitrary_ok, is_custom, has_vkind, p_has_validation, has_with_sanitizer, std_validators.
  rewrite with_sanitizer_eq.
  destruct (p_validation p) as [[vs|w e]|]; intros Hwf.
  - rewrite pred_or_regex.
    destruct fam as [|tn t|is64|ty]; rewrite ?vbind_guardv, guardv_iff;
      try (match type of Hwf with forallb (validator_wf ?f) _ = _ => rewrite (no_regex_nonstr f vs eq_refl Hwf) end);
      destruct (existsb (fun v => vkind_eqb (vkind_of v) KPredicate) vs),
               (existsb (fun v => vkind_eqb (vkind_of v) KRegex) vs),
               (existsb (fun s => skind_eqb (skind_of s) KWith) (p_sans p)); cbn; intuition congruence.
  - destruct fam; rewrite ?vbind_guardv, ?guardv_iff; cbn; intuition congruence.
  - destruct fam; rewrite ?vbind_guardv, ?guardv_iff; cbn; intuition congruence.
Qed.

(* gen_checks, stage by stage *)
Lemma gen_checks_iff (fam : family) (p : parsed) (ts : list trait) :
  forallb (validator_wf fam) (std_validators p) = true ->
  (gen_checks fam p ts = Accept tt <->
   Nat.leb (side_count [KGreater; KGreaterOrEqual] (std_validators p)) 1 &&
   Nat.leb (side_count [KLess; KLessOrEqual] (std_validators p)) 1 = true /\
   has_trait TrDefault ts && match p_default p with None => true | Some _ => false end = false /\
   (has_trait TrArbitrary ts = true -> ref_arbitrary_ok fam p = true)).
Proof.
  intros Hwf. unfold gen_checks. rewrite !vbind_guardv, (sides_iff _ _ Hwf).
  fold (arbitrary_checks fam p).
  destruct (has_trait TrArbitrary ts).
  - rewrite (arbitrary_iff _ _ Hwf). intuition.
  - intuition congruence.
Qed.

(* ====================================================================================== *)
(* 6. derive traits                                                                        *)
(* ====================================================================================== *)

Lemma In_has_trait (t : trait) (ts : list trait) : In t ts -> has_trait t ts = true.
Proof.
  intros H. unfold has_trait. apply existsb_exists. exists t. split; [exact H|].
  unfold trait_eqb. apply Nat.eqb_refl.
Qed.

Lemma has_trait_In' (t : trait) (ts : list trait) : has_trait t ts = true -> In t ts.
Proof. intros H. apply has_trait_In in H. destruct H as (t' & Hin & He). apply trait_eqb_eq in He. subst. exact Hin. Qed.

Lemma has_fin_eq (p : parsed) :
  existsb (fun v => match v with VFinite => true | _ => false end) (std_validators p) = has_finite p.
Proof.
  unfold std_validators, has_finite. destruct (p_validation p) as [[vs|w e]|]; try reflexivity.
  apply existsb_ext'. intros v. destruct v; reflexivity.
Qed.

(* the two rustc refusals that belong to the book's trait rules *)
Definition rc_from_any (fam : family) (p : parsed) (ts : list trait) : bool :=
  match fam with FAny _ => has_trait TrFrom ts && p_has_validation p | _ => false end.
Definition rc_dep (ts : list trait) : bool :=
  (has_trait TrEq ts && negb (has_trait TrPartialEq ts)) ||
  (has_trait TrPartialOrd ts && negb (has_trait TrPartialEq ts)) ||
  (has_trait TrOrd ts && negb (has_trait TrPartialOrd ts && has_trait TrEq ts)) ||
  (has_trait TrCopy ts && negb (has_trait TrClone ts)).

Lemma rc_dep_dedup (ts : list trait) : rc_dep (dedup_traits ts) = rc_dep ts.
Proof. unfold rc_dep. rewrite !dedup_traits_has. reflexivity. Qed.
Lemma rc_from_any_dedup (fam : family) (p : parsed) (ts : list trait) :
  rc_from_any fam p (dedup_traits ts) = rc_from_any fam p ts.
Proof. unfold rc_from_any. rewrite !dedup_traits_has. reflexivity. Qed.

Lemma validate_traits_inv (fam : family) (p : parsed) (ts : list trait) :
  validate_traits fam p = Accept ts ->
  has_trait TrFrom (p_derives p) && has_trait TrTryFrom (p_derives p) = false /\
  (forall t, In t (p_derives p) -> trait_allowed fam p t = Accept tt) /\
  ts = dedup_traits (p_derives p).
Proof.
  unfold validate_traits. intros H. apply vbind_guardv in H. destruct H as [F1 H].
  apply vbind_accept in H. destruct H as (us & Hall & H).
  apply vbind_accept in H. destruct H as ([] & _ & H). injection H as <-.
  split; [exact F1|]. split; [|reflexivity].
  intros t Ht. destruct (vmap_accept_all _ _ _ Hall _ Ht) as ([] & Hy). exact Hy.
Qed.

(* A, traits *)
Lemma accepted_traits (fam : family) (p : parsed) :
  has_trait TrFrom (p_derives p) && has_trait TrTryFrom (p_derives p) = false ->
  (forall t, In t (p_derives p) -> trait_allowed fam p t = Accept tt) ->
  rc_from_any fam p (p_derives p) = false -> rc_dep (p_derives p) = false ->
  forallb (ref_trait_ok fam (p_has_validation p) (has_finite p) (p_derives p)) (p_derives p) = true.
Proof.
  set (ts := p_derives p). intros F1 Hall G3 G4.
  unfold rc_dep in G4. rewrite !orb_false_iff in G4. destruct G4 as (((D1 & D2) & D3) & D4).
  apply forallb_forall. intros t Ht. pose proof (Hall t Ht) as Ha. pose proof (In_has_trait _ _ Ht) as Hh.
  unfold trait_allowed, rc_from_any in *.
  destruct t; cbn [ref_trait_ok]; try reflexivity.
  - (* Copy *) rewrite Hh in D4. destruct (has_trait TrClone ts); [|discriminate].
    destruct fam; cbn in Ha |- *; try reflexivity; discriminate.
  - (* Eq *) rewrite Hh in D1. destruct (has_trait TrPartialEq ts); [|discriminate]. cbn [andb].
    destruct fam; cbn in Ha |- *; try reflexivity. apply guardv_iff, negb_false_iff in Ha. exact Ha.
  - (* PartialOrd *) rewrite Hh in D2. destruct (has_trait TrPartialEq ts); [reflexivity|discriminate].
  - (* Ord *) rewrite Hh in D3.
    destruct (has_trait TrPartialOrd ts); [|discriminate]. destruct (has_trait TrEq ts); [|discriminate]. cbn [andb].
    destruct fam; cbn in Ha |- *; try reflexivity. apply guardv_iff, negb_false_iff in Ha. exact Ha.
  - (* From *) rewrite Hh in F1, G3. cbn [andb] in F1, G3. rewrite F1. rewrite andb_true_r.
    destruct fam; try (apply guardv_iff in Ha); rewrite ?Ha, ?G3; reflexivity.
  - (* Hash *) destruct fam; cbn in Ha |- *; try reflexivity; discriminate.
  - (* IntoIterator *) destruct fam; cbn in Ha |- *; try reflexivity; discriminate.
  - (* JsonSchema *) destruct fam; cbn in Ha |- *; try reflexivity; discriminate.
Qed.

(* B, traits *)
Lemma book_traits (fam : family) (p : parsed) :
  forallb (ref_trait_ok fam (p_has_validation p) (has_finite p) (p_derives p)) (p_derives p) = true ->
  validate_traits fam p = Accept (dedup_traits (p_derives p)) /\
  rc_from_any fam p (p_derives p) = false /\ rc_dep (p_derives p) = false.
Proof.
  set (ts := p_derives p). intros Hb.
  assert (R : forall t, has_trait t ts = true -> ref_trait_ok fam (p_has_validation p) (has_finite p) ts t = true).
  { intros t Ht. rewrite forallb_forall in Hb. apply Hb. apply has_trait_In'. exact Ht. }
  pose proof (R TrCopy) as RCopy. pose proof (R TrEq) as REq. pose proof (R TrPartialOrd) as RPOrd.
  pose proof (R TrOrd) as ROrd. pose proof (R TrFrom) as RFrom. cbn [ref_trait_ok] in *.
  split; [|split].
  - unfold validate_traits. fold ts. rewrite vbind_guardv. split.
    { destruct (has_trait TrFrom ts); [|reflexivity]. specialize (RFrom eq_refl).
      destruct (has_trait TrTryFrom ts); [|reflexivity]. rewrite andb_false_r in RFrom. discriminate. }
    destruct (vmap_all (trait_allowed fam p) ts) as (us & ->).
    { intros t Ht. exists tt. pose proof (R t (In_has_trait _ _ Ht)) as Rt. unfold trait_allowed.
      destruct t; cbn [ref_trait_ok] in Rt; destruct fam; cbn in Rt |- *; try reflexivity; try discriminate;
        apply guardv_iff;
        destruct (p_has_validation p), (has_finite p), (has_trait TrPartialEq ts), (has_trait TrPartialOrd ts),
                 (has_trait TrEq ts), (has_trait TrTryFrom ts); cbn in *; congruence. }
    cbn [vbind]. destruct fam; try reflexivity.
    assert (E : (let! _ := guardv (has_trait TrEq ts && negb (has_trait TrPartialEq ts)) "traits:eq_requires_partial_eq" in
                 guardv (has_trait TrOrd ts && negb (has_trait TrPartialOrd ts && has_trait TrEq ts)) "traits:ord_requires")
                = Accept tt).
    { rewrite vbind_guardv, guardv_iff.
      destruct (has_trait TrEq ts), (has_trait TrOrd ts), (has_trait TrPartialEq ts), (has_trait TrPartialOrd ts);
        cbn in *; split; try reflexivity;
        try (specialize (REq eq_refl); discriminate); try (specialize (ROrd eq_refl); discriminate). }
    rewrite E. reflexivity.
  - unfold rc_from_any. destruct fam; try reflexivity.
    destruct (has_trait TrFrom ts); [|reflexivity]. specialize (RFrom eq_refl).
    destruct (p_has_validation p); [discriminate|reflexivity].
  - unfold rc_dep.
    destruct (has_trait TrEq ts), (has_trait TrOrd ts), (has_trait TrPartialEq ts), (has_trait TrPartialOrd ts),
             (has_trait TrCopy ts), (has_trait TrClone ts); cbn in *; try reflexivity;
      try (specialize (REq eq_refl); discriminate); try (specialize (ROrd eq_refl); discriminate);
      try (specialize (RPOrd eq_refl); discriminate);
      try (specialize (RCopy eq_refl); rewrite andb_false_r in RCopy; discriminate).
Qed.

(* ====================================================================================== *)
(* 7. rustc on the expansion; the side conditions outside of the book                      *)
(* ====================================================================================== *)

(* every spliced bound expression type-checks at the inner type *)
Definition x_typechecks (fam : family) (en : env) (p : parsed) : bool :=
  forallb (validator_typechecks fam en) (std_validators p).
(* ... and in the Display arm of the error type (recorded: untyped literal in Display) *)
Definition x_display (fam : family) (en : env) (p : parsed) : bool :=
  forallb (validator_display_ok fam en) (std_validators p).
(* const_fn: only numeric inner types, no custom validation, only paths as functions *)
Definition x_const_fn (fam : family) (p : parsed) : bool :=
  negb (p_const_fn p &&
        (negb (is_numeric fam) || is_custom p ||
         existsb (fun f => match f with FPath => false | _ => true end)
           (flat_map (fun s => match s with SWith f => [fn_form f] | _ => [] end) (p_sans p) ++
            flat_map (fun v => match v with VPredicate f => [fn_form f] | _ => [] end) (std_validators p)))).
(* recorded: a closure as custom `with` validator is spliced without parentheses *)
Definition x_custom_with (p : parsed) : bool :=
  negb (match p_validation p with
        | Some (RVCustom w _) => match fn_form w with FPath => false | _ => true end
        | _ => false end).
(* recorded: new_unchecked with generics; Into with bounded generics; type parameters named
   D / DE with Deserialize, S with Serialize *)
Definition x_generics (it : item) (p : parsed) (ts : list trait) : bool :=
  negb (negb (is_nil (it_generics it)) && p_new_unchecked p) &&
  negb (existsb (fun g => negb (is_nil (g_bounds g))) (it_generics it) && has_trait TrInto ts) &&
  negb (has_trait TrDeserialize ts &&
        existsb (fun n => String.eqb n "D" || String.eqb n "DE") (map g_name (it_generics it))) &&
  negb (has_trait TrSerialize ts && existsb (String.eqb "S") (map g_name (it_generics it))).

Lemma x_generics_dedup (it : item) (p : parsed) (ts : list trait) :
  x_generics it p (dedup_traits ts) = x_generics it p ts.
Proof. unfold x_generics. rewrite !dedup_traits_has. reflexivity. Qed.

(* The conditions [full_verdict] checks and the book does not speak about.  The book's scope is
   the attribute and the struct item; these are about the expressions spliced into the
   expansion (1, 2), about what a const fn body may contain (3), and the recorded defect
   classes of the expansion (4, 5).  Everything else [full_verdict] checks follows from [ref_ok]:
   in particular `From` of an "other" inner type with validation (rustc:from_without_new), the
   #[derive] dependencies (rustc:derive_dependency) and "greater and greater_or_equal both
   literal" (the book allows one bound per side). *)
Definition extra_ok (ft : features) (sd : sdecl) (fam : family) (p : parsed) : bool :=
  x_typechecks fam (sd_env sd) p &&           (* 1  rustc:bound_type *)
  x_display fam (sd_env sd) p &&              (* 2  rustc:known:untyped_literal_in_display *)
  x_const_fn fam p &&                         (* 3  rustc:const_fn_body *)
  x_custom_with p &&                          (* 4  rustc:known:custom_with_closure *)
  x_generics (sd_item sd) p (p_derives p).    (* 5  rustc:known:new_unchecked_generics,
                                                    into_generic_bounds, type_param_clash_* *)

Lemma rustc_checks_iff (fam : family) (it : item) (en : env) (p : parsed) (ts : list trait) :
  rustc_checks fam it en p ts = Accept tt <->
  x_typechecks fam en p = true /\ x_display fam en p = true /\
  rc_from_any fam p ts = false /\ rc_dep ts = false /\
  x_const_fn fam p = true /\ x_custom_with p = true /\ x_generics it p ts = true.
Proof.
  unfold rustc_checks, x_typechecks, x_display, rc_from_any, rc_dep, x_const_fn, x_custom_with, x_generics,
    std_validators. cbv zeta.
  rewrite !vbind_guardv, guardv_iff, !andb_true_iff, !negb_true_iff, !negb_false_iff. tauto.
Qed.

(* ====================================================================================== *)
(* 8. the whole front end                                                                  *)
(* ====================================================================================== *)

Lemma full_verdict_iff (ft : features) (sd : sdecl) (fam : family) (p : parsed) :
  parse_meta (sd_item sd) = Accept fam -> parse_attrs ft fam (sd_attr sd) = Accept p ->
  ((exists d, full_verdict ft sd = Accept d) <->
   validate_guard fam p = Accept tt /\
   exists ts, validate_traits fam p = Accept ts /\ gen_checks fam p ts = Accept tt /\
              rustc_checks fam (sd_item sd) (sd_env sd) p ts = Accept tt).
Proof.
  intros Hm Hp. unfold full_verdict, macro_verdict. rewrite Hm. cbn [vbind]. rewrite Hp. cbn [vbind]. split.
  - intros (d & H). apply vbind_accept in H. destruct H as (d' & H & H2).
    apply vbind_accept in H. destruct H as ([] & Hg & H).
    apply vbind_accept in H. destruct H as (ts & Ht & H).
    apply vbind_accept in H. destruct H as ([] & Hc & H). injection H as <-. cbn [d_family d_traits] in H2.
    rewrite Hp in H2. cbn [vbind] in H2. apply vbind_accept in H2. destruct H2 as ([] & Hr & _).
    split; [exact Hg|]. exists ts. auto.
  - intros (Hg & ts & Ht & Hc & Hr). rewrite Hg. cbn [vbind]. rewrite Ht. cbn [vbind]. rewrite Hc. cbn [vbind].
    cbn [d_family d_traits]. rewrite Hp. cbn [vbind]. rewrite Hr. cbn [vbind]. eexists; reflexivity.
Qed.

Lemma validate_guard_iff (fam : family) (p : parsed) :
  validate_guard fam p = Accept tt <->
  ref_sanitizers_ok (p_sans p) = true /\ validate_validators fam (std_validators p) = Accept tt.
Proof.
  unfold validate_guard, std_validators. rewrite vbind_unit, sanitizers_iff.
  destruct (p_validation p) as [[vs|w e]|]; try reflexivity;
    (split; [intros [H _]; split; [exact H|]; destruct fam; reflexivity | intros [H _]; split; [exact H|reflexivity]]).
Qed.

Section Main.
Variables (ft : features) (sd : sdecl) (fam : family) (p : parsed).
Hypothesis Hmeta : parse_meta (sd_item sd) = Accept fam.
Hypothesis Hattrs : parse_attrs ft fam (sd_attr sd) = Accept p.

(* the book's [ref_ok] / [ref_verdict], component by component, in this file's vocabulary *)
Lemma ref_ok_unfold :
  ref_ok ft (sd_item sd) fam p regex_oracle =
  ref_item_ok (sd_item sd) && ref_sanitizers_ok (p_sans p) &&
  ref_validators_ok fam (std_validators p) regex_oracle &&
  forallb (ref_trait_ok fam (p_has_validation p) (has_finite p) (p_derives p)) (p_derives p) &&
  (if has_trait TrDefault (p_derives p) then match p_default p with Some _ => true | None => false end else true) &&
  (if has_trait TrArbitrary (p_derives p) then ref_arbitrary_ok fam p else true).
Proof. unfold ref_ok. fold (std_validators p). rewrite has_fin_eq. reflexivity. Qed.

(* ---- A ---- *)
Theorem macro_sound_wrt_book (d : decl) :
  full_verdict ft sd = Accept d ->
  ref_verdict ft (sd_item sd) fam p regex_oracle = "1" \/
  (ref_verdict ft (sd_item sd) fam p regex_oracle = "0:literal_bounds" /\
   recorded_class fam (std_validators p)).
Proof.
  intros Hf. assert (He : exists d, full_verdict ft sd = Accept d) by eauto.
  apply (full_verdict_iff _ _ _ _ Hmeta Hattrs) in He. destruct He as (Hg & ts & Ht & Hc & Hr).
  pose proof (parse_attrs_wf _ _ _ _ Hattrs) as Hwf.
  apply validate_guard_iff in Hg. destruct Hg as [Hsan Hval].
  apply validate_traits_inv in Ht. destruct Ht as (F1 & Hall & ->).
  apply (gen_checks_iff _ _ _ Hwf) in Hc. destruct Hc as (Hsides & Hdef & Harb).
  rewrite !dedup_traits_has in Hdef, Harb.
  apply rustc_checks_iff in Hr. destruct Hr as (_ & _ & G3 & G4 & _).
  rewrite rc_from_any_dedup in G3. rewrite rc_dep_dedup in G4.
  pose proof (parse_meta_item_ok _ _ Hmeta) as Hitem.
  pose proof (accepted_traits fam p F1 Hall G3 G4) as Htr.
  assert (Heo : each_once vkind_eqb (map vkind_of (std_validators p)) = true).
  { unfold validate_validators in Hval. apply vbind_guardv in Hval. destruct Hval as [Hd _].
    rewrite each_once_vkind, Hd. reflexivity. }
  assert (Hre : forallb (fun v => match v with VRegex (RLit s) => regex_oracle s | _ => true end)
                        (std_validators p) = true).
  { destruct (is_str fam) eqn:Hs.
    - destruct fam; try discriminate. unfold validate_validators in Hval.
      apply vbind_guardv in Hval. destruct Hval as [_ Hval]. apply vbind_guardv in Hval. destruct Hval as [_ Hval].
      apply regexes_iff. exact Hval.
    - apply forallb_forall. intros v Hv. rewrite forallb_forall in Hwf. specialize (Hwf v Hv).
      destruct v as [ | | | | | | | | |[s|pth]]; try reflexivity. cbn in Hwf. congruence. }
  unfold ref_verdict. fold (std_validators p). rewrite has_fin_eq.
  change (match p_validation p with Some _ => true | None => false end) with (p_has_validation p).
  rewrite Hitem, Hsan, Heo, Hsides. cbn [negb].
  destruct (accepted_literal_bounds fam _ Hwf Hval) as [Hlb|Hrc].
  - left. rewrite Hlb, Hre, Htr, Hdef. cbn [negb].
    destruct (has_trait TrArbitrary (p_derives p)); [rewrite (Harb eq_refl)|]; reflexivity.
  - right. split; [|exact Hrc].
    assert (Hlb : ref_literal_bounds_ok fam (std_validators p) = false).
    { destruct Hrc as (g & l & Eg & El & Hc). unfold ref_literal_bounds_ok.
      unfold validate_validators in Hval. apply vbind_guardv in Hval. destruct Hval as [Hd _].
      destruct fam as [|tn t|is64|ty]; try contradiction; rewrite !(lits_lit_of _ _ Hd), Eg, El; cbn [olist map app forallb].
      - subst l. replace (1 + g <=? g + 1 - 1)%Z with false by (symmetry; apply Z.leb_gt; lia). reflexivity.
      - destruct Hc as [_ ->]. reflexivity. }
    rewrite Hlb. reflexivity.
Qed.

(* ---- B ---- *)
Theorem book_complete_outside_recorded :
  ref_ok ft (sd_item sd) fam p regex_oracle = true -> extra_ok ft sd fam p = true ->
  exists d, full_verdict ft sd = Accept d.
Proof.
  rewrite ref_ok_unfold. unfold extra_ok. rewrite !andb_true_iff.
  intros (((((_ & Hsan) & Hval) & Htr) & Hdef) & Harb) ((((X1 & X2) & X3) & X4) & X5).
  pose proof (parse_attrs_wf _ _ _ _ Hattrs) as Hwf.
  apply (full_verdict_iff _ _ _ _ Hmeta Hattrs).
  split; [apply validate_guard_iff; split; [exact Hsan | apply book_validators_accepted; exact Hval]|].
  destruct (book_traits fam p Htr) as (Ht & G3 & G4).
  exists (dedup_traits (p_derives p)). split; [exact Ht|]. split.
  - apply (gen_checks_iff _ _ _ Hwf). rewrite !dedup_traits_has.
    unfold ref_validators_ok in Hval. rewrite !andb_true_iff in Hval.
    destruct Hval as ((((_ & Hs1) & Hs2) & _) & _). rewrite Hs1, Hs2. split; [reflexivity|]. split.
    + destruct (has_trait TrDefault (p_derives p)); [|reflexivity]. destruct (p_default p); [reflexivity|discriminate].
    + intros E. rewrite E in Harb. exact Harb.
  - apply rustc_checks_iff. rewrite rc_from_any_dedup, rc_dep_dedup, x_generics_dedup. auto 10.
Qed.

End Main.

(* The same, spelled exactly as the runner spells the oracle, and A in its weakest form. *)
Corollary macro_sound_wrt_book_weak (ft : features) (sd : sdecl) (fam : family) (p : parsed) (d : decl) :
  parse_meta (sd_item sd) = Accept fam -> parse_attrs ft fam (sd_attr sd) = Accept p ->
  full_verdict ft sd = Accept d ->
  let rv := fun s => match regex_valid regex_lib s with Some true => true | _ => false end in
  ref_verdict ft (sd_item sd) fam p rv = "1" \/ ref_verdict ft (sd_item sd) fam p rv = "0:literal_bounds".
Proof.
  intros Hm Hp Hf rv. destruct (macro_sound_wrt_book ft sd fam p Hm Hp d Hf) as [H|[H _]]; [left|right]; exact H.
Qed.

(* in the recorded class the family is numeric and both exclusive bounds are literals of vs *)
Corollary recorded_class_shape (fam : family) (vs : list validator) :
  recorded_class fam vs ->
  is_numeric fam = true /\
  exists g l, In (VGreater (BLit g)) vs /\ In (VLess (BLit l)) vs /\
    match fam with
    | FInt _ _ => l = (g + 1)%Z
    | FFloat is64 => f_lt is64 g l = true /\ f_lt is64 (f_succ is64 g) l = false
    | _ => False
    end.
Proof.
  intros (g & l & Eg & El & Hc). split; [destruct fam; try contradiction; reflexivity|].
  exists g, l. split; [|split; [|exact Hc]].
  - destruct (lit_of_In _ _ _ Eg) as (v & Hv & E). destruct v as [[]|[]|[]|[]| | |[]|[]| |]; cbn in E; try discriminate.
    injection E as ->. exact Hv.
  - destruct (lit_of_In _ _ _ El) as (v & Hv & E). destruct v as [[]|[]|[]|[]| | |[]|[]| |]; cbn in E; try discriminate.
    injection E as ->. exact Hv.
Qed.

(* the recorded class is inhabited:  #[nutype(validate(greater = 5, less = 6))] struct T(i32);
   is accepted by the macro (and compiles), the book refuses it *)
Definition ex_lit (n : Z) : lit :=
  {| l_float := false; l_suffix := None; l_radix := false; l_int := n; l_f32 := 0; l_f64 := 0 |}.
Definition ex_sd : sdecl :=
  {| sd_item := {| it_kind := "tuple"; it_vis := ""; it_name := "T"; it_generics := []; it_attrs := [];
                   it_fields := [{| f_vis := ""; f_ty := "i32" |}] |};
     sd_attr := [TId "validate";
                 TG [TId "greater"; TEq; TExpr (ELit (ex_lit 5)); TComma;
                     TId "less"; TEq; TExpr (ELit (ex_lit 6))]];
     sd_env := [] |}.
Definition ex_ft : features :=
  {| ft_std := true; ft_serde := false; ft_regex := false; ft_arbitrary := false;
     ft_new_unchecked := false; ft_schemars := false |}.

Example recorded_class_inhabited :
  exists fam p d,
    parse_meta (sd_item ex_sd) = Accept fam /\ parse_attrs ex_ft fam (sd_attr ex_sd) = Accept p /\
    full_verdict ex_ft ex_sd = Accept d /\
    ref_verdict ex_ft (sd_item ex_sd) fam p regex_oracle = "0:literal_bounds" /\
    extra_ok ex_ft ex_sd fam p = true.
Proof. do 3 eexists. repeat split; vm_compute; reflexivity. Qed.

(* ... and so is its float half:  validate(greater = 1.0, less = 1.0000000000000002) on f64,
   two adjacent doubles (bit patterns 0x3FF0000000000000 and 0x3FF0000000000001) *)
Definition ex_flit (b : Z) : lit :=
  {| l_float := true; l_suffix := None; l_radix := false; l_int := 0; l_f32 := 0; l_f64 := b |}.
Definition ex_sd_float : sdecl :=
  {| sd_item := {| it_kind := "tuple"; it_vis := ""; it_name := "T"; it_generics := []; it_attrs := [];
                   it_fields := [{| f_vis := ""; f_ty := "f64" |}] |};
     sd_attr := [TId "validate";
                 TG [TId "greater"; TEq; TExpr (ELit (ex_flit 4607182418800017408)); TComma;
                     TId "less"; TEq; TExpr (ELit (ex_flit 4607182418800017409))]];
     sd_env := [] |}.

Example recorded_class_inhabited_float :
  exists fam p d,
    parse_meta (sd_item ex_sd_float) = Accept fam /\ parse_attrs ex_ft fam (sd_attr ex_sd_float) = Accept p /\
    full_verdict ex_ft ex_sd_float = Accept d /\
    ref_verdict ex_ft (sd_item ex_sd_float) fam p regex_oracle = "0:literal_bounds" /\
    extra_ok ex_ft ex_sd_float fam p = true.
Proof. do 3 eexists. repeat split; vm_compute; reflexivity. Qed.

